"""goto-cc -> goto-instrument (contracts) -> cbmc, one harness at a time; JSON results (DESIGN 3.4)."""
import json
import os
import re
import resource
import subprocess
import time

VERIF = os.path.dirname(os.path.dirname(os.path.abspath(__file__)))

BASE_CHECKS = ["--bounds-check", "--pointer-check", "--signed-overflow-check", "--div-by-zero-check",
               "--undefined-shift-check", "--pointer-overflow-check"]


class ToolError(Exception):
    pass


def _limits(mem_gb):
    def f():
        b = int(mem_gb * (1 << 30))
        resource.setrlimit(resource.RLIMIT_AS, (b, b))
        os.setsid()
    return f


def _run(cmd, log, timeout, mem_gb=12, cwd=None):
    t0 = time.time()
    with open(log, "ab") as lf:
        lf.write(("\n$ " + " ".join(cmd) + "\n").encode())
        lf.flush()
        p = subprocess.Popen(cmd, stdout=subprocess.PIPE, stderr=lf, preexec_fn=_limits(mem_gb), cwd=cwd)
        try:
            out, _ = p.communicate(timeout=timeout)
            rc = p.returncode
        except subprocess.TimeoutExpired:
            try:
                os.killpg(p.pid, 9)
            except ProcessLookupError:
                pass
            out, _ = p.communicate()
            rc = "timeout"
    return rc, out, time.time() - t0


def _decisive(out):
    try:
        j = json.loads(out.decode(errors="replace"))
    except Exception:
        return False
    for el in j:
        if "result" in el:
            return not any(r.get("status") == "ERROR" for r in el["result"])
    return False


def _portfolio(cb, variants, log, timeout, mem_gb):
    import tempfile
    t0 = time.time()
    procs = []
    with open(log, "ab") as lf:
        for name, flags in variants:
            cmd = cb + flags
            lf.write(("\n$ [portfolio:" + str(name) + "] " + " ".join(cmd) + "\n").encode()); lf.flush()
            of = tempfile.TemporaryFile()
            p = subprocess.Popen(cmd, stdout=of, stderr=subprocess.DEVNULL, preexec_fn=_limits(mem_gb))
            procs.append((name, p, of))
    winner, wout, wrc = None, b"", "timeout"
    last_out, last_rc = b"", "timeout"
    try:
        while time.time() - t0 < timeout:
            alive = False
            for name, p, of in procs:
                if p.poll() is None:
                    alive = True
                    continue
                if getattr(p, "_seen", False):
                    continue
                p._seen = True
                of.seek(0); out = of.read()
                last_out, last_rc = out, p.returncode
                if _decisive(out):
                    winner, wout, wrc = name, out, p.returncode
                    break
            if winner or not alive:
                break
            time.sleep(0.2)
    finally:
        for name, p, of in procs:
            if p.poll() is None:
                try:
                    os.killpg(p.pid, 9)
                except ProcessLookupError:
                    pass
                p.wait()
            of.close()
    if winner is None:
        return last_rc, last_out, time.time() - t0, None
    return wrc, wout, time.time() - t0, winner


def run_harness(h, srcs, workdir, incdirs, defines=(), tag="main", timeout=120, mem_gb=12):
    """h: harness dict. Returns dict(status, obligations[], solver_s, cmds[], log)."""
    name = h["name"]
    base = os.path.join(workdir, f"{name}.{tag}")
    log = base + ".log"
    open(log, "w").close()
    a, b = base + ".a.gb", base + ".b.gb"
    res = {"harness": name, "tag": tag, "obligations": [], "cmds": [], "log": log, "status": "ok", "wall_s": 0.0}
    t0 = time.time()
    cc = ["goto-cc", "-DVERIF_CBMC", "--function", name]
    for d in list(defines) + list(h.get("defines", [])):
        cc.append("-D" + d)
    for i in incdirs:
        cc += ["-I", i]
    cc += list(srcs) + ["-o", a]
    rc, out, _ = _run(cc, log, 120)
    res["cmds"].append(" ".join(cc))
    if rc != 0:
        with open(log, "ab") as lf:
            lf.write(out or b"")
        res["status"] = "tool-error"
        res["error"] = f"goto-cc rc={rc}"
        return res
    gi = ["goto-instrument", "--dfcc", name]
    if h.get("enforce"):
        gi += ["--enforce-contract", h["enforce"]]
    for r in h.get("replace", []):
        gi += ["--replace-call-with-contract", r]
    if h.get("loop_contracts"):
        gi += ["--apply-loop-contracts"]
        if h.get("loop_contracts_file"):
            gi += ["--loop-contracts-file", h["loop_contracts_file"]]
    gi += list(h.get("gi_flags", []))
    gi += [a, b]
    rc, out, _ = _run(gi, log, 300)
    res["cmds"].append(" ".join(gi))
    with open(log, "ab") as lf:
        lf.write(out or b"")
    if rc != 0:
        res["status"] = "tool-error"
        res["error"] = f"goto-instrument rc={rc}"
        return res
    cb = ["cbmc", b] + BASE_CHECKS + ["--json-ui"] + (["--trace"] if tag in ("main", "safety") else [])
    if h.get("unwind"):
        cb += ["--unwind", str(h["unwind"]), "--unwinding-assertions"]
    for k, v in h.get("unwindset", {}).items():
        cb += ["--unwindset", f"{k}:{v}"]
    def solver_flags(solver):
        if solver == "cadical":
            return ["--sat-solver", "cadical"]
        if solver in ("cvc5", "z3"):
            return ["--" + solver]
        if solver == "kissat":
            return ["--external-sat-solver", "kissat"]
        return []
    cb += ["--object-bits", str(h.get("object_bits", 12))]
    if h.get("slice_formula", True):
        cb += ["--slice-formula"]
    cb += list(h.get("flags", []))
    if h.get("only_properties"):
        # restrict the query to the named obligations (the rest of this harness' obligations are covered by a sibling harness)
        rc0, out0, _ = _run(["cbmc", b, "--show-properties", "--json-ui"] + BASE_CHECKS, log, 120)
        ids = []
        try:
            for el in json.loads(out0.decode(errors="replace")):
                for pr in el.get("properties", []) if isinstance(el, dict) else []:
                    if re.search(h["only_properties"], pr.get("name", "")):
                        ids.append(pr["name"])
        except Exception:
            pass
        if not ids:
            res["status"] = "tool-error"
            res["error"] = "only_properties matched nothing"
            return res
        for i in ids:
            cb += ["--property", i]
    to = h.get("timeout", timeout)
    solver = h.get("solver")
    if isinstance(solver, (list, tuple)):
        # portfolio: the same query on several back ends at once; the first decisive answer (parsable result, no ERROR status) wins
        rc, out, dt, won = _portfolio(cb, [(sv, solver_flags(sv)) for sv in solver], log, to, mem_gb)
        res["backend_won"] = won
        cb = cb + solver_flags(won or solver[0])
    else:
        cb += solver_flags(solver)
        rc, out, dt = _run(cb, log, to, mem_gb)
    res["cmds"].append(" ".join(cb))
    res["solver_s"] = round(dt, 2)
    res["wall_s"] = round(time.time() - t0, 2)
    with open(base + ".json", "wb") as f:
        f.write(out or b"")
    if rc == "timeout":
        res["status"] = "timeout"
        return res
    try:
        j = json.loads(out.decode(errors="replace"))
    except Exception as e:  # noqa
        res["status"] = "tool-error"
        res["error"] = f"cbmc rc={rc}, unparsable output"
        return res
    results = None
    msgs = []
    for el in j:
        if "result" in el:
            results = el["result"]
        if "messageText" in el:
            msgs.append(el["messageText"])
    res["messages_tail"] = msgs[-6:]
    if any("ignoring" in m and ("forall" in m or "exists" in m or "quantif" in m) for m in msgs):
        res["status"] = "quantifier-ignored"
    if results is None:
        res["status"] = "tool-error" if res["status"] == "ok" else res["status"]
        res["error"] = f"cbmc rc={rc}: " + " | ".join(el.get("messageText", "") for el in j if el.get("messageType") == "ERROR")[:600]
        return res
    for r in results:
        loc = r.get("sourceLocation", {})
        ob = {"id": r.get("property"), "description": r.get("description", ""), "status": r.get("status"),
              "file": os.path.basename(loc.get("file", "")), "path": loc.get("file", ""), "wd": loc.get("workingDirectory", ""),
              "line": loc.get("line"), "function": loc.get("function")}
        ob["clause"] = _src_line(ob)
        if r.get("status") == "FAILURE" and "trace" in r:
            ob["trace"] = r["trace"]
        res["obligations"].append(ob)
    return res


_SRC = {}


def _src_line(ob):
    p = ob.get("path") or ""
    if not p or not ob.get("line"):
        return ""
    if not os.path.isabs(p):
        p = os.path.join(ob.get("wd") or "", p)
    if p not in _SRC:
        try:
            _SRC[p] = open(p, errors="replace").read().splitlines()
        except OSError:
            _SRC[p] = []
    ln = int(ob["line"])
    return _SRC[p][ln - 1].strip()[:300] if 0 < ln <= len(_SRC[p]) else ""


def key_of(ob):
    """Stable identity of a *named* obligation: contract clause / user assertion / loop invariant.
    Auto-generated safety checks (overflow, bounds, pointer...) get a class key."""
    pid = ob["id"] or ""
    desc = ob["description"]
    m = re.match(r'(.*?)\.(postcondition|precondition|assigns|loop_assigns|loop_invariant_base|loop_invariant_step|loop_decreases|loop_step_unwinding|assertion|unwind|no-body|recursion)\.\d+$', pid)
    cls = m.group(2) if m else pid.rsplit('.', 2)[-2] if pid.count('.') >= 2 else pid
    fn = m.group(1) if m else pid.split('.')[0]
    if cls == "postcondition" and ob.get("file", "").endswith(".c") and ob.get("clause"):
        return f"{fn}|{cls}|{ob['clause']}"
    if cls in ("postcondition", "assertion", "loop_invariant_base", "loop_invariant_step", "loop_decreases", "precondition"):
        return f"{fn}|{cls}|{desc}"
    return None


def extract_inputs(trace):
    """Collect assignments from a CBMC JSON trace: {lhs: value} keeping the FIRST value written to
    each harness-level lhs (inputs) and the last for everything else."""
    first, last = {}, {}
    for st in trace or []:
        if st.get("stepType") != "assignment":
            continue
        lhs = st.get("lhs")
        v = st.get("value", {})
        if lhs is None or st.get("hidden") and not lhs.startswith("g_"):
            pass
        val = v.get("data")
        if val is None and "binary" in v:
            val = "0b" + v["binary"]
        if val is None or lhs.startswith("__CPROVER") or "dfcc" in lhs or lhs.startswith("__car"):
            continue
        fn = (st.get("sourceLocation") or {}).get("function", "")
        ent = {"v": val, "fn": fn}
        if lhs not in first:
            first[lhs] = ent
        last[lhs] = ent
    return {"first": first, "last": last}
