"""Slice extraction + rule engine (DESIGN 3.2).

Every run re-reads files under REPO (working tree), locates each slice, and rewrites it to
C with ordered *named* regex rules.  Rules abstract only calls / member reads / C++ syntax;
operators, constants, conditions and control flow stay verbatim.  Loud failure
(ExtractError -> exit 2 / UNDECIDED) whenever a slice cannot be located uniquely, a required
rule does not fire, or a C++ leftover token remains.
"""
import hashlib
import os
import re
import difflib

REPO = os.environ.get("VERIF_REPO", "/repo")


class ExtractError(Exception):
    pass


def read_repo(rel):
    p = os.path.join(REPO, rel)
    try:
        with open(p, encoding="utf-8") as f:
            return f.read()
    except OSError as e:
        raise ExtractError(f"cannot read {p}: {e}")


def blank_comments(text):
    """Replace comments by spaces (same length, newlines kept); string/char literal aware."""
    out = []
    i, n = 0, len(text)
    while i < n:
        c = text[i]
        if c == '/' and i + 1 < n and text[i + 1] == '/':
            j = text.find('\n', i)
            if j < 0:
                j = n
            out.append(' ' * (j - i))
            i = j
        elif c == '/' and i + 1 < n and text[i + 1] == '*':
            j = text.find('*/', i + 2)
            j = n if j < 0 else j + 2
            out.append(re.sub(r'[^\n]', ' ', text[i:j]))
            i = j
        elif c == '"' or c == "'":
            # digit separator 1'000'000 : a ' between alnum chars is not a char literal
            if c == "'" and i > 0 and text[i - 1].isalnum() and i + 1 < n and text[i + 1].isalnum() \
                    and re.search(r'[0-9a-fA-FxX]$', text[max(0, i - 1):i]) and _in_number(text, i):
                out.append(c)
                i += 1
                continue
            j = i + 1
            while j < n and text[j] != c:
                if text[j] == '\\':
                    j += 1
                j += 1
            out.append(text[i:j + 1])
            i = j + 1
        else:
            out.append(c)
            i += 1
    return ''.join(out)


def _in_number(text, i):
    j = i - 1
    while j >= 0 and (text[j].isalnum() or text[j] == "'"):
        j -= 1
    return text[j + 1].isdigit()


def _mask_literals(text):
    """Same length text with string/char literal contents replaced by spaces (for brace matching)."""
    out = list(text)
    i, n = 0, len(text)
    while i < n:
        c = text[i]
        if c == '"' or (c == "'" and not (i > 0 and text[i - 1].isalnum() and _in_number(text, i))):
            j = i + 1
            while j < n and text[j] != c:
                if text[j] == '\\':
                    j += 1
                j += 1
            for k in range(i + 1, min(j, n)):
                if out[k] != '\n':
                    out[k] = ' '
            i = j + 1
        else:
            i += 1
    return ''.join(out)


def match_brace(text, open_idx):
    """text must be comment-blanked. Returns index of matching close brace."""
    m = _mask_literals(text)
    assert m[open_idx] in '{(['
    o = m[open_idx]
    c = {'{': '}', '(': ')', '[': ']'}[o]
    depth = 0
    for i in range(open_idx, len(m)):
        if m[i] == o:
            depth += 1
        elif m[i] == c:
            depth -= 1
            if depth == 0:
                return i
    raise ExtractError("unbalanced braces")


def line_of(text, idx):
    return text.count('\n', 0, idx) + 1


def class_region(text, rel, class_re):
    ms = list(re.finditer(class_re + r'[^;{]*\{', text))
    if len(ms) != 1:
        raise ExtractError(f"{rel}: class head /{class_re}/ matched {len(ms)} times (need 1)")
    ob = ms[0].end() - 1
    return ob, match_brace(text, ob)


def find_function(rel, head_re, body_open_re=r'\s*(?:const\s*)?(?:noexcept\s*)?(?:override\s*)?\{', within_class=None):
    """Locate the definition whose header matches head_re exactly once. Returns dict."""
    raw = read_repo(rel)
    text = blank_comments(raw)
    lo, hi = 0, len(text)
    if within_class:
        lo, hi = class_region(text, rel, within_class)
    ms = [m for m in re.finditer('(?:' + head_re + ')' + body_open_re, text) if lo <= m.start() < hi]
    if len(ms) != 1:
        raise ExtractError(f"{rel}: function header /{head_re}/ matched {len(ms)} times (need 1)")
    m = ms[0]
    ob = m.end() - 1
    cb = match_brace(text, ob)
    return {
        "file": rel, "start": m.start(), "end": cb + 1,
        "line_start": line_of(text, m.start()), "line_end": line_of(text, cb),
        "orig": raw[m.start():cb + 1],            # with comments (for sha / listing)
        "text": text[m.start():cb + 1],           # comments blanked
        "head": text[m.start():ob], "body": text[ob:cb + 1],
    }


def find_fragment(rel, begin_re, end_re, include_end=True, within=None):
    """Contiguous statements between two anchors; each anchor must match exactly once
    (the end anchor: exactly once *after* the begin anchor within `within` function if given)."""
    raw = read_repo(rel)
    text = blank_comments(raw)
    lo, hi = 0, len(text)
    if within:
        f = find_function(rel, within)
        lo, hi = f["start"], f["end"]
    bs = [m for m in re.finditer(begin_re, text[lo:hi])]
    if len(bs) != 1:
        raise ExtractError(f"{rel}: begin anchor /{begin_re}/ matched {len(bs)} times (need 1)")
    b = lo + bs[0].start()
    es = [m for m in re.finditer(end_re, text[b:hi])]
    if len(es) != 1:
        raise ExtractError(f"{rel}: end anchor /{end_re}/ matched {len(es)} times after begin (need 1)")
    e = b + (es[0].end() if include_end else es[0].start())
    return {
        "file": rel, "start": b, "end": e,
        "line_start": line_of(text, b), "line_end": line_of(text, e),
        "orig": raw[b:e], "text": text[b:e], "head": "", "body": text[b:e],
    }


def find_const(rel, pat):
    """A constant initialiser: regex with exactly one match; returns match object + location."""
    raw = read_repo(rel)
    text = blank_comments(raw)
    ms = list(re.finditer(pat, text))
    if len(ms) != 1:
        raise ExtractError(f"{rel}: constant /{pat}/ matched {len(ms)} times (need 1)")
    m = ms[0]
    return m, {"file": rel, "start": m.start(), "end": m.end(), "line_start": line_of(text, m.start()),
               "line_end": line_of(text, m.end()), "orig": raw[m.start():m.end()], "text": m.group(0)}


# ---------------------------------------------------------------- rules

def R(name, pat, repl, required=True, flags=0, count=0):
    return {"name": name, "pat": pat, "repl": repl, "required": required, "flags": flags, "count": count}


def refparam(name, required=True):
    """`const T& name` parameter -> pointer: `name.` -> `name->` (bare uses need a per-slice rule)."""
    return [
        R(f"refparam:{name}:decl", r'&\s*' + name + r'\b(?=\s*[,)])', '* ' + name, required),
        R(f"refparam:{name}:member", r'(?<![\w.>])' + name + r'\.(?=\w)', name + '->', False),
    ]


def reason_hash(sv):
    h = 0x811C9DC5
    for b in sv.encode():
        h = ((h ^ b) * 0x01000193) & 0xFFFFFFFF
    return h | 1   # never 0 (0 = no reason recorded)


def reason_id(sv):
    return re.sub(r'\W', '_', sv)


def invalid_rule(state_expr_re, enum_ns, cfunc, required=True, state_arg="state"):
    """`state.Invalid(Ns::RESULT, "reason"[, debug...])` -> `cfunc(state, RESULT, 0x<fnv32 of reason>u /* "reason" */)`;
    the debug-message argument (strprintf etc.) is dropped."""
    pat = state_expr_re + r'Invalid\(\s*' + enum_ns + r'::(\w+)\s*,\s*"([^"]*)"\s*(?:,[^;]*?)?\)(?=\s*;)'
    return R("call:state.Invalid->" + cfunc, pat,
             lambda m: f'{cfunc}({state_arg}, {m.group(1)}, {reason_hash(m.group(2)):#010x}u /* "{m.group(2)}" */)', required)


GENERIC_RULES = [
    R("G:digit-separator", r"(?<=\d)'(?=\d)", "", False),
    R("G:static_cast", r'\bstatic_cast<\s*([\w: ]+?)\s*>\s*\(', r'(\1)(', False),
    R("G:nullptr", r'\bnullptr\b', 'NULL', False),
    R("G:attr-nodiscard", r'\[\[\s*(?:nodiscard|maybe_unused|likely|unlikely)\s*\]\]\s*', '', False),
    R("G:constexpr", r'\bconstexpr\s+', '', False),
    R("G:consteval", r'\bconsteval\s+', '', False),
    R("G:noexcept", r'\s*\bnoexcept\b', '', False),
    R("G:inline", r'\binline\s+', '', False),
    R("G:brace-cast", r'(?<![\w>.])(uint32_t|uint64_t|int64_t|int32_t|uint8_t|int|size_t|unsigned int)\{([^{};]*)\}', r'((\1)(\2))', False),
    R("G:brace-init", r'\b((?:const\s+)?(?:bool|int|unsigned int|unsigned|int64_t|uint64_t|uint32_t|int32_t|uint8_t|size_t|CAmount)\s+\w+)\{([^{};]*)\}\s*;', r'\1 = (\2);', False),
    R("G:functional-cast", r'(?<![\w>.])(int|int64_t|uint64_t|uint32_t|int32_t|uint8_t|unsigned int|size_t)\((?!\))', r'(\1)(', False),
    R("G:bool-literals", r'\b(true|false)\b', lambda m: '1' if m.group(1) == 'true' else '0', False),
]

LEFTOVER = [
    (r'::', "scope operator"),
    (r'\b(?:static|dynamic|reinterpret|const)_cast\b', "C++ cast"),
    (r'\bauto\b', "auto"),
    (r'\bnullptr\b', "nullptr"),
    (r'\btemplate\b', "template"),
    (r'\b(?:throw|try|catch|new|delete|namespace|using|class|typename|decltype|operator)\b', "C++ keyword"),
    (r'\bstd\b', "std"),
    (r'\w\s*<\s*[A-Za-z_][\w:, ]*>\s*[({]', "template call"),
    (r'\[\s*[&=]?\s*\]\s*\(', "lambda"),
    (r'^[^{]*[\w>]\s*(?<!&)&(?!&)\s*\w+\s*[,)]', "reference parameter"),
]


def apply_rules(text, rules, slice_name):
    fired = []
    for r in rules:
        try:
            new, n = re.subn(r["pat"], r["repl"], text, count=r.get("count", 0), flags=r.get("flags", 0))
        except re.error as e:
            raise ExtractError(f"{slice_name}: rule {r['name']}: bad regex: {e}")
        if n == 0 and r["required"]:
            raise ExtractError(f"{slice_name}: required rule '{r['name']}' did not fire (pattern /{r['pat']}/)")
        if n:
            fired.append({"rule": r["name"], "n": n})
        text = new
    return text, fired


def check_leftovers(text, slice_name, allow=()):
    masked = _mask_literals(text)
    for pat, what in LEFTOVER:
        if what in allow:
            continue
        m = re.search(pat, masked, flags=0 if what == "reference parameter" else re.M)
        if m:
            ctx = masked[max(0, m.start() - 30):m.end() + 30].replace('\n', ' ')
            raise ExtractError(f"{slice_name}: leftover C++ ({what}) near: ...{ctx}...")


_TOK = re.compile(r'[A-Za-z_]\w*|0[xX][0-9a-fA-F\']+\w*|\d[\d\']*\.?\d*\w*|"(?:\\.|[^"\\])*"|\'(?:\\.|[^\'\\])*\'|->|<<=|>>=|<=>|<<|>>|<=|>=|==|!=|&&|\|\||\+\+|--|[-+*/%&|^]=|::|\S')


def tokens(text):
    return _TOK.findall(text)


def accounting(orig_blank, emitted):
    a, b = tokens(orig_blank), tokens(emitted)
    sm = difflib.SequenceMatcher(None, a, b, autojunk=False)
    kept = sum(bl.size for bl in sm.get_matching_blocks())
    return {"tokens_original": len(a), "tokens_emitted": len(b), "tokens_verbatim": kept,
            "tokens_rewritten_or_dropped": len(a) - kept, "tokens_inserted": len(b) - kept}


def side_by_side(orig_blank, emitted):
    a = [l.rstrip() for l in orig_blank.splitlines() if l.strip()]
    b = [l.rstrip() for l in emitted.splitlines() if l.strip()]
    return '\n'.join(difflib.unified_diff(a, b, "repo(comments stripped)", "verified C", lineterm='', n=1000))


def collapse_blank(text):
    return re.sub(r'\n\s*\n+', '\n', text)


def _stmt_end(masked, i):
    """index just past the statement starting at i (masked text): `{...}` block or up to the first `;` at depth 0
    (an `if (...) stmt` / `for (...) stmt` nests)."""
    n = len(masked)
    while i < n and masked[i].isspace():
        i += 1
    if masked[i] == '{':
        return match_brace(masked, i) + 1
    m = re.match(r'(if|for|while)\s*\(', masked[i:])
    if m:
        cp = match_brace(masked, i + m.end() - 1)
        e = _stmt_end(masked, cp + 1)
        m2 = re.match(r'\s*else\b', masked[e:])
        if m.group(1) == 'if' and m2:
            return _stmt_end(masked, e + m2.end())
        return e
    depth = 0
    while i < n:
        c = masked[i]
        if c in '([{':
            depth += 1
        elif c in ')]}':
            depth -= 1
        elif c == ';' and depth == 0:
            return i + 1
        i += 1
    raise ExtractError("statement end not found")


def weave_loops(text, loops, slice_name):
    """loops: [{ordinal, contract, prologue?}] -- insert the loop-contract macro after the n-th loop header and
    an optional ghost prologue macro as first statement of its body (brace-less bodies are wrapped in braces)."""
    if not loops:
        return text
    for lp in loops:
        masked = _mask_literals(text)
        heads = list(re.finditer(r'\b(for|while)\s*\(', masked))
        if "match" in lp:
            # the loop whose header text matches (after rules); optional loops may be absent (deleted code must
            # surface as a failed contract, not as an extraction break)
            cand = [h for h in heads if re.search(lp["match"], text[h.start():match_brace(masked, h.end() - 1) + 1])]
            if len(cand) > 1:
                raise ExtractError(f"{slice_name}: loop /{lp['match']}/ matched {len(cand)} loops")
            if not cand:
                if lp.get("required", True):
                    raise ExtractError(f"{slice_name}: loop /{lp['match']}/ not found")
                continue
            h = cand[0]
        else:
            if lp["ordinal"] >= len(heads):
                raise ExtractError(f"{slice_name}: loop ordinal {lp['ordinal']} does not exist ({len(heads)} loops found)")
            h = heads[lp["ordinal"]]
        cp = match_brace(masked, h.end() - 1)
        body_start = cp + 1
        body_end = _stmt_end(masked, body_start)
        body = text[body_start:body_end]
        pro = lp.get("prologue")
        if pro:
            if body.lstrip().startswith('{'):
                k = body.index('{')
                body = body[:k + 1] + " " + pro + ";" + body[k + 1:]
            else:
                body = " { " + pro + "; " + body.strip() + " }"
        text = text[:body_start] + "\n" + lp["contract"] + "\n" + body + text[body_end:]
    return text


def rangefor(var, container_re, arr, size, idx=None, required=True):
    """`for (const auto& var : <container>)` -> index loop over the shim array; `var.` -> `arr[idx].`"""
    idx = idx or ("i_" + var)
    return [
        R(f"rangefor:{var}:head", r'for\s*\(\s*(?:const\s+)?auto\s*&\s*' + var + r'\s*:\s*' + container_re + r'\s*\)',
          f'for (size_t {idx} = 0; {idx} < {size}; {idx}++)', required),
        R(f"rangefor:{var}:use", r'(?<![\w.>])' + var + r'\.(?=\w)', f'{arr}[{idx}].', required),
    ]


def extract_slice(spec):
    """spec: dict with keys name, file, kind(func|frag|const), ... -> dict(emitted, info)."""
    kind = spec.get("kind", "func")
    name = spec["name"]
    if kind == "const":
        m, loc = find_const(spec["file"], spec["pat"])
        emitted = m.expand(spec["emit"]) if "emit" in spec else m.group(0)
        emitted, fired = apply_rules(emitted, GENERIC_RULES + spec.get("rules", []), name)
        info = dict(loc)
        info.update(name=name, kind=kind, rules_fired=fired, accounting=accounting(loc["text"], emitted),
                    sha256=hashlib.sha256(loc["orig"].encode()).hexdigest(), listing=side_by_side(loc["text"], emitted))
        info.pop("orig"); info.pop("text")
        return emitted + "\n", info, loc["orig"]
    if kind == "const_list":
        raw = read_repo(spec["file"]); textb = blank_comments(raw)
        ms = list(re.finditer(spec["pat"], textb))
        if len(ms) < spec.get("min_count", 1):
            raise ExtractError(f"{name}: constant list /{spec['pat']}/ matched {len(ms)} times (need >= {spec.get('min_count', 1)})")
        vals = [m.group(1).replace("'", "") for m in ms]
        emitted = spec["emit"].format(values=", ".join(vals), n=len(vals))
        orig = "\n".join(m.group(0) for m in ms)
        info = {"file": spec["file"], "line_start": line_of(textb, ms[0].start()), "line_end": line_of(textb, ms[-1].end()),
                "name": name, "kind": kind, "rules_fired": [{"rule": "const_list:" + name, "n": len(ms)}], "accounting": accounting(orig, emitted),
                "sha256": hashlib.sha256(orig.encode()).hexdigest(), "listing": side_by_side(orig, emitted)}
        return emitted + "\n", info, orig
    if kind == "func":
        loc = find_function(spec["file"], spec["head"], spec.get("body_open", r'\s*(?:const\s*)?(?:noexcept\s*)?(?:override\s*)?\{'), spec.get("within_class"))
    elif kind == "frag":
        loc = find_fragment(spec["file"], spec["begin"], spec["end"], spec.get("include_end", True), spec.get("within"))
    else:
        raise ExtractError(f"{name}: unknown slice kind {kind}")
    text = loc["text"]
    rules = list(spec.get("rules", []))
    if not spec.get("no_generic"):
        rules = rules + GENERIC_RULES
    text, fired = apply_rules(text, rules, name)
    text = weave_loops(text, spec.get("loops"), name)
    if kind == "frag":
        text = spec.get("prologue", "") + "\n" + text + "\n" + spec.get("epilogue", "")
    check_leftovers(text if kind != "frag" else text[len(spec.get("prologue", "")):], name, spec.get("allow_leftover", ()))
    text = collapse_blank(text)
    header = f"/* slice {name}: {spec['file']}:{loc['line_start']}-{loc['line_end']} ({kind}) */\n"
    info = {k: loc[k] for k in ("file", "line_start", "line_end")}
    info.update(name=name, kind=kind, rules_fired=fired, accounting=accounting(loc["text"], text),
                sha256=hashlib.sha256(loc["orig"].encode()).hexdigest(), listing=side_by_side(loc["text"], text))
    return header + text + "\n", info, loc["orig"]
