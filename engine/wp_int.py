#!/usr/bin/env python3
"""B2 (WP-Int): verification-condition generator over mathematical integers for PURE-INTEGER slices (DESIGN 3.4b).

Input : the same extracted C text CBMC gets (work/<ID>/slices.h) + a lemma file in the same C subset
        (specs/<ID>/wp_spec.c: functions whose bodies use __wp_assume / __wp_assert).
Method: symbolic execution with state merging over z3 Int; every C integer variable is an Int constrained to its
        type's range; EVERY arithmetic operation emits its own obligation that the mathematical result fits the C
        result type (so machine arithmetic == integer arithmetic on the paths explored); narrowing assignments emit a
        "fits" obligation; `/` `%` are C truncating division built from z3's Euclidean div/mod and emit divisor != 0;
        loops are unrolled to a stated structural bound and emit an "unwinding" obligation (loop must have exited).
Subset: integer locals, = += -= *= /= %= ++ --, if/else, while, do-while, for, return, assert, calls to other slices
        (inlined), + - * / % << >> (shift by constant) & (mask by 2^k-1), comparisons, && || !, casts to integer
        types, ?:.  Anything else => the slice is REJECTED (error), never approximated.
Output: JSON {obligations:[{name, fn, text, status: proved|refuted|unknown, model?}], errors:[], solver_s}
Also  : --vectors N writes concrete input/output vectors computed by the SAME interpreter on Python ints, which the
        native harness compares with the real function (tests this generator against the machine on every run).
"""
import argparse
import json
import random
import re
import sys
import time

import z3

TYPES = {
    "uint64_t": (0, 2**64 - 1), "int64_t": (-2**63, 2**63 - 1), "uint32_t": (0, 2**32 - 1), "int32_t": (-2**31, 2**31 - 1),
    "int": (-2**31, 2**31 - 1), "unsigned int": (0, 2**32 - 1), "unsigned": (0, 2**32 - 1), "size_t": (0, 2**64 - 1),
    "bool": (0, 1), "uint8_t": (0, 255), "unsigned char": (0, 255), "CAmount": (-2**63, 2**63 - 1), "uint16_t": (0, 65535),
    "__int128": (-2**127, 2**127 - 1), "unsigned __int128": (0, 2**128 - 1), "long": (-2**63, 2**63 - 1), "unsigned long": (0, 2**64 - 1),
}
RANK = {"bool": 0, "uint8_t": 1, "unsigned char": 1, "uint16_t": 2, "int": 3, "int32_t": 3, "unsigned int": 3, "unsigned": 3, "uint32_t": 3,
        "int64_t": 4, "CAmount": 4, "long": 4, "uint64_t": 4, "size_t": 4, "unsigned long": 4, "__int128": 5, "unsigned __int128": 5}


class Reject(Exception):
    pass


def purify(fml):
    """Replace every Int div/mod term by fresh quotient/remainder variables with their defining constraints
    (n = q*d + r, 0 <= r < |d| for d != 0: z3's Euclidean semantics).  Equisatisfiable; z3's nonlinear engine does far better on this form."""
    cache, side, cnt = {}, [], [0]

    def qr(n, d):
        key = (n.get_id(), d.get_id())
        if key not in cache:
            cnt[0] += 1
            q, r = z3.Int(f"q!{cnt[0]}"), z3.Int(f"r!{cnt[0]}")
            side.append(z3.Implies(d != 0, z3.And(n == q * d + r, r >= 0, z3.If(d > 0, r < d, r < -d))))
            cache[key] = (q, r)
        return cache[key]
    memo = {}

    def go(e):
        i = e.get_id()
        if i in memo:
            return memo[i]
        if z3.is_app(e) and e.num_args() > 0:
            kids = [go(c) for c in e.children()]
            k = e.decl().kind()
            if k == z3.Z3_OP_IDIV and len(kids) == 2:
                out = qr(kids[0], kids[1])[0]
            elif k == z3.Z3_OP_MOD and len(kids) == 2:
                out = qr(kids[0], kids[1])[1]
            else:
                out = e.decl()(*kids)
        else:
            out = e
        memo[i] = out
        return out
    new = go(fml)
    return z3.And(new, *side) if side else new


TOK = re.compile(r'\s*(?:(/\*.*?\*/)|(//[^\n]*)|(0[xX][0-9a-fA-F]+[uUlL]*|\d+[uUlL]*)|([A-Za-z_]\w*)|("(?:\\.|[^"\\])*")|(<<=|>>=|\+\+|--|<<|>>|<=|>=|==|!=|&&|\|\||[-+*/%&|^]=|[-+*/%<>=!&|^~?:;,(){}\[\]]))', re.S)


def tokenize(src):
    out, i = [], 0
    src = re.sub(r'^\s*#.*$', '', src, flags=re.M)
    while i < len(src):
        m = TOK.match(src, i)
        if not m:
            if src[i:].strip() == "":
                break
            # outside the subset (member access, char literal...): an opaque token; any function using it is skipped/rejected by the parser
            j = i
            while src[j].isspace():
                j += 1
            if src[j] == "'":
                k = j + 1
                while src[k] != "'":
                    k += 2 if src[k] == "\\" else 1
                out.append(("opaque", src[j:k + 1])); i = k + 1
            else:
                out.append(("opaque", src[j])); i = j + 1
            continue
        i = m.end()
        if m.group(1) or m.group(2):
            continue
        if m.group(3):
            out.append(("num", int(re.sub(r'[uUlL]+$', '', m.group(3)), 0)))
        elif m.group(4):
            out.append(("id", m.group(4)))
        elif m.group(5):
            out.append(("str", m.group(5)))
        else:
            out.append(("op", m.group(6)))
    return out


class Parser:
    def __init__(self, toks):
        self.t, self.i = toks, 0

    def peek(self, k=0):
        return self.t[self.i + k] if self.i + k < len(self.t) else ("eof", None)

    def eat(self, kind=None, val=None):
        tk = self.peek()
        if (kind and tk[0] != kind) or (val is not None and tk[1] != val):
            raise Reject(f"parse error: expected {val or kind}, got {tk} at token {self.i}")
        self.i += 1
        return tk

    def at(self, val):
        return self.peek()[1] == val and self.peek()[0] in ("op", "id")

    def try_type(self):
        """parse a type name at the cursor; returns name or None (cursor unchanged)"""
        j = self.i
        words = []
        while self.peek()[0] == "id" and self.peek()[1] in ("const", "static", "inline", "unsigned", "signed", "int", "long", "char", "bool", "__int128") or (self.peek()[0] == "id" and self.peek()[1] in TYPES):
            w = self.eat()[1]
            if w not in ("const", "static", "inline"):
                words.append(w)
        if not words:
            self.i = j
            return None
        name = " ".join(words)
        name = {"unsigned long long": "uint64_t", "long long": "int64_t", "unsigned long": "uint64_t", "signed int": "int", "long int": "int64_t"}.get(name, name)
        if name not in TYPES:
            self.i = j
            return None
        return name

    # ---- top level: functions
    def functions(self):
        fns = {}
        while self.peek()[0] != "eof":
            j = self.i
            ty = self.try_type()
            if ty is None and self.peek() == ("id", "void"):
                self.eat()
                ty = "void"
            if ty and self.peek()[0] == "id" and self.peek(1) == ("op", "("):
                name = self.eat()[1]
                self.eat("op", "(")
                params = []
                while not self.at(")"):
                    if self.peek() == ("id", "void") and self.peek(1) == ("op", ")"):
                        self.eat()
                        break
                    pt = self.try_type()
                    if pt is None:
                        params = None
                        break
                    pn = self.eat("id")[1]
                    params.append((pt, pn))
                    if self.at(","):
                        self.eat()
                if params is not None:
                    self.eat("op", ")")
                    if self.at("{"):
                        try:
                            body = self.block()
                            fns[name] = {"ret": ty, "params": params, "body": body}
                            continue
                        except Reject:
                            pass   # outside the subset: not available to B2 (only an error if the plan names it)
            # skip to next top-level ; or balanced {}
            self.i = j
            depth = 0
            while self.peek()[0] != "eof":
                tk = self.eat()
                if tk == ("op", "{"):
                    depth += 1
                elif tk == ("op", "}"):
                    depth -= 1
                    if depth == 0:
                        break
                elif tk == ("op", ";") and depth == 0:
                    break
        return fns

    def block(self):
        self.eat("op", "{")
        st = []
        while not self.at("}"):
            st.append(self.stmt())
        self.eat("op", "}")
        return ("block", st)

    def stmt(self):
        tk = self.peek()
        if tk == ("op", "{"):
            return self.block()
        if tk == ("op", ";"):
            self.eat()
            return ("block", [])
        if tk == ("id", "if"):
            self.eat(); self.eat("op", "("); c = self.expr(); self.eat("op", ")")
            a = self.stmt()
            b = None
            if self.peek() == ("id", "else"):
                self.eat(); b = self.stmt()
            return ("if", c, a, b)
        if tk == ("id", "while"):
            self.eat(); self.eat("op", "("); c = self.expr(); self.eat("op", ")")
            return ("while", c, self.stmt())
        if tk == ("id", "do"):
            self.eat(); b = self.stmt(); self.eat("id", "while"); self.eat("op", "("); c = self.expr(); self.eat("op", ")"); self.eat("op", ";")
            return ("dowhile", c, b)
        if tk == ("id", "for"):
            self.eat(); self.eat("op", "(")
            init = self.stmt()
            c = ("num", 1) if self.at(";") else self.expr()
            self.eat("op", ";")
            step = None if self.at(")") else self.expr()
            self.eat("op", ")")
            return ("for", init, c, step, self.stmt())
        if tk == ("id", "return"):
            self.eat()
            e = None if self.at(";") else self.expr()
            self.eat("op", ";")
            return ("return", e)
        if tk == ("id", "break"):
            self.eat(); self.eat("op", ";")
            return ("break",)
        ty = self.try_type()
        if ty:
            decls = []
            while True:
                n = self.eat("id")[1]
                init = None
                if self.at("="):
                    self.eat(); init = self.assign_expr()
                decls.append(("decl", ty, n, init))
                if self.at(","):
                    self.eat(); continue
                break
            self.eat("op", ";")
            return ("block_noscope", decls)
        e = self.expr()
        self.eat("op", ";")
        return ("expr", e)

    # ---- expressions (precedence climbing)
    def expr(self):
        e = self.assign_expr()
        while self.at(","):
            self.eat()
            e = ("comma", e, self.assign_expr())
        return e

    def assign_expr(self):
        lhs = self.ternary()
        tk = self.peek()
        if tk[0] == "op" and tk[1] in ("=", "+=", "-=", "*=", "/=", "%=", "<<=", ">>=", "&=", "|="):
            self.eat()
            rhs = self.assign_expr()
            if lhs[0] != "var":
                raise Reject("assignment to non-variable")
            return ("assign", tk[1], lhs[1], rhs)
        return lhs

    def ternary(self):
        c = self.binary(0)
        if self.at("?"):
            self.eat(); a = self.assign_expr(); self.eat("op", ":"); b = self.ternary()
            return ("ite", c, a, b)
        return c

    LEVELS = [["||"], ["&&"], ["|"], ["^"], ["&"], ["==", "!="], ["<", "<=", ">", ">="], ["<<", ">>"], ["+", "-"], ["*", "/", "%"]]

    def binary(self, lvl):
        if lvl == len(self.LEVELS):
            return self.unary()
        e = self.binary(lvl + 1)
        while self.peek()[0] == "op" and self.peek()[1] in self.LEVELS[lvl]:
            op = self.eat()[1]
            e = ("bin", op, e, self.binary(lvl + 1))
        return e

    def unary(self):
        tk = self.peek()
        if tk[0] == "op" and tk[1] in ("!", "-", "+", "~"):
            self.eat()
            return ("un", tk[1], self.unary())
        if tk[0] == "op" and tk[1] in ("++", "--"):
            self.eat()
            v = self.unary()
            if v[0] != "var":
                raise Reject("++/-- on non-variable")
            return ("assign", "+=" if tk[1] == "++" else "-=", v[1], ("num", 1))
        if tk == ("op", "("):
            j = self.i
            self.eat()
            ty = self.try_type()
            if ty and self.at(")"):
                self.eat()
                return ("cast", ty, self.unary())
            self.i = j
        return self.postfix()

    def postfix(self):
        tk = self.eat()
        if tk[0] == "num":
            e = ("num", tk[1])
        elif tk == ("op", "("):
            e = self.expr(); self.eat("op", ")")
        elif tk[0] == "id":
            if self.at("("):
                self.eat()
                args = []
                while not self.at(")"):
                    if self.peek()[0] == "str":
                        args.append(("str", self.eat()[1]))
                    else:
                        args.append(self.assign_expr())
                    if self.at(","):
                        self.eat()
                self.eat("op", ")")
                e = ("call", tk[1], args)
            else:
                e = ("var", tk[1])
        else:
            raise Reject(f"unexpected token {tk}")
        while self.peek()[0] == "op" and self.peek()[1] in ("++", "--"):
            op = self.eat()[1]
            if e[0] != "var":
                raise Reject("postfix ++/-- on non-variable")
            e = ("postinc", "+=" if op == "++" else "-=", e[1])
        return e


# ---------------------------------------------------------------- semantics (shared by symbolic and concrete modes)

class Sym:
    """arithmetic over z3 Ints"""
    def const(self, v): return z3.IntVal(v)
    def ite(self, c, a, b): return z3.If(c, a, b)
    def tdiv(self, a, b):   # C truncating division
        return z3.If(z3.Or(a >= 0, a % b == 0), a / b, z3.If(b > 0, a / b + 1, a / b - 1)) if True else None
    def trem(self, a, b): return a - b * self.tdiv(a, b)
    def band(self, a, b): return z3.And(a, b)
    def bor(self, a, b): return z3.Or(a, b)
    def bnot(self, a): return z3.Not(a)
    def true(self): return z3.BoolVal(True)
    def false(self): return z3.BoolVal(False)
    def truth(self, v): return v != 0
    def b2i(self, b): return z3.If(b, z3.IntVal(1), z3.IntVal(0))
    def is_const(self, v): return z3.is_int_value(z3.simplify(v))
    def const_val(self, v): return z3.simplify(v).as_long()


class Conc:
    """the same semantics on Python ints (generator self-test)"""
    def const(self, v): return v
    def ite(self, c, a, b): return a if c else b
    def tdiv(self, a, b):
        q = abs(a) // abs(b)
        return q if (a >= 0) == (b >= 0) else -q
    def trem(self, a, b): return a - b * self.tdiv(a, b)
    def band(self, a, b): return a and b
    def bor(self, a, b): return a or b
    def bnot(self, a): return not a
    def true(self): return True
    def false(self): return False
    def truth(self, v): return v != 0
    def b2i(self, b): return 1 if b else 0
    def is_const(self, v): return True
    def const_val(self, v): return v


class Exec:
    """Forking symbolic executor: every branch forks the path (infeasible paths are pruned by a quick solver call),
    so each obligation is a small formula over ONE path condition.  `&&`, `||`, `?:` stay inside expressions."""
    def __init__(self, fns, A, loop_bound=12, modular_unsigned=False):
        self.fns, self.A, self.loop_bound, self.modular = fns, A, loop_bound, modular_unsigned
        self.obligations = []
        self.assumes = []          # global assumptions (z3 bools), each already guarded by its path condition
        self.depth = 0
        self.opn = 0
        self.paths = 0
        self.sym = isinstance(A, Sym)
        if self.sym:
            self.solver = z3.Solver()
            self.solver.set("timeout", 5000)
        self.domain = []

    def pc_of(self, st):
        if not self.sym:
            return True
        return z3.And(*st["pc"]) if st["pc"] else z3.BoolVal(True)

    def oblige(self, fn, kind, text, st, claim):
        self.opn += 1
        self.obligations.append({"name": f"{fn}.{kind}.{self.opn}", "fn": fn, "kind": kind, "text": text, "pc": self.pc_of(st), "claim": claim})

    def feasible(self, st, cond):
        if not self.sym:
            return bool(cond)
        self.solver.push()
        self.solver.add(*self.domain)
        self.solver.add(*self.assumes)
        self.solver.add(*st["pc"])
        self.solver.add(cond)
        r = self.solver.check()
        self.solver.pop()
        return r != z3.unsat

    def usual(self, ta, tb):
        ra, rb = RANK[ta], RANK[tb]
        if max(ra, rb) <= 3:
            uns = lambda t: TYPES[t][0] == 0 and RANK[t] == 3
            return "unsigned int" if (uns(ta) or uns(tb)) else "int"
        t = ta if ra >= rb else tb
        o = tb if ra >= rb else ta
        if ra == rb and TYPES[o][0] == 0:
            t = o
        return t

    def in_range(self, v, ty):
        lo, hi = TYPES[ty]
        return self.A.band(v >= lo, v <= hi)

    def convert(self, fn, v, fromty, toty, st, what):
        if fromty == toty:
            return v
        if toty == "bool":
            return self.A.b2i(self.A.truth(v))
        lo, hi = TYPES[toty]
        flo, fhi = TYPES[fromty]
        if flo >= lo and fhi <= hi:
            return v
        if what == "cast" and lo == 0:
            # an EXPLICIT cast to an unsigned type is C's modular conversion (well defined): value mod 2^w, no obligation
            m = hi + 1
            return (v % m) if not self.sym else (v % z3.IntVal(m))
        self.oblige(fn, "fits", f"{what}: value of type {fromty} fits {toty}", st, self.in_range(v, toty))
        return v

    def guarded(self, st, extra):
        """a copy of st whose path condition additionally holds `extra` (used for short-circuit operands)"""
        g = {"vars": st["vars"], "pc": st["pc"] + ([extra] if self.sym else []), "ret": st["ret"], "done": st["done"], "brk": st["brk"], "live": (st.get("live", True) and (True if self.sym else bool(extra)))}
        return g

    # ---- expressions: (value, type); assignments update st["vars"] in place; no calls to slices in here
    def ev(self, fn, e, st):
        A = self.A
        k = e[0]
        if k == "num":
            v = e[1]
            return A.const(v), ("int" if v <= 2**31 - 1 else "int64_t" if v <= 2**63 - 1 else "uint64_t")
        if k == "var":
            if e[1] not in st["vars"]:
                raise Reject(f"{fn}: unknown variable {e[1]}")
            return st["vars"][e[1]]
        if k == "cast":
            v, t = self.ev(fn, e[2], st)
            return self.convert(fn, v, t, e[1], st, "cast"), e[1]
        if k == "un":
            v, t = self.ev(fn, e[2], st)
            if e[1] == "!":
                return A.b2i(A.bnot(A.truth(v))), "int"
            if e[1] == "+":
                return v, t
            if e[1] == "-":
                rt = self.usual(t, "int")
                r = -v
                self.oblige(fn, "range", f"unary minus stays in {rt}", st, self.in_range(r, rt))
                return r, rt
            raise Reject(f"{fn}: operator {e[1]} not in subset")
        if k == "bin":
            op = e[1]
            if op in ("&&", "||"):
                a, _ = self.ev(fn, e[2], st)
                ca = A.truth(a)
                if not self.sym:
                    if (op == "&&" and not ca) or (op == "||" and ca):
                        return A.b2i(ca), "int"
                before = dict(st["vars"])
                g = self.guarded(st, ca if op == "&&" else A.bnot(ca))
                b, _ = self.ev(fn, e[3], g)
                if any(st["vars"][x] is not before[x] for x in before):
                    raise Reject(f"{fn}: side effect inside && / || operand")
                cb = A.truth(b)
                return A.b2i(A.band(ca, cb) if op == "&&" else A.bor(ca, cb)), "int"
            a, ta = self.ev(fn, e[2], st)
            b, tb = self.ev(fn, e[3], st)
            if op in ("<<", ">>"):
                if not A.is_const(b):
                    raise Reject(f"{fn}: shift by non-constant not in subset")
                n = A.const_val(b)
                rt = self.usual(ta, "int")
                if n < 0 or n >= (64 if RANK[rt] == 4 else 128 if RANK[rt] == 5 else 32):
                    self.oblige(fn, "range", "shift distance in range", st, A.false())
                if op == "<<":
                    r = a * (2 ** n)
                    self.oblige(fn, "range", f"left shift by {n} stays in {rt}", st, self.in_range(r, rt))
                    return r, rt
                # arithmetic right shift: floor(a / 2^n) (C++20 [expr.shift]; gcc/clang for every earlier standard) -- also for negative a
                if self.sym:
                    return a / z3.IntVal(2 ** n), rt      # z3 Int division by a positive constant is floor division
                return a // (2 ** n), rt
            rt = self.usual(ta, tb)
            if op in ("==", "!=", "<", "<=", ">", ">="):
                if TYPES[rt][0] == 0:
                    for v, t in ((a, ta), (b, tb)):
                        if TYPES[t][0] < 0 and not (A.is_const(v) and A.const_val(v) >= 0):
                            self.oblige(fn, "range", f"signed operand compared as {rt} is non-negative", st, v >= 0)
                c = {"==": a == b, "!=": a != b, "<": a < b, "<=": a <= b, ">": a > b, ">=": a >= b}[op]
                return A.b2i(c), "int"
            if TYPES[rt][0] == 0:
                for v, t in ((a, ta), (b, tb)):
                    if TYPES[t][0] < 0 and not (A.is_const(v) and A.const_val(v) >= 0):
                        self.oblige(fn, "range", f"signed operand converted to {rt} is non-negative", st, v >= 0)
            if op == "&":
                if A.is_const(b) and (A.const_val(b) + 1) & A.const_val(b) == 0:
                    self.oblige(fn, "range", "mask applied to a non-negative value", st, a >= 0)
                    return A.trem(a, A.const(A.const_val(b) + 1)), rt
                raise Reject(f"{fn}: & with a non-mask operand not in subset")
            if op in ("/", "%"):
                if not (A.is_const(b) and A.const_val(b) != 0):
                    self.oblige(fn, "divzero", "divisor is not zero", st, b != 0)
                r = A.tdiv(a, b) if op == "/" else A.trem(a, b)
                if TYPES[rt][0] < 0:
                    self.oblige(fn, "range", f"{op} stays in {rt}", st, self.in_range(r, rt))
                return r, rt
            if op in ("+", "-", "*"):
                r = {"+": a + b, "-": a - b, "*": a * b}[op]
                if TYPES[rt][0] == 0 and self.modular:
                    return r % (TYPES[rt][1] + 1), rt
                self.oblige(fn, "range", f"({ta} {op} {tb}) stays in {rt} (no {'wrap' if TYPES[rt][0] == 0 else 'overflow'})", st, self.in_range(r, rt))
                return r, rt
            raise Reject(f"{fn}: operator {op} not in subset")
        if k == "ite":
            c, _ = self.ev(fn, e[1], st)
            cc = A.truth(c)
            before = dict(st["vars"])
            if not self.sym:
                return self.ev(fn, e[2] if cc else e[3], st)
            a, ta = self.ev(fn, e[2], self.guarded(st, cc))
            b, tb = self.ev(fn, e[3], self.guarded(st, A.bnot(cc)))
            if any(st["vars"][x] is not before[x] for x in before):
                raise Reject(f"{fn}: side effect inside ?:")
            return A.ite(cc, a, b), self.usual(ta, tb)
        if k == "assign":
            op, name, rhs = e[1], e[2], e[3]
            if name not in st["vars"]:
                raise Reject(f"{fn}: assignment to unknown variable {name}")
            _, vt = st["vars"][name]
            if op == "=":
                v, t = self.ev(fn, rhs, st)
            else:
                v, t = self.ev(fn, ("bin", op[:-1], ("var", name), rhs), st)
            v = self.convert(fn, v, t, vt, st, f"assignment to {name}")
            st["vars"][name] = (v, vt)
            return v, vt
        if k == "postinc":
            old = st["vars"][e[2]]
            self.ev(fn, ("assign", e[1], e[2], ("num", 1)), st)
            return old
        if k == "comma":
            self.ev(fn, e[1], st)
            return self.ev(fn, e[2], st)
        if k == "call":
            raise Reject(f"{fn}: call to {e[1]} inside an expression (calls are supported as `x = f(..);`, `T x = f(..);`, `f(..);`, `return f(..);`)")
        raise Reject(f"{fn}: expression kind {k} not in subset")

    def copy(self, st):
        return {"vars": dict(st["vars"]), "pc": list(st["pc"]), "ret": st["ret"], "done": st["done"], "brk": st["brk"]}

    def fork(self, fn, cond_expr, st):
        """evaluate a branch condition; returns [(state_true or None), (state_false or None)]"""
        A = self.A
        c, _ = self.ev(fn, cond_expr, st)
        cc = A.truth(c)
        if not self.sym:
            return (st, None) if cc else (None, st)
        t = f = None
        if self.feasible(st, cc):
            t = self.copy(st); t["pc"].append(cc)
        if self.feasible(st, A.bnot(cc)):
            f = self.copy(st); f["pc"].append(A.bnot(cc))
        return t, f

    def call(self, fn, callexpr, st):
        """statement-level call: returns [(retval, type, state)]"""
        A = self.A
        name, args = callexpr[1], callexpr[2]
        if name == "__wp_assume":
            v, _ = self.ev(fn, args[0], st)
            if self.sym:
                self.assumes.append(z3.Implies(self.pc_of(st), A.truth(v)))
                return [(A.const(0), "int", st)]
            return [(A.const(0), "int", st)] if A.truth(v) else []
        if name in ("__wp_assert", "VERIF_ASSERT", "assert", "__CPROVER_assert"):
            v, _ = self.ev(fn, args[0], st)
            txt = args[1][1].strip('"') if len(args) > 1 and args[1][0] == "str" else ("assert() in the code holds" if name != "__wp_assert" else "assertion")
            self.oblige(fn, "assert", txt, st, A.truth(v))
            return [(A.const(0), "int", st)]
        if name not in self.fns:
            raise Reject(f"{fn}: call to {name} which is not a parsed slice")
        f = self.fns[name]
        if len(args) != len(f["params"]):
            raise Reject(f"{fn}: arity mismatch calling {name}")
        # arguments: plain expressions, or (directly) calls of other slices, evaluated left to right; a call argument may fork the state
        partial = [([], st)]
        for a, (pt, pn) in zip(args, f["params"]):
            nxt = []
            for vals0, s0 in partial:
                if a[0] == "call" and a[1] in self.fns:
                    for rv, rt, s1 in self.call(fn, a, s0):
                        nxt.append((vals0 + [(self.convert(fn, rv, rt, pt, s1, f"argument {pn} of {name}"), pt)], s1))
                else:
                    v, t = self.ev(fn, a, s0)
                    nxt.append((vals0 + [(self.convert(fn, v, t, pt, s0, f"argument {pn} of {name}"), pt)], s0))
            partial = nxt
        if self.depth > 8:
            raise Reject("call depth")
        res = []
        for vals, s0 in partial:
            self.depth += 1
            outs = self.run(name, vals, s0["pc"])
            self.depth -= 1
            for rv, pc in outs:
                s2 = self.copy(s0)
                s2["pc"] = pc
                res.append((rv, f["ret"] if f["ret"] != "void" else "int", s2))
        return res

    # ---- calls nested inside expressions are hoisted into temporaries in front of the statement (evaluation order kept; a call under
    #      && || ?: would change semantics if hoisted, so that is rejected)
    def _hoist(self, fn, e, tmps, guarded=False):
        if not isinstance(e, tuple):
            return e
        if e[0] == "call" and e[1] in self.fns:
            if guarded:
                raise Reject(f"{fn}: call to {e[1]} under a short-circuit / conditional operator is outside the subset")
            args = [self._hoist(fn, a, tmps, guarded) for a in e[2]]
            self.tmpn = getattr(self, "tmpn", 0) + 1
            name = f"__t{self.tmpn}"
            rt = self.fns[e[1]]["ret"]
            tmps.append(("decl", rt if rt != "void" else "int", name, ("call", e[1], args)))
            return ("var", name)
        if e[0] == "bin" and e[1] in ("&&", "||"):
            return ("bin", e[1], self._hoist(fn, e[2], tmps, guarded), self._hoist(fn, e[3], tmps, True))
        if e[0] == "ite":
            return ("ite", self._hoist(fn, e[1], tmps, guarded), self._hoist(fn, e[2], tmps, True), self._hoist(fn, e[3], tmps, True))
        return tuple(self._hoist(fn, x, tmps, guarded) if isinstance(x, tuple) else ([self._hoist(fn, y, tmps, guarded) for y in x] if isinstance(x, list) else x) for x in e)

    def _has_nested_call(self, e, top=True):
        if not isinstance(e, tuple):
            return False
        if e[0] == "call" and e[1] in self.fns and not top:
            return True
        kids = []
        for x in e[1:]:
            if isinstance(x, tuple):
                kids.append(x)
            elif isinstance(x, list):
                kids.extend(y for y in x if isinstance(y, tuple))
        return any(self._has_nested_call(x, False) for x in kids)

    def ex(self, fn, s, st):
        """execute statement on ONE state; returns list of successor states"""
        A = self.A
        if st["done"] or st["brk"]:
            return [st]
        k = s[0]
        # hoisting of nested calls (see _hoist)
        if k == "decl" and s[3] is not None and (self._has_nested_call(s[3]) or (s[3][0] == "cast" and self._has_nested_call(s[3], False))):
            tmps = []; ne = self._hoist(fn, s[3], tmps) if s[3][0] != "call" else ("call", s[3][1], [self._hoist(fn, a, tmps) for a in s[3][2]])
            return self.ex(fn, ("block_noscope", tmps + [("decl", s[1], s[2], ne)]), st)
        if k == "return" and s[1] is not None and s[1][0] != "call" and self._has_nested_call(s[1], False):
            tmps = []; ne = self._hoist(fn, s[1], tmps)
            return self.ex(fn, ("block_noscope", tmps + [("return", ne)]), st)
        if k == "if" and self._has_nested_call(s[1], False):
            tmps = []; ne = self._hoist(fn, s[1], tmps)
            return self.ex(fn, ("block_noscope", tmps + [("if", ne) + tuple(s[2:])]), st)
        if k == "expr" and s[1][0] == "assign" and s[1][3][0] != "call" and self._has_nested_call(s[1][3], False):
            tmps = []; ne = self._hoist(fn, s[1][3], tmps)
            return self.ex(fn, ("block_noscope", tmps + [("expr", ("assign", s[1][1], s[1][2], ne))]), st)
        if k in ("block", "block_noscope"):
            states = [st]
            for x in s[1]:
                nxt = []
                for q in states:
                    nxt.extend(self.ex(fn, x, q))
                states = nxt
            return states
        if k == "decl":
            _, ty, name, init = s
            if init is not None and init[0] == "call":
                out = []
                for rv, rt, s2 in self.call(fn, init, st):
                    s2["vars"][name] = (self.convert(fn, rv, rt, ty, s2, f"initialiser of {name}"), ty)
                    out.append(s2)
                return out
            if init is None:
                v = A.const(0)
            else:
                v, t = self.ev(fn, init, st)
                v = self.convert(fn, v, t, ty, st, f"initialiser of {name}")
            st["vars"][name] = (v, ty)
            return [st]
        if k == "expr":
            e = s[1]
            if e[0] == "call":
                return [s2 for _, _, s2 in self.call(fn, e, st)]
            if e[0] == "assign" and e[1] == "=" and e[3][0] == "call":
                out = []
                for rv, rt, s2 in self.call(fn, e[3], st):
                    _, vt = s2["vars"][e[2]]
                    s2["vars"][e[2]] = (self.convert(fn, rv, rt, vt, s2, f"assignment to {e[2]}"), vt)
                    out.append(s2)
                return out
            self.ev(fn, e, st)
            return [st]
        if k == "return":
            if s[1] is not None and s[1][0] == "call":
                out = []
                for rv, rt, s2 in self.call(fn, s[1], st):
                    frt = self.fns[fn]["ret"]
                    s2["ret"] = self.convert(fn, rv, rt, frt, s2, "return value") if frt != "void" else rv
                    s2["done"] = True
                    out.append(s2)
                return out
            if s[1] is not None:
                v, t = self.ev(fn, s[1], st)
                frt = self.fns[fn]["ret"]
                st["ret"] = self.convert(fn, v, t, frt, st, "return value") if frt != "void" else v
            st["done"] = True
            return [st]
        if k == "break":
            st["brk"] = True
            return [st]
        if k == "if":
            t, f = self.fork(fn, s[1], st)
            out = []
            if t is not None:
                out.extend(self.ex(fn, s[2], t))
            if f is not None:
                out.extend(self.ex(fn, s[3], f) if s[3] else [f])
            return out
        if k in ("while", "dowhile", "for"):
            if k == "for":
                inits = self.ex(fn, s[1], st)
                cond, step, body = s[2], s[3], s[4]
            else:
                inits = [st]
                cond, step, body = s[1], None, s[2]
            done, active = [], [(q, k == "dowhile") for q in inits]
            for it in range(self.loop_bound + 1):
                nxt = []
                for q, skipcond in active:
                    if q["done"]:
                        done.append(q)
                        continue
                    if skipcond:
                        t, f = q, None
                    else:
                        t, f = self.fork(fn, cond, q)
                    if f is not None:
                        done.append(f)
                    if t is None:
                        continue
                    if it == self.loop_bound:
                        if not self.sym:
                            raise Reject(f"{fn}: loop exceeded structural bound {self.loop_bound} on a concrete input")
                        self.oblige(fn, "unwind", f"loop exits within {self.loop_bound} iterations (structural bound)", t, A.false())
                        continue
                    for b in self.ex(fn, body, t):
                        if b["brk"]:
                            b["brk"] = False
                            done.append(b)
                        elif b["done"]:
                            done.append(b)
                        else:
                            if step is not None:
                                self.ev(fn, step, b)
                            nxt.append((b, False))
                active = nxt
                if not active:
                    break
            return done
        raise Reject(f"{fn}: statement kind {k} not in subset")

    def run(self, name, argvals, pc):
        """returns [(return value, path condition list)] -- one entry per feasible path"""
        f = self.fns[name]
        A = self.A
        st = {"vars": {}, "pc": list(pc), "ret": None, "done": False, "brk": False}
        for (v, t), (pt, pn) in zip(argvals, f["params"]):
            st["vars"][pn] = (v, pt)
        outs = []
        for q in self.ex(name, f["body"], st):
            if f["ret"] != "void" and not q["done"]:
                if not self.sym:
                    raise Reject(f"{name}: fell off the end without return")
                self.oblige(name, "assert", "function returns a value on every path", q, A.false())
                continue
            self.paths += 1
            outs.append((q["ret"] if q["ret"] is not None else A.const(0), q["pc"]))
        return outs


def main():
    ap = argparse.ArgumentParser()
    ap.add_argument("--plan", required=True)
    ap.add_argument("--slices", required=True)
    ap.add_argument("--out", required=True)
    ap.add_argument("--tier", default="quick")
    a = ap.parse_args()
    plan = json.load(open(a.plan))
    t0 = time.time()
    res = {"obligations": [], "errors": [], "solver_s": 0.0, "functions": [], "vectors": 0}
    try:
        src = open(a.slices).read()
        spec_src = open(plan["spec"] if plan["spec"].startswith("/") else __import__("os").path.join(__import__("os").path.dirname(a.plan), plan["spec"])).read()
        fns = Parser(tokenize(src)).functions()
        lem = Parser(tokenize(spec_src)).functions()
        missing = [f for f in plan["functions"] if f not in fns]
        if missing:
            raise Reject(f"functions not found or outside the subset in slices: {missing}")
        allf = dict(fns)
        allf.update(lem)
        res["functions"] = plan["functions"]
        bound = plan.get("loop_bound", 12)
        # ---- symbolic: one run per lemma function
        timeout_ms = plan.get("timeout_ms_thorough", 600000) if a.tier == "thorough" else plan.get("timeout_ms", 60000)
        for lname in plan["lemmas"]:
            ex = Exec(allf, Sym(), bound)
            f = allf[lname]
            args, dom = [], z3.BoolVal(True)
            for pt, pn in f["params"]:
                v = z3.Int(pn)
                lo, hi = TYPES[pt]
                dom = z3.And(dom, v >= lo, v <= hi)
                args.append((v, pt))
            ex.domain = [dom]
            ex.run(lname, args, [])
            res.setdefault("paths", {})[lname] = ex.paths
            assume = z3.And(*ex.assumes) if ex.assumes else z3.BoolVal(True)
            for ob in ex.obligations:
                s = z3.Solver()
                s.set("timeout", min(timeout_ms, 8000))
                s.add(dom, assume, ob["pc"], z3.Not(ob["claim"]))
                ts = time.time()
                r = s.check()
                if r == z3.unknown:
                    # second attempt on the purified formula (div/mod as explicit quotient/remainder variables)
                    s2 = z3.Solver(); s2.set("timeout", timeout_ms)
                    s2.add(purify(z3.And(dom, assume, ob["pc"], z3.Not(ob["claim"]))))
                    r2 = s2.check()
                    if r2 == z3.unsat:
                        r = r2
                    else:
                        s.set("timeout", timeout_ms)
                        r = s.check()
                dt = time.time() - ts
                res["solver_s"] += dt
                o = {"name": f"{lname}:{ob['name']}", "fn": ob["fn"], "kind": ob["kind"], "text": ob["text"], "s": round(dt, 3), "sample": ob["kind"] == "assert"}
                if r == z3.unsat:
                    o["status"] = "proved"
                elif r == z3.sat:
                    o["status"] = "refuted"
                    m = s.model()
                    o["model"] = {pn: str(m.eval(z3.Int(pn), model_completion=True)) for _, pn in f["params"]}
                else:
                    o["status"] = "unknown"
                res["obligations"].append(o)
        # stable names: one reported obligation per (lemma, function, kind, text) = all its path instances together
        agg = {}
        for o in res["obligations"]:
            key = f"{o['name'].split(':')[0]}:{o['fn']}.{o['kind']}:{o['text']}"
            a_ = agg.setdefault(key, {"name": key, "fn": o["fn"], "kind": o["kind"], "text": o["text"], "status": "proved", "instances": 0, "s": 0.0, "sample": o["sample"]})
            a_["instances"] += 1
            a_["s"] = round(a_["s"] + o["s"], 3)
            if o["status"] == "refuted" and a_["status"] != "refuted":
                a_["status"], a_["model"] = "refuted", o.get("model")
            elif o["status"] == "unknown" and a_["status"] == "proved":
                a_["status"] = "unknown"
        res["path_obligations"] = len(res["obligations"])
        res["obligations"] = list(agg.values())
        # ---- concrete vectors for the generator self-test
        rnd = random.Random(plan.get("seed", 1))
        nvec = plan.get("vectors_thorough", 200000) if a.tier == "thorough" else plan.get("vectors", 5000)
        with open(a.out + ".vectors", "w") as vf:
            for fname in plan["functions"]:
                f = fns[fname]
                for i in range(nvec):
                    vals = []
                    for pt, pn in f["params"]:
                        lo, hi = TYPES[pt]
                        lo, hi = plan.get("domains", {}).get(fname, {}).get(pn, [lo, hi])
                        m = rnd.randrange(4)
                        if m == 0:
                            v = rnd.randint(lo, hi)
                        elif m == 1:
                            v = min(hi, max(lo, rnd.choice([lo, hi, 0, 1, 9, 10, 11, 99, 100, 10**9, 10**9 + 1, 10**10, 21 * 10**14]) + rnd.randint(-2, 2)))
                        elif m == 2:
                            v = min(hi, max(lo, rnd.randint(1, 999) * 10 ** rnd.randint(0, 15) + rnd.choice([0, 0, 1, -1])))
                        else:
                            v = min(hi, max(lo, rnd.getrandbits(rnd.randint(1, 64))))
                        vals.append((v, pt))
                    try:
                        ex = Exec(fns, Conc(), bound)
                        outs = ex.run(fname, vals, [])
                        bad = [o for o in ex.obligations if not o["claim"]]
                        if bad or len(outs) != 1:
                            continue     # outside the no-wrap domain; the symbolic run reports that as an obligation
                        r = outs[0][0]
                        vf.write(f"{fname} {' '.join(str(v) for v, _ in vals)} -> {r}\n")
                        res["vectors"] += 1
                    except Reject:
                        continue
    except Reject as e:
        res["errors"].append(str(e))
    except Exception as e:  # noqa
        res["errors"].append(f"generator crashed: {type(e).__name__}: {e}")
    res["solver_s"] = round(res["solver_s"], 2)
    res["wall_s"] = round(time.time() - t0, 2)
    json.dump(res, open(a.out, "w"), indent=1)
    print(f"wp_int: {len(res['obligations'])} obligations, {sum(1 for o in res['obligations'] if o['status'] == 'proved')} proved, errors={res['errors']}")


if __name__ == "__main__":
    main()
