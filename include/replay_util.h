// Common helpers for native replay / translation-validation harnesses (C++20).
#pragma once
#include <cstdint>
#include <cstdio>
#include <cstdlib>
#include <cstring>
#include <fstream>
#include <map>
#include <string>
#include <vector>

namespace rv {
struct Rng {
    uint64_t s;
    explicit Rng(uint64_t seed) : s(seed * 0x9E3779B97F4A7C15ULL + 0x1234567) {}
    uint64_t next() { uint64_t z = (s += 0x9E3779B97F4A7C15ULL); z = (z ^ (z >> 30)) * 0xBF58476D1CE4E5B9ULL; z = (z ^ (z >> 27)) * 0x94D049BB133111EBULL; return z ^ (z >> 31); }
    uint64_t below(uint64_t n) { return n ? next() % n : 0; }
    // biased towards boundaries: picks from `edges` half of the time (with +-1 jitter)
    int64_t pick(const std::vector<int64_t>& edges) {
        if (!edges.empty() && (next() & 1)) { int64_t e = edges[below(edges.size())]; int j = (int)below(3) - 1; return (int64_t)((uint64_t)e + (uint64_t)(int64_t)j); }
        unsigned sh = (unsigned)below(64); return (int64_t)(next() >> sh) * ((next() & 1) ? 1 : -1);
    }
};
struct Stats { uint64_t inputs = 0, disagreements = 0, real_violations = 0; };
inline Stats g_stats;
inline void report() { std::printf("DIFF inputs=%llu disagreements=%llu real_violations=%llu\n", (unsigned long long)g_stats.inputs, (unsigned long long)g_stats.disagreements, (unsigned long long)g_stats.real_violations); }
// counterexample file written by the driver next to the replay json: "<lhs>\t<value>" per line
inline std::map<std::string, std::string> load_kv(const std::string& json_path) {
    std::map<std::string, std::string> m; std::ifstream f(json_path + ".kv"); std::string l;
    while (std::getline(f, l)) { auto t = l.find('\t'); if (t != std::string::npos) m[l.substr(0, t)] = l.substr(t + 1); }
    return m;
}
inline bool kv_i64(const std::map<std::string, std::string>& m, const std::string& k, int64_t& out) {
    auto it = m.find(k); if (it == m.end()) return false;
    const std::string& v = it->second; if (v.empty()) return false;
    try { if (v[0] == '-') out = std::stoll(v); else out = (int64_t)std::stoull(v, nullptr, 0); } catch (...) { return false; }
    return true;
}
struct Args { bool diff = false, cex = false; uint64_t n = 0, seed = 1; std::string path; };
inline Args parse(int argc, char** argv) {
    Args a; if (argc >= 3 && !std::strcmp(argv[1], "--diff")) { a.diff = true; a.n = std::strtoull(argv[2], 0, 10); if (argc > 3) a.seed = std::strtoull(argv[3], 0, 10); }
    else if (argc >= 3 && !std::strcmp(argv[1], "--cex")) { a.cex = true; a.path = argv[2]; if (argc > 3) a.seed = std::strtoull(argv[3], 0, 10); }
    else { std::fprintf(stderr, "usage: replay --diff N [seed] | --cex file [seed]\n"); std::exit(64); }
    return a;
}
}
