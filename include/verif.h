/* Common shim header for extracted slices: compiles under goto-cc (-DVERIF_CBMC) and natively (clang, C11). */
#ifndef VERIF_H
#define VERIF_H
#include <stdint.h>
#include <stddef.h>
#include <stdbool.h>
#include <limits.h>

#ifndef VERIF_CBMC
/* native build of the extracted text: contracts vanish */
#define __CPROVER_assert(c, m) ((void)0)
#define __CPROVER_assume(c) ((void)0)
#endif

/* reachability marker: with -DVERIF_REACH each one must come back FAILURE (= reachable) */
#if defined(VERIF_CBMC) && defined(VERIF_REACH)
#define VERIF_REACH_PT(name) __CPROVER_assert(0, "REACH:" name)
#else
#define VERIF_REACH_PT(name) ((void)0)
#endif

/* reachability of a contract case: with -DVERIF_REACH the negated case becomes an ensures clause that must FAIL */
/* usage: VERIF_REACH_DECL(f) before f's contract; VERIF_REACH_ENSURES(f, cond) inside it; VERIF_REACH_ON(f) in the
 * harness that ENFORCES f.  Only that harness turns the clauses on, so a harness that merely REPLACES calls to f
 * by its contract never gets the negated cases as assumptions. */
#define VERIF_REACH_DECL(fn) int verif_reach_##fn;
#define VERIF_REACH_ON(fn) (verif_reach_##fn = 1)
#if defined(VERIF_CBMC) && defined(VERIF_REACH)
#define VERIF_REACH_ENSURES(fn, cond) __CPROVER_ensures(!(cond) || !verif_reach_##fn)
#else
#define VERIF_REACH_ENSURES(fn, cond)
#endif

#ifndef VERIF_ASSERT
#ifdef VERIF_CBMC
#define VERIF_ASSERT(c) __CPROVER_assert(c, "assert() in the code holds")
#else
#include <assert.h>
#define VERIF_ASSERT(c) assert(c)
#endif
#endif

typedef int64_t CAmount;

#ifdef VERIF_CBMC
typedef unsigned __CPROVER_bitvector[256] u256;
typedef unsigned __CPROVER_bitvector[257] u257;
typedef unsigned __CPROVER_bitvector[512] u512;
#endif

#endif
