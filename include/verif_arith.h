/* base_uint<256> as a C struct + the 256-bit spec view of it */
#ifndef VERIF_ARITH_H
#define VERIF_ARITH_H
#include "verif.h"
typedef struct { uint32_t pn[8]; } base_uint256;
#ifdef VERIF_CBMC
#define U256_OF(p) (((u256)(p)->pn[0]) | (((u256)(p)->pn[1]) << 32) | (((u256)(p)->pn[2]) << 64) | (((u256)(p)->pn[3]) << 96) | (((u256)(p)->pn[4]) << 128) | (((u256)(p)->pn[5]) << 160) | (((u256)(p)->pn[6]) << 192) | (((u256)(p)->pn[7]) << 224))
#define U256_OLD(p) (((u256)__CPROVER_old((p)->pn[0])) | (((u256)__CPROVER_old((p)->pn[1])) << 32) | (((u256)__CPROVER_old((p)->pn[2])) << 64) | (((u256)__CPROVER_old((p)->pn[3])) << 96) | (((u256)__CPROVER_old((p)->pn[4])) << 128) | (((u256)__CPROVER_old((p)->pn[5])) << 160) | (((u256)__CPROVER_old((p)->pn[6])) << 192) | (((u256)__CPROVER_old((p)->pn[7])) << 224))
#define ASSIGNS_PN(p) *(p)
#else
#endif
#endif
