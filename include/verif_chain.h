/* Shim for block-index slices: the fields of CBlockIndex the slices read (chain.h). nChainWork is a 256-bit scalar. */
#ifndef VERIF_CHAIN_H
#define VERIF_CHAIN_H
#include "verif.h"
#if !defined(VERIF_CBMC) && defined(__cplusplus)
#include <arith_uint256.h>
typedef arith_uint256 u256;     /* native build of the extracted text: the real 256-bit type supplies the operators */
#endif
typedef struct CBlockIndex_s {
    struct CBlockIndex_s* pprev; struct CBlockIndex_s* pskip;
    int nHeight; uint32_t nStatus; unsigned int nTx; uint32_t nTime; uint32_t nBits; int32_t nSequenceId; int32_t nVersion;
    u256 nChainWork;
} CBlockIndex;
#endif
