/* Shims for serialization slices: a byte-buffer stream (for codecs proved byte-exactly) and a ghost "event" stream
 * (for formatters whose sub-objects are serialized by other, separately contracted, code). */
#ifndef VERIF_SER_H
#define VERIF_SER_H
#include "verif.h"
#include <string.h>

extern int g_thrown;                      /* ghost: an exception (std::ios_base::failure / uint_error ...) was thrown */
#define CEILDIV_CONST(a, b) (((a) + (b) - 1) / (b))     /* VERIF_STUB: constexpr CeilDiv used as an array bound */

/* VERIF_STUB byte stream: writes append at wpos, reads consume from rpos; reading past the written data throws
 * (DataStream/AutoFile behaviour: "end of data"). */
typedef struct { unsigned char* buf; size_t wpos, rpos, cap; } ByteStream;
#ifdef VERIF_SER_REAL_DATA
/* C48: ser_writedata* / ser_readdata* are extracted from serialize.h; the stream's write / read of a byte span is the stub */
static inline void ByteStream_write(ByteStream* s, const void* p, size_t n)
{
    if (n > s->cap - s->wpos) { g_thrown = 1; return; }
    memcpy(s->buf + s->wpos, p, n); s->wpos = s->wpos + n;
}
static inline void ByteStream_read(ByteStream* s, void* p, size_t n)
{
    if (n > s->wpos - s->rpos) { g_thrown = 1; memset(p, 0, n); return; }      /* "end of data" */
    memcpy(p, s->buf + s->rpos, n); s->rpos = s->rpos + n;
}
#else
static inline void ser_writedata8(ByteStream* s, uint8_t obj)
{
    if (s->wpos >= s->cap) { g_thrown = 1; return; }
    s->buf[s->wpos] = obj; s->wpos = s->wpos + 1;
}
static inline uint8_t ser_readdata8(ByteStream* s)
{
    if (s->rpos >= s->wpos) { g_thrown = 1; return 0; }
    uint8_t r = s->buf[s->rpos]; s->rpos = s->rpos + 1; return r;
}
#endif

/* byte vectors (CScript / prevector / std::vector<unsigned char>): data, size and a ghost capacity */
typedef struct { unsigned char* data; size_t size; size_t cap; } ByteVec;
static inline void ByteVec_resize(ByteVec* v, size_t n)      /* VERIF_STUB: within the ghost capacity; new bytes zero */
{
#ifdef VERIF_CBMC
    __CPROVER_assert(n <= v->cap, "resize within ghost capacity");
    /* no loop (symex would unwind it without bound): the storage from the old size to the end of the ghost capacity is zeroed;
     * bytes at or beyond the new size are not part of the vector's value */
    if (n > v->size && v->size < v->cap) __CPROVER_array_set(v->data + v->size, (unsigned char)0);
#else
    for (size_t i = v->size; i < n && i < v->cap; i++) v->data[i] = 0;
#endif
    v->size = n;
}
#endif
