/* Shim types for transaction-level slices (DESIGN 3.2): plain C structs presenting exactly the fields the
 * slices read.  Values computed by code outside the slice (serialized size) are arbitrary fields. */
#ifndef VERIF_TX_H
#define VERIF_TX_H
#include "verif.h"

typedef struct { uint64_t w[4]; } uint256_c;
typedef struct { uint256_c hash; uint32_t n; } COutPoint;
typedef struct { COutPoint prevout; size_t scriptSig_size; uint32_t nSequence; } CTxIn;
typedef struct { CAmount nValue; } CTxOut;
typedef struct {
    const CTxIn* vin;  size_t vin_size;
    const CTxOut* vout; size_t vout_size;
    uint32_t version; uint32_t nLockTime;
    uint64_t ser_size_nowit;      /* ::GetSerializeSize(TX_NO_WITNESS(tx)) -- computed outside the slice, arbitrary here */
} CTransaction;

/* ValidationState<Result>::Invalid: records result + reject reason, returns false (consensus/validation.h).
 * VERIF_STUB: the 6-line original is a template member; modelled here, validated natively on every run. */
enum { TX_RESULT_UNSET = 0, TX_CONSENSUS = 1, TX_INPUTS_NOT_STANDARD, TX_NOT_STANDARD, TX_MISSING_INPUTS, TX_PREMATURE_SPEND };
typedef struct { int mode_invalid; int result; uint32_t reason; } TxValidationState;
static inline bool TxState_Invalid(TxValidationState* state, int result, uint32_t reason)
{
    state->result = result;
    state->reason = reason;
    state->mode_invalid = 1;
    return 0;
}

/* base_blob::IsNull(): all bytes zero.  VERIF_STUB (original is std::all_of + lambda). */
static inline bool uint256_IsNull(const uint256_c* h) { return h->w[0] == 0 && h->w[1] == 0 && h->w[2] == 0 && h->w[3] == 0; }
#define OUTPOINT_EQ(a, b) ((a).hash.w[0] == (b).hash.w[0] && (a).hash.w[1] == (b).hash.w[1] && (a).hash.w[2] == (b).hash.w[2] && (a).hash.w[3] == (b).hash.w[3] && (a).n == (b).n)

#endif
