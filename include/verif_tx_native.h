// C++ side view of the C shim types (renamed xc_*) for native harnesses. Include AFTER the real headers.
#pragma once
#define COutPoint xc_COutPoint
#define CTxIn xc_CTxIn
#define CTxOut xc_CTxOut
#define CTransaction xc_CTransaction
#define TxValidationState xc_TxValidationState
#define TxState_Invalid xc_TxState_Invalid
#define uint256_IsNull xc_uint256_IsNull
#define TX_RESULT_UNSET XC_TX_RESULT_UNSET
#define TX_CONSENSUS XC_TX_CONSENSUS
#define TX_INPUTS_NOT_STANDARD XC_TX_INPUTS_NOT_STANDARD
#define TX_NOT_STANDARD XC_TX_NOT_STANDARD
#define TX_MISSING_INPUTS XC_TX_MISSING_INPUTS
#define TX_PREMATURE_SPEND XC_TX_PREMATURE_SPEND
extern "C" {
#include "verif_tx.h"
}
#undef COutPoint
#undef CTxIn
#undef CTxOut
#undef CTransaction
#undef TxValidationState
#undef TxState_Invalid
#undef uint256_IsNull
#undef TX_RESULT_UNSET
#undef TX_CONSENSUS
#undef TX_INPUTS_NOT_STANDARD
#undef TX_NOT_STANDARD
#undef TX_MISSING_INPUTS
#undef TX_PREMATURE_SPEND
#include <primitives/transaction.h>
#include <vector>
#include <cstring>
namespace rvtx {
inline uint32_t fnv(const std::string& s) { uint32_t h = 0x811C9DC5u; for (unsigned char b : s) h = (h ^ b) * 0x01000193u; return h | 1; }
struct Shim {
    std::vector<xc_CTxIn> vin; std::vector<xc_CTxOut> vout; xc_CTransaction tx;
    explicit Shim(const ::CTransaction& t) {
        for (auto& i : t.vin) { xc_CTxIn c{}; std::memcpy(c.prevout.hash.w, i.prevout.hash.begin(), 32); c.prevout.n = i.prevout.n; c.scriptSig_size = i.scriptSig.size(); c.nSequence = i.nSequence; vin.push_back(c); }
        for (auto& o : t.vout) { xc_CTxOut c{}; c.nValue = o.nValue; vout.push_back(c); }
        tx.vin = vin.data(); tx.vin_size = vin.size(); tx.vout = vout.data(); tx.vout_size = vout.size();
        tx.version = t.version; tx.nLockTime = t.nLockTime; tx.ser_size_nowit = ::GetSerializeSize(TX_NO_WITNESS(t));
    }
};
}
