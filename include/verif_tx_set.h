/* VERIF_STUB: model of `std::set<COutPoint>` as used by CheckTransaction: only insert(x).second is used.
 * std::set law: insert returns false iff an equal element is already in the set.
 * The model ASSERTS (does not assume) that the k-th insert receives vin[k].prevout, so the set content after k
 * successful inserts is exactly {vin[0..k-1].prevout}; the law is then stated over that content:
 *   returns true  => no earlier element equals x   -- instantiated at the arbitrary ghost index g_a only (weaker than the law: sound)
 *   returns false => some earlier element equals x -- ghost witness g_dup_wit                          (exactly the law)
 */
#ifndef VERIF_TX_SET_H
#define VERIF_TX_SET_H
#include "verif_tx.h"
typedef struct { size_t n; const CTxIn* base; } OutPointSet;   /* base: ghost, the array the inserted elements come from */
extern size_t g_a, g_dup_wit;
#ifdef VERIF_CBMC
bool nondet_bool(void);
size_t nondet_size_t(void);
static inline bool OutPointSet_insert(OutPointSet* s, const COutPoint* x)
{
    __CPROVER_assert(x == &s->base[s->n].prevout, "set model: the k-th inserted element is vin[k].prevout");
    bool fresh = nondet_bool();
    if (fresh) {
        __CPROVER_assume(!(g_a < s->n && OUTPOINT_EQ(s->base[g_a].prevout, *x)));   /* VERIF_TRUSTED std::set law (forall, at g_a) */
        s->n++;
    } else {
        size_t j = nondet_size_t();
        __CPROVER_assume(j < s->n && OUTPOINT_EQ(s->base[j].prevout, *x));            /* VERIF_TRUSTED std::set law (exists, witness) */
        g_dup_wit = j;
    }
    return fresh;
}
#else
/* native build: exact quadratic set over the same base array */
static inline bool OutPointSet_insert(OutPointSet* s, const COutPoint* x)
{
    for (size_t j = 0; j < s->n; j++) if (OUTPOINT_EQ(s->base[j].prevout, *x)) { g_dup_wit = j; return 0; }
    s->n++;
    return 1;
}
#endif
#endif
