/* Shims for the slices of consensus/tx_verify.cpp, coins.cpp (HaveInputs), primitives/transaction.cpp (GetValueOut) and the
 * ConnectBlock / ContextualCheckBlock fragments that use them (C01, C02, C05). */
#ifndef VERIF_TXVERIFY_H
#define VERIF_TXVERIFY_H
#include "verif_tx.h"
#include "verif_chain.h"

/* Coin (coins.h): out, fCoinBase:1, nHeight:31.  A spent/missing coin has out.nValue == -1 (CTxOut::IsNull, VERIF_STUB). */
typedef struct { CTxOut out; unsigned int fCoinBase : 1; uint32_t nHeight : 31; } Coin;
static inline bool Coin_IsSpent(const Coin* c) { return c->out.nValue == -1; }

/* CCoinsViewCache as seen by one transaction: the coin the view holds for vin[k].prevout is coins[k] (VERIF_STUB).
 * Two inputs naming the same outpoint may see different coins here: more behaviours than the real map, never fewer. */
typedef struct { const CTxIn* vin; size_t n; const Coin* coins; } CCoinsViewCache;
#define VIEW_MAX_COIN_VALUE ((int64_t)(INT64_MAX - 2100000000000000LL))
static inline size_t CCoinsViewCache_index(const CCoinsViewCache* v, const COutPoint* o)
{
    size_t k = (size_t)((const char*)o - (const char*)v->vin) / sizeof(CTxIn);
#ifdef VERIF_CBMC
    __CPROVER_assert(k < v->n && o == &v->vin[k].prevout, "coin view model: the outpoint looked up is a prevout of this transaction");
#endif
    return k;
}
static inline const Coin* CCoinsViewCache_AccessCoin(const CCoinsViewCache* v, const COutPoint* o)
{
    const Coin* c = &v->coins[CCoinsViewCache_index(v, o)];
    /* VERIF_TRUSTED view invariant: no stored coin value exceeds INT64_MAX - 21M BTC (every coin was range-checked when created;
     * without it `nValueIn += coin.out.nValue` before the range test would be signed overflow) */
    __CPROVER_assume(c->out.nValue <= VIEW_MAX_COIN_VALUE);
    return c;
}
/* HaveCoin(o) <=> the coin the view returns for o is not spent (coins.cpp: HaveCoin = FetchCoin != end && !IsSpent; AccessCoin = coinEmpty if missing) */
static inline bool CCoinsViewCache_HaveCoin(const CCoinsViewCache* v, const COutPoint* o) { return !Coin_IsSpent(&v->coins[CCoinsViewCache_index(v, o)]); }

/* std::pair<int, int64_t> */
typedef struct { int first; int64_t second; } LockPair;
static inline int verif_max_int(int a, int b) { return a < b ? b : a; }          /* std::max (VERIF_STUB) */
static inline int64_t verif_max_i64(int64_t a, int64_t b) { return a < b ? b : a; }

/* block.GetAncestor(h)->GetMedianTimePast() in CalculateSequenceLocks: the ghost array g_anc_mtp[k] IS, by definition, the median time past of
 * block's ancestor at height max(prevHeights[k] - 1, 0); the stub asserts that the code asks for exactly that height while working on input k
 * (k = g_cur, recorded at the head of the loop body).  (A plain uninterpreted function cannot be used: loop invariants may not contain calls.) */
#ifdef VERIF_CBMC
extern const int64_t* g_anc_mtp; extern const int* g_prevheights_ptr; extern size_t g_cur;
static inline int64_t CBlockIndex_AncestorMTP(const CBlockIndex* block, int h)
{
    __CPROVER_assert(h >= 0 && h <= block->nHeight, "GetAncestor is asked for a height in [0, block height] (Assert(non-null) in the code)");
    __CPROVER_assert((int64_t)h == ((int64_t)g_prevheights_ptr[g_cur] - 1 > 0 ? (int64_t)g_prevheights_ptr[g_cur] - 1 : 0), "the ancestor asked for is the block before the one that confirmed the coin of the current input (height max(h-1,0))");
    int64_t v = g_anc_mtp[g_cur];
    __CPROVER_assume(v >= 0 && v <= 0xffffffffLL);      /* VERIF_TRUSTED range of GetMedianTimePast (median of uint32 nTime) */
    return v;
}
/* read of an input array element whose domain is part of the function's precondition (a forall over the array, applied at the point of use) */
#define VERIF_READ_IN_DOMAIN(expr, lo, hi) ({ __typeof__(expr) v_ = (expr); __CPROVER_assume(v_ >= (lo) && v_ <= (hi)); v_; })
#else
int64_t CBlockIndex_AncestorMTP(const CBlockIndex* block, int h);     /* native: provided by the harness */
#define VERIF_READ_IN_DOMAIN(expr, lo, hi) (expr)
#endif

/* assert() inside a loop, proved for the arbitrary iteration g_n (equivalent to every iteration) */
extern size_t g_n, g_hwit, g_twit, g_prevheights_size;
#ifndef VERIF_CBMC
extern size_t g_cur;
#endif
extern CAmount g_value_out, g_cb_value_out;
extern int g_thrown;
/* std::max that also records at which loop position (g_cur) the maximum was last raised */
#define VERIF_MAX_H(a, b) ({ int a_ = (a), b_ = (b); if (a_ < b_) g_hwit = g_cur; a_ < b_ ? b_ : a_; })
#define VERIF_MAX_T(a, b) ({ int64_t a_ = (a), b_ = (b); if (a_ < b_) g_twit = g_cur; a_ < b_ ? b_ : a_; })
#ifdef VERIF_CBMC
#define VERIF_ASSERT_AT(i, c) __CPROVER_assert((size_t)(i) != g_n || (c), "assert() in the code holds (at the arbitrary iteration)")
#else
#define VERIF_ASSERT_AT(i, c) ((void)0)
#endif

/* BlockValidationState (consensus/validation.h), VERIF_STUB like TxValidationState */
enum { BLOCK_RESULT_UNSET = 0, BLOCK_CONSENSUS = 1, BLOCK_CACHED_INVALID, BLOCK_INVALID_HEADER, BLOCK_MUTATED, BLOCK_MISSING_PREV, BLOCK_INVALID_PREV, BLOCK_TIME_FUTURE, BLOCK_HEADER_LOW_WORK };
typedef struct { int mode_invalid; int result; uint32_t reason; } BlockValidationState;
static inline bool BlockState_Invalid(BlockValidationState* state, int result, uint32_t reason) { state->result = result; state->reason = reason; state->mode_invalid = 1; return 0; }
static inline bool BlockState_IsValid(const BlockValidationState* state) { return state->mode_invalid == 0; }
/* state.Invalid(BLOCK_CONSENSUS, tx_state.GetRejectReason(), ...): the block's reason is the transaction's */
static inline bool BlockState_Invalid_from_tx(BlockValidationState* state, int result, const TxValidationState* tx_state) { state->result = result; state->reason = tx_state->reason; state->mode_invalid = 1; return 0; }
#endif
