import os, sys
sys.path.insert(0, os.path.dirname(os.path.dirname(os.path.abspath(__file__))))
import common_txverify as T
from C03.plan import TXSLICES
from C31.plan import PLAN as P31

def H(name, fn, twins=(), **kw):
    d = {"name": name, "enforce": fn, "twins": [{"define": t, "expect": "postcondition"} for t in twins]}
    d.update(kw)
    return d

SUBSIDY = [s for s in P31["slices"] if s["name"] == "GetBlockSubsidy"]
SLICES = TXSLICES + T.CONSTS + SUBSIDY + T.FUNCS + [T.FRAG_TXINPUTS_CALL, T.FRAG_FEES, T.FRAG_CBLIMIT]
REASONS = ["bad-txns-inputs-missingorspent", "bad-txns-premature-spend-of-coinbase", "bad-txns-inputvalues-outofrange", "bad-txns-in-belowout", "bad-txns-fee-outofrange",
           "bad-txns-nonfinal", "bad-txns-accumulated-fee-outofrange", "bad-cb-amount"]
PLAN = {
    "id": "C01", "level": "proof", "slices": SLICES, "reasons": REASONS, "spec": "spec.c", "default_solver": ["cadical", "z3"],
    "harnesses": [
        H("h_MoneyRange", "MoneyRange"),
        H("h_GetValueOut", "CTransaction_GetValueOut", replace=["MoneyRange"], loop_contracts=True),
        H("h_CheckTxInputs", "CheckTxInputs", ["TWIN_MATURITY_99"], replace=["MoneyRange", "CCoinsViewCache_HaveInputs"], loop_contracts=True, split_safety=True),
        H("h_txinputs_call", "ConnectBlock_txinputs_call", replace=["CheckTxInputs"]),
        H("h_fee_accumulation", "ConnectBlock_fee_accumulation", ["TWIN_FEES"], replace=["MoneyRange"]),
        {"name": "h_GetBlockSubsidy", "enforce": "GetBlockSubsidy", "solver": "z3"},
        H("h_coinbase_limit", "ConnectBlock_coinbase_limit", ["TWIN_CB_LIMIT"], replace=["GetBlockSubsidy"]),
        {"name": "h_lemma_block_step", "replace": ["ConnectBlock_txinputs_call", "ConnectBlock_fee_accumulation", "ConnectBlock_coinbase_limit"],
         "twins": [{"define": "TWIN_LEMMA", "expect": "assertion"}]},
    ],
    "native": T.NATIVE,
    "not_covered": ["UTXO-set bookkeeping (UpdateCoins / SpendCoin / AddCoin / undo) and reorgs: the total-value clause is reduced to the per-block step proved here, its summation over the chain is by hand",
                    "that ConnectBlock runs these statement ranges for every transaction of every connected block (loop structure between the fragments)",
                    "subsidy schedule itself: C31"],
    "assumptions": ["A3 coin view of one transaction (include/verif_txverify.h): coin for vin[k].prevout is coins[k]; no stored coin value above INT64_MAX - 21M BTC",
                    "tx.GetValueOut() inside CheckTxInputs / the coinbase limit is a ghost input in range (its own contract h_GetValueOut: the sum of the outputs, MoneyRange or it throws; CheckTransaction (C03) guarantees it does not throw)",
                    "universally quantified clauses are proved for arbitrary ghost indices fixed before the call"],
    "manifest": {
        "category": "proof",
        "text": "partial (arithmetic core): CTransaction::GetValueOut = exact sum of outputs or exception; Consensus::CheckTxInputs accepts only if every input coin is unspent, in [0,21M BTC], the input sum (no overflow for any number of inputs) is in range and >= the outputs, and sets fee = in - out exactly; ConnectBlock's call of it (with this block's height), "
                "the fee accumulation (nFees stays in [0,21M BTC] or bad-txns-accumulated-fee-outofrange) and the coinbase limit (coinbase out <= fees + subsidy(height of this block), else bad-cb-amount) are proved on the statement ranges cut from validation.cpp; a contract-only lemma chains them into the per-block step 'created - spent <= subsidy'.",
        "note": "Not covered: UTXO bookkeeping, reorg histories, summation of the per-block step over a chain (by hand), loop glue inside ConnectBlock. Trusted: coin-view stub, extraction rules.",
        "technique": "CBMC function + loop contracts on extracted CheckTxInputs/GetValueOut and anchor-delimited ConnectBlock fragments, callee contracts substituted, contract-only lemma harness",
    },
    "trusted_base": ["specs/txverify_contracts.h", "specs/txverify_harness.h", "include/verif_txverify.h"],
}
