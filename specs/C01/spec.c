/* C01 -- No coins are created beyond the block subsidy schedule (arithmetic core). */
#include "../txverify_contracts.h"
#include "../txverify_harness.h"
#include "slices.h"
#include "../txverify_harnesses.c"

/* lemma (contracts only): the body of ConnectBlock's loop for one non-coinbase transaction followed by the coinbase check.
 * If nFees0 is what earlier transactions destroyed (inputs - outputs), then after this transaction and a passing coinbase check
 *      (outputs - inputs of this tx) + coinbase outputs <= nFees0 + subsidy(height)
 * i.e. the block creates at most its subsidy on top of what its transactions burn: the inductive step of "UTXO total <= sum of subsidies". */
void h_lemma_block_step(void)
{
    CTransaction tx; CCoinsViewCache view; CBlockIndex prev, idx; BlockValidationState st = {0, 0, 0}; Consensus_Params cp; CTransaction cbtx;
    CAmount nFees0 = nondet_amount(), nFees, txfee;
    __CPROVER_assume(MR(nFees0)); nFees = nFees0;
    size_t n = nondet_size_t(); __CPROVER_assume(n >= 1 && n <= 4);
    CTxIn vin[4]; Coin coins[4]; tx.vin = vin; tx.vin_size = n; tx.vout_size = 0; view.vin = vin; view.n = n; view.coins = coins;
    __CPROVER_assume(!IS_CB(&tx));
    idx.nHeight = nondet_int(); __CPROVER_assume(idx.nHeight >= 1); idx.pprev = &prev; prev.nHeight = idx.nHeight - 1;
    __CPROVER_assume(cp.nSubsidyHalvingInterval > 0);
    g_n = nondet_size_t(); g_value_out = nondet_amount(); g_cb_value_out = nondet_amount(); __CPROVER_assume(MR(g_value_out) && MR(g_cb_value_out)); g_sum = 0; g_cnt = 0;
    if (ConnectBlock_txinputs_call(&tx, &view, &idx, &st, &txfee) != 0) { __CPROVER_assert(st.mode_invalid == 1, "a failing transaction invalidates the block"); return; }
    __int128 in_minus_out = g_sum - (__int128)g_value_out;
    __CPROVER_assert(in_minus_out >= 0 && (__int128)txfee == in_minus_out, "an accepted transaction spends at least what it creates; its fee is the difference");
    if (ConnectBlock_fee_accumulation(&nFees, txfee, &st) != 0) { __CPROVER_assert(st.mode_invalid == 1, "fee total out of range invalidates the block"); return; }
    ConnectBlock_coinbase_limit(nFees, &idx, &cp, &cbtx, &st);
    if (st.mode_invalid == 0) {
#ifdef TWIN_LEMMA
        __CPROVER_assert(((__int128)g_value_out - g_sum) + (__int128)g_cb_value_out < (__int128)nFees0 + SPEC_SUBSIDY(idx.nHeight, cp.nSubsidyHalvingInterval), "block step: created - spent <= earlier fees + subsidy of this height");
#else
        __CPROVER_assert(((__int128)g_value_out - g_sum) + (__int128)g_cb_value_out <= (__int128)nFees0 + SPEC_SUBSIDY(idx.nHeight, cp.nSubsidyHalvingInterval), "block step: created - spent <= earlier fees + subsidy of this height");
#endif
        VERIF_REACH_PT("valid block step");
    }
    VERIF_REACH_PT("lemma end");
}
