import os, sys
sys.path.insert(0, os.path.dirname(os.path.dirname(os.path.abspath(__file__))))
import common_txverify as T
from C03.plan import TXSLICES, CHECKTX, REASONS as R03

def H(name, fn, twins=(), **kw):
    d = {"name": name, "enforce": fn, "twins": [{"define": t, "expect": "postcondition"} for t in twins], "defines": ["TU_TXV"]}
    d.update(kw)
    return d
def G(s, g):
    d = dict(s); d["guard"] = g
    return d

SLICES = TXSLICES + [G(CHECKTX, "TU_C03")] + T.CONSTS + \
    [{"name": "OP_RETURN", "kind": "const", "file": "src/script/script.h", "pat": r"OP_RETURN\s*=\s*(0x[0-9a-fA-F]+),", "emit": r"#define OP_RETURN \1"},
     {"name": "MAX_SCRIPT_SIZE", "kind": "const", "file": "src/script/script.h", "pat": r"inline constexpr int MAX_SCRIPT_SIZE\{([\d']+)\};", "emit": r"static const int MAX_SCRIPT_SIZE = \1;"}] + \
    [G(s, "TU_TXV") for s in T.FUNCS + [T.FRAG_ADDCOIN, T.ISUNSPENDABLE]]
REASONS = sorted(set(R03 + ["bad-txns-inputs-missingorspent", "bad-txns-premature-spend-of-coinbase", "bad-txns-inputvalues-outofrange", "bad-txns-in-belowout", "bad-txns-fee-outofrange",
           "bad-txns-nonfinal", "bad-txns-accumulated-fee-outofrange", "bad-cb-amount"]))
PLAN = {
    "id": "C02", "level": "proof", "slices": SLICES, "reasons": REASONS, "spec": "spec.c", "default_solver": ["cadical", "z3"],
    "harnesses": [
        # the duplicate-input clause: C03's contract of CheckTransaction, enforced again here on the same extracted text
        {"name": "h_CheckTransaction", "spec": "../C03/spec.c", "enforce": "CheckTransaction", "replace": ["MoneyRange", "COutPoint_IsNull", "CTransaction_IsCoinBase"],
         "loop_contracts": True, "split_safety": True, "defines": ["TU_C03"], "solver": "cadical",
         "twins": [{"define": "TWIN_NO_DUP_CLAUSE_ORDER", "expect": "postcondition"}]},
        H("h_IsCoinBase", "CTransaction_IsCoinBase"),
        H("h_HaveInputs", "CCoinsViewCache_HaveInputs", replace=["CTransaction_IsCoinBase"], loop_contracts=True),
        H("h_CheckTxInputs", "CheckTxInputs", replace=["MoneyRange", "CCoinsViewCache_HaveInputs"], loop_contracts=True, split_safety=True),
        H("h_AddCoin_head", "AddCoin_head"),
        H("h_IsUnspendable", "CScript_IsUnspendable", ["TWIN_UNSPENDABLE"]),
    ],
    "native": T.NATIVE,
    "not_covered": ["marking a coin spent (CCoinsViewCache::SpendCoin), same-block ordering (outputs created later in the block), BIP30 and cross-block histories, 'rejected blocks leave the set unchanged': "
                    "these live in CCoinsViewCache / ConnectBlock state manipulation (unordered_map iterators, flags list) outside the extractor's subset",
                    "the rest of AddCoin after its early return"],
    "assumptions": ["A2 std::set law for the duplicate check (ghost-witness stub, see C03)", "A3 coin view of one transaction: HaveCoin(vin[k].prevout) <=> coins[k] unspent (include/verif_txverify.h)",
                    "universally quantified clauses are proved for arbitrary ghost indices fixed before the call"],
    "manifest": {
        "category": "proof",
        "text": "partial: within one transaction no outpoint is spent twice (CheckTransaction accepts => for every pair of inputs the prevouts differ; rejects with bad-txns-inputs-duplicate => a witness pair is equal), for any number of inputs; "
                "CCoinsViewCache::HaveInputs is true iff the tx is a coinbase or every input has an unspent coin; Consensus::CheckTxInputs rejects first with bad-txns-inputs-missingorspent (TX_MISSING_INPUTS) when an input has no unspent coin and otherwise every input it sums exists; "
                "AddCoin returns before touching the map for an unspendable script, and IsUnspendable <=> first byte OP_RETURN or size > 10,000.",
        "note": "Not covered (the larger part of the statement): spent-marking, same-block ordering, BIP30, cross-block and reorg histories, unchanged-on-reject. Trusted: set-law stub, coin-view stub, extraction rules.",
        "technique": "CBMC function + loop contracts on extracted CheckTransaction / HaveInputs / CheckTxInputs / IsUnspendable and the head fragment of AddCoin, ghost-index and ghost-witness quantification",
    },
    "trusted_base": ["specs/C03/spec.c", "specs/txverify_contracts.h", "specs/txverify_harness.h", "include/verif_txverify.h", "include/verif_tx_set.h"],
}
