/* C02 -- An output can be spent at most once and only if it exists (function-level clauses). */
#include "../txverify_contracts.h"
#include "../txverify_harness.h"
#include "slices.h"
#include "../txverify_harnesses.c"
