#include "verif_tx.h"
size_t g_a, g_dup_wit;
#include "verif_tx_set.h"
#define LOOP_VOUT
#define LOOP_VIN_DUP
#define LOOP_VIN_NULL
#define GHOST_VOUT_STEP(i) ((void)0)
#define GHOST_VIN_STEP(i) ((void)0)
#define GHOST_NULL_STEP(i) ((void)0)
#include "slices.h"
