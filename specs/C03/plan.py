from engine.extract import R, refparam, rangefor, invalid_rule

TXSLICES = [
    {"name": "COIN", "kind": "const", "file": "src/consensus/amount.h",
     "pat": r"inline constexpr CAmount COIN\{([\d']+)\};", "emit": r"#define COIN ((CAmount)\1)"},
    {"name": "MAX_MONEY", "kind": "const", "file": "src/consensus/amount.h",
     "pat": r"inline constexpr CAmount MAX_MONEY\{([^}]+)\};", "emit": r"#define MAX_MONEY ((CAmount)(\1))"},
    {"name": "MoneyRange", "kind": "func", "file": "src/consensus/amount.h",
     "head": r"inline bool MoneyRange\(const CAmount& nValue\)",
     "rules": [R("scalar-const-ref-by-value", r"const CAmount& nValue", "const CAmount nValue")]},
    {"name": "MAX_BLOCK_WEIGHT", "kind": "const", "file": "src/consensus/consensus.h",
     "pat": r"inline constexpr unsigned int MAX_BLOCK_WEIGHT\{([\d']+)\};", "emit": r"static const unsigned int MAX_BLOCK_WEIGHT = \1;"},
    {"name": "WITNESS_SCALE_FACTOR", "kind": "const", "file": "src/consensus/consensus.h",
     "pat": r"inline constexpr int WITNESS_SCALE_FACTOR = ([\d']+);", "emit": r"static const int WITNESS_SCALE_FACTOR = \1;"},
    {"name": "NULL_INDEX", "kind": "const", "file": "src/primitives/transaction.h",
     "pat": r"static constexpr uint32_t NULL_INDEX = std::numeric_limits<uint32_t>::max\(\);",
     "emit": r"static const uint32_t NULL_INDEX = UINT32_MAX;"},
    {"name": "COutPoint_IsNull", "kind": "func", "file": "src/primitives/transaction.h", "within_class": r"class COutPoint",
     "head": r"bool IsNull\(\)",
     "rules": [R("method-head:COutPoint::IsNull", r"bool IsNull\(\) const", "bool COutPoint_IsNull(const COutPoint* self)"),
               R("call:uint256::IsNull", r"\bhash\.IsNull\(\)", "uint256_IsNull(&self->hash)"),
               R("member:n", r"(?<![\w>.])n ==", "self->n ==")]},
    {"name": "CTransaction_IsCoinBase", "kind": "func", "file": "src/primitives/transaction.h", "within_class": r"class CTransaction",
     "head": r"bool IsCoinBase\(\)",
     "rules": [R("method-head:CTransaction::IsCoinBase", r"bool IsCoinBase\(\) const", "bool CTransaction_IsCoinBase(const CTransaction* self)"),
               R("member:vin.size", r"(?<![\w>.])vin\.size\(\)", "self->vin_size"),
               R("call:COutPoint::IsNull", r"(?<![\w>.])vin\[0\]\.prevout\.IsNull\(\)", "COutPoint_IsNull(&self->vin[0].prevout)")]},
]

CHECKTX = {
    "name": "CheckTransaction", "kind": "func", "file": "src/consensus/tx_check.cpp",
    "head": r"bool CheckTransaction\(const CTransaction& tx, TxValidationState& state\)",
    "rules": refparam("tx") + refparam("state") + [
        invalid_rule(r"state->", "TxValidationResult", "TxState_Invalid"),
        R("member:vin.empty", r"tx->vin\.empty\(\)", "(tx->vin_size == 0)", False),
        R("member:vout.empty", r"tx->vout\.empty\(\)", "(tx->vout_size == 0)", False),
        R("ghost-field:GetSerializeSize(TX_NO_WITNESS(tx))", r"::GetSerializeSize\(TX_NO_WITNESS\(\(?\*?tx\)?\)\)", "tx->ser_size_nowit", False),
    ] + rangefor("txout", r"tx->vout", "tx->vout", "tx->vout_size", idx="i_out", required=False) + [
        # all of these are optional: if a check is deleted from the code the rule has nothing to rewrite and the
        # CONTRACT must fail; a renamed/reshaped construct is caught by the leftover-C++ scan instead (UNDECIDED)
        R("set-decl:std::set<COutPoint>", r"std::set<COutPoint> vInOutPoints;", "OutPointSet vInOutPoints = {0, tx->vin};", False),
        # the range-for whose body inserts into the set (duplicate check) / tests IsNull (null prevout) get distinct indices
        R("rangefor:txin(dup):head", r"for\s*\(\s*const auto& txin : tx->vin\)(?=\s*\{?\s*if \(!vInOutPoints)", "for (size_t i_in = 0; i_in < tx->vin_size; i_in++)", False),
        R("call:set.insert", r"vInOutPoints\.insert\(txin\.prevout\)\.second", "OutPointSet_insert(&vInOutPoints, &tx->vin[i_in].prevout)", False),
        R("rangefor:txin(null):head", r"for\s*\(\s*const auto& txin : tx->vin\)(?=\s*\{?\s*if \(txin\.prevout\.IsNull)", "for (size_t i_nul = 0; i_nul < tx->vin_size; i_nul++)", False),
        R("call:prevout.IsNull", r"txin\.prevout\.IsNull\(\)", "COutPoint_IsNull(&tx->vin[i_nul].prevout)", False),
        R("call:tx.IsCoinBase", r"tx->IsCoinBase\(\)", "CTransaction_IsCoinBase(tx)", False),
        R("member:scriptSig.size", r"\.scriptSig\.size\(\)", ".scriptSig_size", False),
    ],
    "loops": [
        {"match": r"\bi_out\b", "contract": "LOOP_VOUT", "prologue": "GHOST_VOUT_STEP(i_out)", "required": False},
        {"match": r"\bi_in\b", "contract": "LOOP_VIN_DUP", "prologue": "GHOST_VIN_STEP(i_in)", "required": False},
        {"match": r"\bi_nul\b", "contract": "LOOP_VIN_NULL", "prologue": "GHOST_NULL_STEP(i_nul)", "required": False},
    ],
}

REASONS = ["bad-txns-vin-empty", "bad-txns-vout-empty", "bad-txns-oversize", "bad-txns-vout-negative", "bad-txns-vout-toolarge",
           "bad-txns-txouttotal-toolarge", "bad-txns-inputs-duplicate", "bad-cb-length", "bad-txns-prevout-null"]

PLAN = {
    "id": "C03",
    "level": "proof",
    "slices": TXSLICES + [CHECKTX],
    "reasons": REASONS,
    "spec": "spec.c",
    "harnesses": [
        {"name": "h_MoneyRange", "enforce": "MoneyRange", "twins": [{"define": "TWIN_MONEYRANGE", "expect": "postcondition"}]},
        {"name": "h_COutPoint_IsNull", "enforce": "COutPoint_IsNull", "twins": [{"define": "TWIN_ISNULL", "expect": "postcondition"}]},
        {"name": "h_IsCoinBase", "enforce": "CTransaction_IsCoinBase", "replace": ["COutPoint_IsNull"], "twins": [{"define": "TWIN_COINBASE", "expect": "postcondition"}]},
        {"name": "h_CheckTransaction", "enforce": "CheckTransaction", "replace": ["MoneyRange", "COutPoint_IsNull", "CTransaction_IsCoinBase"],
         "loop_contracts": True, "split_safety": True,
         "twins": [{"define": "TWIN_CB_LEN_101", "expect": "postcondition"}, {"define": "TWIN_SIZE_GE", "expect": "postcondition"},
                   {"define": "TWIN_NO_DUP_CLAUSE_ORDER", "expect": "postcondition"}]},
    ],
    "native": {"src": "replay.cpp", "c_src": "native_slices.c", "repo_sources": ["src/consensus/tx_check.cpp"],
               "libs": ["libbitcoin_consensus.a", "libbitcoin_crypto.a"]},
    "not_covered": ["::GetSerializeSize(TX_NO_WITNESS(tx)) itself: the non-witness size is an arbitrary input of the contract (serializer is C48's business)"],
    "assumptions": ["A2 std::set law for vInOutPoints.insert(...).second, in ghost-index/witness form (include/verif_tx_set.h); the model asserts that the k-th inserted element is vin[k].prevout",
                    "A3 base_blob::IsNull (std::all_of + lambda) and ValidationState::Invalid (template member) are hand stubs in include/verif_tx.h, compared natively with the real ones on every run",
                    "universally quantified clauses are proved for arbitrary ghost indices fixed before the call (g_k, g_a<g_b, g_n)"],
    "manifest": {
        "category": "proof",
        "text": "core: the real CheckTransaction text (extracted each run; operators, constants, order of checks verbatim) is proved for every vin/vout length up to 2^32 and all values: "
                "accept => every clause of the statement holds; each reject reason => that rule is violated at a witness AND every earlier rule holds (so the reason names the first violated rule); "
                "no signed overflow in the output sum. MoneyRange, COutPoint::IsNull, CTransaction::IsCoinBase are contracted separately and used by contract.",
        "note": "Trusted: extraction rules, std::set insert law as a ghost-witness stub, uint256::IsNull / state.Invalid stubs, serialized size as an arbitrary input. Universals via ghost indices. "
                "Call sites (who calls CheckTransaction) are glue, not verified.",
        "technique": "CBMC function + loop contracts (unbounded vin/vout) on extracted CheckTransaction, callee contracts substituted, ghost-index quantification",
    },
    "trusted_base": ["specs/C03/spec.c", "include/verif_tx.h", "include/verif_tx_set.h"],
}
