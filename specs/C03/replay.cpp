// C03 native harness: real CheckTransaction (src/consensus/tx_check.cpp compiled from the working tree) vs
// the extracted C text CBMC verified vs the statement-level oracle.
#include <consensus/tx_check.h>
#include <consensus/validation.h>
#include <primitives/transaction.h>
#include <serialize.h>
#include <set>
#include <tuple>
#include "replay_util.h"
#include "verif_tx_native.h"

extern "C" { bool xc_CheckTransaction(const xc_CTransaction*, xc_TxValidationState*); }

// the statement, in order; returns "" for accept
static std::string oracle(const CTransaction& tx)
{
    if (tx.vin.empty()) return "bad-txns-vin-empty";
    if (tx.vout.empty()) return "bad-txns-vout-empty";
    if ((unsigned __int128)::GetSerializeSize(TX_NO_WITNESS(tx)) * 4 > 4000000) return "bad-txns-oversize";
    __int128 sum = 0;
    for (auto& o : tx.vout) {
        if (o.nValue < 0) return "bad-txns-vout-negative";
        if (o.nValue > 2100000000000000LL) return "bad-txns-vout-toolarge";
        sum += o.nValue;
        if (sum > 2100000000000000LL) return "bad-txns-txouttotal-toolarge";
    }
    for (size_t b = 0; b < tx.vin.size(); b++) for (size_t a = 0; a < b; a++) if (tx.vin[a].prevout.hash == tx.vin[b].prevout.hash && tx.vin[a].prevout.n == tx.vin[b].prevout.n) return "bad-txns-inputs-duplicate";
    auto isnull = [](const COutPoint& o) { for (const unsigned char* p = (const unsigned char*)o.hash.begin(); p != (const unsigned char*)o.hash.end(); ++p) if (*p) return false; return o.n == 0xffffffffu; };
    if (tx.vin.size() == 1 && isnull(tx.vin[0].prevout)) { size_t l = tx.vin[0].scriptSig.size(); if (l < 2 || l > 100) return "bad-cb-length"; }
    else for (auto& i : tx.vin) if (isnull(i.prevout)) return "bad-txns-prevout-null";
    return "";
}

static void one(const CMutableTransaction& m, bool verbose)
{
    CTransaction tx(m);
    TxValidationState st; bool real = CheckTransaction(tx, st);
    std::string rr = real ? "" : st.GetRejectReason();
    rvtx::Shim sh(tx); xc_TxValidationState xs{}; bool xr = xc_CheckTransaction(&sh.tx, &xs);
    std::string want = oracle(tx);
    rv::g_stats.inputs++;
    bool agree = (real == xr) && (real || (rvtx::fnv(rr) == xs.reason && xs.result == XC_TX_CONSENSUS && st.GetResult() == TxValidationResult::TX_CONSENSUS));
    if (!agree) { rv::g_stats.disagreements++; std::printf("DISAGREE real=%d/%s extractedC=%d/%08x vin=%zu vout=%zu\n", real, rr.c_str(), xr, xs.reason, tx.vin.size(), tx.vout.size()); }
    if (rr != want || real != want.empty()) { rv::g_stats.real_violations++; if (rv::g_stats.real_violations <= 5 || verbose) std::printf("REAL-VIOLATION CheckTransaction(vin=%zu vout=%zu size=%zu tx=%s) = %s, statement says %s\n", tx.vin.size(), tx.vout.size(), ::GetSerializeSize(TX_NO_WITNESS(tx)), tx.vin.size() + tx.vout.size() < 12 ? tx.ToString().substr(0, 600).c_str() : "...", real ? "accept" : rr.c_str(), want.empty() ? "accept" : want.c_str()); }
}

static COutPoint rnd_outpoint(rv::Rng& r, int mode)
{
    COutPoint o; unsigned char b[32] = {0};
    if (mode == 0) { o.n = 0xffffffffu; }                                   // null
    else if (mode == 1) { o.n = 0xffffffffu; b[r.below(32)] = 1; }          // almost null (hash non-zero)
    else if (mode == 2) { o.n = (uint32_t)r.below(3); }                     // zero hash, small n
    else { for (auto& c : b) c = (unsigned char)r.next(); o.n = (uint32_t)r.below(4); }
    o.hash = Txid::FromUint256(uint256(std::span<const unsigned char>(b, 32)));
    return o;
}

static CMutableTransaction gen(rv::Rng& r)
{
    static const std::vector<int64_t> E = {0, 1, -1, 2100000000000000LL, 2100000000000000LL / 2, 1050000000000001LL, INT64_MAX, INT64_MIN, 2100000000000000LL - 5};
    CMutableTransaction m;
    size_t nin = r.below(8) == 0 ? 0 : 1 + r.below(r.below(4) ? 3 : 12), nout = r.below(8) == 0 ? 0 : 1 + r.below(5);
    for (size_t i = 0; i < nin; i++) {
        CTxIn in; in.prevout = rnd_outpoint(r, (int)r.below(6));
        if (i > 0 && r.below(6) == 0) in.prevout = m.vin[r.below(i)].prevout;                   // duplicate at arbitrary position
        static const size_t L[] = {0, 1, 2, 3, 99, 100, 101, 102, 50};
        { std::vector<unsigned char> v(L[r.below(9)], 0x51); in.scriptSig = CScript(v.begin(), v.end()); }
        m.vin.push_back(in);
    }
    for (size_t i = 0; i < nout; i++) { CTxOut o; o.nValue = r.below(3) ? r.pick(E) : (int64_t)r.below(2100000000000000ULL); if (r.below(4) == 0) o.nValue = (int64_t)r.below(700000000000001ULL); m.vout.push_back(o); }
    if (r.below(40) == 0 && !m.vin.empty()) {                                                     // size boundary: 1,000,000 +- 1 bytes
        CTransaction t0(m); size_t base = ::GetSerializeSize(TX_NO_WITNESS(t0)) - m.vin[0].scriptSig.size();
        for (long d = 3; d >= -3; d--) { size_t want = 1000000 + (long)r.below(5) - 2; size_t l = want - base - d; std::vector<unsigned char> v(l, 0x51); m.vin[0].scriptSig = CScript(v.begin(), v.end()); if (::GetSerializeSize(TX_NO_WITNESS(CTransaction(m))) == want) break; }
    }
    return m;
}

int main(int argc, char** argv)
{
    auto a = rv::parse(argc, argv);
    rv::Rng rng(a.seed);
    uint64_t n = a.diff ? a.n : 300000;
    for (uint64_t i = 0; i < n; i++) one(gen(rng), false);
    rv::report();
    return rv::g_stats.real_violations ? 1 : (rv::g_stats.disagreements ? 3 : 0);
}
