/* C03 -- Context-free transaction checks accept exactly the spec-valid transactions.
 * Contracts for the extracted CheckTransaction / MoneyRange / COutPoint::IsNull / CTransaction::IsCoinBase.
 * Every number below is taken from the property statement, not from the code's constants. */
#include "verif_tx.h"
#include "spec_reasons.h"

/* ---- ghost state ------------------------------------------------------------------------------ */
size_t g_k;                              /* arbitrary output index          (forall k)      */
size_t g_a, g_b;                         /* arbitrary input pair, g_a < g_b (forall a<b)    */
size_t g_n;                              /* arbitrary input index           (forall n)      */
size_t g_cur_out, g_cur_in, g_cur_nul;   /* loop position, recorded at the head of each loop body */
size_t g_cnt;                            /* number of outputs visited */
__int128 g_sum;                          /* mathematical sum of the outputs visited so far */
size_t g_dup_wit;                        /* witness index returned by the set model */
#include "verif_tx_set.h"

/* ---- the statement ----------------------------------------------------------------------------- */
#define SPEC_MAX_MONEY ((int64_t)2100000000000000LL)                 /* 21M BTC in satoshi */
#define SPEC_MAXLEN ((size_t)0x02000000)                             /* longest vector the deserializer builds (MAX_SIZE) */
#define NULLP(o) ((o).hash.w[0] == 0 && (o).hash.w[1] == 0 && (o).hash.w[2] == 0 && (o).hash.w[3] == 0 && (o).n == 0xffffffffu)
#define OUT_OK(k) (tx->vout[k].nValue >= 0 && tx->vout[k].nValue <= SPEC_MAX_MONEY)
#ifdef TWIN_SIZE_GE
#define SIZE_OK (tx->ser_size_nowit * 4 < 4000000)
#else
#define SIZE_OK (tx->ser_size_nowit * 4 <= 4000000)
#endif
#define IS_CB (tx->vin_size == 1 && NULLP(tx->vin[0].prevout))
#ifdef TWIN_CB_LEN_101
#define CB_LEN_OK (tx->vin[0].scriptSig_size >= 2 && tx->vin[0].scriptSig_size <= 101)
#else
#define CB_LEN_OK (tx->vin[0].scriptSig_size >= 2 && tx->vin[0].scriptSig_size <= 100)
#endif
#define NONEMPTY (tx->vin_size > 0 && tx->vout_size > 0)
/* "every output seen before index w is in range" / "all outputs in range and so is their sum" (ghost index g_k) */
#define OUTS_OK_BEFORE(w) (g_k < (w) ==> OUT_OK(g_k))
#define ALL_OUTS_OK (OUTS_OK_BEFORE(tx->vout_size) && g_cnt == tx->vout_size && g_sum >= 0 && g_sum <= SPEC_MAX_MONEY)
#define NODUP_BEFORE(w) ((g_a < g_b && g_b < (w)) ==> !OUTPOINT_EQ(tx->vin[g_a].prevout, tx->vin[g_b].prevout))
#define REASON(r) (!__CPROVER_return_value && state->reason == (r))
#define OLDSUM (g_sum - (__int128)tx->vout[g_cur_out].nValue)       /* sum of the outputs before the one at which we stopped */

/* ---- leaf contracts ------------------------------------------------------------------------------ */
bool MoneyRange(const CAmount nValue)
#ifdef TWIN_MONEYRANGE
__CPROVER_ensures(__CPROVER_return_value == (nValue >= 0 && nValue < SPEC_MAX_MONEY))
#else
__CPROVER_ensures(__CPROVER_return_value == (nValue >= 0 && nValue <= SPEC_MAX_MONEY))
#endif
__CPROVER_assigns();

bool COutPoint_IsNull(const COutPoint* self)
__CPROVER_requires(__CPROVER_is_fresh(self, sizeof(*self)))
#ifdef TWIN_ISNULL
__CPROVER_ensures(__CPROVER_return_value == (self->hash.w[0] == 0 && self->hash.w[1] == 0 && self->hash.w[2] == 0 && self->n == 0xffffffffu))
#else
__CPROVER_ensures(__CPROVER_return_value == NULLP(*self))
#endif
__CPROVER_assigns();

bool CTransaction_IsCoinBase(const CTransaction* self)
__CPROVER_requires(__CPROVER_is_fresh(self, sizeof(*self)))
__CPROVER_requires(self->vin_size >= 1 && self->vin_size <= SPEC_MAXLEN && __CPROVER_is_fresh(self->vin, sizeof(CTxIn) * self->vin_size))
#ifdef TWIN_COINBASE
__CPROVER_ensures(__CPROVER_return_value == (self->vin_size >= 1 && NULLP(self->vin[0].prevout)))
#else
__CPROVER_ensures(__CPROVER_return_value == (self->vin_size == 1 && NULLP(self->vin[0].prevout)))
#endif
__CPROVER_assigns();

/* ---- loop contracts woven into the extracted text (engine/extract.py weave_loops) ---------------- */
#define GHOST_VOUT_STEP(i) (g_cur_out = (i), g_cnt = g_cnt + 1, g_sum = g_sum + (__int128)tx->vout[i].nValue)
#define GHOST_VIN_STEP(i) (g_cur_in = (i))
#define GHOST_NULL_STEP(i) (g_cur_nul = (i))
#define STATE_FRESH (state->mode_invalid == 0 && state->result == 0 && state->reason == 0)

#define LOOP_VOUT \
    __CPROVER_assigns(i_out, nValueOut, g_cur_out, g_cnt, g_sum, state->mode_invalid, state->result, state->reason) \
    __CPROVER_loop_invariant(i_out <= tx->vout_size && g_cnt == i_out && STATE_FRESH) \
    __CPROVER_loop_invariant(0 <= nValueOut && nValueOut <= SPEC_MAX_MONEY && (__int128)nValueOut == g_sum) \
    __CPROVER_loop_invariant(OUTS_OK_BEFORE(i_out)) \
    __CPROVER_decreases(tx->vout_size - i_out)

#define LOOP_VIN_DUP \
    __CPROVER_assigns(i_in, vInOutPoints.n, g_cur_in, g_dup_wit, state->mode_invalid, state->result, state->reason) \
    __CPROVER_loop_invariant(i_in <= tx->vin_size && vInOutPoints.n == i_in && vInOutPoints.base == tx->vin && STATE_FRESH) \
    __CPROVER_loop_invariant(NODUP_BEFORE(i_in)) \
    __CPROVER_decreases(tx->vin_size - i_in)

#define LOOP_VIN_NULL \
    __CPROVER_assigns(i_nul, g_cur_nul, state->mode_invalid, state->result, state->reason) \
    __CPROVER_loop_invariant(i_nul <= tx->vin_size && STATE_FRESH) \
    __CPROVER_loop_invariant(g_n < i_nul ==> !NULLP(tx->vin[g_n].prevout)) \
    __CPROVER_decreases(tx->vin_size - i_nul)

/* ---- the contract: the statement, clause by clause ------------------------------------------------ */
VERIF_REACH_DECL(CheckTransaction)
bool CheckTransaction(const CTransaction* tx, TxValidationState* state)
__CPROVER_requires(__CPROVER_is_fresh(tx, sizeof(*tx)) && __CPROVER_is_fresh(state, sizeof(*state)))
__CPROVER_requires(tx->vin_size <= SPEC_MAXLEN && tx->vout_size <= SPEC_MAXLEN && tx->ser_size_nowit <= ((uint64_t)1 << 40))
__CPROVER_requires(tx->vin_size > 0 ==> __CPROVER_is_fresh(tx->vin, sizeof(CTxIn) * tx->vin_size))
__CPROVER_requires(tx->vout_size > 0 ==> __CPROVER_is_fresh(tx->vout, sizeof(CTxOut) * tx->vout_size))
__CPROVER_requires(STATE_FRESH)
__CPROVER_requires(g_sum == 0 && g_cnt == 0)
#ifndef VERIF_SAFETY_ONLY   /* the safety pass checks memory safety / overflow of the body under the same precondition, without these */
/* accept  =>  every clause of the statement */
__CPROVER_ensures(__CPROVER_return_value ==> (NONEMPTY && SIZE_OK && ALL_OUTS_OK && NODUP_BEFORE(tx->vin_size)))
__CPROVER_ensures(__CPROVER_return_value ==> ((IS_CB && CB_LEN_OK) || (!IS_CB && (g_n < tx->vin_size ==> !NULLP(tx->vin[g_n].prevout)))))
__CPROVER_ensures(__CPROVER_return_value ==> STATE_FRESH)
/* reject  =>  consensus failure with one of the nine reasons */
__CPROVER_ensures(!__CPROVER_return_value ==> (state->mode_invalid == 1 && state->result == TX_CONSENSUS))
__CPROVER_ensures(!__CPROVER_return_value ==> (state->reason == SPEC_R_bad_txns_vin_empty || state->reason == SPEC_R_bad_txns_vout_empty || state->reason == SPEC_R_bad_txns_oversize || state->reason == SPEC_R_bad_txns_vout_negative || state->reason == SPEC_R_bad_txns_vout_toolarge || state->reason == SPEC_R_bad_txns_txouttotal_toolarge || state->reason == SPEC_R_bad_txns_inputs_duplicate || state->reason == SPEC_R_bad_cb_length || state->reason == SPEC_R_bad_txns_prevout_null))
/* each reason  =>  that rule is violated (witness) and every earlier rule holds: the reason names the FIRST violated rule */
__CPROVER_ensures(REASON(SPEC_R_bad_txns_vin_empty) ==> tx->vin_size == 0)
__CPROVER_ensures(REASON(SPEC_R_bad_txns_vout_empty) ==> (tx->vin_size > 0 && tx->vout_size == 0))
__CPROVER_ensures(REASON(SPEC_R_bad_txns_oversize) ==> (NONEMPTY && !SIZE_OK))
__CPROVER_ensures(REASON(SPEC_R_bad_txns_vout_negative) ==> (NONEMPTY && SIZE_OK && g_cur_out < tx->vout_size && tx->vout[g_cur_out].nValue < 0 && OUTS_OK_BEFORE(g_cur_out) && OLDSUM >= 0 && OLDSUM <= SPEC_MAX_MONEY))
__CPROVER_ensures(REASON(SPEC_R_bad_txns_vout_toolarge) ==> (NONEMPTY && SIZE_OK && g_cur_out < tx->vout_size && tx->vout[g_cur_out].nValue > SPEC_MAX_MONEY && OUTS_OK_BEFORE(g_cur_out) && OLDSUM >= 0 && OLDSUM <= SPEC_MAX_MONEY))
__CPROVER_ensures(REASON(SPEC_R_bad_txns_txouttotal_toolarge) ==> (NONEMPTY && SIZE_OK && g_cur_out < tx->vout_size && OUT_OK(g_cur_out) && OUTS_OK_BEFORE(g_cur_out) && OLDSUM <= SPEC_MAX_MONEY && g_sum > SPEC_MAX_MONEY))
#ifdef TWIN_NO_DUP_CLAUSE_ORDER
__CPROVER_ensures(REASON(SPEC_R_bad_txns_inputs_duplicate) ==> (NONEMPTY && SIZE_OK && ALL_OUTS_OK && g_dup_wit < g_cur_in && g_cur_in < tx->vin_size && OUTPOINT_EQ(tx->vin[g_dup_wit].prevout, tx->vin[g_cur_in].prevout) && NODUP_BEFORE(g_cur_in + 1)))
#else
__CPROVER_ensures(REASON(SPEC_R_bad_txns_inputs_duplicate) ==> (NONEMPTY && SIZE_OK && ALL_OUTS_OK && g_dup_wit < g_cur_in && g_cur_in < tx->vin_size && OUTPOINT_EQ(tx->vin[g_dup_wit].prevout, tx->vin[g_cur_in].prevout) && NODUP_BEFORE(g_cur_in)))
#endif
__CPROVER_ensures(REASON(SPEC_R_bad_cb_length) ==> (NONEMPTY && SIZE_OK && ALL_OUTS_OK && NODUP_BEFORE(tx->vin_size) && IS_CB && !CB_LEN_OK))
__CPROVER_ensures(REASON(SPEC_R_bad_txns_prevout_null) ==> (NONEMPTY && SIZE_OK && ALL_OUTS_OK && NODUP_BEFORE(tx->vin_size) && !IS_CB && g_cur_nul < tx->vin_size && NULLP(tx->vin[g_cur_nul].prevout) && (g_n < g_cur_nul ==> !NULLP(tx->vin[g_n].prevout))))
#endif
/* vacuity guards: every outcome is reachable under the precondition */
VERIF_REACH_ENSURES(CheckTransaction, __CPROVER_return_value && IS_CB)
VERIF_REACH_ENSURES(CheckTransaction, __CPROVER_return_value && !IS_CB && tx->vin_size > 2 && tx->vout_size > 2)
VERIF_REACH_ENSURES(CheckTransaction, REASON(SPEC_R_bad_txns_vin_empty))
VERIF_REACH_ENSURES(CheckTransaction, REASON(SPEC_R_bad_txns_vout_empty))
VERIF_REACH_ENSURES(CheckTransaction, REASON(SPEC_R_bad_txns_oversize))
VERIF_REACH_ENSURES(CheckTransaction, REASON(SPEC_R_bad_txns_vout_negative) && g_cur_out > 1)
VERIF_REACH_ENSURES(CheckTransaction, REASON(SPEC_R_bad_txns_vout_toolarge))
VERIF_REACH_ENSURES(CheckTransaction, REASON(SPEC_R_bad_txns_txouttotal_toolarge) && g_cur_out > 1)
VERIF_REACH_ENSURES(CheckTransaction, REASON(SPEC_R_bad_txns_inputs_duplicate) && g_cur_in > 1)
VERIF_REACH_ENSURES(CheckTransaction, REASON(SPEC_R_bad_cb_length))
VERIF_REACH_ENSURES(CheckTransaction, REASON(SPEC_R_bad_txns_prevout_null) && g_cur_nul > 0)
__CPROVER_assigns(state->mode_invalid, state->result, state->reason, g_cur_out, g_cur_in, g_cur_nul, g_cnt, g_sum, g_dup_wit);

#include "slices.h"

size_t nondet_size_t(void);
CAmount nondet_amount(void);

void h_MoneyRange(void) { bool r = MoneyRange(nondet_amount()); VERIF_REACH_PT("MoneyRange returns"); if (r) VERIF_REACH_PT("in range"); }
void h_COutPoint_IsNull(void) { COutPoint* o; bool r = COutPoint_IsNull(o); if (r) VERIF_REACH_PT("null outpoint"); else VERIF_REACH_PT("non-null outpoint"); }
void h_IsCoinBase(void) { CTransaction* t; bool r = CTransaction_IsCoinBase(t); if (r) VERIF_REACH_PT("coinbase"); else VERIF_REACH_PT("not coinbase"); }

void h_CheckTransaction(void)
{
    CTransaction* tx; TxValidationState* st;
    g_k = nondet_size_t(); g_a = nondet_size_t(); g_b = nondet_size_t(); g_n = nondet_size_t();
    g_cur_out = nondet_size_t(); g_cur_in = nondet_size_t(); g_cur_nul = nondet_size_t(); g_dup_wit = nondet_size_t();
    VERIF_REACH_ON(CheckTransaction);
    CheckTransaction(tx, st);
}
