/* native build of the extracted text (same text CBMC saw), stubs replaced by the real operations */
#include "verif_tx.h"
#include <stdlib.h>
#include <string.h>
#define C04_CONSTS
#include "slices.h"
#undef C04_CONSTS
#define C04_F_CMR
#define C04_F_BMR
#define C04_F_REST
#define C04_F_WIT
#include <assert.h>
#define VERIF_ASSERT(c) assert(c)
#define LOOP_OUTPUTS
#define LOOP_HASWIT
typedef struct { uint256_c* data; size_t size, cap; } HashVec;
typedef struct { size_t size; unsigned char b[6]; } OutScriptView;
typedef struct { size_t n; size_t size0; } WitStackView;
typedef struct { size_t vtx_size; uint256_c hashMerkleRoot; bool m_checked_merkle_root; bool m_checked_witness_commitment; size_t cb_vin_size; size_t cb_vout_size; const OutScriptView* cb_vout; WitStackView cb_witness;
                 const uint256_c* txids; const unsigned* stripped_sizes; bool first_is_coinbase; const bool* haswit; const bool* commit_mismatch_at; } CBlockView;
typedef struct { unsigned nStatus; int nHeight; } BlockIndexView;
typedef struct { int mode_invalid; int result; uint32_t reason; } BlockValidationState;
static inline bool BlockState_Invalid(BlockValidationState* state, int result, uint32_t reason) { state->result = result; state->reason = reason; state->mode_invalid = 1; return 0; }
static inline bool uint256_eq(const uint256_c* a, const uint256_c* b) { return memcmp(a, b, 32) == 0; }
#define UINT256_ZERO ((uint256_c){{0, 0, 0, 0}})
#define LOOP_LEVELS
#define LOOP_PAIRS
#define LOOP_LEAVES
#define GHOST_LEVEL_STEP(h) ((void)0)
#define GHOST_PAIR_STEP(h, pos) ((void)0)
void real_SHA256D64(unsigned char* out, const unsigned char* in, size_t blocks);
static inline void HashVec_push_back(HashVec* v, uint256_c x) { if (v->size == v->cap) { v->cap = v->cap ? v->cap * 2 : 2; v->data = realloc(v->data, v->cap * sizeof(uint256_c)); } v->data[v->size] = x; v->size = v->size + 1; }
static inline void HashVec_shrink(HashVec* v, size_t n) { v->size = n; }
static inline void SHA256D64_level(HashVec* v, size_t blocks) { real_SHA256D64((unsigned char*)v->data, (const unsigned char*)v->data, blocks); }
static inline HashVec HashVec_new(void) { HashVec v = {NULL, 0, 0}; return v; }
static inline void HashVec_reserve(HashVec* v, size_t n) { v->data = malloc(sizeof(uint256_c) * (n > 0 ? n : 1)); v->cap = n > 0 ? n : 1; }
static inline uint256_c Tx_GetHash(const CBlockView* b, size_t s) { return b->txids[s]; }
uint256_c xc_ComputeMerkleRoot(HashVec* hashes, bool* mutated);
static inline uint256_c ComputeMerkleRoot_cut(HashVec* leaves, bool* mutated) { uint256_c r = xc_ComputeMerkleRoot(leaves, mutated); free(leaves->data); return r; }
uint256_c xc_BlockMerkleRoot(const CBlockView* block, bool* mutated);
static inline uint256_c BlockMerkleRoot_stub(const CBlockView* b, bool* mutated) { return xc_BlockMerkleRoot(b, mutated); }
static inline bool AnyTxStrippedSizeIs(const CBlockView* b, int n) { for (size_t i = 0; i < b->vtx_size; i++) if (b->stripped_sizes[i] == (unsigned)n) return 1; return 0; }
static inline bool Tx_IsCoinBase(const CBlockView* b, size_t i) { return b->first_is_coinbase; }
int xc_GetWitnessCommitmentIndex(const CBlockView* block);
static inline int GetWitnessCommitmentIndex_stub(const CBlockView* b) { return xc_GetWitnessCommitmentIndex(b); }
static inline bool WitnessCommitment_mismatch(const CBlockView* b, int commitpos) { return b->commit_mismatch_at[commitpos]; }
static inline bool Tx_HasWitness(const CBlockView* b, size_t i) { return b->haswit[i]; }
bool xc_CheckWitnessMalleation(CBlockView* block, bool expect_witness_commitment, BlockValidationState* state);
static inline bool CheckWitnessMalleation_stub(CBlockView* b, bool check_witness_root, BlockValidationState* st) { return xc_CheckWitnessMalleation(b, check_witness_root, st); }
BlockIndexView* g_dirty; BlockIndexView* g_erased; BlockIndexView* g_icf;
static inline void DirtyBlockIndex_insert(BlockIndexView* p) { g_dirty = p; }
static inline void Candidates_erase(BlockIndexView* p) { g_erased = p; }
static inline void InvalidChainFound(BlockIndexView* p) { g_icf = p; }
#include "slices.h"
int xc_block_mutated_value(void) { return BLOCK_MUTATED; }
unsigned xc_block_failed_valid(void) { return BLOCK_FAILED_VALID; }
