import os, sys
sys.path.insert(0, os.path.dirname(os.path.dirname(os.path.abspath(__file__))))
from engine.extract import R, invalid_rule, reason_hash

MC, VC = "src/consensus/merkle.cpp", "src/validation.cpp"
SLICES = [
    {"name": "BlockValidationResult", "kind": "const", "file": "src/consensus/validation.h", "pat": r"enum class BlockValidationResult \{[^}]*\};", "emit": r"\g<0>",
     "rules": [R("enum class -> enum", r"enum class BlockValidationResult", "enum BlockValidationResult_c", True)]},
    {"name": "BLOCK_FAILED_VALID", "kind": "const", "file": "src/chain.h", "pat": r"BLOCK_FAILED_VALID\s*=\s*(\d+),", "emit": r"#define BLOCK_FAILED_VALID \1"},
    {"name": "ComputeMerkleRoot", "kind": "func", "file": MC, "head": r"uint256 ComputeMerkleRoot\(std::vector<uint256> hashes, bool\* mutated\)",
     "rules": [R("head: the by-value vector is the callee's own copy, passed by pointer", r"uint256 ComputeMerkleRoot\(std::vector<uint256> hashes, bool\* mutated\)", "uint256_c ComputeMerkleRoot(HashVec* hashes, bool* mutated)"),
               R("op:hashes[a] == hashes[b]", r"hashes\[([^\]]+)\] == hashes\[([^\]]+)\]", r"uint256_eq(&hashes->data[\1], &hashes->data[\2])", True),
               R("call:push_back(back())", r"hashes\.push_back\(hashes\.back\(\)\);", "HashVec_push_back(hashes, hashes->data[hashes->size - 1]);", True),
               R("stub:SHA256D64 over the level", r"SHA256D64\(hashes\[0\]\.begin\(\), hashes\[0\]\.begin\(\), hashes\.size\(\) / 2\);", "SHA256D64_level(hashes, hashes->size / 2);", True),
               R("call:resize (shrinking)", r"hashes\.resize\(hashes\.size\(\) / 2\);", "HashVec_shrink(hashes, hashes->size / 2);", True),
               R("member:hashes.size()", r"hashes\.size\(\)", "hashes->size", True),
               R("return uint256()", r"return uint256\(\);", "return UINT256_ZERO;", True), R("return hashes[0]", r"return hashes\[0\];", "return hashes->data[0];", True)],
     "loops": [{"match": r"while \(hashes->size > 1\)", "contract": "LOOP_LEVELS", "prologue": "GHOST_LEVEL_STEP(hashes)"},
               {"match": r"for \(size_t pos = 0;", "contract": "LOOP_PAIRS", "prologue": "GHOST_PAIR_STEP(hashes, pos)"}]},
    {"name": "BlockMerkleRoot", "kind": "func", "file": MC, "head": r"uint256 BlockMerkleRoot\(const CBlock& block, bool\* mutated\)",
     "rules": [R("head", r"uint256 BlockMerkleRoot\(const CBlock& block, bool\* mutated\)", "uint256_c BlockMerkleRoot(const CBlockView* block, bool* mutated)"),
               R("decl:leaves", r"std::vector<uint256> leaves;", "HashVec leaves_v = HashVec_new(); HashVec* leaves = &leaves_v;", True),
               R("call:leaves.resize", r"leaves\.resize\(block\.vtx\.size\(\)\);", "HashVec_resize(leaves, block->vtx_size);", True),
               R("member:block.vtx.size()", r"block\.vtx\.size\(\)", "block->vtx_size", True),
               R("ghost:txid of the s-th transaction", r"leaves\[s\] = block\.vtx\[s\]->GetHash\(\)\.ToUint256\(\);", "leaves->data[s] = Tx_GetHash(block, s);", True),
               R("call:ComputeMerkleRoot(std::move(leaves))", r"ComputeMerkleRoot\(std::move\(leaves\), mutated\)", "ComputeMerkleRoot_cut(leaves, mutated)", True)],
     "loops": [{"match": r"for \(size_t s = 0;", "contract": "LOOP_LEAVES", "prologue": "((void)0)"}]},
    {"name": "CheckMerkleRoot", "kind": "func", "file": VC, "head": r"static bool CheckMerkleRoot\(const CBlock& block, BlockValidationState& state\)",
     "rules": [R("head", r"static bool CheckMerkleRoot\(const CBlock& block, BlockValidationState& state\)", "bool CheckMerkleRoot(CBlockView* block, BlockValidationState* state)"),
               R("member:block.", r"(?<![\w.>])block\.(?=\w)", "block->", True),
               R("stub:BlockMerkleRoot", r"uint256 merkle_root = BlockMerkleRoot\(block, &mutated\);", "uint256_c merkle_root = BlockMerkleRoot_stub(block, &mutated);", True),
               R("op:hashMerkleRoot != merkle_root", r"block->hashMerkleRoot != merkle_root", "!uint256_eq(&block->hashMerkleRoot, &merkle_root)", True),
               invalid_rule(r"state\.", "BlockValidationResult", "BlockState_Invalid")]},
    {"name": "IsBlockMutated", "kind": "func", "file": VC, "head": r"bool IsBlockMutated\(const CBlock& block, bool check_witness_root\)",
     "rules": [R("head", r"bool IsBlockMutated\(const CBlock& block, bool check_witness_root\)", "bool IsBlockMutated(CBlockView* block, bool check_witness_root)"),
               R("decl:state", r"BlockValidationState state;", "BlockValidationState state_v = {0, 0, 0}; BlockValidationState* state = &state_v;", True),
               R("drop:LogDebug", r"LogDebug\(BCLog::VALIDATION, \"Block mutated: %s\\n\", state\.ToString\(\)\);", "", True),
               R("ghost:any_of over stripped sizes (the compared constant is kept)", r"std::any_of\(block\.vtx\.begin\(\), block\.vtx\.end\(\),\s*\[\]\(auto& tx\) \{ return GetSerializeSize\(TX_NO_WITNESS\(tx\)\) == (\d+); \}\)", r"AnyTxStrippedSizeIs(block, \1)", True),
               R("member:block.vtx.empty()", r"block\.vtx\.empty\(\)", "(block->vtx_size == 0)", True), R("ghost:vtx[0]->IsCoinBase()", r"block\.vtx\[0\]->IsCoinBase\(\)", "Tx_IsCoinBase(block, 0)", True),
               R("stub:CheckWitnessMalleation", r"CheckWitnessMalleation\(block, check_witness_root, state\)", "CheckWitnessMalleation_stub(block, check_witness_root, state)", True)]},
    {"name": "InvalidBlockFound", "kind": "func", "file": VC, "head": r"void Chainstate::InvalidBlockFound\(CBlockIndex\* pindex, const BlockValidationState& state\)",
     "rules": [R("head", r"void Chainstate::InvalidBlockFound\(CBlockIndex\* pindex, const BlockValidationState& state\)", "void Chainstate_InvalidBlockFound(BlockIndexView* pindex, const BlockValidationState* state)"),
               R("drop:AssertLockHeld", r"AssertLockHeld\(cs_main\);", "", True),
               R("state.GetResult()", r"state\.GetResult\(\)", "state->result", True), R("enum scope", r"BlockValidationResult::(\w+)", r"\1", True),
               R("stub:m_dirty_blockindex.insert", r"m_blockman\.m_dirty_blockindex\.insert\(pindex\);", "DirtyBlockIndex_insert(pindex);", True),
               R("stub:setBlockIndexCandidates.erase", r"setBlockIndexCandidates\.erase\(pindex\);", "Candidates_erase(pindex);", True)]},
]
for _s in SLICES:
    _s["guard"] = {"BlockValidationResult": "C04_CONSTS", "BLOCK_FAILED_VALID": "C04_CONSTS", "BlockMerkleRoot": "C04_TU_BMR", "ComputeMerkleRoot": "C04_TU_CMR"}.get(_s["name"], "C04_TU_REST")
RH = {"SPEC_R_bad_txnmrklroot": reason_hash("bad-txnmrklroot"), "SPEC_R_bad_txns_duplicate": reason_hash("bad-txns-duplicate")}
PLAN = {
    "id": "C04", "level": "proof", "slices": SLICES, "spec": "spec.c", "default_solver": ["cadical", "z3"], "cc_defines": [f"{k}={v:#x}u" for k, v in RH.items()],
    "harnesses": [
        {"name": "h_ComputeMerkleRoot", "enforce": "ComputeMerkleRoot", "loop_contracts": True, "defines": ["C04_TU_CMR"], "twins": [{"define": "TWIN_ODD_PAIRS", "expect": "postcondition|loop_invariant"}], "timeout": 600},
        {"name": "h_BlockMerkleRoot", "enforce": "BlockMerkleRoot", "loop_contracts": True, "defines": ["C04_TU_BMR"], "twins": [{"define": "TWIN_LEAF", "expect": "assertion"}]},
        {"name": "h_CheckMerkleRoot", "enforce": "CheckMerkleRoot", "defines": ["C04_TU_REST"], "twins": [{"define": "TWIN_CACHE", "expect": "postcondition"}]},
        {"name": "h_IsBlockMutated", "enforce": "IsBlockMutated", "replace": ["CheckMerkleRoot"], "defines": ["C04_TU_REST"], "twins": [{"define": "TWIN_64", "expect": "postcondition|assertion"}]},
        {"name": "h_InvalidBlockFound", "enforce": "Chainstate_InvalidBlockFound", "defines": ["C04_TU_REST"], "twins": [{"define": "TWIN_BLAME", "expect": "postcondition"}]},
    ],
    "native": {"src": "replay.cpp", "c_src": "native_slices.c", "repo_sources": ["src/consensus/merkle.cpp"], "diff_n_quick": 3000, "diff_n_thorough": 200000,
               "libs": ["libbitcoin_node.a", "libbitcoin_common.a", "libbitcoin_consensus.a", "libbitcoin_util.a", "libbitcoin_clientversion.a", "libbitcoin_crypto.a", "/repo/_build/src/secp256k1/lib/libsecp256k1.a"]},
    "not_covered": ["the merkle root's VALUE (SHA256D64 is a stub that writes arbitrary bytes under contract; natively the real function is compared with an independent recursive reference)",
                    "the witness commitment (CheckWitnessMalleation is a stub with an arbitrary verdict), TransactionMerklePath, and delivery-order histories (that a mutated variant received first leaves the genuine block acceptable is proved only as 'InvalidBlockFound does not touch the index entry on BLOCK_MUTATED')"],
    "assumptions": ["std::vector<uint256> is a HashVec (data, size, ghost capacity > size: push_back of one element may grow it); the by-value parameter of ComputeMerkleRoot is the callee's own copy",
                    "SHA256D64 over a level is a stub that overwrites the first size/2 entries with arbitrary values and asserts it is asked for exactly size/2 blocks of an even-sized level whose last element was duplicated if the level was odd",
                    "transaction ids, IsCoinBase and the stripped sizes of the block's transactions are ghost functions of the position; BlockMerkleRoot inside CheckMerkleRoot and CheckWitnessMalleation are stubs with arbitrary results"],
    "manifest": {
        "category": "proof",
        "text": "partial (mutation logic and blame): ComputeMerkleRoot reports mutated exactly when some level of the tree has an equal pair at an even position (both directions, for any list length, with odd levels completed by duplicating the last entry before hashing), writes *mutated only if non-null, returns zero for the empty list and the single id for a one-element list; "
                "BlockMerkleRoot hands ComputeMerkleRoot exactly the block's transaction ids in order; CheckMerkleRoot accepts iff the root equals the header's and no mutation was seen (else BLOCK_MUTATED with bad-txnmrklroot / bad-txns-duplicate), caching only success; "
                "IsBlockMutated is true iff the merkle check fails, or (no leading coinbase) some transaction has stripped size 64, or the witness check fails; InvalidBlockFound leaves the index entry untouched when the result is BLOCK_MUTATED and sets BLOCK_FAILED_VALID otherwise.",
        "note": "Not covered: hash values (natively compared against a reference), witness commitment, merkle paths, delivery histories. Trusted: extraction rules, ghost accessors.",
        "technique": "CBMC function contracts with loop contracts (ghost pinned pair / witness recording) on extracted consensus/merkle.cpp and validation.cpp functions",
    },
    "trusted_base": ["specs/C04/spec.c", "include/verif_tx.h"],
}
