// C04 native harness: the real ComputeMerkleRoot / BlockMerkleRoot (consensus/merkle.cpp of the working tree) vs the extracted C text vs an independent recursive reference;
// CheckMerkleRoot, IsBlockMutated and Chainstate::InvalidBlockFound are compiled from their original text (extracted each run) against the real CBlock / BlockValidationState.
#include <consensus/merkle.h>
#include <consensus/validation.h>
#include <crypto/sha256.h>
#include <hash.h>
#include <primitives/block.h>
#include <primitives/transaction.h>
#include <serialize.h>
#include <algorithm>
#include <memory>
#include <script/script.h>
#include "replay_util.h"
#define BAD(...) do { rv::g_stats.real_violations++; if (rv::g_stats.real_violations <= 8) { std::printf("REAL-VIOLATION " __VA_ARGS__); std::printf("\n"); } } while (0)
#define DIS(...) do { rv::g_stats.disagreements++; if (rv::g_stats.disagreements <= 8) { std::printf("DISAGREE " __VA_ARGS__); std::printf("\n"); } } while (0)
struct xU256 { uint64_t w[4]; };
struct xHashVec { xU256* data; size_t size, cap; };
struct xOut { size_t size; unsigned char b[6]; };
struct xWit { size_t n, size0; };
struct xBlock { size_t vtx_size; xU256 hashMerkleRoot; bool m_checked_merkle_root; bool m_checked_witness_commitment; size_t cb_vin_size; size_t cb_vout_size; const xOut* cb_vout; xWit cb_witness;
                const xU256* txids; const unsigned* stripped_sizes; bool first_is_coinbase; const bool* haswit; const bool* commit_mismatch_at; };
struct xState { int mode_invalid; int result; uint32_t reason; };
struct xIndex { unsigned nStatus; int nHeight; };
extern "C" {
void real_SHA256D64(unsigned char* out, const unsigned char* in, size_t blocks) { SHA256D64(out, in, blocks); }
int xc_GetWitnessCommitmentIndex(const xBlock*); bool xc_CheckWitnessMalleation(xBlock*, bool, xState*);
xU256 xc_ComputeMerkleRoot(xHashVec*, bool*); xU256 xc_BlockMerkleRoot(const xBlock*, bool*); bool xc_CheckMerkleRoot(xBlock*, xState*); bool xc_IsBlockMutated(xBlock*, bool); void xc_Chainstate_InvalidBlockFound(xIndex*, const xState*);
extern xIndex* g_dirty; extern xIndex* g_erased; extern xIndex* g_icf; int xc_block_mutated_value(void); unsigned xc_block_failed_valid(void);
}
static uint256 to_u(const xU256& x) { uint256 u; memcpy(u.begin(), &x, 32); return u; }
static xU256 from_u(const uint256& u) { xU256 x; memcpy(&x, u.begin(), 32); return x; }
// reference: the Bitcoin merkle root by recursion over levels, mutation = an equal pair at an even position of some level (before the odd-level duplication)
static uint256 ref_root(std::vector<uint256> v, bool& mut) { mut = false; if (v.empty()) return uint256(); while (v.size() > 1) { for (size_t i = 0; i + 1 < v.size(); i += 2) if (v[i] == v[i + 1]) mut = true; if (v.size() & 1) v.push_back(v.back()); std::vector<uint256> n; for (size_t i = 0; i < v.size(); i += 2) { uint256 h; CHash256().Write(v[i]).Write(v[i + 1]).Finalize(h); n.push_back(h); } v = n; } return v[0]; }

// ---- original text of the static / member functions, against the real types ----
#include <tinyformat.h>
#include <cassert>
#include "orig_CheckWitnessMalleation.inc"
#undef LogDebug
#define LogDebug(...) ((void)0)
namespace BCLog { }
#include "orig_CheckMerkleRoot.inc"
#include "orig_IsBlockMutated.inc"
namespace standin {
struct CBlockIndex { uint32_t nStatus{0}; int nHeight{0}; };
enum : uint32_t { BLOCK_FAILED_VALID = 32 };
struct Blockman { struct S { std::vector<CBlockIndex*> v; void insert(CBlockIndex* p) { v.push_back(p); } } m_dirty_blockindex; };
struct Chainstate { Blockman m_blockman; struct C { std::vector<CBlockIndex*> v; void erase(CBlockIndex* p) { v.push_back(p); } } setBlockIndexCandidates; std::vector<CBlockIndex*> icf; int cs_main;
    void InvalidChainFound(CBlockIndex* p) { icf.push_back(p); } void InvalidBlockFound(CBlockIndex* pindex, const BlockValidationState& state); };
#define AssertLockHeld(x) ((void)0)
#include "orig_InvalidBlockFound.inc"
}

static CTransactionRef mk_tx(rv::Rng& r, bool coinbase, size_t pad) { CMutableTransaction m; m.vin.resize(1); if (coinbase) m.vin[0].prevout.SetNull(); else m.vin[0].prevout = COutPoint(Txid::FromUint256(uint256{(uint8_t)(1 + r.below(200))}), (uint32_t)r.below(5)); m.vin[0].scriptSig = CScript() << std::vector<unsigned char>(2 + pad, 0x42); m.vout.resize(1); m.vout[0].nValue = (CAmount)r.below(1000); m.nLockTime = (uint32_t)r.next(); return MakeTransactionRef(m); }
int main(int argc, char** argv)
{
    auto a = rv::parse(argc, argv); rv::Rng r(a.seed); uint64_t n = a.diff ? a.n : 3000;
    if (xc_block_mutated_value() != (int)BlockValidationResult::BLOCK_MUTATED || xc_block_failed_valid() != 32) DIS("extracted constants");
    for (uint64_t it = 0; it < n; it++) {
        // --- hash lists with duplication patterns
        size_t len = r.below(8) ? r.below(20) : r.below(300); std::vector<uint256> v(len); for (auto& h : v) { h = uint256{(uint8_t)r.below(256)}; if (r.below(2)) *(h.begin() + 5) = (unsigned char)r.next(); }
        int pat = (int)r.below(6);
        if (pat == 0 && len >= 2) { size_t k = r.below(len - 1); v[k + 1] = v[k]; }                         // adjacent equal pair (even or odd position)
        if (pat == 1 && len >= 1) { size_t tail = 1 + r.below(std::min<size_t>(len, 8)); for (size_t k = 0; k < tail && v.size() < 400; k++) v.push_back(v[len - tail + k]); }   // CVE-2012-2459: repeated tail
        if (pat == 2 && len >= 4) { size_t k = r.below(len / 4) * 4; if (k + 3 < len) { v[k + 2] = v[k]; v[k + 3] = v[k + 1]; } }   // equal pair one level up
        bool mr = false, mx = false, mw = false; uint256 real = ComputeMerkleRoot(v, &mr); uint256 want = ref_root(v, mw);
        std::vector<xU256> xv(v.size() + 2); for (size_t k = 0; k < v.size(); k++) xv[k] = from_u(v[k]); xHashVec hv{xv.data(), v.size(), v.size() + 2}; uint256 xr = to_u(xc_ComputeMerkleRoot(&hv, &mx)); rv::g_stats.inputs++;
        if (xr != real || mx != mr) DIS("ComputeMerkleRoot on %zu hashes (pattern %d)", v.size(), pat);
        if (real != want) BAD("ComputeMerkleRoot on %zu hashes: root differs from the level-by-level double-SHA256 reference", v.size());
        if (mr != mw) BAD("ComputeMerkleRoot on %zu hashes (pattern %d): mutated=%d, but %s level has an equal pair at an even position", v.size(), pat, mr, mw ? "some" : "no");
        uint256 nomut = ComputeMerkleRoot(v, nullptr); if (nomut != real) BAD("ComputeMerkleRoot(mutated=nullptr) returns a different root");
        // --- blocks: coinbase with 0..2 commitment-shaped outputs, a coinbase witness of 0..2 items, other transactions with or without witness data
        CBlock b; size_t nt = r.below(10); bool cb = r.below(5) != 0; std::vector<unsigned> sizes;
        for (size_t k = 0; k < nt; k++) { auto t = mk_tx(r, cb && k == 0, r.below(4) == 0 ? 1 : r.below(30)); b.vtx.push_back(t); }
        bool any_other_wit = false; for (size_t k = 1; k < b.vtx.size(); k++) if (r.below(6) == 0) { CMutableTransaction m(*b.vtx[k]); m.vin[0].scriptWitness.stack = {{0x01}}; b.vtx[k] = MakeTransactionRef(m); any_other_wit = true; }
        int wit_items = -1; size_t nonce_len = 32; int ncommit = 0; bool corrupt = false;
        if (!b.vtx.empty() && cb) {
            CMutableTransaction m(*b.vtx[0]); static const int WI[] = {1, 1, 1, 1, 0, 2, 3}; wit_items = WI[r.below(7)]; nonce_len = r.below(5) ? 32 : (r.below(2) ? 31 : 33); ncommit = (int)r.below(3); corrupt = r.below(5) == 0;
            m.vin[0].scriptWitness.stack.clear(); for (int k = 0; k < wit_items; k++) m.vin[0].scriptWitness.stack.push_back(std::vector<unsigned char>(k == 0 ? nonce_len : 1 + r.below(40), 0));
            for (int k = 0; k < ncommit; k++) { CTxOut o; o.nValue = 0; o.scriptPubKey.resize(38 + (r.below(4) == 0 ? 3 : 0)); static const unsigned char HDR[6] = {0x6a, 0x24, 0xaa, 0x21, 0xa9, 0xed}; memcpy(&o.scriptPubKey[0], HDR, 6); if (r.below(8) == 0) o.scriptPubKey[5] = 0xee; m.vout.push_back(o); if (r.below(2)) { CTxOut p; p.nValue = 1; p.scriptPubKey = CScript() << OP_TRUE; m.vout.push_back(p); } }
            b.vtx[0] = MakeTransactionRef(m);
            // fill the LAST commitment-shaped output with the correct commitment for this block (BIP141), unless this case corrupts it
            int cp = GetWitnessCommitmentIndex(b);
            if (cp >= 0 && !m.vin[0].scriptWitness.stack.empty() && m.vin[0].scriptWitness.stack[0].size() == 32) { uint256 wr = BlockWitnessMerkleRoot(b); CHash256().Write(wr).Write(m.vin[0].scriptWitness.stack[0]).Finalize(wr); memcpy(&m.vout[cp].scriptPubKey[6], wr.begin(), 32); if (corrupt) m.vout[cp].scriptPubKey[10] ^= 1; b.vtx[0] = MakeTransactionRef(m); }
        }
        if (nt >= 2 && r.below(5) == 0) { b.vtx.push_back(b.vtx.back()); }                               // duplicated last transaction
        std::vector<uint256> ids; for (auto& t : b.vtx) { ids.push_back(t->GetHash().ToUint256()); sizes.push_back((unsigned)GetSerializeSize(TX_NO_WITNESS(*t))); }
        bool bm = false, wm = false; uint256 broot = BlockMerkleRoot(b, &bm); uint256 wroot = ref_root(ids, wm); rv::g_stats.inputs++;
        if (broot != wroot || bm != wm) BAD("BlockMerkleRoot of %zu transactions: root / mutated flag differ from the reference over exactly the block's txids", b.vtx.size());
        bool header_ok = r.below(5) != 0; b.hashMerkleRoot = header_ok ? broot : uint256{7}; bool cached = r.below(8) == 0; b.m_checked_merkle_root = cached; bool cwr = r.below(4) != 0;
        // reference for the witness rules (BIP141)
        int ref_cp = -1; std::vector<xOut> xouts; std::vector<char> mism_c; if (!b.vtx.empty()) for (size_t o = 0; o < b.vtx[0]->vout.size(); o++) { const CScript& sp = b.vtx[0]->vout[o].scriptPubKey; xOut xo{sp.size(), {0, 0, 0, 0, 0, 0}}; for (size_t k = 0; k < 6 && k < sp.size(); k++) xo.b[k] = sp[k]; xouts.push_back(xo);
            bool shaped = sp.size() >= 38 && sp[0] == 0x6a && sp[1] == 0x24 && sp[2] == 0xaa && sp[3] == 0x21 && sp[4] == 0xa9 && sp[5] == 0xed; if (shaped) ref_cp = (int)o; }
        bool any_wit = false; std::vector<char> hw; for (auto& t : b.vtx) { hw.push_back(t->HasWitness()); any_wit |= t->HasWitness(); }
        const auto* cbw = b.vtx.empty() || b.vtx[0]->vin.empty() ? nullptr : &b.vtx[0]->vin[0].scriptWitness.stack;
        bool nonce_ok = cbw && cbw->size() == 1 && (*cbw)[0].size() == 32; bool commit_ok = false;
        if (ref_cp >= 0 && cbw && !cbw->empty() && (*cbw)[0].size() == 32) { uint256 wr = BlockWitnessMerkleRoot(b); CHash256().Write(wr).Write((*cbw)[0]).Finalize(wr); commit_ok = memcmp(wr.begin(), &b.vtx[0]->vout[ref_cp].scriptPubKey[6], 32) == 0; }
        bool want_wit_ok = (cwr && ref_cp >= 0) ? (nonce_ok && commit_ok) : !any_wit;
        std::vector<xU256> xids; for (auto& i : ids) xids.push_back(from_u(i)); std::unique_ptr<bool[]> hwb(new bool[hw.size() + 1]); for (size_t k = 0; k < hw.size(); k++) hwb[k] = hw[k]; std::unique_ptr<bool[]> mm(new bool[xouts.size() + 1]); for (size_t k = 0; k < xouts.size(); k++) mm[k] = !commit_ok;
        xBlock xb{b.vtx.size(), from_u(b.hashMerkleRoot), cached, false, b.vtx.empty() ? 0 : b.vtx[0]->vin.size(), xouts.size(), xouts.data(), {cbw ? cbw->size() : 0, cbw && !cbw->empty() ? (*cbw)[0].size() : 0}, xids.data(), sizes.data(), !b.vtx.empty() && b.vtx[0]->IsCoinBase(), hwb.get(), mm.get()};
        { CBlock b2 = b; BlockValidationState st; bool ok = CheckMerkleRoot(b2, st); xBlock x2 = xb; xState xs{0, 0, 0}; bool xok = xc_CheckMerkleRoot(&x2, &xs); rv::g_stats.inputs++;
          bool wok = cached || (header_ok && !wm);
          if (ok != xok || b2.m_checked_merkle_root != x2.m_checked_merkle_root || (!ok && (int)st.GetResult() != xs.result)) DIS("CheckMerkleRoot");
          if (ok != wok) BAD("CheckMerkleRoot on %zu transactions (header root %s, duplicate pattern %d, cached %d) = %d", b.vtx.size(), header_ok ? "matches" : "differs", wm, cached, ok);
          if (!ok && (st.GetResult() != BlockValidationResult::BLOCK_MUTATED || st.GetRejectReason() != (header_ok ? "bad-txns-duplicate" : "bad-txnmrklroot"))) BAD("CheckMerkleRoot failure reported as %s", st.GetRejectReason().c_str());
          if (b2.m_checked_merkle_root != (cached || ok)) BAD("CheckMerkleRoot: merkle cache bit %d after result %d", b2.m_checked_merkle_root, ok); }
        if (!b.vtx.empty() && b.vtx[0]->IsCoinBase()) { CBlock b2 = b; BlockValidationState st; bool ok = CheckWitnessMalleation(b2, cwr, st); xBlock x2 = xb; xState xs{0, 0, 0}; bool xok = xc_CheckWitnessMalleation(&x2, cwr, &xs); int xcp = xc_GetWitnessCommitmentIndex(&xb); rv::g_stats.inputs++;
          if (ok != xok || xcp != GetWitnessCommitmentIndex(b) || b2.m_checked_witness_commitment != x2.m_checked_witness_commitment) DIS("CheckWitnessMalleation / GetWitnessCommitmentIndex");
          if (GetWitnessCommitmentIndex(b) != ref_cp) BAD("GetWitnessCommitmentIndex = %d, BIP141 (last output of >= 38 bytes starting 6a24aa21a9ed) says %d", GetWitnessCommitmentIndex(b), ref_cp);
          if (ok != want_wit_ok) BAD("CheckWitnessMalleation (expect commitment %d, commitment output %d, coinbase witness of %zu items, first %zu bytes, commitment %s, other witness data %d) = %d, BIP141 says %d", cwr, ref_cp, cbw ? cbw->size() : 0, cbw && !cbw->empty() ? (*cbw)[0].size() : 0, commit_ok ? "matches" : "differs", any_other_wit, ok, want_wit_ok);
          if (!ok && st.GetResult() != BlockValidationResult::BLOCK_MUTATED) BAD("CheckWitnessMalleation failure is not reported as BLOCK_MUTATED"); }
        { CBlock b2 = b; bool mu = IsBlockMutated(b2, cwr); xBlock x2 = xb; bool xmu = xc_IsBlockMutated(&x2, cwr); rv::g_stats.inputs++;
          bool merkle_ok = cached || (header_ok && !wm); bool nocb = b.vtx.empty() || !b.vtx[0]->IsCoinBase(); bool any64 = std::find(sizes.begin(), sizes.end(), 64u) != sizes.end();
          bool want_mu = !merkle_ok || (nocb ? any64 : !want_wit_ok);
          if (mu != xmu) DIS("IsBlockMutated"); if (mu != want_mu) BAD("IsBlockMutated on %zu transactions (merkle ok %d, leading coinbase %d, a 64-byte tx %d, witness rules satisfied %d) = %d", b.vtx.size(), merkle_ok, !nocb, any64, want_wit_ok, mu); }
        { static const BlockValidationResult RS[] = {BlockValidationResult::BLOCK_CONSENSUS, BlockValidationResult::BLOCK_MUTATED, BlockValidationResult::BLOCK_INVALID_HEADER, BlockValidationResult::BLOCK_CACHED_INVALID, BlockValidationResult::BLOCK_TIME_FUTURE};
          BlockValidationResult res = RS[r.below(5)]; BlockValidationState st; st.Invalid(res, "x"); standin::Chainstate cs; standin::CBlockIndex bi; bi.nStatus = (uint32_t)r.below(256) & ~32u; bi.nHeight = r.below(2) ? (int)r.below(1000) : INT32_MAX - (int)r.below(3); uint32_t before = bi.nStatus; cs.InvalidBlockFound(&bi, st);
          xIndex xi{before, bi.nHeight}; xState xs{1, (int)res, 1}; g_dirty = g_erased = g_icf = nullptr; xc_Chainstate_InvalidBlockFound(&xi, &xs); rv::g_stats.inputs++;
          if (xi.nStatus != bi.nStatus || (g_icf != nullptr) != !cs.icf.empty()) DIS("InvalidBlockFound");
          bool mutated = res == BlockValidationResult::BLOCK_MUTATED;
          if (mutated ? (bi.nStatus != before || !cs.icf.empty() || !cs.setBlockIndexCandidates.v.empty() || !cs.m_blockman.m_dirty_blockindex.v.empty()) : (bi.nStatus != (before | 32u) || cs.icf.size() != 1 || cs.setBlockIndexCandidates.v.size() != 1))
              BAD("InvalidBlockFound(result %d): index status %u -> %u, InvalidChainFound called %zu times -- a mutated block must not taint the index entry, any other failure must", (int)res, before, bi.nStatus, cs.icf.size()); }
    }
    rv::report();
    return rv::g_stats.real_violations ? 1 : (rv::g_stats.disagreements ? 3 : 0);
}
