/* C04: merkle-root mutation logic and who gets blamed.  Contracts over the text extracted from consensus/merkle.cpp and validation.cpp. */
#include "verif_tx.h"
#ifdef VERIF_CBMC
#include <stdlib.h>
#endif
#define C04_CONSTS
#include "slices.h"       /* first pass: BlockValidationResult (extracted enum), BLOCK_FAILED_VALID */
#undef C04_CONSTS
bool nondet_bool(void); size_t nondet_size_t(void); uint64_t nondet_u64(void);

typedef struct { uint256_c* data; size_t size, cap; } HashVec;                               /* std::vector<uint256> */
typedef struct { size_t size; unsigned char b[6]; } OutScriptView;                            /* a coinbase output's scriptPubKey: its size and first six bytes */
typedef struct { size_t n; size_t size0; } WitStackView;                                     /* the coinbase input's witness stack: number of items, size of the first */
typedef struct { size_t vtx_size; uint256_c hashMerkleRoot; bool m_checked_merkle_root; bool m_checked_witness_commitment; size_t cb_vin_size; size_t cb_vout_size; const OutScriptView* cb_vout; WitStackView cb_witness; } CBlockView;
typedef struct { unsigned nStatus; int nHeight; } BlockIndexView;
typedef struct { int mode_invalid; int result; uint32_t reason; } BlockValidationState;      /* VERIF_STUB of ValidationState<BlockValidationResult> */
static inline bool BlockState_Invalid(BlockValidationState* state, int result, uint32_t reason) { state->result = result; state->reason = reason; state->mode_invalid = 1; return 0; }
#define U256_EQ(a, b) ((a).w[0] == (b).w[0] && (a).w[1] == (b).w[1] && (a).w[2] == (b).w[2] && (a).w[3] == (b).w[3])
static inline bool uint256_eq(const uint256_c* a, const uint256_c* b) { return U256_EQ(*a, *b); }   /* VERIF_STUB base_blob::operator== (memcmp over 32 bytes) */
#define UINT256_ZERO ((uint256_c){{0, 0, 0, 0}})
#define SPEC_MAXLEN 0x8000u      /* more entries than a block of 4,000,000 weight units can hold transactions (60 stripped bytes minimum each: 16,666) */

/* ============================ ComputeMerkleRoot ============================ */
#ifdef C04_TU_CMR
size_t g_L, g_P;                       /* pinned level and position: arbitrary, fixed before the call */
size_t g_lvl;                          /* levels started so far */
bool g_pin_valid, g_pin_equal;         /* the pinned level was reached with g_P even and g_P + 1 inside it; the pair there was equal */
bool g_in_pinned_level, g_level_odd; size_t g_level_size;
bool g_wit;                            /* some visited even position had an equal pair */
bool g_hashed;                         /* SHA256D64 ran at least once */
#ifdef TWIN_ODD_PAIRS
#define PIN_POS_OK(h) (g_P + 1 < (h)->size)
#else
#define PIN_POS_OK(h) ((g_P & 1) == 0 && g_P + 1 < (h)->size)
#endif
#define GHOST_LEVEL_STEP(h) do { g_level_size = (h)->size; g_level_odd = ((h)->size & 1) != 0; g_in_pinned_level = (g_lvl == g_L); \
    if (g_in_pinned_level && PIN_POS_OK(h)) { g_pin_valid = 1; g_pin_equal = U256_EQ((h)->data[g_P], (h)->data[g_P + 1]); } if (g_lvl < SIZE_MAX) g_lvl = g_lvl + 1; } while (0)   /* saturating: the pinned level (g_L < SIZE_MAX) is entered at most once */
#define GHOST_PAIR_STEP(h, pos) do { if (((pos) & 1) == 0 && (pos) + 1 < (h)->size && U256_EQ((h)->data[pos], (h)->data[(pos) + 1])) g_wit = 1; } while (0)
static inline void HashVec_push_back(HashVec* v, uint256_c x) { __CPROVER_assert(v->size < v->cap, "push_back within the ghost capacity"); v->data[v->size] = x; v->size = v->size + 1; }
static inline void HashVec_shrink(HashVec* v, size_t n) { __CPROVER_assert(n <= v->size, "resize() here only shrinks"); v->size = n; }
static inline void SHA256D64_level(HashVec* v, size_t blocks)          /* VERIF_STUB: SHA256D64(out = in = level, blocks): arbitrary new values for the first `blocks` entries */
{
    __CPROVER_assert(blocks * 2 == v->size && blocks >= 1, "one level: an even number of entries, size/2 blocks");
    __CPROVER_assert(g_level_odd ? (v->size == g_level_size + 1 && U256_EQ(v->data[v->size - 1], v->data[v->size - 2])) : v->size == g_level_size, "an odd level is completed by a copy of its last entry, an even level is hashed as it is");
#ifdef VERIF_CBMC
    g_hashed = 1;
    __CPROVER_havoc_object(v->data);      /* entries beyond the first `blocks` are dropped by the resize that follows */
#endif
}
#define PIN_DONE_OUTER ((g_pin_valid && mutated != NULL) ==> (g_pin_equal ==> mutation))
#define LOOP_LEVELS \
    __CPROVER_assigns(hashes->size, __CPROVER_object_whole(hashes->data), mutation, g_lvl, g_pin_valid, g_pin_equal, g_in_pinned_level, g_level_odd, g_level_size, g_wit, g_hashed) \
    __CPROVER_loop_invariant(hashes->size < hashes->cap) \
    __CPROVER_loop_invariant(__CPROVER_loop_entry(hashes->size) >= 1 ==> hashes->size >= 1) \
    __CPROVER_loop_invariant(g_hashed || hashes->size == __CPROVER_loop_entry(hashes->size)) \
    __CPROVER_loop_invariant(mutated == NULL ==> !mutation) \
    __CPROVER_loop_invariant(mutation ==> g_wit) \
    __CPROVER_loop_invariant(g_pin_valid ==> g_lvl > g_L) \
    __CPROVER_loop_invariant(PIN_DONE_OUTER) \
    __CPROVER_decreases(hashes->size)
#define LOOP_PAIRS \
    __CPROVER_assigns(pos, mutation, g_wit) \
    __CPROVER_loop_invariant((pos & 1) == 0) \
    __CPROVER_loop_invariant(pos <= hashes->size) \
    __CPROVER_loop_invariant(mutation ==> g_wit) \
    __CPROVER_loop_invariant((g_pin_valid && (!g_in_pinned_level || g_P < pos)) ==> (g_pin_equal ==> mutation)) \
    __CPROVER_decreases(hashes->size - pos)
VERIF_REACH_DECL(ComputeMerkleRoot)
uint256_c ComputeMerkleRoot(HashVec* hashes, bool* mutated)
__CPROVER_requires(__CPROVER_is_fresh(hashes, sizeof(HashVec)) && hashes->cap <= SPEC_MAXLEN && hashes->size < hashes->cap && __CPROVER_is_fresh(hashes->data, sizeof(uint256_c) * hashes->cap))
__CPROVER_requires(mutated == NULL || __CPROVER_is_fresh(mutated, sizeof(bool)))
__CPROVER_requires(g_lvl == 0 && g_L < SIZE_MAX && !g_pin_valid && !g_wit && !g_hashed)
/* mutated <=> some level of the tree has an equal pair at an even position: (=>) a witness was seen; (<=) whatever level / position is pinned */
__CPROVER_ensures(mutated != NULL ==> ((*mutated != 0) ==> g_wit))
__CPROVER_ensures(mutated != NULL ==> ((g_pin_valid && g_pin_equal) ==> (*mutated != 0)))
__CPROVER_ensures(__CPROVER_old(hashes->size) == 0 ==> (U256_EQ(__CPROVER_return_value, UINT256_ZERO) && !g_hashed && (mutated != NULL ==> *mutated == 0)))
__CPROVER_ensures(__CPROVER_old(hashes->size) == 1 ==> (U256_EQ(__CPROVER_return_value, __CPROVER_old(hashes->data[0])) && !g_hashed && (mutated != NULL ==> *mutated == 0)))
__CPROVER_ensures(__CPROVER_old(hashes->size) >= 1 ==> (hashes->size == 1 && U256_EQ(__CPROVER_return_value, hashes->data[0])))
__CPROVER_ensures(__CPROVER_old(hashes->size) >= 2 ==> g_hashed)
VERIF_REACH_ENSURES(ComputeMerkleRoot, mutated != NULL && *mutated && g_lvl >= 3 && g_pin_valid && !g_pin_equal)
VERIF_REACH_ENSURES(ComputeMerkleRoot, mutated != NULL && !*mutated && g_pin_valid && g_L == 2 && g_P == 4)
VERIF_REACH_ENSURES(ComputeMerkleRoot, mutated == NULL && g_lvl >= 2)
__CPROVER_assigns(hashes->size, __CPROVER_object_whole(hashes->data), g_lvl, g_pin_valid, g_pin_equal, g_in_pinned_level, g_level_odd, g_level_size, g_wit, g_hashed; mutated != NULL: *mutated);
#define C04_PASS_CMR
#endif

/* ============================ BlockMerkleRoot ============================ */
#ifdef C04_TU_BMR
size_t g_s; uint256_c g_s_hash;        /* pinned transaction position and its id */
uint256_c g_root; bool g_mutated_out; bool g_cut_called; const CBlockView* g_block;
static inline uint256_c Tx_GetHash(const CBlockView* b, size_t s) { __CPROVER_assert(s < b->vtx_size, "vtx[s] exists"); if (s == g_s) return g_s_hash; uint256_c h; h.w[0] = nondet_u64(); h.w[1] = nondet_u64(); h.w[2] = nondet_u64(); h.w[3] = nondet_u64(); return h; }
static inline HashVec HashVec_new(void) { HashVec v = {NULL, 0, 0}; return v; }
static inline void HashVec_reserve(HashVec* v, size_t n) { v->data = malloc(sizeof(uint256_c) * (n > 0 ? n : 1)); __CPROVER_assume(v->data != NULL); v->cap = n; }   /* VERIF_STUB std::vector::reserve on an empty vector */
static inline void HashVec_push_back(HashVec* v, uint256_c x) { __CPROVER_assert(v->size < v->cap, "push_back within the reserved capacity (no reallocation)"); v->data[v->size] = x; v->size = v->size + 1; }
static inline uint256_c ComputeMerkleRoot_cut(HashVec* leaves, bool* mutated)        /* cut point: what ComputeMerkleRoot is given */
{
#ifdef TWIN_LEAF
    __CPROVER_assert(leaves->size == g_block->vtx_size + 1, "twin: one leaf too many");
#else
    __CPROVER_assert(leaves->size == g_block->vtx_size, "one leaf per transaction of the block");
#endif
    __CPROVER_assert(g_s < leaves->size ==> U256_EQ(leaves->data[g_s], g_s_hash), "leaf s is the id of transaction s (any s)");
    __CPROVER_assert(leaves->cap >= leaves->size + (leaves->size & 1), "capacity reserved for the duplicated last entry of an odd first level");
    g_cut_called = 1; if (mutated) *mutated = g_mutated_out; return g_root;
}
#define LOOP_LEAVES \
    __CPROVER_assigns(s, leaves_v.size, __CPROVER_object_whole(leaves_v.data)) \
    __CPROVER_loop_invariant(s <= block->vtx_size && leaves_v.size == s && leaves_v.cap == ((block->vtx_size + 1) & ~(size_t)1) && (g_s < s ==> U256_EQ(leaves_v.data[g_s], g_s_hash))) \
    __CPROVER_decreases(block->vtx_size - s)
uint256_c BlockMerkleRoot(const CBlockView* block, bool* mutated)
__CPROVER_requires(__CPROVER_is_fresh(block, sizeof(CBlockView)) && block->vtx_size <= SPEC_MAXLEN && g_block == block && !g_cut_called)
__CPROVER_requires(mutated == NULL || __CPROVER_is_fresh(mutated, sizeof(bool)))
__CPROVER_ensures(g_cut_called && U256_EQ(__CPROVER_return_value, g_root) && (mutated != NULL ==> (*mutated != 0) == (g_mutated_out != 0)))
__CPROVER_assigns(g_cut_called; mutated != NULL: *mutated);
#endif

/* ============================ CheckMerkleRoot / IsBlockMutated / InvalidBlockFound ============================ */
#ifdef C04_TU_REST
uint256_c g_root; bool g_mutated_in; bool g_bmr_called;
bool g_first_is_coinbase, g_any64, g_witness_ok; bool g_any_called, g_wm_called, g_wm_flag;
static inline uint256_c BlockMerkleRoot_stub(const CBlockView* b, bool* mutated) { g_bmr_called = 1; *mutated = g_mutated_in; return g_root; }
#define ROOT_OK(b) (U256_EQ((b)->hashMerkleRoot, g_root))
VERIF_REACH_DECL(CheckMerkleRoot)
bool CheckMerkleRoot(CBlockView* block, BlockValidationState* state)
__CPROVER_requires(__CPROVER_is_fresh(block, sizeof(CBlockView)) && __CPROVER_is_fresh(state, sizeof(BlockValidationState)) && state->mode_invalid == 0 && block->m_checked_merkle_root <= 1 && g_mutated_in <= 1)
__CPROVER_ensures((__CPROVER_return_value != 0) == (__CPROVER_old(block->m_checked_merkle_root) || (ROOT_OK(block) && !g_mutated_in)))
__CPROVER_ensures((!__CPROVER_old(block->m_checked_merkle_root) && !ROOT_OK(block)) ==> (state->mode_invalid == 1 && state->result == BLOCK_MUTATED && state->reason == SPEC_R_bad_txnmrklroot))
__CPROVER_ensures((!__CPROVER_old(block->m_checked_merkle_root) && ROOT_OK(block) && g_mutated_in) ==> (state->mode_invalid == 1 && state->result == BLOCK_MUTATED && state->reason == SPEC_R_bad_txns_duplicate))
__CPROVER_ensures(__CPROVER_return_value ==> (state->mode_invalid == 0 && state->result == __CPROVER_old(state->result) && state->reason == __CPROVER_old(state->reason)))
#ifdef TWIN_CACHE
__CPROVER_ensures(block->m_checked_merkle_root != 0)
#else
__CPROVER_ensures((block->m_checked_merkle_root != 0) == (__CPROVER_return_value != 0))      /* the cache bit is set by success only, and never cleared */
#endif
VERIF_REACH_ENSURES(CheckMerkleRoot, !__CPROVER_return_value && state->reason == SPEC_R_bad_txns_duplicate)
VERIF_REACH_ENSURES(CheckMerkleRoot, __CPROVER_return_value && !__CPROVER_old(block->m_checked_merkle_root))
__CPROVER_assigns(block->m_checked_merkle_root, state->mode_invalid, state->result, state->reason, g_bmr_called);

static inline bool AnyTxStrippedSizeIs(const CBlockView* b, int n)
{
#ifdef TWIN_64
    __CPROVER_assert(n == 65, "twin: the ambiguous size is 65");
#else
    __CPROVER_assert(n == 64, "the ambiguous stripped size (inner merkle node) is 64 bytes");
#endif
    g_any_called = 1; return g_any64;
}
static inline bool Tx_IsCoinBase(const CBlockView* b, size_t i) { __CPROVER_assert(i == 0 && b->vtx_size > 0, "vtx[0] exists"); return g_first_is_coinbase; }
static inline bool CheckWitnessMalleation_stub(const CBlockView* b, bool check_witness_root, BlockValidationState* st) { g_wm_called = 1; g_wm_flag = check_witness_root; if (!g_witness_ok) BlockState_Invalid(st, BLOCK_MUTATED, 1); return g_witness_ok; }
#define MERKLE_OK (__CPROVER_old(block->m_checked_merkle_root) || (ROOT_OK(block) && !g_mutated_in))
#define NO_LEADING_COINBASE (block->vtx_size == 0 || !g_first_is_coinbase)
VERIF_REACH_DECL(IsBlockMutated)
bool IsBlockMutated(CBlockView* block, bool check_witness_root)
__CPROVER_requires(__CPROVER_is_fresh(block, sizeof(CBlockView)) && block->m_checked_merkle_root <= 1 && g_mutated_in <= 1 && g_any64 <= 1 && g_witness_ok <= 1 && g_first_is_coinbase <= 1 && check_witness_root <= 1 && !g_any_called && !g_wm_called)
__CPROVER_ensures((__CPROVER_return_value != 0) == (!MERKLE_OK || (NO_LEADING_COINBASE ? g_any64 : !g_witness_ok)))
__CPROVER_ensures((MERKLE_OK && !NO_LEADING_COINBASE) ==> (g_wm_called && g_wm_flag == check_witness_root && !g_any_called))
__CPROVER_ensures((MERKLE_OK && NO_LEADING_COINBASE) ==> (g_any_called && !g_wm_called))
VERIF_REACH_ENSURES(IsBlockMutated, __CPROVER_return_value && MERKLE_OK && NO_LEADING_COINBASE)
VERIF_REACH_ENSURES(IsBlockMutated, !__CPROVER_return_value && g_wm_called)
__CPROVER_assigns(block->m_checked_merkle_root, g_bmr_called, g_any_called, g_wm_called, g_wm_flag);

BlockIndexView* g_dirty; BlockIndexView* g_erased; BlockIndexView* g_icf;
static inline void DirtyBlockIndex_insert(BlockIndexView* p) { g_dirty = p; }
static inline void Candidates_erase(BlockIndexView* p) { g_erased = p; }
static inline void InvalidChainFound(BlockIndexView* p) { g_icf = p; }
VERIF_REACH_DECL(Chainstate_InvalidBlockFound)
void Chainstate_InvalidBlockFound(BlockIndexView* pindex, const BlockValidationState* state)
__CPROVER_requires(__CPROVER_is_fresh(pindex, sizeof(BlockIndexView)) && __CPROVER_is_fresh(state, sizeof(BlockValidationState)) && g_dirty == NULL && g_erased == NULL && g_icf == NULL)
/* a mutated variant says nothing about the header's genuine block: the index entry is left alone */
#ifdef TWIN_BLAME
__CPROVER_ensures((pindex->nStatus & BLOCK_FAILED_VALID) != 0)
#endif
__CPROVER_ensures(state->result == BLOCK_MUTATED ==> (pindex->nStatus == __CPROVER_old(pindex->nStatus) && g_dirty == NULL && g_erased == NULL && g_icf == NULL))
__CPROVER_ensures(state->result != BLOCK_MUTATED ==> (pindex->nStatus == (__CPROVER_old(pindex->nStatus) | BLOCK_FAILED_VALID) && g_dirty == pindex && g_erased == pindex && g_icf == pindex))
VERIF_REACH_ENSURES(Chainstate_InvalidBlockFound, state->result == BLOCK_MUTATED)
VERIF_REACH_ENSURES(Chainstate_InvalidBlockFound, state->result == BLOCK_CONSENSUS && g_icf == pindex)
__CPROVER_assigns(pindex->nStatus, g_dirty, g_erased, g_icf);
#endif

/* ============================ GetWitnessCommitmentIndex / CheckWitnessMalleation ============================ */
#ifdef C04_TU_WIT
#define C04_F_WIT
size_t g_o;                               /* arbitrary output index */
#define MATCH(k) (block->cb_vout[k].size >= 38 && block->cb_vout[k].b[0] == 0x6a && block->cb_vout[k].b[1] == 0x24 && block->cb_vout[k].b[2] == 0xaa && block->cb_vout[k].b[3] == 0x21 && block->cb_vout[k].b[4] == 0xa9 && block->cb_vout[k].b[5] == 0xed)
#define LOOP_OUTPUTS \
    __CPROVER_assigns(o, commitpos) \
    __CPROVER_loop_invariant(o <= block->cb_vout_size && commitpos >= -1 && (commitpos >= 0 ==> ((size_t)commitpos < o && MATCH((size_t)commitpos)))) \
    __CPROVER_loop_invariant((g_o < o && (commitpos < 0 || g_o > (size_t)commitpos)) ==> !MATCH(g_o)) \
    __CPROVER_decreases(block->cb_vout_size - o)
/* BIP141: the commitment is the LAST coinbase output of at least 38 bytes starting 6a 24 aa 21 a9 ed */
VERIF_REACH_DECL(GetWitnessCommitmentIndex)
int GetWitnessCommitmentIndex(const CBlockView* block)
__CPROVER_requires(__CPROVER_is_fresh(block, sizeof(CBlockView)) && block->cb_vout_size <= SPEC_MAXLEN && (block->vtx_size > 0 ==> __CPROVER_is_fresh(block->cb_vout, sizeof(OutScriptView) * (block->cb_vout_size > 0 ? block->cb_vout_size : 1))))
__CPROVER_ensures(__CPROVER_return_value >= -1 && (block->vtx_size == 0 ==> __CPROVER_return_value == -1))
__CPROVER_ensures(__CPROVER_return_value >= 0 ==> ((size_t)__CPROVER_return_value < block->cb_vout_size && MATCH((size_t)__CPROVER_return_value)))
#ifdef TWIN_FIRST
__CPROVER_ensures((block->vtx_size > 0 && g_o < block->cb_vout_size && MATCH(g_o)) ==> __CPROVER_return_value <= (int)g_o)
#else
__CPROVER_ensures((block->vtx_size > 0 && g_o < block->cb_vout_size && MATCH(g_o)) ==> __CPROVER_return_value >= (int)g_o)
#endif
VERIF_REACH_ENSURES(GetWitnessCommitmentIndex, __CPROVER_return_value == 3 && g_o == 1 && MATCH(g_o))
__CPROVER_assigns();

int g_commitpos; bool g_commit_mismatch; bool g_cmp_called; int g_cmp_pos;
size_t g_t; bool g_t_haswit;              /* arbitrary transaction index and whether that transaction carries witness data */
size_t g_w; bool g_w_haswit;              /* last transaction looked at */
static inline int GetWitnessCommitmentIndex_stub(const CBlockView* b) { return g_commitpos; }           /* its result is an input here; its meaning is the contract above */
static inline bool WitnessCommitment_mismatch(const CBlockView* b, int commitpos) { g_cmp_called = 1; g_cmp_pos = commitpos; return g_commit_mismatch; }   /* VERIF_STUB: SHA256d(witness root || reserved value) != bytes 6..37 of output commitpos */
static inline bool Tx_HasWitness(const CBlockView* b, size_t i) { bool h = (i == g_t) ? g_t_haswit : nondet_bool(); g_w = i; g_w_haswit = h; return h; }
#define VERIF_ASSERT(c) __CPROVER_assert(c, "assert() in the original")
#define LOOP_HASWIT \
    __CPROVER_assigns(i_tx, g_w, g_w_haswit) \
    __CPROVER_loop_invariant(i_tx <= block->vtx_size && (g_t < i_tx ==> !g_t_haswit)) \
    __CPROVER_decreases(block->vtx_size - i_tx)
#define WM_COMMITTED (expect_witness_commitment && g_commitpos != -1)
#define WM_ERR(r) (!__CPROVER_return_value && state->mode_invalid == 1 && state->result == BLOCK_MUTATED && state->reason == (r))
#define WM_NONCE_OK (block->cb_witness.n == 1 && block->cb_witness.size0 == 32)
#define WM_CACHED __CPROVER_old(block->m_checked_witness_commitment)
VERIF_REACH_DECL(CheckWitnessMalleation)
bool CheckWitnessMalleation(CBlockView* block, bool expect_witness_commitment, BlockValidationState* state)
__CPROVER_requires(__CPROVER_is_fresh(block, sizeof(CBlockView)) && __CPROVER_is_fresh(state, sizeof(BlockValidationState)) && state->mode_invalid == 0 && block->vtx_size <= SPEC_MAXLEN && !g_cmp_called)
__CPROVER_requires(g_commitpos >= -1 && (g_commitpos >= 0 ==> (block->vtx_size > 0 && block->cb_vin_size > 0 && (size_t)g_commitpos < block->cb_vout_size)))   /* GetWitnessCommitmentIndex's contract; callers have established that vtx[0] is a coinbase (one input) */
__CPROVER_ensures((expect_witness_commitment && WM_CACHED) ==> (__CPROVER_return_value && state->mode_invalid == 0 && !g_cmp_called))
/* BIP141: a committed block carries exactly one 32-byte reserved value in the coinbase witness (nothing else there is covered by any hash), and the commitment matches */
#ifdef TWIN_NONCE
__CPROVER_ensures((WM_COMMITTED && !WM_CACHED && block->cb_witness.size0 != 32) ==> WM_ERR(SPEC_R_bad_witness_nonce_size))
__CPROVER_ensures((WM_COMMITTED && !WM_CACHED && block->cb_witness.n == 2 && block->cb_witness.size0 == 32) ==> __CPROVER_return_value)
#else
__CPROVER_ensures((WM_COMMITTED && !WM_CACHED && !WM_NONCE_OK) ==> (WM_ERR(SPEC_R_bad_witness_nonce_size) && !g_cmp_called))
#endif
__CPROVER_ensures((WM_COMMITTED && !WM_CACHED && WM_NONCE_OK) ==> (g_cmp_called && g_cmp_pos == g_commitpos))
__CPROVER_ensures((WM_COMMITTED && !WM_CACHED && WM_NONCE_OK && g_commit_mismatch) ==> WM_ERR(SPEC_R_bad_witness_merkle_match))
__CPROVER_ensures((WM_COMMITTED && !WM_CACHED && WM_NONCE_OK && !g_commit_mismatch) ==> (__CPROVER_return_value && state->mode_invalid == 0))
/* no commitment (expected or present): no transaction may carry witness data */
__CPROVER_ensures(!WM_COMMITTED && !(expect_witness_commitment && WM_CACHED) ==> (!g_cmp_called && ((g_t < block->vtx_size && g_t_haswit) ==> WM_ERR(SPEC_R_unexpected_witness))))
__CPROVER_ensures((!WM_COMMITTED && !(expect_witness_commitment && WM_CACHED) && !__CPROVER_return_value) ==> (WM_ERR(SPEC_R_unexpected_witness) && g_w < block->vtx_size && g_w_haswit))
/* the cache bit is set only by a successful commitment check */
__CPROVER_ensures((block->m_checked_witness_commitment != 0) == (WM_CACHED || (WM_COMMITTED && WM_NONCE_OK && !g_commit_mismatch)))
VERIF_REACH_ENSURES(CheckWitnessMalleation, WM_ERR(SPEC_R_bad_witness_nonce_size) && block->cb_witness.n == 2 && block->cb_witness.size0 == 32)
VERIF_REACH_ENSURES(CheckWitnessMalleation, WM_ERR(SPEC_R_unexpected_witness) && g_w > 2)
VERIF_REACH_ENSURES(CheckWitnessMalleation, __CPROVER_return_value && !WM_CACHED && WM_COMMITTED)
VERIF_REACH_ENSURES(CheckWitnessMalleation, __CPROVER_return_value && !expect_witness_commitment && block->vtx_size > 2)
__CPROVER_assigns(block->m_checked_witness_commitment, state->mode_invalid, state->result, state->reason, g_cmp_called, g_cmp_pos, g_w, g_w_haswit);
#endif

#ifdef C04_TU_CMR
#define C04_F_CMR
#endif
#ifdef C04_TU_BMR
#define C04_F_BMR
#endif
#ifdef C04_TU_REST
#define C04_F_REST
#endif
#include "slices.h"       /* second pass: the extracted functions of this translation unit */

#ifdef C04_TU_CMR
void h_ComputeMerkleRoot(void) { HashVec* h; bool* m; g_L = nondet_size_t(); g_P = nondet_size_t(); VERIF_REACH_ON(ComputeMerkleRoot); ComputeMerkleRoot(h, m); }
#endif
#ifdef C04_TU_BMR
void h_BlockMerkleRoot(void) { const CBlockView* b; bool* m; g_s = nondet_size_t(); g_block = b; BlockMerkleRoot(b, m); VERIF_REACH_PT("after BlockMerkleRoot"); }
#endif
#ifdef C04_TU_WIT
void h_GetWitnessCommitmentIndex(void) { const CBlockView* b; g_o = nondet_size_t(); VERIF_REACH_ON(GetWitnessCommitmentIndex); GetWitnessCommitmentIndex(b); }
int nondet_int(void);
void h_CheckWitnessMalleation(void) { CBlockView* b; BlockValidationState* st; bool e = nondet_bool(); g_commitpos = nondet_int(); g_commit_mismatch = nondet_bool(); g_t = nondet_size_t(); g_t_haswit = nondet_bool(); VERIF_REACH_ON(CheckWitnessMalleation); CheckWitnessMalleation(b, e, st); }
#endif
#ifdef C04_TU_REST
void h_CheckMerkleRoot(void) { CBlockView* b; BlockValidationState* st; g_mutated_in = nondet_bool(); VERIF_REACH_ON(CheckMerkleRoot); CheckMerkleRoot(b, st); }
void h_IsBlockMutated(void) { CBlockView* b; bool cw = nondet_bool(); g_mutated_in = nondet_bool(); g_any64 = nondet_bool(); g_witness_ok = nondet_bool(); g_first_is_coinbase = nondet_bool(); VERIF_REACH_ON(IsBlockMutated); IsBlockMutated(b, cw); }
void h_InvalidBlockFound(void) { BlockIndexView* p; const BlockValidationState* st; VERIF_REACH_ON(Chainstate_InvalidBlockFound); Chainstate_InvalidBlockFound(p, st); }
#endif
