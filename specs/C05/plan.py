import os, sys
sys.path.insert(0, os.path.dirname(os.path.dirname(os.path.abspath(__file__))))
import common_txverify as T
from C03.plan import TXSLICES

def H(name, fn, twins=(), **kw):
    d = {"name": name, "enforce": fn, "twins": [{"define": t, "expect": "postcondition"} for t in twins]}
    d.update(kw)
    return d

SLICES = TXSLICES + T.CONSTS + T.FUNCS + [T.FRAG_TXINPUTS_CALL, T.FRAG_BIP68, T.FRAG_CUTOFF]
REASONS = ["bad-txns-inputs-missingorspent", "bad-txns-premature-spend-of-coinbase", "bad-txns-inputvalues-outofrange", "bad-txns-in-belowout", "bad-txns-fee-outofrange",
           "bad-txns-nonfinal", "bad-txns-accumulated-fee-outofrange", "bad-cb-amount"]
PLAN = {
    "id": "C05", "level": "proof", "default_solver": ["cadical", "z3"], "slices": SLICES, "reasons": REASONS, "spec": "spec.c",
    "harnesses": [
        H("h_IsFinalTx", "IsFinalTx", ["TWIN_LOCK_LE"], loop_contracts=True),
        {"name": "h_CalculateSequenceLocks", "enforce": "CalculateSequenceLocks", "loop_contracts": True, "twins": [{"define": "TWIN_GRANULARITY", "expect": "postcondition|loop_invariant"}]},
        H("h_EvaluateSequenceLocks", "EvaluateSequenceLocks", ["TWIN_EVAL_LE"]),
        H("h_SequenceLocks", "SequenceLocks", replace=["CalculateSequenceLocks", "EvaluateSequenceLocks"]),
        H("h_CheckTxInputs", "CheckTxInputs", ["TWIN_MATURITY_99"], replace=["MoneyRange", "CCoinsViewCache_HaveInputs"], loop_contracts=True, split_safety=True),
        H("h_txinputs_call", "ConnectBlock_txinputs_call", replace=["CheckTxInputs"]),
        H("h_bip68_gate", "ConnectBlock_bip68_gate", replace=["SequenceLocks"], loop_contracts=True),
        {"name": "h_locktime_cutoff", "enforce": "ContextualCheckBlock_locktime", "loop_contracts": True, "twins": [{"define": "TWIN_CUTOFF", "expect": "postcondition|assertion"}]},
    ],
    "native": T.NATIVE,
    "not_covered": ["GetMedianTimePast / GetAncestor themselves (uninterpreted functions of the block index here; C54/C07)",
                    "the computation of nLockTimeFlags (DeploymentActiveAt CSV) and that ConnectBlock/ContextualCheckBlock run for every accepted block",
                    "mempool-side lock points (CheckSequenceLocksAtTip) and reorg re-evaluation"],
    "assumptions": ["A3 coin view of one transaction: the coin for vin[k].prevout is coins[k]; HaveCoin <=> that coin is unspent; no coin value above INT64_MAX - 21M BTC (include/verif_txverify.h)",
                    "A3 GetMedianTimePast / GetAncestor(h)->GetMedianTimePast are uninterpreted functions with range [0, 2^32)",
                    "input-domain precondition of CalculateSequenceLocks (0 <= prevHeights[k] <= block height + 1) is applied where the element is read and is NOT re-checked at call sites",
                    "ContextualCheckBlock fragment: IsFinalTx is an uninterpreted predicate there (its meaning is IsFinalTx's own contract)",
                    "universally quantified clauses are proved for arbitrary ghost indices fixed before the call (g_n, g_t)"],
    "manifest": {
        "category": "proof",
        "text": "core: IsFinalTx, CalculateSequenceLocks, EvaluateSequenceLocks, SequenceLocks and Consensus::CheckTxInputs (extracted each run) are proved for every number of inputs and all values: final iff nLockTime == 0, or nLockTime < height/time (threshold 500,000,000), or every input sequence is 0xffffffff; "
                "BIP68 result = max over enabled inputs of coin height + (seq & 0xffff) - 1 resp. MTP(block before the coin) + 512*(seq & 0xffff) - 1, disabled inputs ignored and zeroed, (-1,-1) when version < 2 or the flag is off; satisfied iff both are below the block's height / previous MTP; "
                "accepting a spend of a coinbase implies spend height - coin height >= 100, with the exact reject reasons. Three call-site fragments (ConnectBlock's CheckTxInputs call with pindex->nHeight, its BIP68 gate fed with the spent coins' heights, ContextualCheckBlock's cutoff = previous MTP once CSV is active else block time) are proved against the same statement.",
        "note": "Trusted: extraction rules, coin-view / MTP stubs, the input-domain assumption on prevHeights. Not covered: MTP and ancestor computation, deployment flags, mempool-side lock points.",
        "technique": "CBMC function + loop contracts (unbounded vin) on extracted tx_verify.cpp functions and anchor-delimited ConnectBlock/ContextualCheckBlock fragments, callee contracts substituted, uninterpreted functions for MTP, ghost-index quantification",
    },
    "trusted_base": ["specs/txverify_contracts.h", "specs/txverify_harness.h", "include/verif_txverify.h"],
}
