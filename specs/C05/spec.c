/* C05 -- Timelocks and coinbase maturity are enforced exactly. */
#include "../txverify_contracts.h"
#include "../txverify_harness.h"
#include "slices.h"
#include "../txverify_harnesses.c"
