/* native build of the extracted text; ghost accessors become array reads filled in by the harness from the real functions */
#include "verif_tx.h"
#include "verif_ser.h"
#include <assert.h>
#define C06_CONSTS
#include "slices.h"
#undef C06_CONSTS
typedef struct { bool fChecked; size_t vtx_size; uint64_t ser_size_nowit, ser_size_total; const bool* is_cb; const bool* tx_ok; const uint32_t* tx_reason; const unsigned* legacy; bool header_ok, signet_ok, merkle_ok; } CBlockView;
typedef struct { bool signet_blocks; } ConsensusParamsView;
typedef struct { int mode_invalid; int result; uint32_t reason; } BlockValidationState;
typedef struct { unsigned legacy_sigops, p2sh_sigops; bool is_coinbase; size_t vin_size; const size_t* wit; } TxView;
#define VERIF_ASSERT(c) assert(c)
#define LOOP_ONECB
#define LOOP_CHECKTX
#define LOOP_SIGOPS
#define LOOP_WITSIG
#define REASON_OTHER 0x7fffffffu
static inline bool BlockState_Invalid(BlockValidationState* state, int result, uint32_t reason) { state->result = result; state->reason = reason; state->mode_invalid = 1; return 0; }
static inline bool BlockState_Invalid_from_tx(BlockValidationState* state, int result, const TxValidationState* tx_state) { state->result = result; state->reason = tx_state->reason; state->mode_invalid = 1; return 0; }
static inline bool CheckBlockHeader(const CBlockView* b, BlockValidationState* st, const ConsensusParamsView* p, bool fCheckPOW) { if (!b->header_ok) BlockState_Invalid(st, BLOCK_INVALID_HEADER, REASON_OTHER); return b->header_ok; }
static inline bool CheckSignetBlockSolution(const CBlockView* b, const ConsensusParamsView* p) { return b->signet_ok; }
static inline bool CheckMerkleRoot(const CBlockView* b, BlockValidationState* st) { if (!b->merkle_ok) BlockState_Invalid(st, BLOCK_MUTATED, REASON_OTHER); return b->merkle_ok; }
static inline bool Tx_IsCoinBase(const CBlockView* b, size_t k) { return b->is_cb[k]; }
static inline bool CheckTransaction_at(const CBlockView* b, size_t k, TxValidationState* ts) { if (!b->tx_ok[k]) TxState_Invalid(ts, TX_CONSENSUS, b->tx_reason[k]); return b->tx_ok[k]; }
static inline unsigned GetLegacySigOpCount_at(const CBlockView* b, size_t k) { return b->legacy[k]; }
static inline bool Coin_IsSpent_at(const TxView* tx, size_t i) { return 0; }
static inline size_t CountWitnessSigOps_at(const TxView* tx, size_t i, unsigned flags) { return tx->wit[i]; }
#define SCRIPT_VERIFY_P2SH (1u << BIT_SCRIPT_VERIFY_P2SH)
typedef struct { size_t n; const bool* ok; const unsigned char* op; } OpStream;       /* pre-decoded by the harness' own decoder */
#define LOOP_SIGOPSCAN
typedef unsigned char value_type; typedef int opcodetype; int g_thrown;
static inline void ByteVec_push(ByteVec* v, unsigned char b) { v->data[v->size] = b; v->size = v->size + 1; }
static inline void ByteVec_append(ByteVec* v, const unsigned char* p, size_t n) { for (size_t k = 0; k < n; k++) ByteVec_push(v, p[k]); }
static inline bool ByteVec_equal_prefix(const ByteVec* e, const ByteVec* s) { for (size_t k = 0; k < e->size; k++) if (e->data[k] != s->data[k]) return 0; return 1; }
static inline void WriteLE16(unsigned char* p, uint16_t x) { p[0] = (unsigned char)x; p[1] = (unsigned char)(x >> 8); }
static inline void WriteLE32(unsigned char* p, uint32_t x) { p[0] = (unsigned char)x; p[1] = (unsigned char)(x >> 8); p[2] = (unsigned char)(x >> 16); p[3] = (unsigned char)(x >> 24); }
static inline bool OpStream_GetOp(const OpStream* s, size_t* pc, int* opcode) { size_t k = *pc; *pc = k + 1; *opcode = s->ok[k] ? s->op[k] : 0xff; return s->ok[k]; }
#define C06_FUNCS
#include "slices.h"
int xc_block_consensus(void) { return BLOCK_CONSENSUS; }
