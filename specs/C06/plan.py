import os, sys
sys.path.insert(0, os.path.dirname(os.path.dirname(os.path.abspath(__file__))))
from engine.extract import R, invalid_rule, reason_hash
from specs.common_witprog import FLAG_ENUM
import copy
from C12.plan import SLICES as _S12
SH = "src/script/script.h"
def _opc(name):
    return {"name": name, "kind": "const", "file": SH, "pat": name + r"\s*=\s*(0x[0-9a-fA-F]+),", "emit": "#define " + name + r" \1"}
_SER = copy.deepcopy([x for x in _S12 if x["name"] == "CScriptNum_serialize"][0])
RET_THIS = R("return *this", r"return \*this;", "return;", True)

VC, TV, CH = "src/validation.cpp", "src/consensus/tx_verify.cpp", "src/consensus/consensus.h"
INV = invalid_rule(r"state\.", "BlockValidationResult", "BlockState_Invalid")
SLICES = [
    copy.deepcopy(FLAG_ENUM),
    {"name": "MAX_BLOCK_WEIGHT", "kind": "const", "file": CH, "pat": r"inline constexpr unsigned int MAX_BLOCK_WEIGHT\{([\d']+)\};", "emit": r"static const unsigned int MAX_BLOCK_WEIGHT = \1;"},
    {"name": "MAX_BLOCK_SIGOPS_COST", "kind": "const", "file": CH, "pat": r"inline constexpr int64_t MAX_BLOCK_SIGOPS_COST\{([\d']+)\};", "emit": r"static const int64_t MAX_BLOCK_SIGOPS_COST = \1;"},
    {"name": "WITNESS_SCALE_FACTOR", "kind": "const", "file": CH, "pat": r"inline constexpr int WITNESS_SCALE_FACTOR = (\d+);", "emit": r"static const int WITNESS_SCALE_FACTOR = \1;"},
    {"name": "BlockValidationResult", "kind": "const", "file": "src/consensus/validation.h", "pat": r"enum class BlockValidationResult \{[^}]*\};", "emit": r"\g<0>",
     "rules": [R("enum class -> enum", r"enum class BlockValidationResult", "enum BlockValidationResult_c", True)]},
    {"name": "GetBlockWeight", "kind": "func", "file": "src/consensus/validation.h", "head": r"static inline int64_t GetBlockWeight\(const CBlock& block\)",
     "rules": [R("head", r"static inline int64_t GetBlockWeight\(const CBlock& block\)", "int64_t GetBlockWeight(const CBlockView* block)"),
               R("ghost:stripped size", r"::GetSerializeSize\(TX_NO_WITNESS\(block\)\)", "block->ser_size_nowit", True), R("ghost:total size", r"::GetSerializeSize\(TX_WITH_WITNESS\(block\)\)", "block->ser_size_total", True)]},
    {"name": "CheckBlock", "kind": "func", "file": VC, "head": r"bool CheckBlock\(const CBlock& block, BlockValidationState& state, const Consensus::Params& consensusParams, bool fCheckPOW, bool fCheckMerkleRoot\)",
     "rules": [R("head", r"bool CheckBlock\(const CBlock& block, BlockValidationState& state, const Consensus::Params& consensusParams, bool fCheckPOW, bool fCheckMerkleRoot\)",
                 "bool CheckBlock(CBlockView* block, BlockValidationState* state, const ConsensusParamsView* consensusParams, bool fCheckPOW, bool fCheckMerkleRoot)"),
               R("member:block.fChecked", r"block\.fChecked", "block->fChecked", True), R("member:consensusParams.", r"consensusParams\.signet_blocks", "consensusParams->signet_blocks", True),
               R("member:block.vtx.empty()", r"block\.vtx\.empty\(\)", "(block->vtx_size == 0)", True), R("member:block.vtx.size()", r"block\.vtx\.size\(\)", "block->vtx_size", True),
               R("ghost:stripped size of the block", r"::GetSerializeSize\(TX_NO_WITNESS\(block\)\)", "block->ser_size_nowit", True),
               R("ghost:vtx[k]->IsCoinBase()", r"block\.vtx\[(\w+)\]->IsCoinBase\(\)", r"Tx_IsCoinBase(block, \1)", True),
               R("rangefor #1 (CheckTransaction)", r"for \(const auto& tx : block\.vtx\)", "for (size_t i_chk = 0; i_chk < block->vtx_size; i_chk++)", True, count=1),
               R("rangefor #2 (sigops)", r"for \(const auto& tx : block\.vtx\)", "for (size_t i_sig = 0; i_sig < block->vtx_size; i_sig++)", True, count=1),
               R("decl:tx_state", r"TxValidationState tx_state;", "TxValidationState tx_state = {0, 0, 0};", True),
               R("stub:CheckTransaction(*tx)", r"CheckTransaction\(\*tx, tx_state\)", "CheckTransaction_at(block, i_chk, &tx_state)", True),
               R("assert", r"assert\(tx_state\.GetResult\(\) == TxValidationResult::TX_CONSENSUS\);", "VERIF_ASSERT(tx_state.result == TX_CONSENSUS);", True),
               R("state.Invalid(from tx_state)", r"state\.Invalid\(BlockValidationResult::BLOCK_CONSENSUS, tx_state\.GetRejectReason\(\),\s*strprintf\([^;]*\)\)(?=;)", "BlockState_Invalid_from_tx(state, BLOCK_CONSENSUS, &tx_state)", True),
               R("stub:GetLegacySigOpCount(*tx)", r"GetLegacySigOpCount\(\*tx\)", "GetLegacySigOpCount_at(block, i_sig)", True), INV],
     "loops": [{"match": r"unsigned int i = \d+;", "contract": "LOOP_ONECB", "prologue": "((void)0)"}, {"match": r"\bi_chk\b", "contract": "LOOP_CHECKTX", "prologue": "((void)0)"}, {"match": r"\bi_sig\b", "contract": "LOOP_SIGOPS", "prologue": "((void)0)"}]},
    {"name": "GetTransactionSigOpCost", "kind": "func", "file": TV, "head": r"int64_t GetTransactionSigOpCost\(const CTransaction& tx, const CCoinsViewCache& inputs, script_verify_flags flags\)",
     "rules": [R("head", r"int64_t GetTransactionSigOpCost\(const CTransaction& tx, const CCoinsViewCache& inputs, script_verify_flags flags\)", "int64_t GetTransactionSigOpCost(const TxView* tx, unsigned flags)"),
               R("ghost:GetLegacySigOpCount(tx)", r"GetLegacySigOpCount\(tx\)", "tx->legacy_sigops", True), R("ghost:tx.IsCoinBase()", r"tx\.IsCoinBase\(\)", "tx->is_coinbase", True),
               R("ghost:GetP2SHSigOpCount(tx, inputs)", r"GetP2SHSigOpCount\(tx, inputs\)", "tx->p2sh_sigops", True), R("member:tx.vin.size()", r"tx\.vin\.size\(\)", "tx->vin_size", True),
               R("stub:inputs.AccessCoin", r"const Coin& coin = inputs\.AccessCoin\(tx\.vin\[i\]\.prevout\);", "const bool coin_spent = Coin_IsSpent_at(tx, i);", True), R("assert", r"assert\(!coin\.IsSpent\(\)\);", "VERIF_ASSERT(!coin_spent);", True),
               R("drop:prevout alias", r"const CTxOut &prevout = coin\.out;", "", True),
               R("stub:CountWitnessSigOps", r"CountWitnessSigOps\(tx\.vin\[i\]\.scriptSig, prevout\.scriptPubKey, tx\.vin\[i\]\.scriptWitness, flags\)", "CountWitnessSigOps_at(tx, i, flags)", True)],
     "loops": [{"match": r"unsigned int i = 0;", "contract": "LOOP_WITSIG", "prologue": "((void)0)"}]},
    {"name": "sigops_accumulation", "cname": "ConnectBlock_sigops_accumulation", "kind": "frag", "file": VC, "within": r"bool Chainstate::ConnectBlock\([^)]*\)",
     "begin": r"nSigOpsCost \+= GetTransactionSigOpCost\(", "end": r"if \(!tx\.IsCoinBase\(\) && fScriptChecks\)", "include_end": False,
     "prologue": "int ConnectBlock_sigops_accumulation(int64_t* nSigOpsCost_p, const TxView* tx_p, unsigned flags, BlockValidationState* state)\n{\n    int64_t nSigOpsCost = *nSigOpsCost_p; int broke = 1;\n    do {",
     "epilogue": "    broke = 0;\n    } while (0);\n    *nSigOpsCost_p = nSigOpsCost;\n    return broke;\n}",
     "rules": [R("call:GetTransactionSigOpCost(tx, view, flags)", r"GetTransactionSigOpCost\(tx, view, flags\)", "GetTransactionSigOpCost(tx_p, flags)", True), INV]},
    _opc("OP_0"), _opc("OP_PUSHDATA1"), _opc("OP_PUSHDATA2"), _opc("OP_PUSHDATA4"), _opc("OP_1"), _SER,
    {"name": "AppendDataSize", "cname": "CScript_AppendDataSize", "kind": "func", "file": SH, "within_class": r"class CScript : public CScriptBase", "head": r"inline void AppendDataSize\(const uint32_t size\)",
     "rules": [R("method-head", r"inline void AppendDataSize\(const uint32_t size\)", "void CScript_AppendDataSize(ByteVec* self, const uint32_t size)"),
               R("insert(end(), begin, end)", r"insert\(end\(\), std::cbegin\(data\), std::cend\(data\)\);", "ByteVec_append(self, data, sizeof(data));", True),
               R("insert(end(), byte)", r"insert\(end\(\), ([^;]+)\);", r"ByteVec_push(self, \1);", True)]},
    {"name": "push_data", "cname": "CScript_push_data", "kind": "func", "file": SH, "within_class": r"class CScript : public CScriptBase", "head": r"CScript& operator<<\(std::span<const std::byte> b\) LIFETIMEBOUND",
     "rules": [R("method-head", r"CScript& operator<<\(std::span<const std::byte> b\) LIFETIMEBOUND", "void CScript_push_data(ByteVec* self, const ByteVec* b)"),
               R("call:AppendDataSize", r"AppendDataSize\(b\.size\(\)\);", "CScript_AppendDataSize(self, (uint32_t)b->size);", True),
               R("call:AppendData", r"AppendData\(\{reinterpret_cast<const value_type\*>\(b\.data\(\)\), b\.size\(\)\}\);", "ByteVec_append(self, b->data, b->size);", True), RET_THIS]},
    {"name": "push_int64", "cname": "CScript_push_int64", "kind": "func", "file": SH, "within_class": r"class CScript : public CScriptBase", "head": r"CScript& push_int64\(int64_t n\)",
     "rules": [R("method-head", r"CScript& push_int64\(int64_t n\)", "void CScript_push_int64(ByteVec* self, int64_t n)"),
               R("push_back", r"push_back\(([^;]+)\);", r"ByteVec_push(self, (unsigned char)(\1));", True),
               R("*this << CScriptNum::serialize(n)", r"\*this << CScriptNum::serialize\(n\);", "{ unsigned char tmp_d[9]; ByteVec tmp = {tmp_d, 0, 9}; CScriptNum_serialize(&tmp, n); CScript_push_data(self, &tmp); }", True), RET_THIS]},
    {"name": "bip34_height", "cname": "ContextualCheckBlock_bip34", "kind": "frag", "file": VC, "within": r"static bool ContextualCheckBlock\([^)]*\)",
     "begin": r"if \(DeploymentActiveAfter\(pindexPrev, chainman, Consensus::DEPLOYMENT_HEIGHTINCB\)\)", "end": r"if \(!CheckWitnessMalleation\(block", "include_end": False,
     "prologue": "bool ContextualCheckBlock_bip34(const ByteVec* cb_scriptSig, const int nHeight, bool bip34_active, BlockValidationState* state)\n{", "epilogue": "    return 1;\n}",
     "rules": [R("ghost:DeploymentActiveAfter(HEIGHTINCB)", r"DeploymentActiveAfter\(pindexPrev, chainman, Consensus::DEPLOYMENT_HEIGHTINCB\)", "bip34_active", True),
               R("CScript() << nHeight", r"CScript expect = CScript\(\) << nHeight;", "unsigned char expect_d[16]; ByteVec expect_v = {expect_d, 0, 16}; ByteVec* expect = &expect_v; CScript_push_int64(expect, nHeight);", True),
               R("view:coinbase scriptSig size", r"block\.vtx\[0\]->vin\[0\]\.scriptSig\.size\(\)", "cb_scriptSig->size", True), R("member:expect.size()", r"expect\.size\(\)", "expect->size", True),
               R("std::equal over expect", r"std::equal\(expect\.begin\(\), expect\.end\(\), block\.vtx\[0\]->vin\[0\]\.scriptSig\.begin\(\)\)", "ByteVec_equal_prefix(expect, cb_scriptSig)", True), INV]},
    _opc("OP_16"), _opc("OP_CHECKSIG"), _opc("OP_CHECKSIGVERIFY"), _opc("OP_CHECKMULTISIG"), _opc("OP_CHECKMULTISIGVERIFY"), _opc("OP_INVALIDOPCODE"),
    {"name": "MAX_PUBKEYS_PER_MULTISIG", "kind": "const", "file": SH, "pat": r"inline constexpr int MAX_PUBKEYS_PER_MULTISIG = (\d+);", "emit": r"static const int MAX_PUBKEYS_PER_MULTISIG = \1;"},
    {"name": "DecodeOP_N", "cname": "CScript_DecodeOP_N", "kind": "func", "file": SH, "within_class": r"class CScript : public CScriptBase", "head": r"static int DecodeOP_N\(opcodetype opcode\)",
     "rules": [R("head", r"static int DecodeOP_N\(opcodetype opcode\)", "int CScript_DecodeOP_N(opcodetype opcode)"), R("assert", r"\bassert\(", "VERIF_ASSERT(", True)]},
    {"name": "GetSigOpCount", "cname": "CScript_GetSigOpCount", "kind": "func", "file": "src/script/script.cpp", "head": r"unsigned int CScript::GetSigOpCount\(bool fAccurate\) const",
     "rules": [R("head: the script as the stream of instructions GetOp decodes", r"unsigned int CScript::GetSigOpCount\(bool fAccurate\) const", "unsigned int CScript_GetSigOpCount(const OpStream* self, bool fAccurate)"),
               R("ghost:script cursor", r"const_iterator pc = begin\(\);", "size_t pc = 0;", True), R("ghost:pc < end()", r"pc < end\(\)", "pc < self->n", True),
               R("stub:GetOp(pc, opcode)", r"(?<![\w.>])GetOp\(pc, opcode\)", "OpStream_GetOp(self, &pc, &opcode)", True), R("static member call", r"(?<![\w.>])DecodeOP_N\(", "CScript_DecodeOP_N(", False)],
     "loops": [{"match": r"while \(pc < self->n\)", "contract": "LOOP_SIGOPSCAN", "prologue": "((void)0)"}]},
    {"name": "weight_limit", "cname": "ContextualCheckBlock_weight_limit", "kind": "frag", "file": VC, "within": r"static bool ContextualCheckBlock\([^)]*\)",
     "begin": r"if \(GetBlockWeight\(block\) > MAX_BLOCK_WEIGHT\)", "end": r"return true;", "include_end": True,
     "prologue": "bool ContextualCheckBlock_weight_limit(const CBlockView* block, BlockValidationState* state)\n{", "epilogue": "}", "rules": [INV]},
]
for _s in SLICES:
    _s["guard"] = "C06_CONSTS" if _s["kind"] == "const" else "C06_FUNCS"
RH = {"SPEC_R_" + r.replace("-", "_"): reason_hash(r) for r in ("bad-cb-height", "bad-signet-blksig", "bad-blk-length", "bad-cb-missing", "bad-cb-multiple", "bad-blk-sigops", "bad-blk-weight")}
PLAN = {
    "id": "C06", "level": "proof", "slices": SLICES, "spec": "spec.c", "default_solver": ["cadical", "z3"], "cc_defines": [f"{k}={v:#x}u" for k, v in RH.items()],
    "harnesses": [
        {"name": "h_CheckBlock", "enforce": "CheckBlock", "loop_contracts": True, "twins": [{"define": "TWIN_SIGOPS", "expect": "postcondition"}, {"define": "TWIN_TWO_CB", "expect": "postcondition"}], "timeout": 600},
        {"name": "h_GetTransactionSigOpCost", "enforce": "GetTransactionSigOpCost", "loop_contracts": True, "twins": [{"define": "TWIN_COST", "expect": "postcondition"}]},
        {"name": "h_sigops_accumulation", "enforce": "ConnectBlock_sigops_accumulation", "replace": ["GetTransactionSigOpCost"], "twins": [{"define": "TWIN_80001", "expect": "postcondition"}]},
        {"name": "h_GetSigOpCount", "enforce": "CScript_GetSigOpCount", "loop_contracts": True, "twins": [{"define": "TWIN_OP0", "expect": "postcondition|loop_invariant"}]},
        {"name": "h_bip34", "enforce": "ContextualCheckBlock_bip34", "unwind": 12, "twins": [{"define": "TWIN_BIP34", "expect": "postcondition"}]},
        {"name": "h_GetBlockWeight", "enforce": "GetBlockWeight"},
        {"name": "h_weight_limit", "enforce": "ContextualCheckBlock_weight_limit", "replace": ["GetBlockWeight"], "twins": [{"define": "TWIN_WEIGHT", "expect": "postcondition"}]},
    ],
    "native": {"src": "replay.cpp", "c_src": "native_slices.c", "repo_sources": ["src/consensus/tx_verify.cpp", "src/script/script.cpp", "src/script/interpreter.cpp", "src/consensus/tx_check.cpp"], "diff_n_quick": 3000, "diff_n_thorough": 200000,
               "libs": ["libbitcoin_common.a", "libbitcoin_consensus.a", "libbitcoin_util.a", "libbitcoin_clientversion.a", "libbitcoin_crypto.a", "/repo/_build/src/secp256k1/lib/libsecp256k1.a"]},
    "not_covered": ["the P2SH / witness script scanners (CScript::GetSigOpCount(scriptSig), CountWitnessSigOps, WitnessSigOps, GetP2SHSigOpCount) and GetLegacySigOpCount's sums: their results are ghost inputs; CScript::GetSigOpCount(fAccurate) itself is under contract with GetOp decoding as a stub; the native harness runs the real ones on scripts with sigops in scriptSigs, outputs, redeem and witness scripts",
                    "block weight / serialized sizes themselves (serializer)"],
    "assumptions": ["block.vtx[k]->IsCoinBase(), CheckTransaction(*vtx[k]) and GetLegacySigOpCount(*vtx[k]) are ghost functions of the position k (one pinned position, read once each); CheckBlockHeader, CheckSignetBlockSolution and CheckMerkleRoot are stubs with arbitrary verdicts that set the state on failure",
                    "a transaction's legacy sigop count is at most its number of script bytes, so the block's running total is at most the stripped block size (ASSUMED on the stub; makes the `unsigned int` sum exact)",
                    "GetTransactionSigOpCost: the legacy and P2SH counts are at most 4,000,000 each (script bytes of a transaction in a block), witness sigop counts of a transaction total at most 4,000,000 (its witness bytes); inputs exist and are unspent (ConnectBlock checked them)"],
    "manifest": {
        "category": "proof",
        "text": "partial (limits and coinbase position, sigop-cost arithmetic): CheckBlock accepts a not-yet-checked block only if the header check, (signet) block solution and (if asked) merkle check pass, it has at least one transaction, 4 * count and 4 * stripped size are at most 4,000,000, the first transaction is a coinbase and no other is, every transaction passes CheckTransaction, and 4 * (sum of legacy sigops) is at most 80,000 -- "
                "and each violation, including by the smallest amount, is rejected with its named reason (bad-blk-length, bad-cb-missing, bad-cb-multiple, the transaction's reason, bad-blk-sigops); fChecked is set only on success with both fCheckPOW and fCheckMerkleRoot; "
                "GetTransactionSigOpCost = 4*legacy for a coinbase, else 4*legacy + 4*P2SH (if the flag) + witness sigops, without overflow; ConnectBlock's accumulation rejects exactly when the running cost exceeds 80,000; with BIP34 active the coinbase scriptSig must start with the script push of the height (OP_0, OP_1..OP_16, else length byte + minimal little-endian bytes: CScript::push_int64, AppendDataSize and CScriptNum::serialize are extracted and run inside the proof) or the block is rejected with bad-cb-height; CScript::GetSigOpCount(fAccurate) counts, up to the first undecodable instruction, 1 per OP_CHECKSIG(VERIFY) and per OP_CHECKMULTISIG(VERIFY) the number 1..16 pushed by an immediately preceding OP_1..OP_16 in accurate mode and 20 otherwise (OP_0 included); GetBlockWeight = 3*stripped + total and ContextualCheckBlock rejects exactly when it exceeds 4,000,000.",
        "note": "Not covered: the script scanners that count sigops, serialized sizes. Trusted: extraction rules, ghost accessors.",
        "technique": "CBMC function contracts with loop contracts (pinned-position ghosts) on extracted CheckBlock / GetTransactionSigOpCost / GetBlockWeight and anchor-delimited fragments of ConnectBlock and ContextualCheckBlock",
    },
    "trusted_base": ["specs/C06/spec.c", "include/verif_tx.h"],
}
