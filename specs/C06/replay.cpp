// C06 native harness: CheckBlock compiled from its original text (extracted each run) against the real CBlock / CheckTransaction / GetLegacySigOpCount, the real GetTransactionSigOpCost and
// GetBlockWeight, vs the extracted C text, vs the limits of the statement (count / stripped size / one leading coinbase / legacy sigops * 4 <= 80,000 / sigop cost / weight).
#include <coins.h>
#include <consensus/consensus.h>
#include <consensus/params.h>
#include <consensus/tx_check.h>
#include <consensus/tx_verify.h>
#include <consensus/validation.h>
#include <primitives/block.h>
#include <primitives/transaction.h>
#include <script/interpreter.h>
#include <script/script.h>
#include <crypto/sha256.h>
#include <hash.h>
#include <tinyformat.h>
#include <cassert>
#include <memory>
#include "replay_util.h"
#define BAD(...) do { rv::g_stats.real_violations++; if (rv::g_stats.real_violations <= 8) { std::printf("REAL-VIOLATION " __VA_ARGS__); std::printf("\n"); } } while (0)
#define DIS(...) do { rv::g_stats.disagreements++; if (rv::g_stats.disagreements <= 8) { std::printf("DISAGREE " __VA_ARGS__); std::printf("\n"); } } while (0)
static uint32_t fnv(const std::string& s) { uint32_t h = 0x811C9DC5u; for (unsigned char c : s) h = (h ^ c) * 0x01000193u; return h | 1; }
struct xBlock { bool fChecked; size_t vtx_size; uint64_t ser_size_nowit, ser_size_total; const bool* is_cb; const bool* tx_ok; const uint32_t* tx_reason; const unsigned* legacy; bool header_ok, signet_ok, merkle_ok; };
struct xParams { bool signet_blocks; };
struct xState { int mode_invalid; int result; uint32_t reason; };
struct xTx { unsigned legacy_sigops, p2sh_sigops; bool is_coinbase; size_t vin_size; const size_t* wit; };
extern "C" { bool xc_CheckBlock(xBlock*, xState*, const xParams*, bool, bool); int64_t xc_GetTransactionSigOpCost(const xTx*, unsigned); int xc_ConnectBlock_sigops_accumulation(int64_t*, const xTx*, unsigned, xState*); int64_t xc_GetBlockWeight(const xBlock*); bool xc_ContextualCheckBlock_weight_limit(const xBlock*, xState*); int xc_block_consensus(void); }
// test doubles for the three callees of CheckBlock that are not part of this property
static bool g_hdr = true, g_sig = true, g_mrk = true;
static bool CheckBlockHeader(const CBlock&, BlockValidationState& st, const Consensus::Params&, bool) { if (!g_hdr) return st.Invalid(BlockValidationResult::BLOCK_INVALID_HEADER, "high-hash", "x"); return true; }
static bool CheckSignetBlockSolution(const CBlock&, const Consensus::Params&) { return g_sig; }
static bool CheckMerkleRoot(const CBlock&, BlockValidationState& st) { if (!g_mrk) return st.Invalid(BlockValidationResult::BLOCK_MUTATED, "bad-txnmrklroot", "x"); return true; }
#include "orig_CheckBlock.inc"
// the BIP34 statement range of ContextualCheckBlock, original text, with the deployment test as an input
static bool orig_bip34(const CBlock& block, const int nHeight, bool active, BlockValidationState& state)
{
    int pindexPrev = 0, chainman = 0; (void)pindexPrev; (void)chainman;
#define DeploymentActiveAfter(a, b, c) (active)
#include "orig_bip34_height.inc"
#undef DeploymentActiveAfter
    return true;
}
struct xBV { unsigned char* data; size_t size, cap; };
extern "C" bool xc_ContextualCheckBlock_bip34(const xBV*, int, bool, xState*);
static std::vector<unsigned char> ref_height_push(int h) { if (h == 0) return {0x00}; if (h <= 16) return {(unsigned char)(0x50 + h)}; std::vector<unsigned char> b; unsigned v = (unsigned)h; while (v) { b.push_back(v & 0xff); v >>= 8; } if (b.back() & 0x80) b.push_back(0); std::vector<unsigned char> r{(unsigned char)b.size()}; r.insert(r.end(), b.begin(), b.end()); return r; }

struct xOpStream { size_t n; const bool* ok; const unsigned char* op; };
extern "C" unsigned xc_CScript_GetSigOpCount(const xOpStream*, bool);
// independent decoder + counting rule (BIP16 / consensus): 1 per CHECKSIG(VERIFY); per CHECKMULTISIG(VERIFY) the 1..16 pushed by OP_1..OP_16 right before it in accurate mode, else 20
static unsigned ref_sigops(const std::vector<unsigned char>& sc, bool accurate, std::vector<char>& oks, std::vector<unsigned char>& ops)
{
    unsigned n = 0; int prev = 0xff; size_t p = 0; oks.clear(); ops.clear();
    while (p < sc.size()) { unsigned op = sc[p++]; size_t len = 0; bool ok = true;
        if (op <= 75) len = op; else if (op == 76) { if (sc.size() - p < 1) ok = false; else { len = sc[p]; p += 1; } } else if (op == 77) { if (sc.size() - p < 2) ok = false; else { len = sc[p] | (sc[p + 1] << 8); p += 2; } } else if (op == 78) { if (sc.size() - p < 4) ok = false; else { len = sc[p] | (sc[p + 1] << 8) | (sc[p + 2] << 16) | ((size_t)sc[p + 3] << 24); p += 4; } }
        if (ok && op <= 78) { if (sc.size() - p < len) ok = false; else p += len; }
        oks.push_back(ok); ops.push_back((unsigned char)op); if (!ok) break;
        if (op == 0xac || op == 0xad) n += 1; else if (op == 0xae || op == 0xaf) n += (accurate && prev >= 0x51 && prev <= 0x60) ? (unsigned)(prev - 0x50) : 20; prev = (int)op; }
    return n;
}
static void test_sigop_scanner(rv::Rng& r)
{
    static const std::vector<std::vector<unsigned char>> FR = {{0xac}, {0xad}, {0xae}, {0xaf}, {0x00}, {0x51}, {0x52}, {0x60}, {0x4f}, {0x61}, {0x01, 0x05}, {0x4c, 0x01, 0xae}, {0x00, 0xae}, {0x00, 0x00, 0xae}, {0x53, 0xae}, {0x60, 0xaf}, {0x51, 0x61, 0xae}, {0x6a}, {0x4c}, {0x4d, 0x05}, {0x02, 0xac}, {0x4e, 0x01, 0x00, 0x00, 0x00, 0xac}};
    std::vector<unsigned char> sc; size_t nf = r.below(7); for (size_t k = 0; k < nf; k++) { const auto& f = FR[r.below(FR.size())]; sc.insert(sc.end(), f.begin(), f.end()); }
    for (int acc = 0; acc < 2; acc++) { std::vector<char> oks; std::vector<unsigned char> ops; unsigned want = ref_sigops(sc, acc, oks, ops); CScript s(sc.begin(), sc.end()); unsigned got = s.GetSigOpCount((bool)acc); rv::g_stats.inputs++;
        std::unique_ptr<bool[]> okb(new bool[oks.size() + 1]); for (size_t k = 0; k < oks.size(); k++) okb[k] = oks[k]; xOpStream xs{oks.size(), okb.get(), ops.data()}; unsigned xg = xc_CScript_GetSigOpCount(&xs, (bool)acc);
        if (got != xg) DIS("GetSigOpCount(%d) real %u extracted %u", acc, got, xg);
        if (got != want) { std::string hx; for (auto c : sc) { char b[4]; snprintf(b, 4, "%02x", c); hx += b; } BAD("CScript(%s).GetSigOpCount(accurate=%d) = %u, the counting rule says %u", hx.c_str(), acc, got, want); } }
}
static bool g_zero_keys = false;
static CScript sigops_script(unsigned n) { CScript s; if (g_zero_keys && n >= 20) { s << OP_0 << OP_0 << OP_CHECKMULTISIG; n -= 20; } for (unsigned k = 0; k < n / 20; k++) s << OP_CHECKMULTISIG; for (unsigned k = 0; k < n % 20; k++) s << OP_CHECKSIG; return s; }
static CTransactionRef mk(bool coinbase, unsigned out_sigops, unsigned in_sigops, unsigned tag, bool bad = false) { CMutableTransaction m; m.vin.resize(1); if (coinbase) { m.vin[0].prevout.SetNull(); m.vin[0].scriptSig = CScript() << tag << OP_0; } else { m.vin[0].prevout = COutPoint(Txid::FromUint256(uint256{(uint8_t)(1 + tag % 200)}), tag); m.vin[0].scriptSig = sigops_script(in_sigops); }
    m.vout.resize(1); m.vout[0].nValue = bad ? -1 : 1; m.vout[0].scriptPubKey = sigops_script(out_sigops); return MakeTransactionRef(m); }
int main(int argc, char** argv)
{
    auto a = rv::parse(argc, argv); rv::Rng r(a.seed); uint64_t n = a.diff ? a.n : 3000; Consensus::Params params{}; 
    if (xc_block_consensus() != (int)BlockValidationResult::BLOCK_CONSENSUS) DIS("constants");
    auto run_block = [&](CBlock& b, bool pow, bool mr, const char* what) {
        std::vector<char> cb, ok; std::vector<uint32_t> rs; std::vector<unsigned> lg; uint64_t sum = 0; size_t ncb_other = 0; bool all_ok = true;
        size_t lim = std::min<size_t>(b.vtx.size(), 1100000); for (size_t k = 0; k < lim; k++) { const auto& t = *b.vtx[k]; cb.push_back(t.IsCoinBase()); TxValidationState ts; bool o = (k > 0 && b.vtx[k] == b.vtx[k - 1]) ? (bool)ok.back() : CheckTransaction(t, ts); ok.push_back(o); rs.push_back(o ? 0 : (k > 0 && b.vtx[k] == b.vtx[k - 1] ? rs.back() : fnv(ts.GetRejectReason()))); unsigned l = GetLegacySigOpCount(t); lg.push_back(l); sum += l; if (k > 0 && t.IsCoinBase()) ncb_other++; all_ok &= o; }
        uint64_t stripped = b.vtx.size() > 1000000 ? 0 : GetSerializeSize(TX_NO_WITNESS(b));
        bool pre = g_hdr && (!(params.signet_blocks && pow) || g_sig) && (!mr || g_mrk);
        bool want = pre && !b.vtx.empty() && b.vtx.size() * 4 <= 4000000 && stripped * 4 <= 4000000 && cb[0] && ncb_other == 0 && all_ok && sum * 4 <= 80000;
        CBlock b2 = b; BlockValidationState st; bool got = CheckBlock(b2, st, params, pow, mr); rv::g_stats.inputs++;
        std::unique_ptr<bool[]> cbb(new bool[lim + 1]), okb(new bool[lim + 1]); for (size_t k = 0; k < lim; k++) { cbb[k] = cb[k]; okb[k] = ok[k]; }
        xBlock xb{false, b.vtx.size(), stripped, 0, cbb.get(), okb.get(), rs.data(), lg.data(), g_hdr, g_sig, g_mrk}; xParams xp{params.signet_blocks}; xState xs{0, 0, 0}; bool xg = xc_CheckBlock(&xb, &xs, &xp, pow, mr);
        if (got != xg || b2.fChecked != xb.fChecked || (!got && ((int)st.GetResult() != xs.result || (xs.reason != 0x7fffffffu && fnv(st.GetRejectReason()) != xs.reason)))) DIS("CheckBlock (%s): real %d/%s, extracted %d/%08x", what, got, st.GetRejectReason().c_str(), xg, xs.reason);
        if (got != want) BAD("CheckBlock (%s: %zu transactions, stripped size %llu, leading coinbase %d, other coinbases %zu, legacy sigops %llu, all transactions valid %d) = %d (%s), the limits say %d", what, b.vtx.size(), (unsigned long long)stripped, (int)(!cb.empty() && cb[0]), ncb_other, (unsigned long long)sum, all_ok, got, st.GetRejectReason().c_str(), want);
        if (pre && !got) { std::string rr = st.GetRejectReason(); std::string wr = (b.vtx.empty() || b.vtx.size() * 4 > 4000000 || stripped * 4 > 4000000) ? "bad-blk-length" : !cb[0] ? "bad-cb-missing" : ncb_other ? "bad-cb-multiple" : !all_ok ? "" : "bad-blk-sigops"; if (!wr.empty() && rr != wr) BAD("CheckBlock (%s) rejects with %s, expected %s", what, rr.c_str(), wr.c_str()); }
        if (b2.fChecked != (got && pow && mr)) BAD("CheckBlock (%s): fChecked=%d after result %d with fCheckPOW=%d fCheckMerkleRoot=%d", what, b2.fChecked, got, pow, mr);
    };
    { CBlock b; auto t = mk(true, 0, 0, 1); b.vtx.assign(1000001, t); g_hdr = g_sig = g_mrk = true; run_block(b, true, true, "1,000,001 transactions"); }
    for (uint64_t it = 0; it < n; it++) {
        g_hdr = r.below(10) != 0; g_sig = r.below(10) != 0; g_mrk = r.below(10) != 0; params.signet_blocks = r.below(4) == 0; bool pow = r.below(4) != 0, mr = r.below(4) != 0;
        CBlock b; size_t nt = r.below(6); bool lead = r.below(8) != 0; static const unsigned TOT[] = {0, 5, 19999, 20000, 20001, 20020, 40000}; unsigned target = TOT[r.below(7)]; unsigned left = target;
        for (size_t k = 0; k < nt; k++) { bool cbk = (k == 0) ? lead : r.below(12) == 0; unsigned so = (k + 1 == nt) ? left : (unsigned)r.below(left + 1); unsigned in_part = cbk ? 0 : (unsigned)r.below(so + 1); left -= so; b.vtx.push_back(mk(cbk, so - in_part, in_part, (unsigned)(it * 8 + k), r.below(25) == 0)); }
        run_block(b, pow, mr, "random block");
        // sigop cost of a transaction: legacy in outputs / scriptSig, P2SH redeem script, P2WPKH / P2WSH witness programs
        { g_zero_keys = r.below(3) == 0; CCoinsViewCache view(&CoinsViewEmpty::Get()); CMutableTransaction m; size_t nin = 1 + r.below(4); uint64_t want_p2sh = 0, want_wit = 0, want_legacy = 0; bool cbt = r.below(10) == 0;
          m.vin.resize(cbt ? 1 : nin); if (cbt) { m.vin[0].prevout.SetNull(); m.vin[0].scriptSig = CScript() << 5 << OP_CHECKSIG; want_legacy += 1; }
          else for (size_t i = 0; i < nin; i++) { m.vin[i].prevout = COutPoint(Txid::FromUint256(uint256{(uint8_t)(i + 1)}), (uint32_t)it); CScript spk; int kind = (int)r.below(4); unsigned c = (unsigned)r.below(45);
              if (kind == 0) { spk = sigops_script(c); m.vin[i].scriptSig = CScript() << OP_1; }
              else if (kind == 1) { CScript redeem = sigops_script(c); std::vector<unsigned char> rb(redeem.begin(), redeem.end()); m.vin[i].scriptSig = CScript() << rb; spk = CScript() << OP_HASH160 << std::vector<unsigned char>(20, 7) << OP_EQUAL; want_p2sh += (c / 20) * 20 + c % 20; }
              else if (kind == 2) { spk = CScript() << OP_0 << std::vector<unsigned char>(20, 9); want_wit += 1; }
              else { CScript ws = sigops_script(c); std::vector<unsigned char> wb(ws.begin(), ws.end()); unsigned char h[32]; CSHA256().Write(wb.data(), wb.size()).Finalize(h); spk = CScript() << OP_0 << std::vector<unsigned char>(h, h + 32); m.vin[i].scriptWitness.stack = {wb}; want_wit += (c / 20) * 20 + c % 20; }
              view.AddCoin(m.vin[i].prevout, Coin(CTxOut(1, spk), 1, false), false); }
          unsigned oc = (unsigned)r.below(30); m.vout.resize(1); m.vout[0].scriptPubKey = sigops_script(oc); want_legacy += (oc / 20) * 20 + oc % 20; CTransaction tx(m);
          bool p2sh = r.below(4) != 0, wit = p2sh && r.below(4) != 0; script_verify_flags fl; if (p2sh) fl |= SCRIPT_VERIFY_P2SH; if (wit) fl |= SCRIPT_VERIFY_WITNESS;
          int64_t got = GetTransactionSigOpCost(tx, view, fl); int64_t want = cbt ? (int64_t)want_legacy * 4 : (int64_t)want_legacy * 4 + (p2sh ? want_p2sh * 4 : 0) + (wit ? want_wit : 0); rv::g_stats.inputs++;
          std::vector<size_t> wv; for (size_t i = 0; i < tx.vin.size() && !cbt; i++) wv.push_back(CountWitnessSigOps(tx.vin[i].scriptSig, view.AccessCoin(tx.vin[i].prevout).out.scriptPubKey, tx.vin[i].scriptWitness, fl)); wv.push_back(0);
          xTx xt{GetLegacySigOpCount(tx), cbt ? 0 : GetP2SHSigOpCount(tx, view), tx.IsCoinBase(), tx.vin.size(), wv.data()}; int64_t xg = xc_GetTransactionSigOpCost(&xt, p2sh ? (1u << (unsigned)script_verify_flag_name::SCRIPT_VERIFY_P2SH) : 0u);
          if (got != xg) DIS("GetTransactionSigOpCost real %lld extracted %lld", (long long)got, (long long)xg);
          if (got != want) BAD("GetTransactionSigOpCost (coinbase %d, legacy %llu, P2SH %llu with flag %d, witness %llu with flag %d) = %lld, expected %lld", cbt, (unsigned long long)want_legacy, (unsigned long long)want_p2sh, p2sh, (unsigned long long)want_wit, wit, (long long)got, (long long)want);
          int64_t acc0 = (int64_t)r.below(80001), acc = acc0; xState xs{0, 0, 0}; int broke = xc_ConnectBlock_sigops_accumulation(&acc, &xt, p2sh ? (1u << (unsigned)script_verify_flag_name::SCRIPT_VERIFY_P2SH) : 0u, &xs); if ((broke != 0) != (acc0 + got > 80000) || acc != acc0 + got) DIS("sigops accumulation fragment"); }
        { CBlock wb; wb.vtx.push_back(mk(true, 0, 0, 3)); uint64_t s0 = GetSerializeSize(TX_NO_WITNESS(wb)), s1 = GetSerializeSize(TX_WITH_WITNESS(wb)); if (GetBlockWeight(wb) != (int64_t)(3 * s0 + s1)) BAD("GetBlockWeight = %lld, 3*%llu+%llu expected", (long long)GetBlockWeight(wb), (unsigned long long)s0, (unsigned long long)s1);
          uint64_t a0 = r.below(1100000), a1 = a0 + r.below(1000000); if (r.below(3) == 0) { a0 = 1000000 - r.below(2); a1 = 1000000 + r.below(3); } xBlock xw{false, 1, a0, a1, nullptr, nullptr, nullptr, nullptr, true, true, true}; xState xs{0, 0, 0}; bool okw = xc_ContextualCheckBlock_weight_limit(&xw, &xs); rv::g_stats.inputs++;
          if (xc_GetBlockWeight(&xw) != (int64_t)(3 * a0 + a1) || okw != (3 * a0 + a1 <= 4000000)) DIS("weight fragment"); }
    }
    { static const int HS[] = {0, 1, 2, 15, 16, 17, 18, 127, 128, 129, 255, 256, 32767, 32768, 65535, 65536, 227931, 840000, 8388607, 8388608, 16777216, 2147483646, 2147483647};
      for (uint64_t it = 0; it < n; it++) { int h = r.below(3) ? HS[r.below(sizeof(HS) / sizeof(HS[0]))] : (int)(r.next() & 0x7fffffff) >> (int)r.below(31); std::vector<unsigned char> want = ref_height_push(h), sg = want; int pert = (int)r.below(8);
          if (pert == 1 && !sg.empty()) sg.back() ^= 1; if (pert == 2) sg.pop_back(); if (pert == 3 && sg.size() > 1) { sg[0]++; sg.push_back(0); } if (pert == 4 && sg.size() > 1) { sg.insert(sg.begin(), 0x4c); } if (pert == 5) sg = ref_height_push(h + (h < 2147483647 ? 1 : -1)); if (pert == 6) sg.clear();
          size_t junk = r.below(4); for (size_t k = 0; k < junk && pert != 2 && pert != 6; k++) sg.push_back((unsigned char)r.next()); bool active = r.below(6) != 0;
          CBlock b; CMutableTransaction m; m.vin.resize(1); m.vin[0].prevout.SetNull(); m.vin[0].scriptSig = CScript(sg.begin(), sg.end()); m.vout.resize(1); b.vtx.push_back(MakeTransactionRef(m));
          BlockValidationState st; bool got = orig_bip34(b, h, active, st); bool wantok = !active || (sg.size() >= want.size() && std::equal(want.begin(), want.end(), sg.begin())); rv::g_stats.inputs++;
          unsigned char buf[128] = {0}; memcpy(buf, sg.data(), sg.size()); xBV xs{buf, sg.size(), sg.size()}; xState xst{0, 0, 0}; bool xg = xc_ContextualCheckBlock_bip34(&xs, h, active, &xst);
          if (got != xg) DIS("BIP34 fragment height %d", h);
          if (got != wantok || (!got && st.GetRejectReason() != "bad-cb-height")) BAD("BIP34 check at height %d (active %d) on a coinbase scriptSig of %zu bytes starting %02x: %d, expected %d", h, active, sg.size(), sg.empty() ? 0 : sg[0], got, wantok); } }
    for (uint64_t it = 0; it < n * 3; it++) test_sigop_scanner(r);
    rv::report();
    return rv::g_stats.real_violations ? 1 : (rv::g_stats.disagreements ? 3 : 0);
}
