/* C06: block structure and resource limits. */
#include "verif_tx.h"
#include "verif_ser.h"
#define C06_CONSTS
#include "slices.h"      /* first pass: extracted constants and the BlockValidationResult enum */
#undef C06_CONSTS
bool nondet_bool(void); size_t nondet_size_t(void); unsigned nondet_uint(void);
typedef struct { bool fChecked; size_t vtx_size; uint64_t ser_size_nowit, ser_size_total; } CBlockView;
typedef struct { bool signet_blocks; } ConsensusParamsView;
typedef struct { int mode_invalid; int result; uint32_t reason; } BlockValidationState;      /* VERIF_STUB of ValidationState<BlockValidationResult> */
typedef struct { unsigned legacy_sigops, p2sh_sigops; bool is_coinbase; size_t vin_size; } TxView;
#define VERIF_ASSERT(c) __CPROVER_assert(c, "assert() in the original")
static inline bool BlockState_Invalid(BlockValidationState* state, int result, uint32_t reason);
/* ---- ghosts of CheckBlock ---- */
bool g_header_ok, g_signet_ok, g_merkle_ok; bool g_header_called, g_signet_called, g_merkle_called;
size_t g_k; bool g_k_coinbase, g_k_txok; uint32_t g_k_txreason; unsigned g_k_sigops;     /* pinned transaction position and its properties */
size_t g_cb_at; size_t g_fail_at; uint32_t g_fail_reason;                                   /* last positions the code looked at */
unsigned __int128 g_sig_sum;                                                                /* mathematical sum of the legacy sigop counts the code has added */
size_t g_sig_n;
static inline bool BlockState_Invalid(BlockValidationState* state, int result, uint32_t reason) { state->result = result; state->reason = reason; state->mode_invalid = 1; return 0; }
static inline bool BlockState_Invalid_from_tx(BlockValidationState* state, int result, const TxValidationState* tx_state) { state->result = result; state->reason = tx_state->reason; state->mode_invalid = 1; return 0; }
#define REASON_OTHER 0x7fffffffu
static inline bool CheckBlockHeader(const CBlockView* b, BlockValidationState* st, const ConsensusParamsView* p, bool fCheckPOW) { g_header_called = 1; if (!g_header_ok) BlockState_Invalid(st, 3 /* BLOCK_INVALID_HEADER */, REASON_OTHER); return g_header_ok; }
static inline bool CheckSignetBlockSolution(const CBlockView* b, const ConsensusParamsView* p) { g_signet_called = 1; return g_signet_ok; }
static inline bool CheckMerkleRoot(const CBlockView* b, BlockValidationState* st) { g_merkle_called = 1; if (!g_merkle_ok) BlockState_Invalid(st, 4 /* BLOCK_MUTATED */, REASON_OTHER); return g_merkle_ok; }
static inline bool Tx_IsCoinBase(const CBlockView* b, size_t k) { __CPROVER_assert(k < b->vtx_size, "vtx[k] exists"); bool c = (k == g_k) ? g_k_coinbase : nondet_bool(); g_cb_at = k; return c; }
static inline bool CheckTransaction_at(const CBlockView* b, size_t k, TxValidationState* ts) { __CPROVER_assert(k < b->vtx_size, "vtx[k] exists"); bool ok = (k == g_k) ? g_k_txok : nondet_bool(); uint32_t r = (k == g_k) ? g_k_txreason : nondet_uint();
    __CPROVER_assume(r != SPEC_R_bad_blk_sigops && r != SPEC_R_bad_cb_multiple && r != SPEC_R_bad_cb_missing && r != SPEC_R_bad_blk_length && r != SPEC_R_bad_signet_blksig && r != REASON_OTHER);   /* a transaction's reject reason is none of the block-level ones */
    if (!ok) { TxState_Invalid(ts, TX_CONSENSUS, r); g_fail_at = k; g_fail_reason = r; } return ok; }
static inline unsigned GetLegacySigOpCount_at(const CBlockView* b, size_t k) { __CPROVER_assert(k < b->vtx_size, "vtx[k] exists"); unsigned c = (k == g_k) ? g_k_sigops : nondet_uint();
    __CPROVER_assume(g_sig_sum + c <= b->ser_size_nowit);    /* ASSUMED: a legacy sigop is at least one script byte of the stripped block */
    g_sig_sum = g_sig_sum + c; g_sig_n = k + 1; return c; }

#define LOOP_ONECB \
    __CPROVER_assigns(i, g_cb_at) \
    __CPROVER_loop_invariant(i >= 1 && i <= block->vtx_size && ((g_k >= 1 && g_k < i) ==> !g_k_coinbase)) \
    __CPROVER_decreases(block->vtx_size - i)
#define LOOP_CHECKTX \
    __CPROVER_assigns(i_chk, g_fail_at, g_fail_reason) \
    __CPROVER_loop_invariant(i_chk <= block->vtx_size && (g_k < i_chk ==> g_k_txok)) \
    __CPROVER_decreases(block->vtx_size - i_chk)
#define LOOP_SIGOPS \
    __CPROVER_assigns(i_sig, nSigOps, g_sig_sum, g_sig_n) \
    __CPROVER_loop_invariant(i_sig <= block->vtx_size && g_sig_n == i_sig && g_sig_sum <= block->ser_size_nowit && (unsigned __int128)nSigOps == g_sig_sum && (g_k < i_sig ==> g_sig_sum >= g_k_sigops)) \
    __CPROVER_decreases(block->vtx_size - i_sig)
#define CB_FRESH (!__CPROVER_old(block->fChecked))
#define CB_ERR(res, r) (!__CPROVER_return_value && state->mode_invalid == 1 && state->result == (res) && state->reason == (r))
#define CB_PRE_OK (g_header_ok && (!(consensusParams->signet_blocks && fCheckPOW) || g_signet_ok) && (!fCheckMerkleRoot || g_merkle_ok))
#define CB_SIZE_OK (block->vtx_size >= 1 && (unsigned __int128)block->vtx_size * 4 <= 4000000 && (unsigned __int128)block->ser_size_nowit * 4 <= 4000000)
VERIF_REACH_DECL(CheckBlock)
bool CheckBlock(CBlockView* block, BlockValidationState* state, const ConsensusParamsView* consensusParams, bool fCheckPOW, bool fCheckMerkleRoot)
__CPROVER_requires(__CPROVER_is_fresh(block, sizeof(CBlockView)) && __CPROVER_is_fresh(state, sizeof(BlockValidationState)) && __CPROVER_is_fresh(consensusParams, sizeof(ConsensusParamsView)) && state->mode_invalid == 0)
__CPROVER_requires(block->vtx_size <= 0x02000000 && block->ser_size_nowit <= 0x100000000ull && g_sig_sum == 0 && g_sig_n == 0 && !g_header_called && !g_signet_called && !g_merkle_called)
__CPROVER_requires(g_header_ok <= 1 && g_signet_ok <= 1 && g_merkle_ok <= 1 && g_k_coinbase <= 1 && g_k_txok <= 1 && fCheckPOW <= 1 && fCheckMerkleRoot <= 1 && block->fChecked <= 1 && consensusParams->signet_blocks <= 1)
__CPROVER_ensures(!CB_FRESH ==> (__CPROVER_return_value && state->mode_invalid == 0 && !g_header_called))
/* the order of the checks, each with its reason */
__CPROVER_ensures((CB_FRESH && !g_header_ok) ==> (!__CPROVER_return_value && state->mode_invalid == 1 && !g_merkle_called))
__CPROVER_ensures((CB_FRESH && g_header_ok && consensusParams->signet_blocks && fCheckPOW && !g_signet_ok) ==> CB_ERR(BLOCK_CONSENSUS, SPEC_R_bad_signet_blksig))
__CPROVER_ensures((CB_FRESH && g_header_ok && (!(consensusParams->signet_blocks && fCheckPOW) || g_signet_ok) && fCheckMerkleRoot && !g_merkle_ok) ==> (!__CPROVER_return_value && state->mode_invalid == 1 && state->result == BLOCK_MUTATED))
__CPROVER_ensures((CB_FRESH && CB_PRE_OK && !CB_SIZE_OK) ==> CB_ERR(BLOCK_CONSENSUS, SPEC_R_bad_blk_length))
__CPROVER_ensures((CB_FRESH && CB_PRE_OK && CB_SIZE_OK && g_k == 0 && !g_k_coinbase) ==> CB_ERR(BLOCK_CONSENSUS, SPEC_R_bad_cb_missing))
/* acceptance implies every structural rule (pinned position = any position) */
__CPROVER_ensures((CB_FRESH && __CPROVER_return_value) ==> (CB_PRE_OK && CB_SIZE_OK && state->mode_invalid == 0))
__CPROVER_ensures((CB_FRESH && __CPROVER_return_value && g_k < block->vtx_size) ==> ((g_k == 0) == (g_k_coinbase != 0)))
__CPROVER_ensures((CB_FRESH && __CPROVER_return_value && g_k < block->vtx_size) ==> g_k_txok)
#ifdef TWIN_SIGOPS
__CPROVER_ensures((CB_FRESH && __CPROVER_return_value) ==> (g_sig_n == block->vtx_size && g_sig_sum * 4 <= 79996))
#else
__CPROVER_ensures((CB_FRESH && __CPROVER_return_value) ==> (g_sig_n == block->vtx_size && g_sig_sum * 4 <= 80000 && (g_k < block->vtx_size ==> g_sig_sum >= g_k_sigops)))
#endif
/* and the smallest violations are rejected with their reasons */
__CPROVER_ensures(CB_ERR(BLOCK_CONSENSUS, SPEC_R_bad_cb_multiple) ==> (CB_FRESH && CB_PRE_OK && CB_SIZE_OK && g_cb_at >= 1 && g_cb_at < block->vtx_size))
#ifdef TWIN_TWO_CB
__CPROVER_ensures((CB_FRESH && CB_PRE_OK && CB_SIZE_OK && g_k >= 2 && g_k < block->vtx_size && g_k_coinbase) ==> __CPROVER_return_value)
#else
__CPROVER_ensures((CB_FRESH && CB_PRE_OK && CB_SIZE_OK && g_k >= 1 && g_k < block->vtx_size && g_k_coinbase) ==> (!__CPROVER_return_value && (state->reason == SPEC_R_bad_cb_multiple || state->reason == SPEC_R_bad_cb_missing)))
#endif
__CPROVER_ensures((CB_FRESH && CB_PRE_OK && CB_SIZE_OK && g_k < block->vtx_size && !g_k_txok) ==> !__CPROVER_return_value)
__CPROVER_ensures(CB_ERR(BLOCK_CONSENSUS, SPEC_R_bad_blk_sigops) ==> (CB_FRESH && g_sig_n == block->vtx_size && g_sig_sum * 4 > 80000))
__CPROVER_ensures((CB_FRESH && g_sig_n == block->vtx_size && g_sig_sum * 4 > 80000) ==> CB_ERR(BLOCK_CONSENSUS, SPEC_R_bad_blk_sigops))
__CPROVER_ensures((block->fChecked != 0) == (!CB_FRESH || (__CPROVER_return_value && fCheckPOW && fCheckMerkleRoot)))
VERIF_REACH_ENSURES(CheckBlock, CB_FRESH && __CPROVER_return_value && block->vtx_size > 3 && g_sig_sum == 20000)
VERIF_REACH_ENSURES(CheckBlock, CB_ERR(BLOCK_CONSENSUS, SPEC_R_bad_blk_sigops) && g_sig_sum == 20001)
VERIF_REACH_ENSURES(CheckBlock, CB_ERR(BLOCK_CONSENSUS, SPEC_R_bad_cb_multiple) && g_cb_at == 5)
VERIF_REACH_ENSURES(CheckBlock, CB_ERR(BLOCK_CONSENSUS, SPEC_R_bad_blk_length) && block->vtx_size == 1000001)
__CPROVER_assigns(block->fChecked, state->mode_invalid, state->result, state->reason, g_header_called, g_signet_called, g_merkle_called, g_cb_at, g_fail_at, g_fail_reason, g_sig_sum, g_sig_n);

/* ---- GetTransactionSigOpCost ---- */
size_t g_i; size_t g_i_wit;                 /* pinned input and its witness sigop count */
unsigned __int128 g_wit_sum; size_t g_wit_n;
static inline bool Coin_IsSpent_at(const TxView* tx, size_t i) { __CPROVER_assert(i < tx->vin_size, "vin[i] exists"); return 0; }   /* ASSUMED: inputs exist and are unspent (checked by CheckTxInputs before) */
static inline size_t CountWitnessSigOps_at(const TxView* tx, size_t i, unsigned flags) { size_t c = (i == g_i) ? g_i_wit : nondet_size_t(); __CPROVER_assume(g_wit_sum + c <= 4000000);   /* ASSUMED: a witness sigop is at least one witness byte of the transaction */ g_wit_sum = g_wit_sum + c; g_wit_n = i + 1; return c; }
#define LOOP_WITSIG \
    __CPROVER_assigns(i, nSigOps, g_wit_sum, g_wit_n) \
    __CPROVER_loop_invariant(i <= tx->vin_size && g_wit_n == i && g_wit_sum <= 4000000 && (__int128)nSigOps == (__int128)SPEC_BASE + (__int128)g_wit_sum && (g_i < i ==> g_wit_sum >= g_i_wit)) \
    __CPROVER_decreases(tx->vin_size - i)
#define SCRIPT_VERIFY_P2SH (1u << BIT_SCRIPT_VERIFY_P2SH)      /* script_verify_flags is a bitset over the extracted enum */
#define SPEC_BASE ((int64_t)tx->legacy_sigops * 4 + ((flags & SCRIPT_VERIFY_P2SH) ? (int64_t)tx->p2sh_sigops * 4 : 0))
VERIF_REACH_DECL(GetTransactionSigOpCost)
int64_t GetTransactionSigOpCost(const TxView* tx, unsigned flags)
__CPROVER_requires(__CPROVER_is_fresh(tx, sizeof(TxView)) && tx->legacy_sigops <= 4000000 && tx->p2sh_sigops <= 4000000 && tx->vin_size <= 0x02000000 && tx->is_coinbase <= 1 && g_wit_sum == 0 && g_wit_n == 0)
#ifdef TWIN_COST
__CPROVER_ensures(!tx->is_coinbase ==> __CPROVER_return_value == (int64_t)tx->legacy_sigops * 4 + (int64_t)tx->p2sh_sigops * 4 + (int64_t)g_wit_sum)
#endif
__CPROVER_ensures(g_wit_sum <= 4000000)
__CPROVER_ensures(tx->is_coinbase ==> (__CPROVER_return_value == (int64_t)tx->legacy_sigops * 4 && g_wit_n == 0))
__CPROVER_ensures(!tx->is_coinbase ==> (g_wit_n == tx->vin_size && (__int128)__CPROVER_return_value == (__int128)SPEC_BASE + (__int128)g_wit_sum && (g_i < tx->vin_size ==> g_wit_sum >= g_i_wit)))
__CPROVER_ensures(__CPROVER_return_value >= 0)
VERIF_REACH_ENSURES(GetTransactionSigOpCost, !tx->is_coinbase && tx->vin_size == 3 && g_wit_sum == 7 && (flags & 1))
__CPROVER_assigns(g_wit_sum, g_wit_n);

/* ---- ConnectBlock: nSigOpsCost += ...; if (nSigOpsCost > MAX_BLOCK_SIGOPS_COST) ---- */
int ConnectBlock_sigops_accumulation(int64_t* nSigOpsCost_p, const TxView* tx_p, unsigned flags, BlockValidationState* state)
__CPROVER_requires(__CPROVER_is_fresh(nSigOpsCost_p, sizeof(int64_t)) && __CPROVER_is_fresh(tx_p, sizeof(TxView)) && __CPROVER_is_fresh(state, sizeof(BlockValidationState)) && state->mode_invalid == 0)
__CPROVER_requires(*nSigOpsCost_p >= 0 && *nSigOpsCost_p <= 80000 && tx_p->legacy_sigops <= 4000000 && tx_p->p2sh_sigops <= 4000000 && tx_p->vin_size <= 25000 && tx_p->is_coinbase <= 1 && g_wit_sum == 0 && g_wit_n == 0)
__CPROVER_ensures(*nSigOpsCost_p >= __CPROVER_old(*nSigOpsCost_p))
#ifdef TWIN_80001
__CPROVER_ensures((__CPROVER_return_value == 0) == (*nSigOpsCost_p <= 80001))
#else
__CPROVER_ensures((__CPROVER_return_value == 0) == (*nSigOpsCost_p <= 80000))
#endif
__CPROVER_ensures(__CPROVER_return_value != 0 ==> (state->mode_invalid == 1 && state->result == BLOCK_CONSENSUS && state->reason == SPEC_R_bad_blk_sigops))
__CPROVER_ensures(__CPROVER_return_value == 0 ==> state->mode_invalid == 0)
__CPROVER_assigns(*nSigOpsCost_p, state->mode_invalid, state->result, state->reason, g_wit_sum, g_wit_n);

/* ---- BIP34: the coinbase scriptSig starts with the script push of the height ---- */
typedef unsigned char value_type; typedef int opcodetype; int g_thrown;
static inline void ByteVec_push(ByteVec* v, unsigned char b) { __CPROVER_assert(v->size < v->cap, "push within the ghost capacity"); v->data[v->size] = b; v->size = v->size + 1; }
static inline void ByteVec_append(ByteVec* v, const unsigned char* p, size_t n) { for (size_t k = 0; k < n; k++) ByteVec_push(v, p[k]); }           /* VERIF_STUB insert(end(), first, last) */
static inline bool ByteVec_equal_prefix(const ByteVec* e, const ByteVec* s) { for (size_t k = 0; k < e->size; k++) if (e->data[k] != s->data[k]) return 0; return 1; }   /* VERIF_STUB std::equal(e.begin(), e.end(), s.begin()) */
static inline void WriteLE16(unsigned char* p, uint16_t x) { p[0] = (unsigned char)x; p[1] = (unsigned char)(x >> 8); }
static inline void WriteLE32(unsigned char* p, uint32_t x) { p[0] = (unsigned char)x; p[1] = (unsigned char)(x >> 8); p[2] = (unsigned char)(x >> 16); p[3] = (unsigned char)(x >> 24); }
#define SIG(k) (cb_scriptSig->data[k])
#define H ((unsigned)nHeight)
#define NB (H < 0x80u ? 1u : H < 0x8000u ? 2u : H < 0x800000u ? 3u : 4u)         /* minimal sign-magnitude length of a positive height below 2^31 */
#ifdef TWIN_BIP34
#define NB_T (H <= 0x80u ? 1u : H < 0x8000u ? 2u : H < 0x800000u ? 3u : 4u)
#else
#define NB_T NB
#endif
#define HEIGHT_PREFIX_OK (nHeight == 0 ? (cb_scriptSig->size >= 1 && SIG(0) == 0x00) : nHeight <= 16 ? (cb_scriptSig->size >= 1 && SIG(0) == 0x50 + H) : \
    (cb_scriptSig->size >= 1 + NB_T && SIG(0) == NB_T && SIG(1) == (H & 0xff) && (NB_T < 2 || SIG(2) == ((H >> 8) & 0xff)) && (NB_T < 3 || SIG(3) == ((H >> 16) & 0xff)) && (NB_T < 4 || SIG(4) == ((H >> 24) & 0xff))))
VERIF_REACH_DECL(ContextualCheckBlock_bip34)
bool ContextualCheckBlock_bip34(const ByteVec* cb_scriptSig, const int nHeight, bool bip34_active, BlockValidationState* state)
__CPROVER_requires(__CPROVER_is_fresh(cb_scriptSig, sizeof(ByteVec)) && cb_scriptSig->size <= 100 && __CPROVER_is_fresh(cb_scriptSig->data, 100) && nHeight >= 0 && bip34_active <= 1)
__CPROVER_requires(__CPROVER_is_fresh(state, sizeof(BlockValidationState)) && state->mode_invalid == 0)
__CPROVER_ensures(!bip34_active ==> (__CPROVER_return_value && state->mode_invalid == 0))
__CPROVER_ensures(bip34_active ==> ((__CPROVER_return_value != 0) == HEIGHT_PREFIX_OK))
__CPROVER_ensures(!__CPROVER_return_value ==> (state->mode_invalid == 1 && state->result == BLOCK_CONSENSUS && state->reason == SPEC_R_bad_cb_height))
VERIF_REACH_ENSURES(ContextualCheckBlock_bip34, bip34_active && __CPROVER_return_value && nHeight == 840000)
VERIF_REACH_ENSURES(ContextualCheckBlock_bip34, bip34_active && __CPROVER_return_value && nHeight == 16)
VERIF_REACH_ENSURES(ContextualCheckBlock_bip34, bip34_active && !__CPROVER_return_value && nHeight == 128 && cb_scriptSig->size > 5 && SIG(0) == 1)
__CPROVER_assigns(state->mode_invalid, state->result, state->reason, g_thrown);

/* ---- CScript::GetSigOpCount(fAccurate): BIP16 / consensus counting rule ---- */
typedef struct { size_t n; } OpStream;                 /* the script as GetOp decodes it, one instruction per call */
unsigned char nondet_uchar(void);
bool g_acc; int g_prev_op; uint64_t g_spec_n; bool g_stopped; size_t g_decoded;
static inline bool OpStream_GetOp(const OpStream* s, size_t* pc, opcodetype* opcode)      /* VERIF_STUB of CScript::GetOp; keeps the count the rule prescribes */
{
    bool ok = nondet_bool(); int op = nondet_uchar(); *pc = *pc + 1;
    if (!ok) { g_stopped = 1; *opcode = 0xff; return 0; }
    uint64_t c = 0;
    if (op == 0xac || op == 0xad) c = 1;                                                                      /* OP_CHECKSIG, OP_CHECKSIGVERIFY */
#ifdef TWIN_OP0
    else if (op == 0xae || op == 0xaf) c = (g_acc && (g_prev_op == 0x00 || (g_prev_op >= 0x51 && g_prev_op <= 0x60))) ? (g_prev_op == 0 ? 0 : (uint64_t)(g_prev_op - 0x50)) : 20;
#else
    else if (op == 0xae || op == 0xaf) c = (g_acc && g_prev_op >= 0x51 && g_prev_op <= 0x60) ? (uint64_t)(g_prev_op - 0x50) : 20;   /* OP_CHECKMULTISIG(VERIFY): the key count pushed by OP_1..OP_16 right before it (accurate mode), else 20 */
#endif
    g_spec_n = g_spec_n + c; g_prev_op = op; g_decoded = g_decoded + 1; *opcode = op; return 1;
}
#define LOOP_SIGOPSCAN \
    __CPROVER_assigns(pc, n, lastOpcode, g_prev_op, g_spec_n, g_stopped, g_decoded) \
    __CPROVER_loop_invariant(pc <= self->n && !g_stopped && g_decoded == pc && (uint64_t)n == g_spec_n && g_spec_n <= 20 * (uint64_t)pc && lastOpcode == g_prev_op) \
    __CPROVER_decreases(self->n - pc)
VERIF_REACH_DECL(CScript_GetSigOpCount)
unsigned int CScript_GetSigOpCount(const OpStream* self, bool fAccurate)
__CPROVER_requires(__CPROVER_is_fresh(self, sizeof(OpStream)) && self->n <= 0x02000000 && fAccurate <= 1 && g_acc == fAccurate && g_prev_op == 0xff && g_spec_n == 0 && !g_stopped && g_decoded == 0)
__CPROVER_ensures((uint64_t)__CPROVER_return_value == g_spec_n && (g_stopped || g_decoded == self->n))
VERIF_REACH_ENSURES(CScript_GetSigOpCount, __CPROVER_return_value == 23 && fAccurate && g_decoded == 4 && !g_stopped)
VERIF_REACH_ENSURES(CScript_GetSigOpCount, __CPROVER_return_value == 20 && fAccurate && g_decoded == 2 && g_stopped)
__CPROVER_assigns(g_prev_op, g_spec_n, g_stopped, g_decoded);

/* ---- GetBlockWeight and the weight limit of ContextualCheckBlock ---- */
int64_t GetBlockWeight(const CBlockView* block)
__CPROVER_requires(__CPROVER_is_fresh(block, sizeof(CBlockView)) && block->ser_size_nowit <= 0x100000000ull && block->ser_size_total <= 0x100000000ull)
__CPROVER_ensures((__int128)__CPROVER_return_value == (__int128)block->ser_size_nowit * 3 + (__int128)block->ser_size_total)
__CPROVER_assigns();
bool ContextualCheckBlock_weight_limit(const CBlockView* block, BlockValidationState* state)
__CPROVER_requires(__CPROVER_is_fresh(block, sizeof(CBlockView)) && block->ser_size_nowit <= 0x100000000ull && block->ser_size_total <= 0x100000000ull && __CPROVER_is_fresh(state, sizeof(BlockValidationState)) && state->mode_invalid == 0)
#ifdef TWIN_WEIGHT
__CPROVER_ensures((__CPROVER_return_value != 0) == ((__int128)block->ser_size_nowit * 3 + (__int128)block->ser_size_total < 4000000))
#else
__CPROVER_ensures((__CPROVER_return_value != 0) == ((__int128)block->ser_size_nowit * 3 + (__int128)block->ser_size_total <= 4000000))
#endif
__CPROVER_ensures(!__CPROVER_return_value ==> (state->mode_invalid == 1 && state->result == BLOCK_CONSENSUS && state->reason == SPEC_R_bad_blk_weight))
__CPROVER_assigns(state->mode_invalid, state->result, state->reason);

#define C06_FUNCS
#include "slices.h"      /* second pass: extracted functions and fragments */

void h_CheckBlock(void) { CBlockView* b; BlockValidationState* st; const ConsensusParamsView* cp; bool pow = nondet_bool(), mr = nondet_bool(); g_header_ok = nondet_bool(); g_signet_ok = nondet_bool(); g_merkle_ok = nondet_bool();
    g_k = nondet_size_t(); g_k_coinbase = nondet_bool(); g_k_txok = nondet_bool(); g_k_txreason = nondet_uint(); g_k_sigops = nondet_uint(); VERIF_REACH_ON(CheckBlock); CheckBlock(b, st, cp, pow, mr); }
void h_GetTransactionSigOpCost(void) { const TxView* t; unsigned fl; g_i = nondet_size_t(); g_i_wit = nondet_size_t(); VERIF_REACH_ON(GetTransactionSigOpCost); GetTransactionSigOpCost(t, fl); }
void h_sigops_accumulation(void) { int64_t* c; const TxView* t; BlockValidationState* st; unsigned fl; int r = ConnectBlock_sigops_accumulation(c, t, fl, st); if (r) VERIF_REACH_PT("rejected"); else VERIF_REACH_PT("accepted"); }
void h_GetSigOpCount(void) { const OpStream* sc; bool acc = nondet_bool(); g_acc = acc; g_prev_op = 0xff; VERIF_REACH_ON(CScript_GetSigOpCount); CScript_GetSigOpCount(sc, acc); }
void h_bip34(void) { const ByteVec* sg; BlockValidationState* st; int h; bool act = nondet_bool(); VERIF_REACH_ON(ContextualCheckBlock_bip34); ContextualCheckBlock_bip34(sg, h, act, st); }
void h_GetBlockWeight(void) { const CBlockView* b; GetBlockWeight(b); VERIF_REACH_PT("weight"); }
void h_weight_limit(void) { const CBlockView* b; BlockValidationState* st; bool r = ContextualCheckBlock_weight_limit(b, st); if (r) VERIF_REACH_PT("accepted"); else VERIF_REACH_PT("rejected"); }
