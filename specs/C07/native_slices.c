/* native build of the extracted text (compiled as C++ so the division stub can use the real arith_uint256) */
#include <arith_uint256.h>
#include <string.h>
#include "verif_arith.h"
#include "verif_chain.h"
typedef struct { int64_t nPowTargetTimespan, nPowTargetSpacing; bool fPowNoRetargeting, fPowAllowMinDifficultyBlocks, enforce_BIP94; base_uint256 powLimit; } Consensus_Params;
typedef struct { int32_t nVersion; uint32_t nTime; uint32_t nBits; uint32_t nNonce; } CBlockHeader;
enum { BLOCK_RESULT_UNSET = 0, BLOCK_CONSENSUS, BLOCK_CACHED_INVALID, BLOCK_INVALID_HEADER, BLOCK_MUTATED, BLOCK_MISSING_PREV, BLOCK_INVALID_PREV, BLOCK_TIME_FUTURE, BLOCK_HEADER_LOW_WORK };
typedef struct { int mode_invalid; int result; uint32_t reason; } BlockValidationState;
static inline bool BlockState_Invalid(BlockValidationState* state, int result, uint32_t reason) { state->result = result; state->reason = reason; state->mode_invalid = 1; return 0; }
extern "C" {
const CBlockIndex* g_anc; bool g_pdt_boundary;
#define GHOST_CAPTURE(g, cond) ((g) = (cond))
static const CBlockIndex* CBlockIndex_GetAncestor(const CBlockIndex* self, int height) { return g_anc; }
static void base_uint_div_u64(base_uint256* self, uint64_t d)
{
    arith_uint256 a; for (int i = 7; i >= 0; i--) { a <<= 32; a += self->pn[i]; }
    a /= arith_uint256(d);
    for (int i = 0; i < 8; i++) { self->pn[i] = (uint32_t)a.GetLow64(); a >>= 32; }
}
#include "slices.h"
}
