import os, sys
sys.path.insert(0, os.path.dirname(os.path.dirname(os.path.abspath(__file__))))
from common_arith import ARITH_SLICES
from engine.extract import R, refparam, invalid_rule

AV = r"(bnNew|bnPowLimit|pow_limit|observed_new_target|largest_difficulty_target|maximum_new_target|smallest_difficulty_target|minimum_new_target|bnTarget)"
POWR = [
    R("type:Consensus::Params", r"Consensus::Params", "Consensus_Params", False),
] + refparam("params", required=False) + [
    R("call:params.DifficultyAdjustmentInterval()", r"params->DifficultyAdjustmentInterval\(\)", "Params_DifficultyAdjustmentInterval(params)", False),
    R("call:GetBlockTime()", r"(\w+)->GetBlockTime\(\)", r"CBlockIndex_GetBlockTime(\1)", False),
    R("ghost:UintToArith256(params.powLimit) (powLimit held as limbs)", r"UintToArith256\(params->powLimit\)", "params->powLimit", False),
    R("decl:arith_uint256 default-constructed", r"\barith_uint256 (\w+);", r"base_uint256 \1 = {{0}};", False),
    R("type:arith_uint256", r"\barith_uint256\b", "base_uint256", False),
    R("call:X.SetCompact(e)", AV + r"\.SetCompact\(([^;,]+)\);", r"arith_SetCompact(&\1, \2, NULL, NULL);", False),
    R("call:X *= e  (overload operator*=(uint32_t))", AV + r" \*= ([^;]+);", r"base_uint_mul32(&\1, \2);", False),
    R("call:X /= e  (operator/=(base_uint(uint64_t)))", AV + r" /= ([^;]+);", r"base_uint_div_u64(&\1, \2);", False),
    R("call:operator<=> via CompareTo", AV + r" (<=|>=|<|>) " + AV + r"\b", r"base_uint_CompareTo(&\1, &\3) \2 0", False),
    R("call:X.GetCompact()", AV + r"\.GetCompact\(\)", r"arith_GetCompact(&\1, 0)", False),
    R("call:GetAncestor", r"(\w+)->GetAncestor\(([^;]+?)\);", r"CBlockIndex_GetAncestor(\1, \2);", False),
]

POW = "src/pow.cpp"
POW_SLICES = [
    {"name": "MAX_FUTURE_BLOCK_TIME", "kind": "const", "file": "src/chain.h", "pat": r"inline constexpr int64_t MAX_FUTURE_BLOCK_TIME = ([^;]+);", "emit": r"static const int64_t MAX_FUTURE_BLOCK_TIME = \1;"},
    {"name": "MAX_TIMEWARP", "kind": "const", "file": "src/consensus/consensus.h", "pat": r"inline constexpr int64_t MAX_TIMEWARP = ([^;]+);", "emit": r"static const int64_t MAX_TIMEWARP = \1;"},
    {"name": "CHAIN_TIMESPANS", "kind": "const_list", "file": "src/kernel/chainparams.cpp", "min_count": 5, "pat": r"consensus\.nPowTargetTimespan\s*=\s*([^;]+);",
     "emit": "static const int64_t CHAIN_TIMESPANS[] = {{ {values} }};\n#define N_CHAIN_TIMESPANS {n}"},
    {"name": "CHAIN_SPACINGS", "kind": "const_list", "file": "src/kernel/chainparams.cpp", "min_count": 5, "pat": r"consensus\.nPowTargetSpacing\s*=\s*([^;]+);",
     "emit": "static const int64_t CHAIN_SPACINGS[] = {{ {values} }};\n#define N_CHAIN_SPACINGS {n}"},
    {"name": "Params_DifficultyAdjustmentInterval", "kind": "func", "file": "src/consensus/params.h", "head": r"int64_t DifficultyAdjustmentInterval\(\)",
     "rules": [R("method-head", r"int64_t DifficultyAdjustmentInterval\(\) const", "int64_t Params_DifficultyAdjustmentInterval(const Consensus_Params* self)"),
               R("member:nPowTargetTimespan", r"(?<![\w>.])nPowTargetTimespan", "self->nPowTargetTimespan"), R("member:nPowTargetSpacing", r"(?<![\w>.])nPowTargetSpacing", "self->nPowTargetSpacing")]},
    {"name": "CBlockIndex_GetBlockTime", "kind": "func", "file": "src/chain.h", "within_class": r"class CBlockIndex", "head": r"int64_t GetBlockTime\(\)",
     "rules": [R("method-head", r"int64_t GetBlockTime\(\) const", "int64_t CBlockIndex_GetBlockTime(const CBlockIndex* self)"), R("member:nTime", r"(?<![\w>.])nTime", "self->nTime")]},
    {"name": "DeriveTarget", "kind": "func", "file": POW, "head": r"std::optional<arith_uint256> DeriveTarget\(unsigned int nBits, const uint256 pow_limit\)",
     "rules": [R("head: optional<arith_uint256> return -> bool + out-param; pow_limit passed as limbs", r"std::optional<arith_uint256> DeriveTarget\(unsigned int nBits, const uint256 pow_limit\)",
                 "bool DeriveTarget(unsigned int nBits, const base_uint256* pow_limit, base_uint256* out)"),
               R("decl:arith_uint256", r"\barith_uint256 (\w+);", r"base_uint256 \1 = {{0}};"),
               R("call:SetCompact", r"bnTarget\.SetCompact\(nBits, &fNegative, &fOverflow\);", "arith_SetCompact(&bnTarget, nBits, &fNegative, &fOverflow);", False),
               R("call:operator==(uint64_t) via EqualTo", r"bnTarget == (\d+)", r"base_uint_EqualTo(&bnTarget, \1)", False),
               R("call:operator!=(uint64_t) via EqualTo", r"bnTarget != (\d+)", r"!base_uint_EqualTo(&bnTarget, \1)", False),
               R("call:operator<=> via CompareTo (operator kept); UintToArith256(pow_limit) ghost", r"bnTarget (<=|>=|<|>) UintToArith256\(pow_limit\)", r"base_uint_CompareTo(&bnTarget, pow_limit) \1 0", False),
               R("return nullopt", r"return \{\};", "return 0;", False),
               R("return value", r"return bnTarget;", "{ *out = bnTarget; return 1; }", False)]},
    {"name": "CheckProofOfWorkImpl", "kind": "func", "file": POW, "head": r"bool CheckProofOfWorkImpl\(uint256 hash, unsigned int nBits, const Consensus::Params& params\)",
     "rules": [R("head: hash passed as limbs (UintToArith256 outside)", r"bool CheckProofOfWorkImpl\(uint256 hash,", "bool CheckProofOfWorkImpl(const base_uint256* hash,")] + POWR[:3] + [
               R("optional-decl", r"auto bnTarget\{DeriveTarget\(nBits, params->powLimit\)\};", "base_uint256 bnTarget; bool bnTarget_has = DeriveTarget(nBits, &params->powLimit, &bnTarget);", False),
               R("optional-test", r"if \(!bnTarget\)", "if (!bnTarget_has)", False),
               R("call:operator<=> via CompareTo (operator kept)", r"UintToArith256\(hash\) (<=|>=|<|>) bnTarget", r"base_uint_CompareTo(hash, &bnTarget) \1 0", False)]},
    {"name": "CalculateNextWorkRequired", "kind": "func", "file": POW,
     "head": r"unsigned int CalculateNextWorkRequired\(const CBlockIndex\* pindexLast, int64_t nFirstBlockTime, const Consensus::Params& params\)", "rules": POWR},
    {"name": "PermittedDifficultyTransition", "kind": "func", "file": POW,
     "head": r"bool PermittedDifficultyTransition\(const Consensus::Params& params, int64_t height, uint32_t old_nbits, uint32_t new_nbits\)",
     "rules": POWR + [R("ghost-capture: the retarget-boundary test (condition kept verbatim inside the capture)", r"if \((height % [^{;]*?)\) \{", r"if (GHOST_CAPTURE(g_pdt_boundary, \1)) {", False)]},
    {"name": "header_checks", "cname": "ContextualCheckBlockHeader_frag", "kind": "frag", "file": "src/validation.cpp",
     "within": r"static bool ContextualCheckBlockHeader\([^)]*\) EXCLUSIVE_LOCKS_REQUIRED\(::cs_main\)",
     "begin": r"if \(block\.nBits != GetNextWorkRequired", "end": r"if \(\(block\.nVersion < 2", "include_end": False,
     "prologue": "bool ContextualCheckBlockHeader_frag(const CBlockHeader* block, BlockValidationState* state, const Consensus_Params* consensusParams, const CBlockIndex* pindexPrev,\n"
                 "        int nHeight, int64_t interval, unsigned int required_bits, int64_t mtp_prev, int64_t now_ns)\n{",
     "epilogue": "    return 1;\n}",
     "rules": [
         R("ghost:GetNextWorkRequired(...)", r"GetNextWorkRequired\(pindexPrev, &block, consensusParams\)", "required_bits", False),
         invalid_rule(r"state\.", "BlockValidationResult", "BlockState_Invalid", False),
         R("ghost:GetMedianTimePast()", r"pindexPrev->GetMedianTimePast\(\)", "mtp_prev", False),
         R("call:block.GetBlockTime()", r"block\.GetBlockTime\(\)", "((int64_t)block->nTime)", False),
         R("call:pindexPrev->GetBlockTime()", r"pindexPrev->GetBlockTime\(\)", "CBlockIndex_GetBlockTime(pindexPrev)", False),
         R("member:consensusParams.", r"consensusParams\.enforce_BIP94", "consensusParams->enforce_BIP94", False),
         R("ghost:DifficultyAdjustmentInterval()", r"consensusParams\.DifficultyAdjustmentInterval\(\)", "interval", False),
         R("chrono: NodeSeconds(nTime) > NodeClock::now() + seconds{MAX_FUTURE_BLOCK_TIME}, compared in nanoseconds",
           r"block\.Time\(\) > NodeClock::now\(\) \+ std::chrono::seconds\{MAX_FUTURE_BLOCK_TIME\}", "(__int128)block->nTime * 1000000000 > (__int128)now_ns + (__int128)MAX_FUTURE_BLOCK_TIME * 1000000000", False),
         R("member:block.nBits", r"block\.nBits", "block->nBits", False),
     ]},
]

def H(name, fn, twins=(), **kw):
    d = {"name": name, "enforce": fn, "twins": [{"define": t, "expect": "postcondition"} for t in twins]}
    d.update(kw)
    return d

CMP = ["base_uint_CompareTo"]
PLAN = {
    "id": "C07", "level": "proof",
    "slices": ARITH_SLICES + POW_SLICES,
    "reasons": ["bad-diffbits", "time-too-old", "time-timewarp-attack", "time-too-new"],
    "spec": "spec.c",
    "harnesses": [
        H("h_assign64", "base_uint_assign64", unwind=9),
        H("h_GetLow64", "base_uint_GetLow64"),
        H("h_shl", "base_uint_shl", ["TWIN_SHL"], unwind=9),
        H("h_shr", "base_uint_shr", unwind=9),
        H("h_CompareTo", "base_uint_CompareTo", ["TWIN_CMP"], unwind=9),
        H("h_EqualTo", "base_uint_EqualTo", unwind=9),
        H("h_bits", "base_uint_bits", ["TWIN_BITS"], unwind=33),
        H("h_CeilDiv", "CeilDiv"),
        H("h_SetCompact", "arith_SetCompact", ["TWIN_SETC_OVERFLOW", "TWIN_SETC_NEG"], replace=["base_uint_assign64", "base_uint_shl"]),
        H("h_GetCompact", "arith_GetCompact", ["TWIN_GETC"], replace=["base_uint_bits", "base_uint_GetLow64", "base_uint_shr", "CeilDiv"]),
        H("h_DeriveTarget", "DeriveTarget", ["TWIN_DERIVE_ZERO"], replace=["arith_SetCompact", "base_uint_EqualTo", "base_uint_CompareTo"]),
        H("h_CheckProofOfWorkImpl", "CheckProofOfWorkImpl", ["TWIN_POW_LT"], replace=["DeriveTarget", "base_uint_CompareTo"]),
        H("h_CalculateNextWorkRequired", "CalculateNextWorkRequired", ["TWIN_CLAMP", "TWIN_BIP94_SRC"],
          replace=["arith_SetCompact", "arith_GetCompact", "base_uint_mul32", "base_uint_div_u64", "base_uint_CompareTo", "CBlockIndex_GetAncestor", "Params_DifficultyAdjustmentInterval", "CBlockIndex_GetBlockTime"]),
        H("h_PermittedDifficultyTransition", "PermittedDifficultyTransition", ["TWIN_PERMIT"], solver="cadical",
          replace=["arith_SetCompact", "arith_GetCompact", "base_uint_mul32", "base_uint_div_u64", "base_uint_CompareTo", "Params_DifficultyAdjustmentInterval"]),
        H("h_PDT_boundary_link", "PermittedDifficultyTransition", ["TWIN_LINK"], solver="z3", reach=False, defines=["ONLY_BOUNDARY_LINK"], only_properties=r"PermittedDifficultyTransition\.postcondition",
          replace=["arith_SetCompact", "arith_GetCompact", "base_uint_mul32", "base_uint_div_u64", "base_uint_CompareTo", "Params_DifficultyAdjustmentInterval"]),
        H("h_DifficultyAdjustmentInterval", "Params_DifficultyAdjustmentInterval", solver="z3", defines=["PROVE_INTERVAL"]),
        H("h_GetBlockTime", "CBlockIndex_GetBlockTime"),
        H("h_header_checks", "ContextualCheckBlockHeader_frag", ["TWIN_MTP_LT", "TWIN_FUTURE_GE", "TWIN_TIMEWARP"], replace=["CBlockIndex_GetBlockTime"], solver="z3"),
        {"name": "h_lemma_compact_roundtrip", "replace": ["arith_SetCompact", "arith_GetCompact"]},
        {"name": "h_lemma_chain_params", "unwind": 8},
        {"name": "h_mul32_is_product", "enforce": "base_uint_mul32", "tier": "manual", "unwind": 9, "defines": ["PROVE_MUL32"], "solver": "cadical", "timeout_thorough": 3000, "reach": False},
    ],
    "native": {"src": "replay.cpp", "c_src": "native_slices.c", "c_lang": "c++", "repo_sources": ["src/pow.cpp", "src/arith_uint256.cpp"], "libs": ["libbitcoin_common.a", "libbitcoin_consensus.a", "libbitcoin_util.a", "libbitcoin_crypto.a"]},
    "not_covered": ["GetNextWorkRequired: the testnet min-difficulty walk-back loop over pprev (unbounded heap) and the GetAncestor(nHeightFirst) call site; the required nBits enters the header fragment as a ghost input",
                    "h_lemma required-is-permitted (PermittedDifficultyTransition accepts every CalculateNextWorkRequired result): needs monotonicity of x*ts/T through the compact rounding; not attempted at bit level",
                    "base_uint::operator/= (256-bit long division): assumed contract U' = floor(U/d); operator*=(uint32_t): the product contract x * b mod 2^256 is ASSUMED (the bit-level proof h_mul32_is_product is opt-in, VERIF_MANUAL=1: it finished in an earlier session but ran into its 50-minute limit under load, so no registered command depends on it); the operator is compared with a cpp_int reference natively on every run",
                    "GetMedianTimePast (std::sort of 11 times) and header hashing: inputs of the fragment", "UintToArith256 (little-endian byte to limb conversion)"],
    "assumptions": ["base_uint_div_u64 VERIF_TRUSTED contract: quotient of 256-bit by 64-bit division (the real operator/= is not verified)",
                    "CBlockIndex_GetAncestor stub: returns a valid index entry (meaning of GetAncestor is C54)",
                    "NodeClock::now() is a nanosecond count; NodeSeconds{nTime} is nTime*10^9 ns (std::chrono conversion semantics)"],
    "manifest": {
        "category": "proof",
        "text": "core: base_uint<256> shifts/compare/bits/assign and arith_uint256::SetCompact/GetCompact (extracted to C over 8 limbs each run) are proved against 256-bit integer specs for all inputs (compact decode = mantissa*256^(size-3) with exact negative/overflow flags; "
                "encode = the canonical normalised mantissa/size); DeriveTarget valid iff not negative, non-zero, not overflowing, <= powLimit; CheckProofOfWorkImpl iff target valid and hash <= target; CalculateNextWorkRequired clamps the timespan to [T/4,4T] exactly, uses the right source nBits (BIP94) "
                "and returns compact(min(target*ts/T, powLimit)); PermittedDifficultyTransition's decision table; the header fragment rejects nBits != required, time <= MTP, BIP94 timewarp, time > now+2h with exact boundaries and reasons; compact round-trip lemmas.",
        "note": "Assumed: 256/64 division contract (operator/= not verified), operator*=(uint32_t) product proved only in thorough tier, GetAncestor/GetMedianTimePast/GetNextWorkRequired walk-back as inputs. Not covered: required-is-permitted relation.",
        "technique": "CBMC function contracts on extracted arith_uint256/pow.cpp functions, u256 spec integers, callee contracts substituted (z3 back end where mul/div terms must be shared)",
    },
    "trusted_base": ["specs/C07/spec.c", "include/verif_arith.h", "include/verif_chain.h"],
}
