// C07 native harness: real arith_uint256.cpp / pow.cpp (compiled from the working tree) and the original header-check
// fragment text, vs the extracted C text, vs an independent reference on boost::multiprecision::cpp_int.
#include <arith_uint256.h>
#include <chain.h>
#include <consensus/params.h>
#include <consensus/validation.h>
#include <pow.h>
#include <primitives/block.h>
#include <uint256.h>
#include <util/time.h>
#include <boost/multiprecision/cpp_int.hpp>
#include <optional>
#include "replay_util.h"
using boost::multiprecision::cpp_int;
struct xbu { uint32_t pn[8]; };
struct xParams { int64_t nPowTargetTimespan, nPowTargetSpacing; bool fPowNoRetargeting, fPowAllowMinDifficultyBlocks, enforce_BIP94; xbu powLimit; };
struct xHeader { int32_t nVersion; uint32_t nTime, nBits, nNonce; };
struct xState { int mode_invalid; int result; uint32_t reason; };
namespace xc {
#define CBlockIndex xc_CBlockIndex
#define CBlockIndex_s xc_CBlockIndex_s
#include "verif_chain.h"
#undef CBlockIndex
#undef CBlockIndex_s
}
extern "C" {
extern const xc::xc_CBlockIndex* g_anc;
void xc_arith_SetCompact(xbu*, uint32_t, bool*, bool*); uint32_t xc_arith_GetCompact(const xbu*, bool);
bool xc_DeriveTarget(unsigned, const xbu*, xbu*); bool xc_CheckProofOfWorkImpl(const xbu*, unsigned, const xParams*);
unsigned xc_CalculateNextWorkRequired(const xc::xc_CBlockIndex*, int64_t, const xParams*); bool xc_PermittedDifficultyTransition(const xParams*, int64_t, uint32_t, uint32_t);
bool xc_ContextualCheckBlockHeader_frag(const xHeader*, xState*, const xParams*, const xc::xc_CBlockIndex*, int, int64_t, unsigned, int64_t, int64_t);
}
static cpp_int big(const arith_uint256& a) { cpp_int r = 0; arith_uint256 t = a; for (int i = 0; i < 8; i++) { r |= cpp_int((uint32_t)t.GetLow64()) << (32 * i); t >>= 32; } return r; }
static xbu limbs(const arith_uint256& a) { xbu r; arith_uint256 t = a; for (int i = 0; i < 8; i++) { r.pn[i] = (uint32_t)t.GetLow64(); t >>= 32; } return r; }
static arith_uint256 from(const xbu& x) { arith_uint256 a; for (int i = 7; i >= 0; i--) { a <<= 32; a += x.pn[i]; } return a; }
static const cpp_int P256 = cpp_int(1) << 256;
// reference compact decode/encode on big integers (from the definition)
static cpp_int ref_setc(uint32_t c, bool& neg, bool& ovf) { unsigned size = c >> 24; uint32_t m = c & 0x7fffff; cpp_int v; uint32_t w = m; if (size <= 3) { w = m >> (8 * (3 - size)); v = w; } else v = cpp_int(m) << (8 * (size - 3)); neg = w != 0 && (c & 0x800000); ovf = w != 0 && v >= P256; return v % P256; }
static uint32_t ref_getc(const cpp_int& x) { if (x == 0) return 0; unsigned nb = msb(x) + 1, size = (nb + 7) / 8; cpp_int m; if (size <= 3) m = x << (8 * (3 - size)); else m = x >> (8 * (size - 3)); uint32_t c = (uint32_t)m; if (c & 0x800000) { c >>= 8; size++; } return c | (size << 24); }

static uint64_t viol = 0;
#define BAD(...) do { rv::g_stats.real_violations++; if (rv::g_stats.real_violations <= 8) { std::printf("REAL-VIOLATION " __VA_ARGS__); std::printf("\n"); } } while (0)
#define DIS(...) do { rv::g_stats.disagreements++; if (rv::g_stats.disagreements <= 8) { std::printf("DISAGREE " __VA_ARGS__); std::printf("\n"); } } while (0)

static uint32_t rnd_compact(rv::Rng& r) { static const uint32_t S[] = {0, 1, 2, 3, 4, 5, 28, 29, 30, 31, 32, 33, 34, 35, 36, 0x1d, 0x1c, 0x20, 200, 255}; uint32_t size = r.below(3) ? S[r.below(20)] : (uint32_t)r.below(256); static const uint32_t M[] = {0, 1, 0xff, 0x100, 0xffff, 0x10000, 0x7fffff, 0x8000, 0x7fff, 0x00ffff}; uint32_t m = r.below(2) ? M[r.below(10)] : (uint32_t)r.below(0x800000); return (size << 24) | m | (r.below(6) == 0 ? 0x800000 : 0); }
static arith_uint256 rnd_u256(rv::Rng& r) { arith_uint256 a(r.next()); int k = (int)r.below(4); for (int i = 0; i < k; i++) { a <<= 64; a += r.next(); } a >>= (unsigned)r.below(64); if (r.below(8) == 0) a = arith_uint256(r.below(70000)); return a; }

static void check_compact(rv::Rng& r)
{
    uint32_t c = rnd_compact(r); bool n1, o1, n2, o2, n3, o3; arith_uint256 a; a.SetCompact(c, &n1, &o1); xbu x{}; xc_arith_SetCompact(&x, c, &n2, &o2); cpp_int v = ref_setc(c, n3, o3);
    rv::g_stats.inputs++;
    if (from(x) != a || n1 != n2 || o1 != o2) DIS("SetCompact(%08x)", c);
    if (big(a) != v || n1 != n3 || o1 != o3) BAD("SetCompact(0x%08x) = %s neg=%d ovf=%d, reference says %s neg=%d ovf=%d", c, a.GetHex().c_str(), n1, o1, v.str(0, std::ios_base::hex).c_str(), n3, o3);
    arith_uint256 y = r.below(2) ? rnd_u256(r) : a; bool fn = r.below(2); uint32_t g1 = y.GetCompact(fn); xbu ly = limbs(y); uint32_t g2 = xc_arith_GetCompact(&ly, fn); uint32_t g3 = ref_getc(big(y)); if (fn && (g3 & 0x7fffff)) g3 |= 0x800000;
    if (g1 != g2) DIS("GetCompact(%s)", y.GetHex().c_str());
    if (g1 != g3) BAD("GetCompact(%s, neg=%d) = 0x%08x, reference says 0x%08x", y.GetHex().c_str(), fn, g1, g3);
}
static Consensus::Params mkparams(rv::Rng& r, xParams& xp)
{
    Consensus::Params p; int chain = (int)r.below(4);
    static const char* LIM[] = {"00000000ffffffffffffffffffffffffffffffffffffffffffffffffffffffff", "00000377ae000000000000000000000000000000000000000000000000000000", "7fffffffffffffffffffffffffffffffffffffffffffffffffffffffffffffff", "00000000ffffffffffffffffffffffffffffffffffffffffffffffffffffffff"};
    p.powLimit = uint256::FromHex(LIM[chain]).value(); p.nPowTargetTimespan = chain == 2 ? 24 * 60 * 60 : 14 * 24 * 60 * 60; p.nPowTargetSpacing = 600; p.fPowAllowMinDifficultyBlocks = r.below(4) == 0; p.enforce_BIP94 = r.below(3) == 0; p.fPowNoRetargeting = r.below(10) == 0;
    xp = xParams{p.nPowTargetTimespan, p.nPowTargetSpacing, p.fPowNoRetargeting, p.fPowAllowMinDifficultyBlocks, p.enforce_BIP94, limbs(UintToArith256(p.powLimit))};
    return p;
}
static void check_pow(rv::Rng& r)
{
    xParams xp; Consensus::Params p = mkparams(r, xp); cpp_int lim = big(UintToArith256(p.powLimit));
    // DeriveTarget / CheckProofOfWorkImpl
    uint32_t c = r.below(2) ? rnd_compact(r) : UintToArith256(p.powLimit).GetCompact() + (uint32_t)r.below(3) - 1; arith_uint256 h = rnd_u256(r); bool n, o; cpp_int v = ref_setc(c, n, o);
    if (r.below(3) == 0 && !o) { arith_uint256 t; t.SetCompact(c); h = t; int d = (int)r.below(3) - 1; if (d > 0) h += 1; if (d < 0 && h > 0) h -= 1; }
    bool want = !n && !o && v != 0 && v <= lim && big(h) <= v; bool real = CheckProofOfWorkImpl(ArithToUint256(h), c, p); xbu lh = limbs(h); bool xr = xc_CheckProofOfWorkImpl(&lh, c, &xp);
    rv::g_stats.inputs++;
    if (real != xr) DIS("CheckProofOfWorkImpl(%08x)", c);
    if (real != want) BAD("CheckProofOfWorkImpl(hash=%s, nBits=0x%08x) = %d, statement says %d", h.GetHex().c_str(), c, real, want);
    auto dt = DeriveTarget(c, p.powLimit); bool wantdt = !n && !o && v != 0 && v <= lim; if (dt.has_value() != wantdt || (dt && big(*dt) != v)) BAD("DeriveTarget(0x%08x) validity %d, statement says %d", c, (int)dt.has_value(), wantdt);
    // CalculateNextWorkRequired
    CBlockIndex last, first; last.nHeight = (int)(p.DifficultyAdjustmentInterval() * (1 + r.below(100)) - 1); arith_uint256 oldt = rnd_u256(r); if (r.below(2)) { oldt = UintToArith256(p.powLimit); oldt >>= (unsigned)r.below(40); } last.nBits = oldt.GetCompact(); if (last.nBits == 0) last.nBits = 0x1d00ffff;
    first.nBits = r.below(2) ? last.nBits : rnd_u256(r).GetCompact(); first.nHeight = last.nHeight - (int)(p.DifficultyAdjustmentInterval() - 1); last.pprev = nullptr;
    int64_t T = p.nPowTargetTimespan; static const int64_t D[] = {0, 1, -1, 1209600, 302400, 302399, 302401, 4838400, 4838399, 4838401, 86400 / 4, 86400 * 4, 86400 * 4 + 1, (int64_t)1 << 31, ((int64_t)1 << 31) - 1, ((int64_t)1 << 31) + 12345, ((int64_t)1 << 32) - 1, 4000000000LL, -4000000000LL, -((int64_t)1 << 31)};
    int64_t span = r.below(3) ? D[r.below(20)] : (int64_t)r.below(6000000); int64_t ft = (int64_t)r.below(3000000000ULL); int64_t lt = ft + span; if (lt < 0) { lt = 0; } if (lt > 0xffffffffLL) { ft -= (lt - 0xffffffffLL); lt = 0xffffffffLL; if (ft < 0) ft = 0; } span = lt - ft;
    last.nTime = (uint32_t)lt;
    // the real GetAncestor is used only under BIP94: give `last` a pskip/pprev-free fake by pointing pprev chain is impractical -> use BIP94 only with first == last height shortcut
    bool bip94 = p.enforce_BIP94; Consensus::Params p2 = p; xParams xp2 = xp; if (bip94 && first.nHeight != last.nHeight) { p2.enforce_BIP94 = false; xp2.enforce_BIP94 = false; bip94 = false; }
    unsigned realc = CalculateNextWorkRequired(&last, ft, p2);
    xc::xc_CBlockIndex xl{}, xf{}; xl.nHeight = last.nHeight; xl.nBits = last.nBits; xl.nTime = last.nTime; xf.nBits = first.nBits; xf.nHeight = first.nHeight; g_anc = &xf;
    unsigned xcc = xc_CalculateNextWorkRequired(&xl, ft, &xp2);
    int64_t ts = span < T / 4 ? T / 4 : span > T * 4 ? T * 4 : span; bool nn, oo; cpp_int nv = (ref_setc(last.nBits, nn, oo) * ts % P256) / T; if (nv > lim) nv = lim; unsigned wantc = p2.fPowNoRetargeting ? last.nBits : ref_getc(nv);
    rv::g_stats.inputs++;
    if (realc != xcc) DIS("CalculateNextWorkRequired bits=%08x span=%lld real=%08x xc=%08x", last.nBits, (long long)span, realc, xcc);
    if (realc != wantc) BAD("CalculateNextWorkRequired(prev nBits=0x%08x, first=%lld, last=%lld (span %lld), T=%lld) = 0x%08x, retarget rule says 0x%08x", last.nBits, (long long)ft, (long long)lt, (long long)span, (long long)T, realc, wantc);
    // PermittedDifficultyTransition: off-boundary and boundary
    int64_t height = (int64_t)r.below(5) * p.DifficultyAdjustmentInterval() + (r.below(2) ? 0 : (int64_t)r.below(2016)); uint32_t nb = r.below(3) ? realc : (r.below(2) ? last.nBits : rnd_compact(r));
    bool pr = PermittedDifficultyTransition(p, height, last.nBits, nb), px = xc_PermittedDifficultyTransition(&xp, height, last.nBits, nb);
    bool pw; if (p.fPowAllowMinDifficultyBlocks) pw = true; else if (height % p.DifficultyAdjustmentInterval() != 0) pw = (last.nBits == nb); else { bool a1, a2; cpp_int ob = ref_setc(last.nBits, a1, a2), nbv = ref_setc(nb, a1, a2); cpp_int hi = (ob * (T * 4) % P256) / T, lo = (ob * (T / 4) % P256) / T; if (hi > lim) hi = lim; if (lo > lim) lo = lim; hi = ref_setc(ref_getc(hi), a1, a2); lo = ref_setc(ref_getc(lo), a1, a2); pw = !(hi < nbv) && !(lo > nbv); }
    rv::g_stats.inputs++;
    if (pr != px) DIS("PermittedDifficultyTransition h=%lld old=%08x new=%08x", (long long)height, last.nBits, nb);
    if (pr != pw) BAD("PermittedDifficultyTransition(height=%lld, old=0x%08x, new=0x%08x) = %d, rule says %d", (long long)height, last.nBits, nb, pr, pw);
}
static int64_t g_now_ns; static unsigned g_required;
static bool orig_header_frag(const CBlockHeader& block, BlockValidationState& state, const Consensus::Params& consensusParams, const CBlockIndex* pindexPrev, int nHeight)
{
    struct NodeClock { static std::chrono::time_point<::NodeClock, std::chrono::nanoseconds> now() { return std::chrono::time_point<::NodeClock, std::chrono::nanoseconds>{std::chrono::nanoseconds{g_now_ns}}; } };
    auto GetNextWorkRequired = [&](const CBlockIndex*, const CBlockHeader*, const Consensus::Params&) { return g_required; };
#include "orig_header_checks.inc"
    return true;
}
static void check_header(rv::Rng& r)
{
    xParams xp; Consensus::Params p = mkparams(r, xp); CBlockIndex b0, b1, prev; b0.nTime = 1000000000 + (uint32_t)r.below(100000); b1.nTime = 1000000000 + (uint32_t)r.below(100000); prev.nTime = 1000000000 + (uint32_t)r.below(100000); b1.pprev = &b0; prev.pprev = &b1; b0.nHeight = 0; b1.nHeight = 1;
    int nHeight = r.below(2) ? (int)(p.DifficultyAdjustmentInterval() * (1 + r.below(5))) : 1 + (int)r.below(100000); prev.nHeight = nHeight - 1;
    int64_t mtp = prev.GetMedianTimePast(); CBlockHeader blk; static const int T0[] = {0, 1, -1, 600, -600, -601, -599, 7200, 7199, 7201};
    int mode = (int)r.below(4); int64_t bt = mode == 0 ? mtp + T0[r.below(3)] : mode == 1 ? (int64_t)prev.nTime + T0[r.below(10)] : 1000000000 + (int64_t)r.below(120000);
    blk.nTime = (uint32_t)bt; g_now_ns = mode == 2 ? ((int64_t)blk.nTime - 7200) * 1000000000LL + (int64_t)r.below(3) - 1 + (r.below(2) ? 0 : (int64_t)r.below(2000000000) - 1000000000) : ((int64_t)blk.nTime + (int64_t)r.below(20000) - 10000) * 1000000000LL + (int64_t)r.below(1000000000);
    g_required = 0x1d00ffff; blk.nBits = r.below(8) ? g_required : g_required + 1;
    BlockValidationState st; bool real = orig_header_frag(blk, st, p, &prev, nHeight);
    xHeader xh{0, blk.nTime, blk.nBits, 0}; xState xs{}; xc::xc_CBlockIndex xprev{}; xprev.nTime = prev.nTime; xprev.nHeight = prev.nHeight;
    bool xr = xc_ContextualCheckBlockHeader_frag(&xh, &xs, &xp, &xprev, nHeight, p.DifficultyAdjustmentInterval(), g_required, mtp, g_now_ns);
    std::string want; if (blk.nBits != g_required) want = "bad-diffbits"; else if ((int64_t)blk.nTime <= mtp) want = "time-too-old"; else if (p.enforce_BIP94 && nHeight % p.DifficultyAdjustmentInterval() == 0 && (int64_t)blk.nTime < (int64_t)prev.nTime - 600) want = "time-timewarp-attack"; else if ((__int128)blk.nTime * 1000000000 > (__int128)g_now_ns + (__int128)7200 * 1000000000) want = "time-too-new";
    std::string rr = real ? "" : st.GetRejectReason(); uint32_t h = 0x811C9DC5u; for (unsigned char ch : rr) h = (h ^ ch) * 0x01000193u; h |= 1;
    rv::g_stats.inputs++;
    if (real != xr || (!real && xs.reason != h)) DIS("header fragment real=%d/%s xc=%d/%08x", real, rr.c_str(), xr, xs.reason);
    if (rr != want) BAD("ContextualCheckBlockHeader fragment: time=%u mtp=%lld prev_time=%u now_ns=%lld height=%d bip94=%d -> %s, statement says %s", blk.nTime, (long long)mtp, prev.nTime, (long long)g_now_ns, nHeight, p.enforce_BIP94, real ? "accept" : rr.c_str(), want.empty() ? "accept" : want.c_str());
}
int main(int argc, char** argv)
{
    auto a = rv::parse(argc, argv); rv::Rng rng(a.seed); uint64_t n = a.diff ? a.n : 200000;
    for (uint64_t i = 0; i < n; i++) { check_compact(rng); check_pow(rng); check_header(rng); }
    rv::report();
    return rv::g_stats.real_violations ? 1 : (rv::g_stats.disagreements ? 3 : 0);
}
