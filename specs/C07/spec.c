/* C07 -- Headers need real proof of work and the exact required difficulty.
 * Contracts over base_uint<256> limb code (arith_uint256.{h,cpp}), pow.cpp and the header-check fragment of
 * ContextualCheckBlockHeader.  All specs are stated over 256-bit integers (u256), never over limbs. */
#include "verif_arith.h"
#include "verif_chain.h"
#include "spec_reasons.h"

typedef struct { int64_t nPowTargetTimespan, nPowTargetSpacing; bool fPowNoRetargeting, fPowAllowMinDifficultyBlocks, enforce_BIP94; base_uint256 powLimit; } Consensus_Params;
typedef struct { int32_t nVersion; uint32_t nTime; uint32_t nBits; uint32_t nNonce; } CBlockHeader;
enum { BLOCK_RESULT_UNSET = 0, BLOCK_CONSENSUS, BLOCK_CACHED_INVALID, BLOCK_INVALID_HEADER, BLOCK_MUTATED, BLOCK_MISSING_PREV, BLOCK_INVALID_PREV, BLOCK_TIME_FUTURE, BLOCK_HEADER_LOW_WORK };
typedef struct { int mode_invalid; int result; uint32_t reason; } BlockValidationState;
static inline bool BlockState_Invalid(BlockValidationState* state, int result, uint32_t reason)   /* VERIF_STUB of ValidationState::Invalid */
{ state->result = result; state->reason = reason; state->mode_invalid = 1; return 0; }

#include "../arith_contracts.h"

/* ================= pow.cpp ================= */
int64_t Params_DifficultyAdjustmentInterval(const Consensus_Params* self)
__CPROVER_requires(__CPROVER_is_fresh(self, sizeof(*self)) && self->nPowTargetSpacing > 0 && self->nPowTargetTimespan >= 0)
__CPROVER_ensures(__CPROVER_return_value >= 0 && __CPROVER_return_value <= self->nPowTargetTimespan && (self->nPowTargetTimespan >= self->nPowTargetSpacing ==> __CPROVER_return_value >= 1))
#ifdef PROVE_INTERVAL
__CPROVER_ensures(__CPROVER_return_value == self->nPowTargetTimespan / self->nPowTargetSpacing)
#else
__CPROVER_ensures(__CPROVER_return_value == UF_INTERVAL(self->nPowTargetTimespan, self->nPowTargetSpacing))     /* as used by callers; meaning proved by h_DifficultyAdjustmentInterval */
#endif
__CPROVER_assigns();

int64_t CBlockIndex_GetBlockTime(const CBlockIndex* self)
__CPROVER_requires(__CPROVER_is_fresh(self, sizeof(*self)))
__CPROVER_ensures(__CPROVER_return_value == (int64_t)self->nTime)
__CPROVER_assigns();

/* VERIF_STUB: GetAncestor returns some valid index entry (its meaning is property C54) */
const CBlockIndex* g_anc;
const CBlockIndex* CBlockIndex_GetAncestor(const CBlockIndex* self, int height)
__CPROVER_ensures(__CPROVER_return_value == g_anc)
__CPROVER_assigns();

#define VALID_TARGET(c, lim) (!SETC_NEG(c) && SETC(c) != 0 && !SETC_OVF(c) && SETC(c) <= (lim))
bool DeriveTarget(unsigned int nBits, const base_uint256* pow_limit, base_uint256* out)
__CPROVER_requires(FRESH_BU(pow_limit) && FRESH_BU(out))
#ifdef TWIN_DERIVE_ZERO
__CPROVER_ensures(__CPROVER_return_value == (!SETC_NEG(nBits) && !SETC_OVF(nBits) && SETC(nBits) <= U256_OF(pow_limit)))
#else
__CPROVER_ensures(__CPROVER_return_value == VALID_TARGET(nBits, U256_OF(pow_limit)))
#endif
__CPROVER_ensures(__CPROVER_return_value ==> U256_OF(out) == SETC(nBits))
__CPROVER_assigns(ASSIGNS_PN(out));

bool CheckProofOfWorkImpl(const base_uint256* hash, unsigned int nBits, const Consensus_Params* params)
__CPROVER_requires(FRESH_BU(hash) && __CPROVER_is_fresh(params, sizeof(*params)))
#ifdef TWIN_POW_LT
__CPROVER_ensures(__CPROVER_return_value == (VALID_TARGET(nBits, U256_OF(&params->powLimit)) && U256_OF(hash) < SETC(nBits)))
#else
__CPROVER_ensures(__CPROVER_return_value == (VALID_TARGET(nBits, U256_OF(&params->powLimit)) && U256_OF(hash) <= SETC(nBits)))
#endif
__CPROVER_assigns();

/* retarget: timespan clamped to [T/4, 4T]; new = old * ts / T capped at the limit, then compact-encoded */
#define T_ (params->nPowTargetTimespan)
#define RAW_TS ((int64_t)pindexLast->nTime - nFirstBlockTime)
#ifdef TWIN_CLAMP
#define CLAMPED_TS (RAW_TS < T_ / 4 ? T_ / 4 : RAW_TS > T_ * 4 + 1 ? T_ * 4 : RAW_TS)
#else
#define CLAMPED_TS (RAW_TS < T_ / 4 ? T_ / 4 : RAW_TS > T_ * 4 ? T_ * 4 : RAW_TS)
#endif
#ifdef TWIN_BIP94_SRC
#define SRC_BITS (pindexLast->nBits)
#else
#define SRC_BITS (params->enforce_BIP94 ? g_anc->nBits : pindexLast->nBits)
#endif
#define SCALED(bits, ts) UF_DIV(UF_MUL(SETC(bits), (uint32_t)(ts)), (uint64_t)T_)
#define CAPPED(x) ((x) > U256_OF(&params->powLimit) ? U256_OF(&params->powLimit) : (x))
unsigned int CalculateNextWorkRequired(const CBlockIndex* pindexLast, int64_t nFirstBlockTime, const Consensus_Params* params)
__CPROVER_requires(__CPROVER_is_fresh(pindexLast, sizeof(*pindexLast)) && __CPROVER_is_fresh(params, sizeof(*params)) && __CPROVER_is_fresh(g_anc, sizeof(*g_anc)))
__CPROVER_requires(T_ >= 4 && T_ <= 0x3fffffffLL && params->nPowTargetSpacing > 0 && nFirstBlockTime >= 0 && nFirstBlockTime <= 0xffffffffLL && pindexLast->nHeight >= 0)
__CPROVER_ensures(params->fPowNoRetargeting ==> __CPROVER_return_value == pindexLast->nBits)
__CPROVER_ensures(!params->fPowNoRetargeting ==> IS_COMPACT_OF(__CPROVER_return_value, CAPPED(SCALED(SRC_BITS, CLAMPED_TS))))
__CPROVER_assigns();

/* permitted transition: off-boundary heights keep nBits; on a boundary the new target lies between the rounded
 * old*(T/4)/T and old*(4T)/T (each capped at the limit and passed through the compact rounding) */
/* ghost: the value of the retarget-boundary test evaluated by the code (captured verbatim by an extraction rule) */
bool g_pdt_boundary;
#define GHOST_CAPTURE(g, cond) ((g) = (cond))
VERIF_REACH_DECL(PermittedDifficultyTransition)
bool PermittedDifficultyTransition(const Consensus_Params* params, int64_t height, uint32_t old_nbits, uint32_t new_nbits)
__CPROVER_requires(__CPROVER_is_fresh(params, sizeof(*params)) && T_ >= 4 && T_ <= 0x3fffffffLL && params->nPowTargetSpacing > 0 && T_ >= params->nPowTargetSpacing && height >= 0)
#ifdef ONLY_BOUNDARY_LINK
/* link obligation (z3, shared modulo term): the captured test is exactly "height is a multiple of the adjustment interval" */
#ifdef TWIN_LINK
__CPROVER_ensures(!params->fPowAllowMinDifficultyBlocks ==> g_pdt_boundary == (height % UF_INTERVAL(T_, params->nPowTargetSpacing) == 1))
#else
__CPROVER_ensures(!params->fPowAllowMinDifficultyBlocks ==> g_pdt_boundary == (height % UF_INTERVAL(T_, params->nPowTargetSpacing) == 0))
#endif
#else
__CPROVER_ensures(params->fPowAllowMinDifficultyBlocks ==> __CPROVER_return_value)
#ifdef TWIN_PERMIT
__CPROVER_ensures((!params->fPowAllowMinDifficultyBlocks && !g_pdt_boundary) ==> __CPROVER_return_value == 1)
#else
__CPROVER_ensures((!params->fPowAllowMinDifficultyBlocks && !g_pdt_boundary) ==> __CPROVER_return_value == (old_nbits == new_nbits))
#endif
/* on a retarget boundary: accepted => the new target is at most the (capped) old target scaled by 4 and at least the one scaled by 1/4 after compact rounding */
__CPROVER_ensures((!params->fPowAllowMinDifficultyBlocks && g_pdt_boundary && __CPROVER_return_value) ==> SETC(new_nbits) <= CAPPED(SCALED(old_nbits, T_ * 4)))
__CPROVER_ensures((!params->fPowAllowMinDifficultyBlocks && g_pdt_boundary && SETC(new_nbits) > CAPPED(SCALED(old_nbits, T_ * 4))) ==> !__CPROVER_return_value)
VERIF_REACH_ENSURES(PermittedDifficultyTransition, !params->fPowAllowMinDifficultyBlocks && g_pdt_boundary && __CPROVER_return_value)
VERIF_REACH_ENSURES(PermittedDifficultyTransition, !params->fPowAllowMinDifficultyBlocks && g_pdt_boundary && !__CPROVER_return_value)
VERIF_REACH_ENSURES(PermittedDifficultyTransition, !params->fPowAllowMinDifficultyBlocks && !g_pdt_boundary && !__CPROVER_return_value)
#endif
__CPROVER_assigns(g_pdt_boundary);

/* header fragment */
#ifdef TWIN_MTP_LT
#define SPEC_TOO_OLD ((int64_t)block->nTime < mtp_prev)
#else
#define SPEC_TOO_OLD ((int64_t)block->nTime <= mtp_prev)
#endif
#ifdef TWIN_FUTURE_GE
#define SPEC_TOO_NEW ((__int128)block->nTime * 1000000000 >= (__int128)now_ns + (__int128)7200 * 1000000000)
#else
#define SPEC_TOO_NEW ((__int128)block->nTime * 1000000000 > (__int128)now_ns + (__int128)7200 * 1000000000)      /* more than 2 hours ahead */
#endif
#ifdef TWIN_TIMEWARP
#define SPEC_TIMEWARP (consensusParams->enforce_BIP94 && nHeight % interval == 0 && (int64_t)block->nTime <= (int64_t)pindexPrev->nTime - 600)
#else
#define SPEC_TIMEWARP (consensusParams->enforce_BIP94 && nHeight % interval == 0 && (int64_t)block->nTime < (int64_t)pindexPrev->nTime - 600)
#endif
#define HREASON(r) (!__CPROVER_return_value && state->reason == (r))
VERIF_REACH_DECL(ContextualCheckBlockHeader_frag)
bool ContextualCheckBlockHeader_frag(const CBlockHeader* block, BlockValidationState* state, const Consensus_Params* consensusParams, const CBlockIndex* pindexPrev,
        int nHeight, int64_t interval, unsigned int required_bits, int64_t mtp_prev, int64_t now_ns)
__CPROVER_requires(__CPROVER_is_fresh(block, sizeof(*block)) && __CPROVER_is_fresh(state, sizeof(*state)) && __CPROVER_is_fresh(consensusParams, sizeof(*consensusParams)) && __CPROVER_is_fresh(pindexPrev, sizeof(*pindexPrev)))
__CPROVER_requires(interval >= 1 && nHeight >= 1 && now_ns >= 0)
__CPROVER_requires(state->mode_invalid == 0 && state->result == 0 && state->reason == 0)
__CPROVER_ensures(__CPROVER_return_value == (block->nBits == required_bits && !SPEC_TOO_OLD && !SPEC_TIMEWARP && !SPEC_TOO_NEW))
__CPROVER_ensures(HREASON(SPEC_R_bad_diffbits) == (block->nBits != required_bits))
__CPROVER_ensures(HREASON(SPEC_R_time_too_old) == (block->nBits == required_bits && SPEC_TOO_OLD))
__CPROVER_ensures(HREASON(SPEC_R_time_timewarp_attack) == (block->nBits == required_bits && !SPEC_TOO_OLD && SPEC_TIMEWARP))
__CPROVER_ensures(HREASON(SPEC_R_time_too_new) == (block->nBits == required_bits && !SPEC_TOO_OLD && !SPEC_TIMEWARP && SPEC_TOO_NEW))
__CPROVER_ensures(!__CPROVER_return_value ==> (state->mode_invalid == 1 && state->result == (state->reason == SPEC_R_time_too_new ? BLOCK_TIME_FUTURE : BLOCK_INVALID_HEADER)))
__CPROVER_ensures(__CPROVER_return_value ==> (state->mode_invalid == 0 && state->reason == 0))
VERIF_REACH_ENSURES(ContextualCheckBlockHeader_frag, __CPROVER_return_value)
VERIF_REACH_ENSURES(ContextualCheckBlockHeader_frag, HREASON(SPEC_R_bad_diffbits))
VERIF_REACH_ENSURES(ContextualCheckBlockHeader_frag, HREASON(SPEC_R_time_too_old))
VERIF_REACH_ENSURES(ContextualCheckBlockHeader_frag, HREASON(SPEC_R_time_timewarp_attack))
VERIF_REACH_ENSURES(ContextualCheckBlockHeader_frag, HREASON(SPEC_R_time_too_new))
__CPROVER_assigns(state->mode_invalid, state->result, state->reason);

#include "slices.h"

unsigned int nondet_uint(void); uint64_t nondet_u64(void); int64_t nondet_i64(void); bool nondet_bool(void); int nondet_int(void);

void h_assign64(void) { base_uint256* s; base_uint_assign64(s, nondet_u64()); VERIF_REACH_PT("returns"); }
void h_GetLow64(void) { base_uint256* s; base_uint_GetLow64(s); VERIF_REACH_PT("returns"); }
void h_shl(void) { base_uint256* s; unsigned sh = nondet_uint(); base_uint_shl(s, sh); if (sh == 255) VERIF_REACH_PT("shift 255"); if (sh == 256) VERIF_REACH_PT("shift 256"); }
void h_shr(void) { base_uint256* s; unsigned sh = nondet_uint(); base_uint_shr(s, sh); if (sh == 31) VERIF_REACH_PT("shift 31"); if (sh > 300) VERIF_REACH_PT("shift big"); }
void h_CompareTo(void) { base_uint256 *a, *b; int r = base_uint_CompareTo(a, b); if (r == 0) VERIF_REACH_PT("equal"); if (r < 0) VERIF_REACH_PT("less"); if (r > 0) VERIF_REACH_PT("greater"); }
void h_EqualTo(void) { base_uint256* a; bool r = base_uint_EqualTo(a, nondet_u64()); if (r) VERIF_REACH_PT("equal"); else VERIF_REACH_PT("not equal"); }
void h_bits(void) { base_uint256* a; unsigned r = base_uint_bits(a); if (r == 0) VERIF_REACH_PT("zero"); if (r == 256) VERIF_REACH_PT("full"); if (r == 33) VERIF_REACH_PT("33 bits"); }
void h_CeilDiv(void) { unsigned r = CeilDiv(nondet_uint(), nondet_uint()); VERIF_REACH_PT("returns"); }
void h_SetCompact(void) { base_uint256* s; bool *n, *o; uint32_t c = nondet_uint(); arith_SetCompact(s, c, n, o); if (C_SIZE(c) == 2) VERIF_REACH_PT("small size"); if (C_SIZE(c) == 34) VERIF_REACH_PT("size 34"); if (C_SIZE(c) == 200) VERIF_REACH_PT("size 200"); }
void h_GetCompact(void) { base_uint256* s; uint32_t r = arith_GetCompact(s, nondet_bool()); if (C_SIZE(r) == 2) VERIF_REACH_PT("tiny value"); if (C_SIZE(r) == 33) VERIF_REACH_PT("renormalised top"); if (r == 0) VERIF_REACH_PT("zero"); }
void h_DeriveTarget(void) { base_uint256 *l, *o; bool r = DeriveTarget(nondet_uint(), l, o); if (r) VERIF_REACH_PT("valid target"); else VERIF_REACH_PT("invalid target"); }
void h_CheckProofOfWorkImpl(void) { base_uint256* h; Consensus_Params* p; bool r = CheckProofOfWorkImpl(h, nondet_uint(), p); if (r) VERIF_REACH_PT("pow ok"); else VERIF_REACH_PT("pow bad"); }
void h_CalculateNextWorkRequired(void) { CBlockIndex* l; Consensus_Params* p; unsigned r = CalculateNextWorkRequired(l, nondet_i64(), p); VERIF_REACH_PT("returns"); if (r == 0x1d00ffffu) VERIF_REACH_PT("returns mainnet limit"); }
void h_PermittedDifficultyTransition(void) { Consensus_Params* p; g_pdt_boundary = nondet_bool(); VERIF_REACH_ON(PermittedDifficultyTransition); bool r = PermittedDifficultyTransition(p, nondet_i64(), nondet_uint(), nondet_uint()); if (r) VERIF_REACH_PT("permitted"); else VERIF_REACH_PT("refused"); }
void h_PDT_boundary_link(void) { Consensus_Params* p; g_pdt_boundary = nondet_bool(); bool r = PermittedDifficultyTransition(p, nondet_i64(), nondet_uint(), nondet_uint()); if (r) VERIF_REACH_PT("permitted"); else VERIF_REACH_PT("refused"); }
void h_DifficultyAdjustmentInterval(void) { Consensus_Params* p; Params_DifficultyAdjustmentInterval(p); VERIF_REACH_PT("returns"); }
void h_GetBlockTime(void) { CBlockIndex* p; CBlockIndex_GetBlockTime(p); VERIF_REACH_PT("returns"); }
void h_header_checks(void) { CBlockHeader* b; BlockValidationState* s; Consensus_Params* p; CBlockIndex* prev; VERIF_REACH_ON(ContextualCheckBlockHeader_frag); ContextualCheckBlockHeader_frag(b, s, p, prev, nondet_int(), nondet_i64(), nondet_uint(), nondet_i64(), nondet_i64()); }
void h_mul32_is_product(void) { base_uint256* s; base_uint_mul32(s, nondet_uint()); }

/* lemma (contracts only): decoding the canonical encoding of x gives x with the low bytes below the mantissa cleared, never more than x */
void h_lemma_compact_roundtrip(void)
{
    base_uint256 x, y;
    uint32_t c = arith_GetCompact(&x, 0);
    bool neg, ovf;
    arith_SetCompact(&y, c, &neg, &ovf);
    __CPROVER_assert(!neg && !ovf, "GetCompact output decodes as non-negative and non-overflowing");
    __CPROVER_assert(U256_OF(&y) <= U256_OF(&x), "SetCompact(GetCompact(x)) <= x");
    __CPROVER_assert(C_SIZE(c) <= 3 ? U256_OF(&y) == U256_OF(&x) : (U256_OF(&x) - U256_OF(&y)) < ((u256)1 << (8 * (C_SIZE(c) - 3))), "rounding loses less than one unit of the mantissa");
    uint32_t c2 = arith_GetCompact(&y, 0);
    __CPROVER_assert(c2 == c, "encoding is idempotent: GetCompact(SetCompact(GetCompact(x))) == GetCompact(x)");
    VERIF_REACH_PT("lemma end");
}
/* every built-in chain satisfies the preconditions used above (4T fits 32 bits, spacing divides into a positive interval) */
void h_lemma_chain_params(void)
{
    __CPROVER_assert(N_CHAIN_TIMESPANS == N_CHAIN_SPACINGS, "one timespan and one spacing per chain");
    for (int c = 0; c < N_CHAIN_TIMESPANS; c++) {
        __CPROVER_assert(CHAIN_TIMESPANS[c] >= 4 && CHAIN_TIMESPANS[c] * 4 <= 0xffffffffLL, "4*nPowTargetTimespan fits the uint32_t multiplier of operator*=");
        __CPROVER_assert(CHAIN_SPACINGS[c] > 0 && CHAIN_TIMESPANS[c] >= CHAIN_SPACINGS[c], "difficulty adjustment interval >= 1");
    }
    VERIF_REACH_PT("lemma end");
}
