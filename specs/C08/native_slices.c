#include <arith_uint256.h>
extern "C" {
#include "verif_chain.h"
#include "slices.h"
}
