#include <arith_uint256.h>
extern "C" {
#include "verif_chain.h"
const CBlockIndex* g_tip; const CBlockIndex* g_final_most_work; int g_steps, g_fmw_calls; const CBlockIndex* g_last_fmw;
const CBlockIndex* FindMostWorkChain_stub(void); typedef struct { size_t n; } ConnectedList; bool ActivateBestChainStep_stub(const CBlockIndex*, bool*, ConnectedList*); bool ReachedTarget_stub(void); bool WorkComparator_stub(const CBlockIndex*, const CBlockIndex*);
#define LOOP_ROUND
#include "slices.h"
}
