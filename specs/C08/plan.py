import os, sys
sys.path.insert(0, os.path.dirname(os.path.dirname(os.path.abspath(__file__))))
from engine.extract import R

SLICES = [
    {"name": "CBlockIndexWorkComparator", "kind": "func", "file": "src/node/blockstorage.cpp", "head": r"bool CBlockIndexWorkComparator::operator\(\)\(const CBlockIndex\* pa, const CBlockIndex\* pb\)",
     "rules": [R("method-head:CBlockIndexWorkComparator::operator()", r"bool CBlockIndexWorkComparator::operator\(\)\(const CBlockIndex\* pa, const CBlockIndex\* pb\) const", "bool CBlockIndexWorkComparator(const CBlockIndex* pa, const CBlockIndex* pb)"),
               R("pointer order as integer order (addresses of distinct objects)", r"if \(pa (<|>) pb\)", r"if ((uintptr_t)pa \1 (uintptr_t)pb)", False)]},
]
PLAN = {
    "id": "C08", "level": "proof", "slices": SLICES, "spec": "spec.c", "default_solver": ["cadical", "z3"],
    "harnesses": [
        {"name": "h_WorkComparator", "enforce": "CBlockIndexWorkComparator", "twins": [{"define": "TWIN_SEQ", "expect": "postcondition"}]},
        {"name": "h_lemma_work_order", "replace": ["CBlockIndexWorkComparator"], "twins": [{"define": "TWIN_ORDER", "expect": "assertion"}]},
    ],
    "native": {"src": "replay.cpp", "c_src": "native_slices.c", "c_lang": "c++", "repo_sources": ["src/node/blockstorage.cpp"] if False else [], "diff_n_quick": 100000, "diff_n_thorough": 3000000,
               "libs": ["libbitcoin_common.a", "libbitcoin_consensus.a", "libbitcoin_util.a", "libbitcoin_clientversion.a", "libbitcoin_crypto.a"]},
    "not_covered": ["the bulk of the statement: FindMostWorkChain, ActivateBestChainStep, InvalidChainFound / SetBlockFailureFlags, InvalidateBlock / ResetBlockFailureFlags, CheckBlockIndex and every delivery / invalidate / reconsider history -- "
                    "std::set<CBlockIndex*, Comparator> manipulation and multi-step chain state outside the extractor's subset; only the order that ranks tip candidates is under contract"],
    "assumptions": ["pointer tie-break compared as integer addresses"],
    "manifest": {
        "category": "proof",
        "text": "partial (comparator only): CBlockIndexWorkComparator, the order of the set of tip candidates, is proved to rank strictly by total chain work (256-bit), then by LOWER sequence id (earlier received) as greater, then by lower address as greater; it is a strict weak order and total on distinct entries, "
                "so the maximum of the candidate set is a most-work block (three-element lemma over the contract).",
        "note": "Not covered (almost all of the statement): candidate-set maintenance, failure flags, activation steps, invalidate/reconsider histories. A change there is NOT detected by this check.",
        "technique": "CBMC function contract on the extracted comparator (u256 chain work) + contract-only order lemma",
    },
    "trusted_base": ["specs/C08/spec.c", "include/verif_chain.h"],
}
