import os, sys
sys.path.insert(0, os.path.dirname(os.path.dirname(os.path.abspath(__file__))))
from engine.extract import R

ABC = r"bool Chainstate::ActivateBestChain\(BlockValidationState& state, std::shared_ptr<const CBlock> pblock\)"
SLICES = [
    # the inner do-while of ActivateBestChain, up to and including the early return
    {"name": "activate_round", "cname": "ActivateBestChain_round", "kind": "frag", "file": "src/validation.cpp", "within": ABC,
     "begin": r"bool blocks_connected = false;", "end": r"if \(!blocks_connected\) return true;", "include_end": True,
     "prologue": "int ActivateBestChain_round(const CBlockIndex* pindexMostWork, const CBlockIndex* starting_tip)\n{\n    const CBlockIndex* pindexNewTip = NULL;",
     "epilogue": "    g_final_most_work = pindexMostWork;\n    return 2; /* goes on to notify and to the outer loop `while (pindexNewTip != pindexMostWork)` */\n}",
     "rules": [R("ghost:connected_blocks (number of blocks the step connected)", r"std::vector<ConnectedBlock> connected_blocks;", "ConnectedList connected_blocks = {0};", False), R("ghost:connected_blocks.empty()", r"connected_blocks\.empty\(\)", "(connected_blocks.n == 0)", False),
               R("stub:FindMostWorkChain()", r"(?<![\w.>])FindMostWorkChain\(\)", "FindMostWorkChain_stub()", False),
               R("ghost:m_chain.Tip()", r"m_chain\.Tip\(\)", "g_tip", False),
               R("drop:nullBlockPtr", r"std::shared_ptr<const CBlock> nullBlockPtr;", "", False),
               R("drop:chainstate_role (signals only)", r"const ChainstateRole chainstate_role\{this->GetRole\(\)\};", "", False),
               R("stub:ActivateBestChainStep(state, *pindexMostWork, block, fInvalidFound, connected_blocks)", r"ActivateBestChainStep\(state, \*pindexMostWork, pblock && pblock->GetHash\(\) == pindexMostWork->GetBlockHash\(\) \? pblock : nullBlockPtr, fInvalidFound, connected_blocks\)", "ActivateBestChainStep_stub(pindexMostWork, &fInvalidFound, &connected_blocks)", False),
               R("return false (system error) -> 0", r"return 0;", "return 0;", False),
               R("drop:BlockConnected signal loop", r"for \(auto& \[index, block\] : std::move\(connected_blocks\)\) \{\s*if \(m_chainman\.m_options\.signals\) \{[^}]*\}\s*\}", "", False),
               R("stub:ReachedTarget()", r"(?<![\w.>])ReachedTarget\(\)", "ReachedTarget_stub()", False),
               R("stub:CBlockIndexWorkComparator()(tip, starting_tip) (its own contract is h_WorkComparator)", r"CBlockIndexWorkComparator\(\)\(", "WorkComparator_stub(", False),
               R("loop contract attached to the do-while", r"\bdo \{", "do LOOP_ROUND {", False),
               R("early return -> 1", r"if \(!blocks_connected\) return 1;", "if (!blocks_connected) return 1;", False)]},
    {"name": "CBlockIndexWorkComparator", "kind": "func", "file": "src/node/blockstorage.cpp", "head": r"bool CBlockIndexWorkComparator::operator\(\)\(const CBlockIndex\* pa, const CBlockIndex\* pb\)",
     "rules": [R("method-head:CBlockIndexWorkComparator::operator()", r"bool CBlockIndexWorkComparator::operator\(\)\(const CBlockIndex\* pa, const CBlockIndex\* pb\) const", "bool CBlockIndexWorkComparator(const CBlockIndex* pa, const CBlockIndex* pb)"),
               R("pointer order as integer order (addresses of distinct objects)", r"if \(pa (<|>) pb\)", r"if ((uintptr_t)pa \1 (uintptr_t)pb)", False)]},
]
PLAN = {
    "id": "C08", "level": "proof", "slices": SLICES, "spec": "spec.c", "default_solver": ["cadical", "z3"],
    "harnesses": [
        {"name": "h_activate_round", "enforce": "ActivateBestChain_round", "loop_contracts": True, "twins": [{"define": "TWIN_ROUND", "expect": "postcondition"}]},
        {"name": "h_WorkComparator", "enforce": "CBlockIndexWorkComparator", "twins": [{"define": "TWIN_SEQ", "expect": "postcondition"}]},
        {"name": "h_lemma_work_order", "replace": ["CBlockIndexWorkComparator"], "twins": [{"define": "TWIN_ORDER", "expect": "assertion"}]},
    ],
    "native": {"src": "replay.cpp", "c_src": "native_slices.c", "c_lang": "c++", "repo_sources": ["src/node/blockstorage.cpp"] if False else [], "diff_n_quick": 100000, "diff_n_thorough": 3000000,
               "libs": ["libbitcoin_common.a", "libbitcoin_consensus.a", "libbitcoin_util.a", "libbitcoin_clientversion.a", "libbitcoin_crypto.a"]},
    "not_covered": ["the bulk of the statement: FindMostWorkChain, ActivateBestChainStep (stubs in the round fragment), the outer loop of ActivateBestChain, InvalidChainFound / SetBlockFailureFlags, InvalidateBlock / ResetBlockFailureFlags, CheckBlockIndex and every delivery / invalidate / reconsider history -- "
                    "std::set<CBlockIndex*, Comparator> manipulation and multi-step chain state outside the extractor's subset; only the order that ranks tip candidates is under contract"],
    "assumptions": ["pointer tie-break compared as integer addresses"],
    "manifest": {
        "category": "proof",
        "text": "partial (comparator + one control-flow fact): one round of ActivateBestChain (its inner do-while, cut from validation.cpp) returns early as 'nothing to do' only if no activation step ran in that round -- i.e. only when FindMostWorkChain offered nothing better than the tip -- so a round that hit an invalid block always goes on to the outer loop, which asks FindMostWorkChain again; CBlockIndexWorkComparator, the order of the set of tip candidates, is proved to rank strictly by total chain work (256-bit), then by LOWER sequence id (earlier received) as greater, then by lower address as greater; it is a strict weak order and total on distinct entries, "
                "so the maximum of the candidate set is a most-work block (three-element lemma over the contract).",
        "note": "Not covered (most of the statement): candidate-set maintenance, failure flags, the activation step itself, invalidate/reconsider histories. A change there is NOT detected by this check.",
        "technique": "CBMC function contract on the extracted comparator (u256 chain work) + contract-only order lemma + loop contract on an anchor-delimited fragment of ActivateBestChain with ghost-recording stubs",
    },
    "trusted_base": ["specs/C08/spec.c", "include/verif_chain.h"],
}
