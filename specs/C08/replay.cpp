// C08 native harness: CBlockIndexWorkComparator::operator() -- the original text cut from the working tree's node/blockstorage.cpp, compiled against the real
// class declaration and the real CBlockIndex / arith_uint256 -- vs the extracted C text vs the statement's order.
#include <chain.h>
#include <node/blockstorage.h>
#include "replay_util.h"
namespace node {
#include "orig_CBlockIndexWorkComparator.inc"
}
namespace xc {
#define CBlockIndex xc_CBlockIndex
#define CBlockIndex_s xc_CBlockIndex_s
#include "verif_chain.h"
#undef CBlockIndex
#undef CBlockIndex_s
}
extern "C" bool xc_CBlockIndexWorkComparator(const xc::xc_CBlockIndex*, const xc::xc_CBlockIndex*);
// ---- one round of ActivateBestChain: the ORIGINAL statement range compiled inside a stand-in for Chainstate; both renderings are driven by the same script
#include <memory>
#include <vector>
struct Script { std::vector<int> fmw; std::vector<int> step_ok, step_invalid, step_newtip, reached, worse; size_t i_fmw{0}, i_step{0}, i_r{0}, i_w{0}; int steps{0}; };
static Script* g_sc; static CBlockIndex g_pool_real[4]; static xc::xc_CBlockIndex g_pool_x[4];
// scripted verdicts; once a script is used up every stub answers so that the round ends (no most-work candidate, target reached, tip not worse) -- a cyclic script could otherwise keep the real do-while going forever
template <class T> static T pick(std::vector<T>& v, size_t& i, T after) { T x = i < v.size() ? v[i] : after; i++; return x; }
namespace standin {
struct CBlock { uint256 GetHash() const { return uint256{}; } };
struct ConnectedBlock { CBlockIndex* index; std::shared_ptr<const CBlock> block; };
struct Sig { template <class... A> void BlockConnected(A&&...) {} };
struct Opts { Sig* signals{nullptr}; }; struct Man { Opts m_options; };
struct ChainT { CBlockIndex* tip{nullptr}; CBlockIndex* Tip() const { return tip; } };
enum class ChainstateRole { NORMAL };
struct BlockValidationState {};
struct CBlockIndexWorkComparator { bool operator()(const CBlockIndex*, const CBlockIndex*) const { return pick(g_sc->worse, g_sc->i_w, 0) != 0; } };
struct Chainstate {
    ChainT m_chain; Man m_chainman; ChainstateRole GetRole() const { return ChainstateRole::NORMAL; }
    CBlockIndex* FindMostWorkChain() { int k = pick(g_sc->fmw, g_sc->i_fmw, -1); return k < 0 ? nullptr : &g_pool_real[k]; }
    bool ReachedTarget() { return pick(g_sc->reached, g_sc->i_r, 1) != 0; }
    bool ActivateBestChainStep(BlockValidationState&, CBlockIndex&, const std::shared_ptr<const CBlock>&, bool& fInvalidFound, std::vector<ConnectedBlock>&)
    { g_sc->steps++; size_t i = g_sc->i_step++; fInvalidFound = g_sc->step_invalid[i % g_sc->step_invalid.size()]; int nt = g_sc->step_newtip[i % g_sc->step_newtip.size()]; if (nt >= 0) m_chain.tip = &g_pool_real[nt]; return g_sc->step_ok[i % g_sc->step_ok.size()]; }
    int round(CBlockIndex* pindexMostWork, CBlockIndex* starting_tip, std::shared_ptr<const CBlock> pblock) {
        BlockValidationState state; CBlockIndex* pindexNewTip = nullptr; (void)pindexNewTip;
        auto body = [&]() -> int {
#define Assert(x) (x)
#include "orig_activate_round.inc"
            return 2; };
        return body(); }
};
}
extern "C" { extern const xc::xc_CBlockIndex* g_tip; int xc_ActivateBestChain_round(const xc::xc_CBlockIndex*, const xc::xc_CBlockIndex*);
  const xc::xc_CBlockIndex* FindMostWorkChain_stub(void) { int k = pick(g_sc->fmw, g_sc->i_fmw, -1); return k < 0 ? nullptr : &g_pool_x[k]; }
  struct xConnected { size_t n; };
  bool ActivateBestChainStep_stub(const xc::xc_CBlockIndex*, bool* inv, xConnected* cl) { cl->n = 0; g_sc->steps++; size_t i = g_sc->i_step++; *inv = g_sc->step_invalid[i % g_sc->step_invalid.size()]; int nt = g_sc->step_newtip[i % g_sc->step_newtip.size()]; if (nt >= 0) g_tip = &g_pool_x[nt]; return g_sc->step_ok[i % g_sc->step_ok.size()]; }
  bool ReachedTarget_stub(void) { return pick(g_sc->reached, g_sc->i_r, 1) != 0; }
  bool WorkComparator_stub(const xc::xc_CBlockIndex*, const xc::xc_CBlockIndex*) { return pick(g_sc->worse, g_sc->i_w, 0) != 0; } }
#define BAD(...) do { rv::g_stats.real_violations++; if (rv::g_stats.real_violations <= 8) { std::printf("REAL-VIOLATION " __VA_ARGS__); std::printf("\n"); } } while (0)
#define DIS(...) do { rv::g_stats.disagreements++; if (rv::g_stats.disagreements <= 8) { std::printf("DISAGREE " __VA_ARGS__); std::printf("\n"); } } while (0)
int main(int argc, char** argv)
{
    auto a = rv::parse(argc, argv); rv::Rng r(a.seed); uint64_t n = a.diff ? a.n : 200000; node::CBlockIndexWorkComparator cmp;
    for (uint64_t i = 0; i < n; i++) {
        CBlockIndex b[2]; xc::xc_CBlockIndex x[2]{};
        for (int k = 0; k < 2; k++) { arith_uint256 w(r.below(4)); if (r.below(2)) { w = arith_uint256(r.next()); w <<= (unsigned)r.below(190); } b[k].nChainWork = w; b[k].nSequenceId = (int32_t)r.below(3) - 1 + (r.below(4) == 0 ? (int32_t)r.next() : 0); }
        if (r.below(2)) b[1].nChainWork = b[0].nChainWork; if (r.below(2)) b[1].nSequenceId = b[0].nSequenceId;
        int p = (int)r.below(2), q = (int)r.below(3) == 0 ? p : 1 - p;
        for (int k = 0; k < 2; k++) { x[k].nChainWork = b[k].nChainWork; x[k].nSequenceId = b[k].nSequenceId; }
        bool real = cmp(&b[p], &b[q]), xr = xc_CBlockIndexWorkComparator(&x[p], &x[q]);
        bool want = b[p].nChainWork != b[q].nChainWork ? b[p].nChainWork < b[q].nChainWork : b[p].nSequenceId != b[q].nSequenceId ? b[p].nSequenceId > b[q].nSequenceId : (uintptr_t)&b[p] > (uintptr_t)&b[q];
        rv::g_stats.inputs++;
        if (real != xr) DIS("comparator real %d extracted %d", real, xr);
        if (real != want) BAD("CBlockIndexWorkComparator(work %s seq %d, work %s seq %d) = %d, the order says %d", b[p].nChainWork.GetHex().c_str(), b[p].nSequenceId, b[q].nChainWork.GetHex().c_str(), b[q].nSequenceId, real, want);
    }
    for (uint64_t i = 0; i < n / 4; i++) {
        Script sc; for (int k = 0; k < 6; k++) { sc.fmw.push_back((int)r.below(5) - 1); sc.step_ok.push_back(r.below(10) != 0); sc.step_invalid.push_back(r.below(3) == 0); sc.step_newtip.push_back(r.below(3) == 0 ? -1 : (int)r.below(4)); sc.reached.push_back(r.below(4) == 0); sc.worse.push_back(r.below(3) == 0); }
        int mw = (int)r.below(5) - 1, st = (int)r.below(5) - 1; Script s1 = sc, s2 = sc;
        g_sc = &s1; standin::Chainstate cs; cs.m_chain.tip = st < 0 ? nullptr : &g_pool_real[st]; int real = cs.round(mw < 0 ? nullptr : &g_pool_real[mw], st < 0 ? nullptr : &g_pool_real[st], nullptr);
        g_sc = &s2; g_tip = st < 0 ? nullptr : &g_pool_x[st]; int xr = xc_ActivateBestChain_round(mw < 0 ? nullptr : &g_pool_x[mw], st < 0 ? nullptr : &g_pool_x[st]);
        rv::g_stats.inputs++;
        if (real != xr || s1.steps != s2.steps) DIS("ActivateBestChain round: real %d (%d steps) extracted %d (%d steps)", real, s1.steps, xr, s2.steps);
        if (real == 1 && s1.steps > 0) BAD("ActivateBestChain gives up early ('nothing to do') although an activation step ran in this round (most-work candidate %d, starting tip %d, step found invalid block=%d)", mw, st, (int)sc.step_invalid[0]);
        if (real == 2 && s1.steps == 0) BAD("ActivateBestChain goes on to notifications although no step ran");
    }
    rv::report();
    return rv::g_stats.real_violations ? 1 : (rv::g_stats.disagreements ? 3 : 0);
}
