// C08 native harness: CBlockIndexWorkComparator::operator() -- the original text cut from the working tree's node/blockstorage.cpp, compiled against the real
// class declaration and the real CBlockIndex / arith_uint256 -- vs the extracted C text vs the statement's order.
#include <chain.h>
#include <node/blockstorage.h>
#include "replay_util.h"
namespace node {
#include "orig_CBlockIndexWorkComparator.inc"
}
namespace xc {
#define CBlockIndex xc_CBlockIndex
#define CBlockIndex_s xc_CBlockIndex_s
#include "verif_chain.h"
#undef CBlockIndex
#undef CBlockIndex_s
}
extern "C" bool xc_CBlockIndexWorkComparator(const xc::xc_CBlockIndex*, const xc::xc_CBlockIndex*);
#define BAD(...) do { rv::g_stats.real_violations++; if (rv::g_stats.real_violations <= 8) { std::printf("REAL-VIOLATION " __VA_ARGS__); std::printf("\n"); } } while (0)
#define DIS(...) do { rv::g_stats.disagreements++; if (rv::g_stats.disagreements <= 8) { std::printf("DISAGREE " __VA_ARGS__); std::printf("\n"); } } while (0)
int main(int argc, char** argv)
{
    auto a = rv::parse(argc, argv); rv::Rng r(a.seed); uint64_t n = a.diff ? a.n : 200000; node::CBlockIndexWorkComparator cmp;
    for (uint64_t i = 0; i < n; i++) {
        CBlockIndex b[2]; xc::xc_CBlockIndex x[2]{};
        for (int k = 0; k < 2; k++) { arith_uint256 w(r.below(4)); if (r.below(2)) { w = arith_uint256(r.next()); w <<= (unsigned)r.below(190); } b[k].nChainWork = w; b[k].nSequenceId = (int32_t)r.below(3) - 1 + (r.below(4) == 0 ? (int32_t)r.next() : 0); }
        if (r.below(2)) b[1].nChainWork = b[0].nChainWork; if (r.below(2)) b[1].nSequenceId = b[0].nSequenceId;
        int p = (int)r.below(2), q = (int)r.below(3) == 0 ? p : 1 - p;
        for (int k = 0; k < 2; k++) { x[k].nChainWork = b[k].nChainWork; x[k].nSequenceId = b[k].nSequenceId; }
        bool real = cmp(&b[p], &b[q]), xr = xc_CBlockIndexWorkComparator(&x[p], &x[q]);
        bool want = b[p].nChainWork != b[q].nChainWork ? b[p].nChainWork < b[q].nChainWork : b[p].nSequenceId != b[q].nSequenceId ? b[p].nSequenceId > b[q].nSequenceId : (uintptr_t)&b[p] > (uintptr_t)&b[q];
        rv::g_stats.inputs++;
        if (real != xr) DIS("comparator real %d extracted %d", real, xr);
        if (real != want) BAD("CBlockIndexWorkComparator(work %s seq %d, work %s seq %d) = %d, the order says %d", b[p].nChainWork.GetHex().c_str(), b[p].nSequenceId, b[q].nChainWork.GetHex().c_str(), b[q].nSequenceId, real, want);
    }
    rv::report();
    return rv::g_stats.real_violations ? 1 : (rv::g_stats.disagreements ? 3 : 0);
}
