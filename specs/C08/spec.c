/* C08 -- the order that ranks candidates for the active tip (CBlockIndexWorkComparator). */
#include "verif_chain.h"
#define W(p) ((p)->nChainWork)
#ifdef TWIN_SEQ
#define SPEC_LESS (W(pa) != W(pb) ? W(pa) < W(pb) : pa->nSequenceId != pb->nSequenceId ? pa->nSequenceId < pb->nSequenceId : (uintptr_t)pa > (uintptr_t)pb)
#else
/* less = worse candidate: less work; same work: received LATER (higher sequence id); same id: higher address */
#define SPEC_LESS (W(pa) != W(pb) ? W(pa) < W(pb) : pa->nSequenceId != pb->nSequenceId ? pa->nSequenceId > pb->nSequenceId : (uintptr_t)pa > (uintptr_t)pb)
#endif
bool CBlockIndexWorkComparator(const CBlockIndex* pa, const CBlockIndex* pb)
__CPROVER_requires(__CPROVER_r_ok(pa, sizeof(*pa)) && __CPROVER_r_ok(pb, sizeof(*pb)))
__CPROVER_ensures((__CPROVER_return_value != 0) == (SPEC_LESS))
__CPROVER_assigns();

/* ---- one round of ActivateBestChain (inner do-while): FindMostWorkChain / ActivateBestChainStep / ReachedTarget are ghost-recording stubs ---- */
const CBlockIndex* g_tip; const CBlockIndex* g_final_most_work; int g_steps, g_fmw_calls; const CBlockIndex* g_last_fmw;
bool nondet_bool(void); unsigned nondet_uint(void);
/* index entries are only compared and handed on in this fragment: any of a few distinct entries, or none */
static char g_pool[4];
static inline const CBlockIndex* nondet_index(void) { unsigned k = nondet_uint(); return k < 4 ? (const CBlockIndex*)&g_pool[k] : NULL; }
static inline bool WorkComparator_stub(const CBlockIndex* a, const CBlockIndex* b) { return nondet_bool(); }
static inline const CBlockIndex* FindMostWorkChain_stub(void) { g_fmw_calls = 1; g_last_fmw = nondet_index(); return g_last_fmw; }
typedef struct { size_t n; } ConnectedList;
static inline bool ActivateBestChainStep_stub(const CBlockIndex* most_work, bool* fInvalidFound, ConnectedList* connected)      /* may move the tip, connect any number of blocks, find an invalid block, fail */
{ g_steps = 1; connected->n = nondet_uint(); *fInvalidFound = nondet_bool(); g_tip = nondet_bool() ? g_tip : nondet_index(); return nondet_bool(); }
static inline bool ReachedTarget_stub(void) { return nondet_bool(); }
#define LOOP_ROUND \
    __CPROVER_assigns(pindexMostWork, pindexNewTip, blocks_connected, g_tip, g_steps, g_fmw_calls, g_last_fmw) \
    __CPROVER_loop_invariant((blocks_connected != 0) == (g_steps != 0))
/* result: 0 = system error, 1 = "nothing to do" (early return true), 2 = goes on (notifications, outer loop) */
int ActivateBestChain_round(const CBlockIndex* pindexMostWork, const CBlockIndex* starting_tip)
__CPROVER_requires(g_steps == 0 && g_fmw_calls == 0 && g_tip == starting_tip)
#ifdef TWIN_ROUND
__CPROVER_ensures(__CPROVER_return_value == 2 ==> g_steps == 0)
#else
/* gives up early only if no activation step ran: the most-work candidate was absent or already the tip */
__CPROVER_ensures(__CPROVER_return_value == 1 ==> g_steps == 0)
__CPROVER_ensures(__CPROVER_return_value == 2 ==> g_steps != 0)
#endif
__CPROVER_assigns(g_tip, g_steps, g_fmw_calls, g_last_fmw, g_final_most_work);

#include "slices.h"
void h_activate_round(void) { const CBlockIndex *mw = nondet_index(), *st = nondet_index(); g_tip = st; int r = ActivateBestChain_round(mw, st); if (r == 1) VERIF_REACH_PT("nothing to do"); if (r == 2) VERIF_REACH_PT("goes on"); if (r == 0) VERIF_REACH_PT("system error"); }
void h_WorkComparator(void) { CBlockIndex x, y; bool r = CBlockIndexWorkComparator(&x, &y); if (r) VERIF_REACH_PT("less"); else VERIF_REACH_PT("not less"); }
#define LT(p, q) CBlockIndexWorkComparator(p, q)
void h_lemma_work_order(void)
{
    CBlockIndex x, y, z;
    __CPROVER_assert(!LT(&x, &x), "irreflexive");
    __CPROVER_assert(!(LT(&x, &y) && LT(&y, &x)), "asymmetric");
    __CPROVER_assert(!(LT(&x, &y) && LT(&y, &z)) || LT(&x, &z), "transitive");
    __CPROVER_assert(LT(&x, &y) || LT(&y, &x), "total on distinct entries");
#ifdef TWIN_ORDER
    __CPROVER_assert(!LT(&x, &y) || W(&x) < W(&y), "twin: strictly less work");
#else
    __CPROVER_assert(!LT(&x, &y) || W(&x) <= W(&y), "a lesser candidate never has more work: the maximum of the set is a most-work block");
    __CPROVER_assert(!(W(&x) < W(&y)) || LT(&x, &y), "less work always ranks lower");
#endif
    VERIF_REACH_PT("lemma end");
}
