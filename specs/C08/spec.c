/* C08 -- the order that ranks candidates for the active tip (CBlockIndexWorkComparator). */
#include "verif_chain.h"
#define W(p) ((p)->nChainWork)
#ifdef TWIN_SEQ
#define SPEC_LESS (W(pa) != W(pb) ? W(pa) < W(pb) : pa->nSequenceId != pb->nSequenceId ? pa->nSequenceId < pb->nSequenceId : (uintptr_t)pa > (uintptr_t)pb)
#else
/* less = worse candidate: less work; same work: received LATER (higher sequence id); same id: higher address */
#define SPEC_LESS (W(pa) != W(pb) ? W(pa) < W(pb) : pa->nSequenceId != pb->nSequenceId ? pa->nSequenceId > pb->nSequenceId : (uintptr_t)pa > (uintptr_t)pb)
#endif
bool CBlockIndexWorkComparator(const CBlockIndex* pa, const CBlockIndex* pb)
__CPROVER_requires(__CPROVER_r_ok(pa, sizeof(*pa)) && __CPROVER_r_ok(pb, sizeof(*pb)))
__CPROVER_ensures((__CPROVER_return_value != 0) == (SPEC_LESS))
__CPROVER_assigns();

#include "slices.h"
void h_WorkComparator(void) { CBlockIndex x, y; bool r = CBlockIndexWorkComparator(&x, &y); if (r) VERIF_REACH_PT("less"); else VERIF_REACH_PT("not less"); }
#define LT(p, q) CBlockIndexWorkComparator(p, q)
void h_lemma_work_order(void)
{
    CBlockIndex x, y, z;
    __CPROVER_assert(!LT(&x, &x), "irreflexive");
    __CPROVER_assert(!(LT(&x, &y) && LT(&y, &x)), "asymmetric");
    __CPROVER_assert(!(LT(&x, &y) && LT(&y, &z)) || LT(&x, &z), "transitive");
    __CPROVER_assert(LT(&x, &y) || LT(&y, &x), "total on distinct entries");
#ifdef TWIN_ORDER
    __CPROVER_assert(!LT(&x, &y) || W(&x) < W(&y), "twin: strictly less work");
#else
    __CPROVER_assert(!LT(&x, &y) || W(&x) <= W(&y), "a lesser candidate never has more work: the maximum of the set is a most-work block");
    __CPROVER_assert(!(W(&x) < W(&y)) || LT(&x, &y), "less work always ranks lower");
#endif
    VERIF_REACH_PT("lemma end");
}
