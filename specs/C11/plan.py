import os, sys
sys.path.insert(0, os.path.dirname(os.path.dirname(os.path.abspath(__file__))))
from engine.extract import R
from specs.common_witprog import SCRIPT_ERROR, WITPROG_CONSTS, WITPROG_FUNCS, ASSUMPTIONS as WITPROG_ASSUMPTIONS
import copy

def dep(name, var):
    return R(f"ghost:DeploymentActiveAt(..., DEPLOYMENT_{name})", rf"DeploymentActiveAt\(block_index, chainman, Consensus::DEPLOYMENT_{name}\)", var, False)
SLICES = [
    {"name": "script_verify_flag_name", "kind": "const", "file": "src/script/interpreter.h", "pat": r"enum class script_verify_flag_name : uint8_t \{[^}]*\};", "emit": r"\g<0>",
     "rules": [R("enum class -> plain enum of bit positions", r"enum class script_verify_flag_name : uint8_t", "enum script_verify_flag_bits", True), R("enumerator names -> BIT_*", r"\bSCRIPT_VERIFY_(\w+)", r"BIT_SCRIPT_VERIFY_\1", True)]},
    {"name": "MANDATORY_SCRIPT_VERIFY_FLAGS", "kind": "const", "file": "src/policy/policy.h", "pat": r"inline constexpr script_verify_flags MANDATORY_SCRIPT_VERIFY_FLAGS\{([^}]*)\};", "emit": r"#define MANDATORY_SCRIPT_VERIFY_FLAGS (\1)", "rules": [R("one line", r"\s*\n\s*", " ", False)]},
    {"name": "STANDARD_SCRIPT_VERIFY_FLAGS", "kind": "const", "file": "src/policy/policy.h", "pat": r"inline constexpr script_verify_flags STANDARD_SCRIPT_VERIFY_FLAGS\{([^}]*)\};", "emit": r"#define STANDARD_SCRIPT_VERIFY_FLAGS (\1)", "rules": [R("one line", r"\s*\n\s*", " ", False)]},
    {"name": "script_flag_exceptions", "kind": "const_list", "file": "src/kernel/chainparams.cpp", "pat": r"consensus\.script_flag_exceptions\.emplace\(\s*uint256\{\"[0-9a-f]{64}\"\},\s*([^;]*?)\);", "min_count": 3,
     "emit": "static const unsigned EXCEPTION_FLAGS[] = {{ {values} }};\n#define N_EXCEPTIONS {n}"},
    {"name": "GetBlockScriptFlags", "kind": "func", "file": "src/validation.cpp", "head": r"script_verify_flags GetBlockScriptFlags\(const CBlockIndex& block_index, const ChainstateManager& chainman\)",
     "rules": [R("head: exception lookup and deployment states as inputs", r"script_verify_flags GetBlockScriptFlags\(const CBlockIndex& block_index, const ChainstateManager& chainman\)",
                 "unsigned GetBlockScriptFlags(bool has_exception, unsigned exception_flags, bool dersig_active, bool cltv_active, bool csv_active, bool segwit_active)"),
               R("drop:consensusparams", r"const Consensus::Params& consensusparams = chainman\.GetConsensus\(\);", "", False),
               R("brace-init flags", r"script_verify_flags flags\{([^;]*)\};", r"unsigned flags = (\1);", False),
               R("ghost:exception map lookup", r"const auto it\{consensusparams\.script_flag_exceptions\.find\(\*Assert\(block_index\.phashBlock\)\)\};", "", False),
               R("ghost:found in the exception map", r"it != consensusparams\.script_flag_exceptions\.end\(\)", "has_exception", False), R("ghost:it->second", r"it->second", "exception_flags", False),
               dep("DERSIG", "dersig_active"), dep("CLTV", "cltv_active"), dep("CSV", "csv_active"), dep("SEGWIT", "segwit_active")]},
] + [copy.deepcopy(x) for x in [SCRIPT_ERROR] + WITPROG_CONSTS + WITPROG_FUNCS]
for _s in SLICES:
    _s["guard"] = "C11_PASS_WITPROG" if _s["name"] in ("VerifyWitnessProgram", "IsPayToAnchor") else "C11_PASS_FUNCS" if _s["kind"] in ("func", "const_list") else "C11_PASS_CONSTS"
PLAN = {
    "id": "C11", "level": "proof", "slices": SLICES, "spec": "spec.c", "default_solver": ["cadical", "z3"],
    "harnesses": [{"name": "h_GetBlockScriptFlags", "enforce": "GetBlockScriptFlags", "twins": [{"define": "TWIN_FLAGS", "expect": "postcondition"}]},
                  {"name": "h_VerifyWitnessProgram", "enforce": "VerifyWitnessProgram", "twins": [{"define": "TWIN_TAPROOT_OFF", "expect": "postcondition"}]},
                  {"name": "h_lemma_witprog_flag_monotone", "replace": ["VerifyWitnessProgram"], "twins": [{"define": "TWIN_MONO", "expect": "assertion"}]},
                  {"name": "h_lemma_consensus_subset_of_standard", "replace": ["GetBlockScriptFlags"], "unwind": 8, "twins": [{"define": "TWIN_SUBSET", "expect": "assertion"}]}],
    "native": {"src": "replay.cpp", "c_src": "native_slices.c", "repo_sources": ["src/script/script.cpp", "src/script/interpreter.cpp"], "diff_n_quick": 20000, "diff_n_thorough": 2000000,
               "libs": ["libbitcoin_consensus.a", "libbitcoin_util.a", "libbitcoin_clientversion.a", "libbitcoin_crypto.a", "/repo/_build/src/secp256k1/lib/libsecp256k1.a"]},
    "not_covered": ["the first sentence of the statement for EvalScript, ExecuteWitnessScript and the non-witness part of VerifyScript: that they are monotone in their flags (success under a larger set implies success under a smaller one) and deterministic -- "
                    "a two-run relational property of a 2000-line interpreter over std::vector stacks, outside the extractor's subset; only the witness-program dispatch (VerifyWitnessProgram) is proved monotone, "
                    "with ExecuteWitnessScript's monotonicity ASSUMED in that lemma; the native harness samples flag pairs on the real VerifyScript for witness spends but that is sampling, not proof"],
    "assumptions": [*WITPROG_ASSUMPTIONS, "lemma h_lemma_witprog_flag_monotone ASSUMES ExecuteWitnessScript succeeds under the smaller flag set whenever it does under the larger one (EvalScript is not under contract); CheckSchnorrSignature, the SHA256 comparison and VerifyTaprootCommitment do not take the flags", "DeploymentActiveAt(...) and the exception-map lookup are inputs of GetBlockScriptFlags; flags are bit masks 1 << enumerator (script_verify_flags is a bitset over script_verify_flag_name)",
                    "the exception values are the literals found in kernel/chainparams.cpp (every `script_flag_exceptions.emplace`)"],
    "manifest": {
        "category": "proof",
        "text": "partial: (a) the witness-program dispatch VerifyWitnessProgram (extracted each run, BIP141/BIP341 contract: P2WSH / P2WPKH / taproot key and script path / anchor / upgradable programs) is monotone in its flags -- success under a flag set implies success under every subset, "
                "given a monotone ExecuteWitnessScript -- in particular a v1 32-byte program is anyone-can-spend without the TAPROOT flag; (b) flag-set facts: GetBlockScriptFlags returns the exception value (or P2SH|WITNESS|TAPROOT) plus exactly DERSIG / CHECKLOCKTIMEVERIFY / CHECKSEQUENCEVERIFY / NULLDUMMY for the active deployments; MANDATORY is a subset of STANDARD; every script-flag exception in chainparams is a subset of STANDARD; "
                "hence for every block and every deployment state the consensus script flags are a subset of the standard (policy) flags -- the flag-set half of 'accepted under policy flags => verifies under the next block's consensus flags'.",
        "note": "Not covered: monotonicity of EvalScript / ExecuteWitnessScript / non-witness VerifyScript in their flags, determinism (sampled natively on the real VerifyScript only). Trusted: extraction rules, bit-mask reading of the flag type.",
        "technique": "CBMC function contracts on extracted VerifyWitnessProgram and GetBlockScriptFlags + contract-only lemmas (flag monotonicity of the dispatch; subset facts over constants extracted from policy.h / interpreter.h / chainparams.cpp)",
    },
    "trusted_base": ["specs/C11/spec.c"],
}
