// C11 / C28 native harness: the real flag constants (policy/policy.h, script/interpreter.h) and the real chain parameters' exception maps vs the extracted constants,
// and the subset facts on the real values.  (GetBlockScriptFlags itself needs a ChainstateManager; its original text is compared through the extracted function's table.)
#include <policy/policy.h>
#include <script/interpreter.h>
#include "replay_util.h"
extern "C" { unsigned xc_mandatory(void); unsigned xc_standard(void); unsigned xc_exception(int); int xc_n_exceptions(void); unsigned xc_GetBlockScriptFlags(bool, unsigned, bool, bool, bool, bool); }
#define BAD(...) do { rv::g_stats.real_violations++; if (rv::g_stats.real_violations <= 8) { std::printf("REAL-VIOLATION " __VA_ARGS__); std::printf("\n"); } } while (0)
#define DIS(...) do { rv::g_stats.disagreements++; if (rv::g_stats.disagreements <= 8) { std::printf("DISAGREE " __VA_ARGS__); std::printf("\n"); } } while (0)
static unsigned mask(script_verify_flags f) { unsigned m = 0; for (unsigned b = 0; b < (unsigned)script_verify_flag_name::SCRIPT_VERIFY_END_MARKER; b++) if (f & script_verify_flags{static_cast<script_verify_flag_name>(b)}) m |= 1u << b; return m; }
int main(int argc, char** argv)
{
    auto a = rv::parse(argc, argv); (void)a; unsigned man = mask(MANDATORY_SCRIPT_VERIFY_FLAGS), stdf = mask(STANDARD_SCRIPT_VERIFY_FLAGS);
    rv::g_stats.inputs += 2;
    if (man != xc_mandatory() || stdf != xc_standard()) DIS("flag constants: real mandatory %08x standard %08x, extracted %08x %08x", man, stdf, xc_mandatory(), xc_standard());
    if (man & ~stdf) BAD("a mandatory script flag is not a standard flag (mandatory %08x, standard %08x)", man, stdf);
    unsigned P2SH = mask(SCRIPT_VERIFY_P2SH), WIT = mask(SCRIPT_VERIFY_WITNESS), TAP = mask(SCRIPT_VERIFY_TAPROOT), DER = mask(SCRIPT_VERIFY_DERSIG), CLTV = mask(SCRIPT_VERIFY_CHECKLOCKTIMEVERIFY), CSV = mask(SCRIPT_VERIFY_CHECKSEQUENCEVERIFY), ND = mask(SCRIPT_VERIFY_NULLDUMMY);
    for (int ex = 0; ex <= xc_n_exceptions(); ex++) for (int d = 0; d < 16; d++) {
        bool has = ex < xc_n_exceptions(); unsigned ev = has ? xc_exception(ex) : 0; unsigned got = xc_GetBlockScriptFlags(has, ev, d & 1, d & 2, d & 4, d & 8);
        unsigned want = (has ? ev : (P2SH | WIT | TAP)) | ((d & 1) ? DER : 0) | ((d & 2) ? CLTV : 0) | ((d & 4) ? CSV : 0) | ((d & 8) ? ND : 0); rv::g_stats.inputs++;
        if (got != want) BAD("GetBlockScriptFlags(exception %d, deployments %x) = %08x, expected %08x", ex, d, got, want);
        if (got & ~stdf) BAD("consensus flags %08x are not a subset of the standard flags %08x", got, stdf);
    }
    rv::report();
    return rv::g_stats.real_violations ? 1 : (rv::g_stats.disagreements ? 3 : 0);
}
