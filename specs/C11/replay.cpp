// C11 / C28 native harness: the real flag constants (policy/policy.h, script/interpreter.h) and the real chain parameters' exception maps vs the extracted constants,
// and the subset facts on the real values.  (GetBlockScriptFlags itself needs a ChainstateManager; its original text is compared through the extracted function's table.)
#include <policy/policy.h>
#include <script/interpreter.h>
#include "replay_util.h"
#include "../witprog_native.h"
extern "C" { unsigned xc_mandatory(void); unsigned xc_standard(void); unsigned xc_exception(int); int xc_n_exceptions(void); unsigned xc_GetBlockScriptFlags(bool, unsigned, bool, bool, bool, bool); }
#define BAD(...) do { rv::g_stats.real_violations++; if (rv::g_stats.real_violations <= 8) { std::printf("REAL-VIOLATION " __VA_ARGS__); std::printf("\n"); } } while (0)
#define DIS(...) do { rv::g_stats.disagreements++; if (rv::g_stats.disagreements <= 8) { std::printf("DISAGREE " __VA_ARGS__); std::printf("\n"); } } while (0)
static unsigned mask(script_verify_flags f) { unsigned m = 0; for (unsigned b = 0; b < (unsigned)script_verify_flag_name::SCRIPT_VERIFY_END_MARKER; b++) if (f & script_verify_flags{static_cast<script_verify_flag_name>(b)}) m |= 1u << b; return m; }
// flag monotonicity on the real VerifyScript: witness spends (P2TR script path with leaf versions 0xc0 / 0xc2, P2WSH, unknown witness versions, pay-to-anchor, P2SH-wrapped programs) under pairs small <= big of valid flag sets
static script_verify_flags from_mask(unsigned m) { script_verify_flags f; for (unsigned b = 0; b < (unsigned)script_verify_flag_name::SCRIPT_VERIFY_END_MARKER; b++) if (m & (1u << b)) f |= script_verify_flags{static_cast<script_verify_flag_name>(b)}; return f; }
static unsigned make_valid_down(unsigned m, unsigned P2SH, unsigned WIT, unsigned CLEAN) { if ((m & WIT) && !(m & P2SH)) m &= ~WIT; if ((m & CLEAN) && (!(m & P2SH) || !(m & WIT))) m &= ~CLEAN; return m; }
static void test_flag_pairs(rv::Rng& r)
{
    unsigned P2SH = mask(SCRIPT_VERIFY_P2SH), WIT = mask(SCRIPT_VERIFY_WITNESS), CLEAN = mask(SCRIPT_VERIFY_CLEANSTACK), ALL = (1u << (unsigned)script_verify_flag_name::SCRIPT_VERIFY_END_MARKER) - 1;
    static const std::vector<std::vector<unsigned char>> SCR = {{0x51}, {0x00}, {0x50}, {0x51, 0x51}, {0xb0}, {0x51, 0xb1}, {0x61, 0x51}, {0x51, 0x63, 0x51, 0x68}, {0x02, 0x01, 0x00, 0x63, 0x51, 0x67, 0x51, 0x68}, {0x4c, 0x01, 0x07}, {0x75, 0x51}, {0xba}, {0x51, 0xba}};
    std::vector<unsigned char> sc = SCR[r.below(SCR.size())]; std::vector<std::vector<unsigned char>> st(r.below(3)); for (auto& e : st) e.assign(r.below(3), (unsigned char)r.below(3));
    wpn::Spend sp; CScript sig; int kind = (int)r.below(7);
    if (kind <= 1) { if (!wpn::p2tr_script_path(sc, st, sp, 0xc0)) return; }
    else if (kind == 2) { if (!wpn::p2tr_script_path(sc, st, sp, 0xc2)) return; }
    else if (kind == 3) wpn::p2wsh(sc, st, sp);
    else if (kind == 4) { sp.spk = CScript() << (r.below(2) ? OP_2 : OP_1) << std::vector<unsigned char>(r.below(2) ? 32 : 20, 0x11); sp.wit.stack = st; }
    else if (kind == 5) { sp.spk = CScript() << OP_1 << std::vector<unsigned char>{0x4e, 0x73}; }
    else { wpn::Spend in; if (!wpn::p2tr_script_path(sc, st, in, 0xc0)) return; std::vector<unsigned char> redeem(in.spk.begin(), in.spk.end()); sig = CScript() << redeem; sp.spk = CScript() << OP_HASH160 << std::vector<unsigned char>(20, 0) << OP_EQUAL; sp.wit = in.wit; /* P2SH-wrapped v1 program (hash mismatch unless P2SH is off) */ }
    unsigned big = make_valid_down((unsigned)r.next() & ALL, P2SH, WIT, CLEAN); if (r.below(2)) big = make_valid_down(big | P2SH | WIT, P2SH, WIT, CLEAN); unsigned small = make_valid_down(big & (unsigned)r.next() & (r.below(2) ? (unsigned)r.next() | P2SH | WIT : ~0u), P2SH, WIT, CLEAN);
    if (r.below(3) == 0) small = make_valid_down(big & ~(1u << r.below((unsigned)script_verify_flag_name::SCRIPT_VERIFY_END_MARKER)), P2SH, WIT, CLEAN);
    BaseSignatureChecker chk; ScriptError eb = SCRIPT_ERR_UNKNOWN_ERROR, es = SCRIPT_ERR_UNKNOWN_ERROR, es2 = SCRIPT_ERR_UNKNOWN_ERROR;
    bool rb = VerifyScript(sig, sp.spk, &sp.wit, from_mask(big), chk, &eb), rs = VerifyScript(sig, sp.spk, &sp.wit, from_mask(small), chk, &es), rs2 = VerifyScript(sig, sp.spk, &sp.wit, from_mask(small), chk, &es2); rv::g_stats.inputs++;
    std::vector<unsigned char> spkb(sp.spk.begin(), sp.spk.end());
    if (rb && !rs) BAD("scriptPubKey %s, witness of %zu elements (script %s): VerifyScript succeeds under flags %08x but fails (%s) under the subset %08x -- script flags must only ever add restrictions", wpn::hx(spkb).c_str(), sp.wit.stack.size(), wpn::hx(sc).c_str(), big, ScriptErrorString(es).c_str(), small);
    if (rs != rs2 || es != es2) BAD("VerifyScript is not deterministic on scriptPubKey %s under flags %08x", wpn::hx(spkb).c_str(), small);
}
int main(int argc, char** argv)
{
    auto a = rv::parse(argc, argv); unsigned man = mask(MANDATORY_SCRIPT_VERIFY_FLAGS), stdf = mask(STANDARD_SCRIPT_VERIFY_FLAGS);
    rv::g_stats.inputs += 2;
    if (man != xc_mandatory() || stdf != xc_standard()) DIS("flag constants: real mandatory %08x standard %08x, extracted %08x %08x", man, stdf, xc_mandatory(), xc_standard());
    if (man & ~stdf) BAD("a mandatory script flag is not a standard flag (mandatory %08x, standard %08x)", man, stdf);
    unsigned P2SH = mask(SCRIPT_VERIFY_P2SH), WIT = mask(SCRIPT_VERIFY_WITNESS), TAP = mask(SCRIPT_VERIFY_TAPROOT), DER = mask(SCRIPT_VERIFY_DERSIG), CLTV = mask(SCRIPT_VERIFY_CHECKLOCKTIMEVERIFY), CSV = mask(SCRIPT_VERIFY_CHECKSEQUENCEVERIFY), ND = mask(SCRIPT_VERIFY_NULLDUMMY);
    for (int ex = 0; ex <= xc_n_exceptions(); ex++) for (int d = 0; d < 16; d++) {
        bool has = ex < xc_n_exceptions(); unsigned ev = has ? xc_exception(ex) : 0; unsigned got = xc_GetBlockScriptFlags(has, ev, d & 1, d & 2, d & 4, d & 8);
        unsigned want = (has ? ev : (P2SH | WIT | TAP)) | ((d & 1) ? DER : 0) | ((d & 2) ? CLTV : 0) | ((d & 4) ? CSV : 0) | ((d & 8) ? ND : 0); rv::g_stats.inputs++;
        if (got != want) BAD("GetBlockScriptFlags(exception %d, deployments %x) = %08x, expected %08x", ex, d, got, want);
        if (got & ~stdf) BAD("consensus flags %08x are not a subset of the standard flags %08x", got, stdf);
    }
    { rv::Rng r(a.seed); uint64_t n = a.diff ? a.n : 20000; for (uint64_t i = 0; i < n; i++) test_flag_pairs(r); }
    rv::report();
    return rv::g_stats.real_violations ? 1 : (rv::g_stats.disagreements ? 3 : 0);
}
