/* C11 / C28 -- consensus script flags are always a subset of the standard (policy) flags. */
#include "verif.h"
#define C11_PASS_CONSTS
#include "slices.h"      /* first pass: the extracted enum / constants (the contract below is written over them) */
#undef C11_PASS_CONSTS
#define F(name) (1u << BIT_SCRIPT_VERIFY_##name)
#define SCRIPT_VERIFY_NONE 0u
#define SCRIPT_VERIFY_P2SH F(P2SH)
#define SCRIPT_VERIFY_STRICTENC F(STRICTENC)
#define SCRIPT_VERIFY_DERSIG F(DERSIG)
#define SCRIPT_VERIFY_LOW_S F(LOW_S)
#define SCRIPT_VERIFY_NULLDUMMY F(NULLDUMMY)
#define SCRIPT_VERIFY_SIGPUSHONLY F(SIGPUSHONLY)
#define SCRIPT_VERIFY_MINIMALDATA F(MINIMALDATA)
#define SCRIPT_VERIFY_DISCOURAGE_UPGRADABLE_NOPS F(DISCOURAGE_UPGRADABLE_NOPS)
#define SCRIPT_VERIFY_CLEANSTACK F(CLEANSTACK)
#define SCRIPT_VERIFY_CHECKLOCKTIMEVERIFY F(CHECKLOCKTIMEVERIFY)
#define SCRIPT_VERIFY_CHECKSEQUENCEVERIFY F(CHECKSEQUENCEVERIFY)
#define SCRIPT_VERIFY_WITNESS F(WITNESS)
#define SCRIPT_VERIFY_DISCOURAGE_UPGRADABLE_WITNESS_PROGRAM F(DISCOURAGE_UPGRADABLE_WITNESS_PROGRAM)
#define SCRIPT_VERIFY_MINIMALIF F(MINIMALIF)
#define SCRIPT_VERIFY_NULLFAIL F(NULLFAIL)
#define SCRIPT_VERIFY_WITNESS_PUBKEYTYPE F(WITNESS_PUBKEYTYPE)
#define SCRIPT_VERIFY_CONST_SCRIPTCODE F(CONST_SCRIPTCODE)
#define SCRIPT_VERIFY_TAPROOT F(TAPROOT)
#define SCRIPT_VERIFY_DISCOURAGE_UPGRADABLE_TAPROOT_VERSION F(DISCOURAGE_UPGRADABLE_TAPROOT_VERSION)
#define SCRIPT_VERIFY_DISCOURAGE_OP_SUCCESS F(DISCOURAGE_OP_SUCCESS)
#define SCRIPT_VERIFY_DISCOURAGE_UPGRADABLE_PUBKEYTYPE F(DISCOURAGE_UPGRADABLE_PUBKEYTYPE)

/* the statement: base flags (or the historical exception), plus one flag per active deployment: BIP66, BIP65, BIP112, BIP147 */
#ifdef TWIN_FLAGS
#define SPEC_FLAGS ((has_exception ? exception_flags : (F(P2SH) | F(WITNESS) | F(TAPROOT))) | (dersig_active ? F(DERSIG) : 0) | (cltv_active ? F(CHECKLOCKTIMEVERIFY) : 0) | (csv_active ? F(CHECKSEQUENCEVERIFY) : 0) | (segwit_active ? F(NULLFAIL) : 0))
#else
#define SPEC_FLAGS ((has_exception ? exception_flags : (F(P2SH) | F(WITNESS) | F(TAPROOT))) | (dersig_active ? F(DERSIG) : 0) | (cltv_active ? F(CHECKLOCKTIMEVERIFY) : 0) | (csv_active ? F(CHECKSEQUENCEVERIFY) : 0) | (segwit_active ? F(NULLDUMMY) : 0))
#endif
unsigned GetBlockScriptFlags(bool has_exception, unsigned exception_flags, bool dersig_active, bool cltv_active, bool csv_active, bool segwit_active)
__CPROVER_ensures(__CPROVER_return_value == SPEC_FLAGS)
__CPROVER_assigns();

bool nondet_bool(void); unsigned nondet_uint(void); unsigned char nondet_uchar(void); int nondet_int(void);
#include "verif_ser.h"
#include "../witprog_contracts.h"   /* VerifyWitnessProgram: BIP141 / BIP341 dispatch (same contract as in C12) */
#define C11_PASS_FUNCS
#define C11_PASS_WITPROG
#include "slices.h"      /* second pass: the extracted functions */
void h_VerifyWitnessProgram(void) { const WitView* w; const ByteVec* pr; ScriptError* se; int wv; unsigned fl; bool p2sh; WITPROG_HARNESS_INPUTS(); g_ews_err = (ScriptError)nondet_uchar(); g_schnorr_err = (ScriptError)nondet_uchar(); VERIF_REACH_ON(VerifyWitnessProgram); VerifyWitnessProgram(w, wv, pr, fl, se, p2sh); }
/* lemma (contract only): the witness-program dispatch is monotone in its flags -- if it succeeds under a flag set it succeeds under every subset,
 * given that ExecuteWitnessScript is (ASSUMED: its verdict under the smaller set is true whenever it is true under the larger one; the other stubs do not see the flags) */
void h_lemma_witprog_flag_monotone(void)
{
    WitView* w = malloc(sizeof(WitView)); ByteVec* pr = malloc(sizeof(ByteVec)); ScriptError* se = malloc(sizeof(ScriptError)); __CPROVER_assume(w && pr && se);
    pr->data = malloc(40); __CPROVER_assume(pr->data); pr->size = nondet_uint(); __CPROVER_assume(pr->size >= 2 && pr->size <= 40); w->n0 = w->n; __CPROVER_assume(w->ser_size <= 0x100000000ull);
    int wv = nondet_int(); __CPROVER_assume(wv >= 0 && wv <= 16); bool p2sh = nondet_bool();
    unsigned big = nondet_uint(), small = nondet_uint(); __CPROVER_assume((small & ~big) == 0);
    WITPROG_HARNESS_INPUTS(); g_ews_err = (ScriptError)nondet_uchar(); g_schnorr_err = (ScriptError)nondet_uchar(); __CPROVER_assume(g_ews_err != SCRIPT_ERR_OK && g_schnorr_err != SCRIPT_ERR_OK);
    bool ews_big = nondet_bool(), ews_small = nondet_bool(); __CPROVER_assume(!ews_big || ews_small);
    g_hash_called = 0; g_ews_called = 0; g_schnorr_called = 0; g_commit_called = 0;
    g_ews_ok = ews_big; bool r_big = VerifyWitnessProgram(w, wv, pr, big, se, p2sh);
    g_hash_called = 0; g_ews_called = 0; g_schnorr_called = 0; g_commit_called = 0;
    g_ews_ok = ews_small; bool r_small = VerifyWitnessProgram(w, wv, pr, small, se, p2sh);
#ifdef TWIN_MONO
    __CPROVER_assert(!r_small || r_big, "twin: success under the smaller set implies success under the larger");
#else
    __CPROVER_assert(!r_big || r_small, "VerifyWitnessProgram: success under a flag set implies success under every subset of it");
#endif
    if ((big & SCRIPT_VERIFY_TAPROOT) && !(small & SCRIPT_VERIFY_TAPROOT) && r_big && wv == 1 && pr->size == 32 && !p2sh) VERIF_REACH_PT("taproot spend valid under both");
}
void h_GetBlockScriptFlags(void) { unsigned r = GetBlockScriptFlags(nondet_bool(), nondet_uint(), nondet_bool(), nondet_bool(), nondet_bool(), nondet_bool()); if (r & F(NULLDUMMY)) VERIF_REACH_PT("nulldummy"); if (!(r & F(P2SH))) VERIF_REACH_PT("p2sh off (exception)"); }
/* lemma (contract + extracted constants): whatever block (exception or not) and whatever deployments are active, every consensus flag is also a standard flag */
void h_lemma_consensus_subset_of_standard(void)
{
    __CPROVER_assert((MANDATORY_SCRIPT_VERIFY_FLAGS & ~STANDARD_SCRIPT_VERIFY_FLAGS) == 0, "mandatory flags are a subset of the standard flags");
    __CPROVER_assert(BIT_SCRIPT_VERIFY_END_MARKER <= 32, "the flags fit the 32-bit mask used here");
    for (int i = 0; i < N_EXCEPTIONS; i++) __CPROVER_assert((EXCEPTION_FLAGS[i] & ~STANDARD_SCRIPT_VERIFY_FLAGS) == 0, "every historical exception value is a subset of the standard flags");
    bool ex = nondet_bool(); unsigned k = nondet_uint(); __CPROVER_assume(k < N_EXCEPTIONS);
    unsigned consensus = GetBlockScriptFlags(ex, EXCEPTION_FLAGS[k], nondet_bool(), nondet_bool(), nondet_bool(), nondet_bool());
#ifdef TWIN_SUBSET
    __CPROVER_assert((consensus & ~MANDATORY_SCRIPT_VERIFY_FLAGS) == 0 && (consensus & F(P2SH)), "twin: P2SH always on");
#else
    __CPROVER_assert((consensus & ~STANDARD_SCRIPT_VERIFY_FLAGS) == 0, "consensus script flags of any block are a subset of the standard flags");
    __CPROVER_assert((consensus & ~MANDATORY_SCRIPT_VERIFY_FLAGS) == 0, "and of the mandatory flags");
#endif
    VERIF_REACH_PT("lemma end");
}
