#include "verif_ser.h"
int g_thrown; typedef int opcodetype; size_t g_i, g_cur;
static inline void ByteVec_push(ByteVec* v, unsigned char b) { v->data[v->size] = b; v->size = v->size + 1; }
#define LOOP_CASTTOBOOL
#define GHOST_CAST_STEP(i) ((void)0)
#define C12_PASS_CONSTS
#define C12_PASS_FUNCS
#include "slices.h"
