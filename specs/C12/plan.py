import os, sys
sys.path.insert(0, os.path.dirname(os.path.dirname(os.path.abspath(__file__))))
from engine.extract import R
from specs.common_witprog import FLAG_ENUM, SCRIPT_ERROR, WITPROG_CONSTS, WITPROG_FUNCS, ASSUMPTIONS as WITPROG_ASSUMPTIONS

SH, SC, IC = "src/script/script.h", "src/script/script.cpp", "src/script/interpreter.cpp"
def opc(name):
    return {"name": name, "kind": "const", "file": SH, "pat": name + r"\s*=\s*(0x[0-9a-fA-F]+),", "emit": "#define " + name + r" \1"}
VCH = [R("member:vch.size()", r"\bvch\.size\(\)", "vch->size", False), R("member:vch.empty()", r"\bvch\.empty\(\)", "(vch->size == 0)", False),
       R("member:vch.back()", r"\bvch\.back\(\)", "vch->data[vch->size - 1]", False), R("index:vch[i]", r"\bvch\[", "vch->data[", False)]
SCRIPTNUM_ERR = R("throw scriptnum_error -> ghost flag + return", r'throw scriptnum_error\("([^"]*)"\);', r'{ g_thrown = 1; return 0; /* raises: \1 */ }', False)
NUMLIM = [R("numeric_limits<int>::max()", r"std::numeric_limits<int>::max\(\)", "INT_MAX", False), R("numeric_limits<int>::min()", r"std::numeric_limits<int>::min\(\)", "INT_MIN", False)]
SLICES = [opc(n) for n in ("OP_0", "OP_PUSHDATA1", "OP_PUSHDATA2", "OP_PUSHDATA4", "OP_INVALIDOPCODE")] + [
    {"name": "CScriptNum_serialize", "kind": "func", "file": SH, "within_class": r"class CScriptNum", "head": r"static std::vector<unsigned char> serialize\(const int64_t& value\)",
     "rules": [R("head: result vector as out-parameter", r"static std::vector<unsigned char> serialize\(const int64_t& value\)", "void CScriptNum_serialize(ByteVec* result, const int64_t value)"),
               R("return empty vector", r"return std::vector<unsigned char>\(\);", "{ result->size = 0; return; }", False), R("decl:result", r"std::vector<unsigned char> result;", "result->size = 0;", False),
               R("call:result.push_back", r"result\.push_back\(", "ByteVec_push(result, ", False), R("member:result.back()", r"result\.back\(\)", "result->data[result->size - 1]", False), R("return result", r"return result;", "return;", False)]},
    {"name": "CScriptNum_set_vch", "kind": "func", "file": SH, "within_class": r"class CScriptNum", "head": r"static int64_t set_vch\(const std::vector<unsigned char>& vch\)",
     "rules": [R("head", r"static int64_t set_vch\(const std::vector<unsigned char>& vch\)", "int64_t CScriptNum_set_vch(const ByteVec* vch)")] + VCH},
    {"name": "CScriptNum_from_vch", "kind": "func", "file": SH, "within_class": r"class CScriptNum", "head": r"explicit CScriptNum\(const std::vector<unsigned char>& vch, bool fRequireMinimal,\s*const size_t nMaxNumSize = nDefaultMaxNumSize\)",
     "rules": [R("ctor-head: the constructed value is returned", r"explicit CScriptNum\(const std::vector<unsigned char>& vch, bool fRequireMinimal,\s*const size_t nMaxNumSize = nDefaultMaxNumSize\)", "int64_t CScriptNum_from_vch(const ByteVec* vch, bool fRequireMinimal, const size_t nMaxNumSize)"),
               SCRIPTNUM_ERR, R("m_value = set_vch(vch)", r"m_value = set_vch\(vch\);", "return CScriptNum_set_vch(vch);", False)] + VCH},
    {"name": "CScriptNum_getint", "kind": "func", "file": SH, "within_class": r"class CScriptNum", "head": r"int getint\(\)",
     "rules": [R("head: m_value as parameter", r"int getint\(\) const", "int CScriptNum_getint(int64_t m_value)")] + NUMLIM},
    {"name": "CastToBool", "kind": "func", "file": IC, "head": r"bool CastToBool\(const valtype& vch\)",
     "rules": [R("head", r"bool CastToBool\(const valtype& vch\)", "bool CastToBool(const ByteVec* vch)")] + VCH,
     "loops": [{"match": r"for \(unsigned int i = 0; i < vch->size", "contract": "LOOP_CASTTOBOOL", "prologue": "GHOST_CAST_STEP(i)", "required": False}]},
    {"name": "CheckMinimalPush", "kind": "func", "file": SC, "head": r"bool CheckMinimalPush\(const std::vector<unsigned char>& data, opcodetype opcode\)",
     "rules": [R("head", r"bool CheckMinimalPush\(const std::vector<unsigned char>& data, opcodetype opcode\)", "bool CheckMinimalPush(const ByteVec* data, opcodetype opcode)"),
               R("member:data.size()", r"\bdata\.size\(\)", "data->size", False), R("index:data[0]", r"\bdata\[", "data->data[", False), R("assert", r"\bassert\(", "VERIF_ASSERT(", False)]},
    {"name": "IsOpSuccess", "kind": "func", "file": SC, "head": r"bool IsOpSuccess\(const opcodetype& opcode\)", "rules": [R("head", r"bool IsOpSuccess\(const opcodetype& opcode\)", "bool IsOpSuccess(const opcodetype opcode)")]},
    FLAG_ENUM, SCRIPT_ERROR,
    {"name": "MAX_SCRIPT_ELEMENT_SIZE", "kind": "const", "file": SH, "pat": r"inline constexpr unsigned int MAX_SCRIPT_ELEMENT_SIZE = (\d+);", "emit": r"static const unsigned int MAX_SCRIPT_ELEMENT_SIZE = \1;"},
    {"name": "MAX_STACK_SIZE", "kind": "const", "file": SH, "pat": r"inline constexpr int MAX_STACK_SIZE = (\d+);", "emit": r"static const int MAX_STACK_SIZE = \1;"},
    {"name": "ExecuteWitnessScript", "kind": "func", "file": IC,
     "head": r"static bool ExecuteWitnessScript\(const std::span<const valtype>& stack_span, const CScript& exec_script, script_verify_flags flags, SigVersion sigversion, const BaseSignatureChecker& checker, ScriptExecutionData& execdata, ScriptError\* serror\)",
     "rules": [R("head: witness stack as element sizes, script as a decoded opcode stream", r"static bool ExecuteWitnessScript\(const std::span<const valtype>& stack_span, const CScript& exec_script, script_verify_flags flags, SigVersion sigversion, const BaseSignatureChecker& checker, ScriptExecutionData& execdata, ScriptError\* serror\)",
                 "bool ExecuteWitnessScript(const WStack* stack_span, const OpStream* exec_script, unsigned flags, int sigversion, ScriptError* serror)"),
               R("ghost:stack copy", r"std::vector<valtype> stack\{stack_span\.begin\(\), stack_span\.end\(\)\};", "WStack stack = *stack_span;", False),
               R("enum scope SigVersion::", r"SigVersion::(\w+)", r"SIGVERSION_\1", False),
               R("ghost:script cursor", r"CScript::const_iterator pc = exec_script\.begin\(\);", "size_t pc = 0;", False), R("ghost:pc < end", r"pc < exec_script\.end\(\)", "pc < exec_script->n", False),
               R("stub:exec_script.GetOp(pc, opcode)", r"exec_script\.GetOp\(pc, opcode\)", "OpStream_GetOp(exec_script, &pc, &opcode)", False),
               R("rangefor:elem over stack", r"for \(const valtype& elem : stack\)", "for (size_t i_e = 0; i_e < stack.n; i_e++)", False), R("member:elem.size()", r"elem\.size\(\)", "WStack_elem_size(&stack, i_e)", False),
               R("member:stack.size()", r"stack\.size\(\)", "stack.n", False),
               R("stub:EvalScript", r"EvalScript\(stack, exec_script, flags, checker, sigversion, execdata, serror\)", "EvalScript_stub(&stack, serror)", False),
               R("stub:CastToBool(stack.back())", r"CastToBool\(stack\.back\(\)\)", "WStack_top_is_true(&stack)", False)],
     "loops": [{"match": r"while \(pc < exec_script->n\)", "contract": "LOOP_OPSCAN", "prologue": "GHOST_OPSCAN_STEP(pc)", "required": False},
               {"match": r"\bi_e\b", "contract": "LOOP_ELEMS", "prologue": "GHOST_ELEM_STEP(i_e)", "required": False}]},
] + WITPROG_CONSTS + WITPROG_FUNCS
_CONSTS = ("script_verify_flag_name", "ScriptError", "MAX_SCRIPT_ELEMENT_SIZE", "MAX_STACK_SIZE") + tuple(c["name"] for c in WITPROG_CONSTS)
for _s in SLICES:
    _s = _s  # noqa
    _s["guard"] = "C12_PASS_EWS" if _s["name"] in ("ExecuteWitnessScript", "VerifyWitnessProgram", "IsPayToAnchor") else "C12_PASS_CONSTS" if _s["name"] in _CONSTS else "C12_PASS_FUNCS"
def H(name, fn, twins=(), **kw):
    d = {"name": name, "enforce": fn, "twins": [{"define": t, "expect": "postcondition|loop_invariant"} for t in twins]}
    d.update(kw)
    return d
PLAN = {
    "id": "C12", "level": "proof", "slices": SLICES, "spec": "spec.c", "default_solver": ["cadical", "z3"],
    "harnesses": [H("h_serialize", "CScriptNum_serialize", ["TWIN_SER"], unwind=10), H("h_set_vch", "CScriptNum_set_vch", unwind=9), H("h_from_vch", "CScriptNum_from_vch", ["TWIN_MINIMAL"], replace=["CScriptNum_set_vch"]),
                  H("h_getint", "CScriptNum_getint"), H("h_CastToBool", "CastToBool", ["TWIN_NEGZERO"], loop_contracts=True), H("h_CheckMinimalPush", "CheckMinimalPush", ["TWIN_PUSH"]),
                  H("h_IsOpSuccess", "IsOpSuccess", ["TWIN_SUCCESS"]),
                  {"name": "h_VerifyWitnessProgram", "enforce": "VerifyWitnessProgram", "twins": [{"define": "TWIN_TAPROOT_OFF", "expect": "postcondition"}]},
                  {"name": "h_ExecuteWitnessScript", "enforce": "ExecuteWitnessScript", "replace": ["IsOpSuccess"], "loop_contracts": True, "twins": [{"define": "TWIN_SUCCESS_AFTER_SIZE", "expect": "postcondition"}]}, 
                  {"name": "h_lemma_scriptnum_roundtrip", "replace": ["CScriptNum_serialize", "CScriptNum_set_vch"], "twins": [{"define": "TWIN_RT", "expect": "assertion"}]}],
    "native": {"src": "replay.cpp", "c_src": "native_slices.c", "repo_sources": ["src/script/script.cpp", "src/script/interpreter.cpp"], "diff_n_quick": 50000, "diff_n_thorough": 3000000,
               "libs": ["libbitcoin_consensus.a", "libbitcoin_util.a", "libbitcoin_clientversion.a", "libbitcoin_crypto.a", "/repo/_build/src/secp256k1/lib/libsecp256k1.a"]},
    "not_covered": ["EvalScript itself (opcode semantics, opcode count, CHECKMULTISIG, the consumption of the validation weight budget) and VerifyScript's non-witness part (P2SH, CLEANSTACK, SIGPUSHONLY): ExecuteWitnessScript and VerifyWitnessProgram are proved with EvalScript, GetOp decoding, CastToBool, hashing and signature checks as stubs", "GetScriptOp (opcode parsing over iterator references): attempted under contract with a symbolic-size and with a 300-byte buffer; every back end ran out of time or memory, so it is NOT claimed", "EvalScript opcode semantics, stack / element size limits, opcode count, disabled opcodes, MINIMALIF / NULLDUMMY / CLEANSTACK, P2SH, segwit v0 and taproot dispatch, the validation weight budget, the comparison with a reference interpreter -- "
                    "a 2000-line interpreter over std::vector stacks is outside the extractor's subset; only the number / push / opcode leaves are under contract"],
    "assumptions": [*WITPROG_ASSUMPTIONS, "std::vector<unsigned char> is a ByteVec (data, size, ghost capacity); push_back within capacity 9 for serialize; pvchRet->assign(first, last) records the span (a view) instead of copying",
                    "ReadLE16 / ReadLE32 are little-endian byte reads (VERIF_STUB in spec.c)", "set_vch is contracted for at most 7 bytes (callers pass at most 5: the 4-byte limit, 5 for lock times); 8 bytes with the top bit set would shift into the sign bit"],
    "manifest": {
        "category": "proof",
        "text": "partial (number / push / opcode leaves, witness dispatch): VerifyWitnessProgram follows BIP141/BIP341 -- P2WSH runs the last element as script when its SHA256 is the program, P2WPKH needs exactly two elements, other v0 lengths fail; a v1 32-byte non-P2SH program is anyone-can-spend without TAPROOT, else annex removal (0x50), key path with one element, script path with control-block size 33+32k (k<=128), commitment check, leaf 0xc0 run as tapscript with validation weight budget = serialized witness size + 50, other leaf versions / witness versions succeed unless discouraged; CScriptNum::serialize emits the minimal little-endian sign-magnitude encoding that decodes back to the value for every int64 (empty for 0; at most 4 bytes iff |v| < 2^31); set_vch decodes it; the vector constructor throws exactly when the operand is longer than the limit or, under MINIMALDATA, not minimally encoded (negative zero and padded forms included), and otherwise yields the decoded value; getint saturates; "
                "ExecuteWitnessScript applies the tapscript rules in BIP342 order -- an OP_SUCCESSx opcode met before any undecodable opcode decides the spend (success, or DISCOURAGE_OP_SUCCESS) before the initial stack limit (1000) and the 520-byte element limit are looked at; otherwise an undecodable opcode fails, then the stack limit, then (all witness versions) every element must be at most 520 bytes, EvalScript must succeed and leave exactly one true element; CastToBool is false exactly for all-zero and negative-zero byte strings of any length; CheckMinimalPush is the BIP62 table; IsOpSuccess is the BIP342 set;",
        "note": "Not covered: the interpreter itself (the bulk of the statement). Trusted: vector shim, extraction rules.",
        "technique": "CBMC function contracts (structural unwinding for the <= 9-byte number loops, loop contract for CastToBool) on extracted script.h / script.cpp / interpreter.cpp leaf functions, contract-only round-trip lemma",
    },
    "trusted_base": ["specs/C12/spec.c", "include/verif_ser.h"],
}
