// C12 native harness: the real CScriptNum (script.h), CheckMinimalPush, IsOpSuccess (script.cpp), CastToBool (interpreter.cpp) vs the extracted C text vs references from the script rules.
#include <script/interpreter.h>
#include <script/script.h>
#include "replay_util.h"
bool CastToBool(const std::vector<unsigned char>& vch);
struct xBV { unsigned char* data; size_t size, cap; };
extern "C" { extern int g_thrown; void xc_CScriptNum_serialize(xBV*, int64_t); int64_t xc_CScriptNum_from_vch(const xBV*, bool, size_t); int xc_CScriptNum_getint(int64_t); bool xc_CastToBool(const xBV*); bool xc_CheckMinimalPush(const xBV*, int); bool xc_IsOpSuccess(int); }
#define BAD(...) do { rv::g_stats.real_violations++; if (rv::g_stats.real_violations <= 8) { std::printf("REAL-VIOLATION " __VA_ARGS__); std::printf("\n"); } } while (0)
#define DIS(...) do { rv::g_stats.disagreements++; if (rv::g_stats.disagreements <= 8) { std::printf("DISAGREE " __VA_ARGS__); std::printf("\n"); } } while (0)
static std::string hx(const std::vector<unsigned char>& v) { static const char* H = "0123456789abcdef"; std::string o; for (auto c : v) { o += H[c >> 4]; o += H[c & 15]; } return o.empty() ? "(empty)" : o; }
static std::vector<unsigned char> ref_ser(int64_t v) { std::vector<unsigned char> r; if (v == 0) return r; bool neg = v < 0; unsigned __int128 a = neg ? (unsigned __int128)(-(__int128)v) : (unsigned __int128)v; while (a) { r.push_back((unsigned char)(a & 0xff)); a >>= 8; } if (r.back() & 0x80) r.push_back(neg ? 0x80 : 0); else if (neg) r.back() |= 0x80; return r; }
static bool ref_dec(const std::vector<unsigned char>& v, __int128& out) { __int128 m = 0; for (size_t i = 0; i < v.size(); i++) m |= (__int128)(i + 1 == v.size() ? (v[i] & 0x7f) : v[i]) << (8 * i); out = (!v.empty() && (v.back() & 0x80)) ? -m : m; return true; }
int main(int argc, char** argv)
{
    auto a = rv::parse(argc, argv); rv::Rng r(a.seed); uint64_t n = a.diff ? a.n : 200000; static const std::vector<int64_t> E = {0, 1, -1, 127, 128, -127, -128, 255, 256, 32767, 32768, 0x7fffff, 0x800000, 2147483647LL, 2147483648LL, -2147483647LL, -2147483648LL, 0x7fffffffffLL, INT64_MAX, INT64_MIN};
    for (uint64_t i = 0; i < n; i++) {
        int64_t v = r.pick(E); rv::g_stats.inputs++;
        std::vector<unsigned char> s = CScriptNum::serialize(v), want = ref_ser(v); unsigned char xb[9]; xBV xr{xb, 0, 9}; xc_CScriptNum_serialize(&xr, v);
        if (s.size() != xr.size || memcmp(s.data(), xb, xr.size)) DIS("serialize(%lld)", (long long)v);
        if (s != want || (s.size() <= 4) != (v >= -2147483647LL && v <= 2147483647LL)) BAD("CScriptNum::serialize(%lld) = %s, minimal sign-magnitude encoding is %s", (long long)v, hx(s).c_str(), hx(want).c_str());
        if (CScriptNum(v).getint() != xc_CScriptNum_getint(v) || CScriptNum(v).getint() != (v > INT32_MAX ? INT32_MAX : v < INT32_MIN ? INT32_MIN : (int)v)) BAD("getint(%lld)", (long long)v);
        // decoding of arbitrary operands
        std::vector<unsigned char> op; size_t len = r.below(7); for (size_t k = 0; k < len; k++) op.push_back(r.below(3) ? (unsigned char)r.next() : (r.below(2) ? 0x00 : 0x80)); if (r.below(3) == 0) op = ref_ser(r.pick(E)); if (op.size() > 7) op.resize(7);
        bool minimal = r.below(2); size_t maxn = r.below(3) ? 4 : 5; bool threw = false; int64_t got = 0; try { got = CScriptNum(op, minimal, maxn).GetInt64(); } catch (const scriptnum_error&) { threw = true; }
        unsigned char ob[8] = {0}; memcpy(ob, op.data(), op.size()); xBV xo{ob, op.size(), op.size()}; g_thrown = 0; int64_t xg = xc_CScriptNum_from_vch(&xo, minimal, maxn);
        bool nonmin = !op.empty() && (op.back() & 0x7f) == 0 && (op.size() <= 1 || (op[op.size() - 2] & 0x80) == 0); bool wthrow = op.size() > maxn || (minimal && nonmin); __int128 wv; ref_dec(op, wv);
        rv::g_stats.inputs++;
        if (threw != (g_thrown != 0) || (!threw && got != xg)) DIS("CScriptNum(%s)", hx(op).c_str());
        if (threw != wthrow || (!threw && (__int128)got != wv)) BAD("CScriptNum(%s, minimal=%d, max=%zu) %s, the rules say %s", hx(op).c_str(), minimal, maxn, threw ? "throws" : ("= " + std::to_string(got)).c_str(), wthrow ? "reject" : ("value " + std::to_string((long long)wv)).c_str());
        // truth value
        std::vector<unsigned char> tv; size_t tl = r.below(6); for (size_t k = 0; k < tl; k++) tv.push_back(r.below(3) ? 0 : (r.below(2) ? 0x80 : (unsigned char)r.next())); bool cb = CastToBool(tv); unsigned char tb[8] = {0}; memcpy(tb, tv.data(), tv.size()); xBV xt{tb, tv.size(), tv.size()};
        bool wcb = false; for (size_t k = 0; k < tv.size(); k++) if (tv[k] != 0 && !(k + 1 == tv.size() && tv[k] == 0x80)) wcb = true;
        if (cb != xc_CastToBool(&xt)) DIS("CastToBool(%s)", hx(tv).c_str()); if (cb != wcb) BAD("CastToBool(%s) = %d, expected %d", hx(tv).c_str(), cb, wcb);
        // minimal push, OP_SUCCESS
        static const size_t SZ[] = {0, 1, 2, 75, 76, 255, 256, 65535, 65536}; size_t ds = SZ[r.below(9)]; std::vector<unsigned char> d(ds, 0x42); if (ds == 1) d[0] = r.below(2) ? (unsigned char)r.below(20) : (r.below(2) ? 0x81 : (unsigned char)r.next());
        int opc = (int)r.below(0x4f); bool mp = CheckMinimalPush(d, (opcodetype)opc); xBV xd{d.data(), d.size(), d.size()};
        bool wmp = ds == 0 ? opc == 0 : (ds == 1 && d[0] >= 1 && d[0] <= 16) ? false : (ds == 1 && d[0] == 0x81) ? false : ds <= 75 ? opc == (int)ds : ds <= 255 ? opc == 0x4c : ds <= 65535 ? opc == 0x4d : true;
        if (mp != xc_CheckMinimalPush(&xd, opc)) DIS("CheckMinimalPush(size %zu, opcode %d)", ds, opc); if (mp != wmp) BAD("CheckMinimalPush(%zu bytes, first 0x%02x, opcode 0x%02x) = %d, BIP62 says %d", ds, ds ? d[0] : 0, opc, mp, wmp);
        int so = (int)r.below(256); bool ios = IsOpSuccess((opcodetype)so); bool wios = so == 80 || so == 98 || (so >= 126 && so <= 129) || (so >= 131 && so <= 134) || (so >= 137 && so <= 138) || (so >= 141 && so <= 142) || (so >= 149 && so <= 153) || (so >= 187 && so <= 254);
        if (ios != xc_IsOpSuccess(so)) DIS("IsOpSuccess(%d)", so); if (ios != wios) BAD("IsOpSuccess(%d) = %d, BIP342 says %d", so, ios, wios);
    }
    rv::report();
    return rv::g_stats.real_violations ? 1 : (rv::g_stats.disagreements ? 3 : 0);
}
