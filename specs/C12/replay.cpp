// C12 native harness: the real CScriptNum (script.h), CheckMinimalPush, IsOpSuccess (script.cpp), CastToBool (interpreter.cpp) vs the extracted C text vs references from the script rules.
#include <script/interpreter.h>
#include <script/script.h>
#include <script/script_error.h>
#include <pubkey.h>
#include <primitives/transaction.h>
#include "replay_util.h"
#include "../witprog_native.h"
bool CastToBool(const std::vector<unsigned char>& vch);
struct xBV { unsigned char* data; size_t size, cap; };
extern "C" { extern int g_thrown; void xc_CScriptNum_serialize(xBV*, int64_t); int64_t xc_CScriptNum_from_vch(const xBV*, bool, size_t); int xc_CScriptNum_getint(int64_t); bool xc_CastToBool(const xBV*); bool xc_CheckMinimalPush(const xBV*, int); bool xc_IsOpSuccess(int); }
#define BAD(...) do { rv::g_stats.real_violations++; if (rv::g_stats.real_violations <= 8) { std::printf("REAL-VIOLATION " __VA_ARGS__); std::printf("\n"); } } while (0)
#define DIS(...) do { rv::g_stats.disagreements++; if (rv::g_stats.disagreements <= 8) { std::printf("DISAGREE " __VA_ARGS__); std::printf("\n"); } } while (0)
static std::string hx(const std::vector<unsigned char>& v) { static const char* H = "0123456789abcdef"; std::string o; for (auto c : v) { o += H[c >> 4]; o += H[c & 15]; } return o.empty() ? "(empty)" : o; }
static std::vector<unsigned char> ref_ser(int64_t v) { std::vector<unsigned char> r; if (v == 0) return r; bool neg = v < 0; unsigned __int128 a = neg ? (unsigned __int128)(-(__int128)v) : (unsigned __int128)v; while (a) { r.push_back((unsigned char)(a & 0xff)); a >>= 8; } if (r.back() & 0x80) r.push_back(neg ? 0x80 : 0); else if (neg) r.back() |= 0x80; return r; }
static bool ref_dec(const std::vector<unsigned char>& v, __int128& out) { __int128 m = 0; for (size_t i = 0; i < v.size(); i++) m |= (__int128)(i + 1 == v.size() ? (v[i] & 0x7f) : v[i]) << (8 * i); out = (!v.empty() && (v.back() & 0x80)) ? -m : m; return true; }
// ExecuteWitnessScript (static in interpreter.cpp) is reached through the real VerifyScript with a P2TR script-path spend of a one-leaf tree.
using wpn::ref_opsuccess;
// BIP342 pre-scan by an independent decoder: 0 = no OP_SUCCESSx and everything decodes, 1 = OP_SUCCESSx met first, 2 = undecodable instruction met first
static int ref_prescan(const std::vector<unsigned char>& sc) { size_t p = 0; while (p < sc.size()) { unsigned op = sc[p++]; size_t len = 0; if (op <= 75) len = op; else if (op == 76) { if (sc.size() - p < 1) return 2; len = sc[p]; p += 1; } else if (op == 77) { if (sc.size() - p < 2) return 2; len = sc[p] | (sc[p + 1] << 8); p += 2; } else if (op == 78) { if (sc.size() - p < 4) return 2; len = sc[p] | (sc[p + 1] << 8) | (sc[p + 2] << 16) | ((size_t)sc[p + 3] << 24); p += 4; }
    if (op <= 78) { if (sc.size() - p < len) return 2; p += len; continue; } if (ref_opsuccess((int)op)) return 1; } return 0; }
static void test_tapscript(rv::Rng& r)
{
    static const std::vector<std::vector<unsigned char>> FRAG = {{0x50}, {0x62}, {0x7e}, {0xbb}, {0xfe}, {0x51}, {0x51}, {0x61}, {0x75}, {0x00}, {0x01, 0x07}, {0x4c}, {0x4d, 0x01}, {0x4e, 0x01, 0x00, 0x00}, {0x02, 0x01}, {0x4c, 0x02, 0x01, 0x02}, {0x69}, {0xba}, {0xff}};
    std::vector<unsigned char> sc; size_t nf = r.below(5); for (size_t k = 0; k < nf; k++) { const auto& f = FRAG[r.below(FRAG.size())]; sc.insert(sc.end(), f.begin(), f.end()); }
    static const size_t NS[] = {0, 1, 2, 3, 999, 1000, 1001, 1002}; static const size_t ES[] = {0, 1, 2, 519, 520, 521, 522, 600};
    size_t ns = NS[r.below(r.below(4) ? 4 : 8)]; std::vector<std::vector<unsigned char>> st(ns); bool big = false; for (auto& e : st) { if (r.below(ns > 10 ? 700 : 3) == 0) e.assign(ES[r.below(8)], 1); else e.assign(r.below(2), 1); if (e.size() > 520) big = true; }
    bool discourage = r.below(2);
    wpn::Spend sp; if (!wpn::p2tr_script_path(sc, st, sp)) return; const CScript& spk = sp.spk; CScriptWitness& wit = sp.wit;
    script_verify_flags fl = SCRIPT_VERIFY_P2SH | SCRIPT_VERIFY_WITNESS | SCRIPT_VERIFY_TAPROOT; if (discourage) fl |= SCRIPT_VERIFY_DISCOURAGE_OP_SUCCESS;
    ScriptError err = SCRIPT_ERR_UNKNOWN_ERROR; BaseSignatureChecker chk; bool ok = VerifyScript(CScript(), spk, &wit, fl, chk, &err); rv::g_stats.inputs++;
    int ps = ref_prescan(sc); bool decided = true; bool wok = false; ScriptError werr = SCRIPT_ERR_OK;
    if (ps == 1) { wok = !discourage; werr = discourage ? SCRIPT_ERR_DISCOURAGE_OP_SUCCESS : SCRIPT_ERR_OK; } else if (ps == 2) werr = SCRIPT_ERR_BAD_OPCODE; else if (ns > 1000) werr = SCRIPT_ERR_STACK_SIZE; else if (big) werr = SCRIPT_ERR_PUSH_SIZE; else decided = false;
    if (decided && (ok != wok || err != werr)) BAD("tapscript %s with %zu stack elements (%s over 520 bytes), DISCOURAGE_OP_SUCCESS=%d: VerifyScript = %d / %s, BIP342 order (OP_SUCCESSx scan, then stack limit 1000, then element limit 520) says %d / %s", hx(sc).c_str(), ns, big ? "one" : "none", discourage, ok, ScriptErrorString(err).c_str(), wok, ScriptErrorString(werr).c_str());
    if (!decided && (err == SCRIPT_ERR_DISCOURAGE_OP_SUCCESS || err == SCRIPT_ERR_STACK_SIZE && ns + 8 <= 1000)) BAD("tapscript %s with %zu small elements and no OP_SUCCESSx: %s", hx(sc).c_str(), ns, ScriptErrorString(err).c_str());
    if (!decided && sc == std::vector<unsigned char>{0x51} && (ok != (ns == 0))) BAD("tapscript OP_1 with %zu elements: VerifyScript = %d (CLEANSTACK is consensus in witness scripts)", ns, ok);
    if (!decided && sc == std::vector<unsigned char>{0x00} && ns == 0 && (ok || err != SCRIPT_ERR_EVAL_FALSE)) BAD("tapscript OP_0: %d / %s, expected EVAL_FALSE", ok, ScriptErrorString(err).c_str());
}
int main(int argc, char** argv)
{
    auto a = rv::parse(argc, argv); rv::Rng r(a.seed); uint64_t n = a.diff ? a.n : 200000; static const std::vector<int64_t> E = {0, 1, -1, 127, 128, -127, -128, 255, 256, 32767, 32768, 0x7fffff, 0x800000, 2147483647LL, 2147483648LL, -2147483647LL, -2147483648LL, 0x7fffffffffLL, INT64_MAX, INT64_MIN};
    for (uint64_t i = 0; i < n; i++) {
        int64_t v = r.pick(E); rv::g_stats.inputs++;
        std::vector<unsigned char> s = CScriptNum::serialize(v), want = ref_ser(v); unsigned char xb[9]; xBV xr{xb, 0, 9}; xc_CScriptNum_serialize(&xr, v);
        if (s.size() != xr.size || memcmp(s.data(), xb, xr.size)) DIS("serialize(%lld)", (long long)v);
        if (s != want || (s.size() <= 4) != (v >= -2147483647LL && v <= 2147483647LL)) BAD("CScriptNum::serialize(%lld) = %s, minimal sign-magnitude encoding is %s", (long long)v, hx(s).c_str(), hx(want).c_str());
        if (CScriptNum(v).getint() != xc_CScriptNum_getint(v) || CScriptNum(v).getint() != (v > INT32_MAX ? INT32_MAX : v < INT32_MIN ? INT32_MIN : (int)v)) BAD("getint(%lld)", (long long)v);
        // decoding of arbitrary operands
        std::vector<unsigned char> op; size_t len = r.below(7); for (size_t k = 0; k < len; k++) op.push_back(r.below(3) ? (unsigned char)r.next() : (r.below(2) ? 0x00 : 0x80)); if (r.below(3) == 0) op = ref_ser(r.pick(E)); if (op.size() > 7) op.resize(7);
        bool minimal = r.below(2); size_t maxn = r.below(3) ? 4 : 5; bool threw = false; int64_t got = 0; try { got = CScriptNum(op, minimal, maxn).GetInt64(); } catch (const scriptnum_error&) { threw = true; }
        unsigned char ob[8] = {0}; memcpy(ob, op.data(), op.size()); xBV xo{ob, op.size(), op.size()}; g_thrown = 0; int64_t xg = xc_CScriptNum_from_vch(&xo, minimal, maxn);
        bool nonmin = !op.empty() && (op.back() & 0x7f) == 0 && (op.size() <= 1 || (op[op.size() - 2] & 0x80) == 0); bool wthrow = op.size() > maxn || (minimal && nonmin); __int128 wv; ref_dec(op, wv);
        rv::g_stats.inputs++;
        if (threw != (g_thrown != 0) || (!threw && got != xg)) DIS("CScriptNum(%s)", hx(op).c_str());
        if (threw != wthrow || (!threw && (__int128)got != wv)) BAD("CScriptNum(%s, minimal=%d, max=%zu) %s, the rules say %s", hx(op).c_str(), minimal, maxn, threw ? "throws" : ("= " + std::to_string(got)).c_str(), wthrow ? "reject" : ("value " + std::to_string((long long)wv)).c_str());
        // truth value
        std::vector<unsigned char> tv; size_t tl = r.below(6); for (size_t k = 0; k < tl; k++) tv.push_back(r.below(3) ? 0 : (r.below(2) ? 0x80 : (unsigned char)r.next())); bool cb = CastToBool(tv); unsigned char tb[8] = {0}; memcpy(tb, tv.data(), tv.size()); xBV xt{tb, tv.size(), tv.size()};
        bool wcb = false; for (size_t k = 0; k < tv.size(); k++) if (tv[k] != 0 && !(k + 1 == tv.size() && tv[k] == 0x80)) wcb = true;
        if (cb != xc_CastToBool(&xt)) DIS("CastToBool(%s)", hx(tv).c_str()); if (cb != wcb) BAD("CastToBool(%s) = %d, expected %d", hx(tv).c_str(), cb, wcb);
        // minimal push, OP_SUCCESS
        static const size_t SZ[] = {0, 1, 2, 75, 76, 255, 256, 65535, 65536}; size_t ds = SZ[r.below(9)]; std::vector<unsigned char> d(ds, 0x42); if (ds == 1) d[0] = r.below(2) ? (unsigned char)r.below(20) : (r.below(2) ? 0x81 : (unsigned char)r.next());
        int opc = (int)r.below(0x4f); bool mp = CheckMinimalPush(d, (opcodetype)opc); xBV xd{d.data(), d.size(), d.size()};
        bool wmp = ds == 0 ? opc == 0 : (ds == 1 && d[0] >= 1 && d[0] <= 16) ? false : (ds == 1 && d[0] == 0x81) ? false : ds <= 75 ? opc == (int)ds : ds <= 255 ? opc == 0x4c : ds <= 65535 ? opc == 0x4d : true;
        if (mp != xc_CheckMinimalPush(&xd, opc)) DIS("CheckMinimalPush(size %zu, opcode %d)", ds, opc); if (mp != wmp) BAD("CheckMinimalPush(%zu bytes, first 0x%02x, opcode 0x%02x) = %d, BIP62 says %d", ds, ds ? d[0] : 0, opc, mp, wmp);
        int so = (int)r.below(256); bool ios = IsOpSuccess((opcodetype)so); bool wios = so == 80 || so == 98 || (so >= 126 && so <= 129) || (so >= 131 && so <= 134) || (so >= 137 && so <= 138) || (so >= 141 && so <= 142) || (so >= 149 && so <= 153) || (so >= 187 && so <= 254);
        if (ios != xc_IsOpSuccess(so)) DIS("IsOpSuccess(%d)", so); if (ios != wios) BAD("IsOpSuccess(%d) = %d, BIP342 says %d", so, ios, wios);
    }
    for (uint64_t i = 0; i < n / 10 + 2000; i++) test_tapscript(r);
    rv::report();
    return rv::g_stats.real_violations ? 1 : (rv::g_stats.disagreements ? 3 : 0);
}
