/* C12 -- number encoding, minimal pushes, truth values, opcode parsing and the OP_SUCCESS set (leaves of the script interpreter). */
#include "verif_ser.h"
int g_thrown;
typedef int opcodetype;
size_t g_i, g_cur;
static inline void ByteVec_push(ByteVec* v, unsigned char b)
{
#ifdef VERIF_CBMC
    __CPROVER_assert(v->size < v->cap, "push_back within ghost capacity");
#endif
    v->data[v->size] = b; v->size = v->size + 1;
}
static inline void ByteVec_clear(ByteVec* v) { v->size = 0; }
static inline void ByteVec_assign_view(ByteVec* v, const unsigned char* first, const unsigned char* last) { v->data = (unsigned char*)first; v->size = (size_t)(last - first); v->cap = v->size; }   /* VERIF_STUB: assign(first,last) as a view of the span */
static inline uint16_t ReadLE16(const unsigned char* p) { return (uint16_t)(p[0] | (p[1] << 8)); }                                           /* VERIF_STUB crypto/common.h */
static inline uint32_t ReadLE32(const unsigned char* p) { return (uint32_t)p[0] | ((uint32_t)p[1] << 8) | ((uint32_t)p[2] << 16) | ((uint32_t)p[3] << 24); }

/* ---- script numbers: little-endian magnitude, sign in the top bit of the last byte ---- */
#define BY(v, k) ((__int128)(v)->data[k])
#define TOPK(v) ((v)->size - 1)
#define MAG(v) (((v)->size > 0 ? (TOPK(v) == 0 ? (BY(v,0) & 0x7f) : BY(v,0)) : 0) | ((v)->size > 1 ? ((TOPK(v) == 1 ? (BY(v,1) & 0x7f) : BY(v,1)) << 8) : 0) | ((v)->size > 2 ? ((TOPK(v) == 2 ? (BY(v,2) & 0x7f) : BY(v,2)) << 16) : 0) | \
                ((v)->size > 3 ? ((TOPK(v) == 3 ? (BY(v,3) & 0x7f) : BY(v,3)) << 24) : 0) | ((v)->size > 4 ? ((TOPK(v) == 4 ? (BY(v,4) & 0x7f) : BY(v,4)) << 32) : 0) | ((v)->size > 5 ? ((TOPK(v) == 5 ? (BY(v,5) & 0x7f) : BY(v,5)) << 40) : 0) | \
                ((v)->size > 6 ? ((TOPK(v) == 6 ? (BY(v,6) & 0x7f) : BY(v,6)) << 48) : 0) | ((v)->size > 7 ? ((TOPK(v) == 7 ? (BY(v,7) & 0x7f) : BY(v,7)) << 56) : 0) | ((v)->size > 8 ? ((BY(v,8) & 0x7f) << 64) : 0))
#define NEG(v) ((v)->size > 0 && ((v)->data[TOPK(v)] & 0x80) != 0)
#define DEC(v) (NEG(v) ? -MAG(v) : MAG(v))
/* minimal: no superfluous top byte (a top byte of 0x00 / 0x80 is needed only to carry the sign when the byte below has its high bit set) */
#define MINIMAL(v) ((v)->size == 0 || ((v)->data[TOPK(v)] & 0x7f) != 0 || ((v)->size > 1 && ((v)->data[(v)->size - 2] & 0x80) != 0))
#define FRESH_IN(v, maxn) (__CPROVER_is_fresh(v, sizeof(ByteVec)) && (v)->size <= (maxn) && (v)->cap == (v)->size && __CPROVER_is_fresh((v)->data, (maxn)))

void CScriptNum_serialize(ByteVec* result, const int64_t value)
__CPROVER_requires(__CPROVER_is_fresh(result, sizeof(ByteVec)) && result->cap == 9 && result->size <= 9 && __CPROVER_is_fresh(result->data, 9))
__CPROVER_ensures(result->size <= 9 && DEC(result) == (__int128)value && MINIMAL(result) && (result->size == 0) == (value == 0))
#ifdef TWIN_SER
__CPROVER_ensures((result->size <= 4) == (value >= -2147483648LL && value <= 2147483647LL))
#else
__CPROVER_ensures((result->size <= 4) == (value >= -2147483647LL && value <= 2147483647LL))      /* the 4-byte operand limit admits exactly |v| < 2^31 */
#endif
__CPROVER_assigns(result->size, __CPROVER_object_whole(result->data));

int64_t CScriptNum_set_vch(const ByteVec* vch)
__CPROVER_requires(FRESH_IN(vch, 7))
__CPROVER_ensures((__int128)__CPROVER_return_value == DEC(vch))
__CPROVER_assigns();

#ifdef TWIN_MINIMAL
#define NONMINIMAL(v) ((v)->size > 0 && ((v)->data[TOPK(v)] & 0x7f) == 0 && ((v)->size <= 1 || ((v)->data[(v)->size - 2] & 0x80) == 0) && (v)->data[TOPK(v)] != 0x80)
#else
#define NONMINIMAL(v) (!MINIMAL(v))
#endif
int64_t CScriptNum_from_vch(const ByteVec* vch, bool fRequireMinimal, const size_t nMaxNumSize)
__CPROVER_requires(FRESH_IN(vch, 7) && nMaxNumSize <= 7 && g_thrown == 0)
__CPROVER_ensures((g_thrown != 0) == (vch->size > nMaxNumSize || (fRequireMinimal && NONMINIMAL(vch))))
__CPROVER_ensures(!g_thrown ==> (__int128)__CPROVER_return_value == DEC(vch))
__CPROVER_assigns(g_thrown);

int CScriptNum_getint(int64_t m_value)
__CPROVER_ensures(__CPROVER_return_value == (m_value > 2147483647LL ? 2147483647 : m_value < -2147483648LL ? (-2147483647 - 1) : (int)m_value))
__CPROVER_assigns();

/* ---- truth value: false for zero and negative zero ---- */
#define ZEROISH_AT(v, k) ((v)->data[k] == 0 || ((k) == (v)->size - 1 && (v)->data[k] == 0x80))
#define GHOST_CAST_STEP(i) (g_cur = (i))
#define LOOP_CASTTOBOOL \
    __CPROVER_assigns(i, g_cur) \
    __CPROVER_loop_invariant(i <= vch->size && (g_i < i ==> vch->data[g_i] == 0)) \
    __CPROVER_decreases(vch->size - i)
bool CastToBool(const ByteVec* vch)
__CPROVER_requires(__CPROVER_is_fresh(vch, sizeof(ByteVec)) && vch->size <= 0x7fffffff && __CPROVER_is_fresh(vch->data, vch->size > 0 ? vch->size : 1))
#ifdef TWIN_NEGZERO
__CPROVER_ensures(!__CPROVER_return_value ==> (g_i < vch->size ==> vch->data[g_i] == 0))
#else
__CPROVER_ensures(!__CPROVER_return_value ==> (g_i < vch->size ==> ZEROISH_AT(vch, g_i)))
#endif
__CPROVER_ensures(__CPROVER_return_value ==> (g_cur < vch->size && vch->data[g_cur] != 0 && !(g_cur == vch->size - 1 && vch->data[g_cur] == 0x80)))
__CPROVER_assigns(g_cur);

/* ---- minimal push (BIP62 rule 3) ---- */
#ifdef TWIN_PUSH
#define SPEC_MINPUSH (data->size == 0 ? opcode == 0 : (data->size == 1 && data->data[0] >= 1 && data->data[0] <= 16) ? 0 : (data->size == 1 && data->data[0] == 0x81) ? 0 : data->size <= 75 ? (size_t)opcode == data->size : data->size <= 255 ? opcode == 0x4d : data->size <= 65535 ? opcode == 0x4d : 1)
#else
#define SPEC_MINPUSH (data->size == 0 ? opcode == 0 : (data->size == 1 && data->data[0] >= 1 && data->data[0] <= 16) ? 0 : (data->size == 1 && data->data[0] == 0x81) ? 0 : data->size <= 75 ? (size_t)opcode == data->size : data->size <= 255 ? opcode == 0x4c : data->size <= 65535 ? opcode == 0x4d : 1)
#endif
bool CheckMinimalPush(const ByteVec* data, opcodetype opcode)
__CPROVER_requires(__CPROVER_is_fresh(data, sizeof(ByteVec)) && data->size <= 0x7fffffff && __CPROVER_is_fresh(data->data, data->size > 0 ? data->size : 1) && opcode >= 0 && opcode <= 0x4e)
__CPROVER_ensures((__CPROVER_return_value != 0) == (SPEC_MINPUSH != 0))
__CPROVER_assigns();

/* ---- OP_SUCCESSx (BIP342): 80, 98, 126-129, 131-134, 137-138, 141-142, 149-153, 187-254 ---- */
#ifdef TWIN_SUCCESS
#define SPEC_OPSUCCESS(o) ((o) == 80 || (o) == 98 || ((o) >= 126 && (o) <= 129) || ((o) >= 131 && (o) <= 134) || ((o) >= 137 && (o) <= 138) || ((o) >= 141 && (o) <= 142) || ((o) >= 149 && (o) <= 153) || ((o) >= 187 && (o) <= 255))
#else
#define SPEC_OPSUCCESS(o) ((o) == 80 || (o) == 98 || ((o) >= 126 && (o) <= 129) || ((o) >= 131 && (o) <= 134) || ((o) >= 137 && (o) <= 138) || ((o) >= 141 && (o) <= 142) || ((o) >= 149 && (o) <= 153) || ((o) >= 187 && (o) <= 254))
#endif
bool IsOpSuccess(const opcodetype opcode)
__CPROVER_ensures((__CPROVER_return_value != 0) == SPEC_OPSUCCESS(opcode))
__CPROVER_assigns();

#define C12_PASS_CONSTS
#include "slices.h"      /* first pass: the extracted ScriptError enum and size limits (the contract below names them) */
#undef C12_PASS_CONSTS
#define SCRIPT_VERIFY_DISCOURAGE_OP_SUCCESS (1u << BIT_SCRIPT_VERIFY_DISCOURAGE_OP_SUCCESS)   /* script_verify_flags is a bitset over the extracted enum */
bool nondet_bool(void); size_t nondet_size_t(void); unsigned char nondet_uchar(void);
#include "../witprog_contracts.h"   /* VerifyWitnessProgram: BIP141 / BIP341 dispatch */
/* ---- ExecuteWitnessScript: the order of the tapscript pre-checks (BIP342) ----
 * The witness stack is seen through its size and the sizes of its elements, the script through what GetOp decodes at each
 * instruction; both are arbitrary functions of the position, each position read at most once by the code, so a read is a fresh
 * nondeterministic value except at one arbitrary pinned position (g_e / g_s), whose value is fixed before the call: a statement
 * about the pinned position is a statement about every position. */
typedef struct { size_t n; bool top_true; } WStack;
typedef struct { size_t n; } OpStream;
size_t g_s; bool g_s_ok; unsigned char g_s_op;      /* arbitrary instruction index and what decoding yields there */
size_t g_e, g_e_size;                               /* arbitrary element index and that element's size */
size_t g_scan; bool g_scan_ok; unsigned char g_scan_op;   /* last instruction the pre-scan decoded */
size_t g_elem, g_elem_size;                         /* last element whose size was looked at */
bool g_eval_called, g_eval_result; size_t g_eval_stack_n;
bool stack_top_true_after; /* truth of the top element EvalScript left */
bool nondet_bool(void); size_t nondet_size_t(void); unsigned char nondet_uchar(void);
static inline bool OpStream_GetOp(const OpStream* s, size_t* pc, opcodetype* opcode)      /* VERIF_STUB of CScript::GetOp: one instruction per call */
{ size_t k = *pc; bool ok = (k == g_s) ? g_s_ok : nondet_bool(); unsigned char op = (k == g_s) ? g_s_op : nondet_uchar();
  g_scan = k; g_scan_ok = ok; g_scan_op = op; *opcode = ok ? (opcodetype)op : 0xff; *pc = k + 1; return ok; }
static inline size_t WStack_elem_size(const WStack* st, size_t i) { size_t z = (i == g_e) ? g_e_size : nondet_size_t(); g_elem = i; g_elem_size = z; return z; }
static inline bool EvalScript_stub(WStack* st, ScriptError* serror) { g_eval_called = 1; st->n = g_eval_stack_n; st->top_true = nondet_bool(); stack_top_true_after = st->top_true; if (!g_eval_result && serror) *serror = SCRIPT_ERR_UNKNOWN_ERROR; return g_eval_result; }   /* arbitrary verdict and resulting stack */
static inline bool WStack_top_is_true(const WStack* st) { return st->top_true; }
#define GHOST_OPSCAN_STEP(pc) ((void)0)
#define GHOST_ELEM_STEP(i) ((void)0)
#define PLAIN_S (g_s_ok && !SPEC_OPSUCCESS((int)g_s_op))          /* the pinned instruction decodes and is not an OP_SUCCESSx */
#define SCAN_HIT_SUCCESS (g_scan < exec_script->n && g_scan_ok && SPEC_OPSUCCESS((int)g_scan_op) && (g_s < g_scan ==> PLAIN_S))
#define SCAN_CLEAN (g_s < exec_script->n ==> PLAIN_S)
#define LOOP_OPSCAN \
    __CPROVER_assigns(pc, g_scan, g_scan_ok, g_scan_op) \
    __CPROVER_loop_invariant(pc <= exec_script->n && (g_s < pc ==> PLAIN_S)) \
    __CPROVER_decreases(exec_script->n - pc)
#define LOOP_ELEMS \
    __CPROVER_assigns(i_e, g_elem, g_elem_size) \
    __CPROVER_loop_invariant(i_e <= stack.n && (g_e < i_e ==> g_e_size <= 520)) \
    __CPROVER_decreases(stack.n - i_e)
#define TAPSCRIPT (sigversion == 3)
#define ERR(e) (!__CPROVER_return_value && *serror == (e))
VERIF_REACH_DECL(ExecuteWitnessScript)
bool ExecuteWitnessScript(const WStack* stack_span, const OpStream* exec_script, unsigned flags, int sigversion, ScriptError* serror)
__CPROVER_requires(__CPROVER_is_fresh(stack_span, sizeof(WStack)) && __CPROVER_is_fresh(exec_script, sizeof(OpStream)) && __CPROVER_is_fresh(serror, sizeof(ScriptError)))
__CPROVER_requires(sigversion >= 0 && sigversion <= 3 && !g_eval_called)
/* BIP342: an OP_SUCCESSx met while every earlier instruction decoded decides the spend at once -- whatever the stack looks like */
#ifdef TWIN_SUCCESS_AFTER_SIZE
__CPROVER_ensures((__CPROVER_return_value && !g_eval_called) ==> (g_e < stack_span->n ==> g_e_size <= 520))
#endif
__CPROVER_ensures((__CPROVER_return_value && !g_eval_called) ==> (TAPSCRIPT && !(flags & SCRIPT_VERIFY_DISCOURAGE_OP_SUCCESS) && SCAN_HIT_SUCCESS))
__CPROVER_ensures(ERR(SCRIPT_ERR_DISCOURAGE_OP_SUCCESS) ==> (TAPSCRIPT && (flags & SCRIPT_VERIFY_DISCOURAGE_OP_SUCCESS) && SCAN_HIT_SUCCESS && !g_eval_called))
__CPROVER_ensures(ERR(SCRIPT_ERR_BAD_OPCODE) ==> (TAPSCRIPT && g_scan < exec_script->n && !g_scan_ok && (g_s < g_scan ==> PLAIN_S) && !g_eval_called))
/* the size limits are reached only when no OP_SUCCESSx / undecodable opcode was met (tapscript) -- and they are enforced before evaluation */
__CPROVER_ensures(ERR(SCRIPT_ERR_STACK_SIZE) ==> (TAPSCRIPT && SCAN_CLEAN && stack_span->n > 1000 && !g_eval_called))
__CPROVER_ensures(ERR(SCRIPT_ERR_PUSH_SIZE) ==> ((TAPSCRIPT ==> (SCAN_CLEAN && stack_span->n <= 1000)) && g_elem < stack_span->n && g_elem_size > 520 && (g_e < g_elem ==> g_e_size <= 520) && !g_eval_called))
__CPROVER_ensures(g_eval_called ==> ((TAPSCRIPT ==> (SCAN_CLEAN && stack_span->n <= 1000)) && (g_e < stack_span->n ==> g_e_size <= 520)))
/* conversely: nothing else stops the function before evaluation */
__CPROVER_ensures((!g_eval_called && !__CPROVER_return_value) ==> (*serror == SCRIPT_ERR_DISCOURAGE_OP_SUCCESS || *serror == SCRIPT_ERR_BAD_OPCODE || *serror == SCRIPT_ERR_STACK_SIZE || *serror == SCRIPT_ERR_PUSH_SIZE))
/* after evaluation: success iff EvalScript succeeded and left exactly one true element; the error names which of the two failed */
__CPROVER_ensures(g_eval_called ==> (__CPROVER_return_value == (g_eval_result && g_eval_stack_n == 1 && stack_top_true_after)))
__CPROVER_ensures((g_eval_called && g_eval_result && g_eval_stack_n != 1) ==> ERR(SCRIPT_ERR_CLEANSTACK))
__CPROVER_ensures((g_eval_called && g_eval_result && g_eval_stack_n == 1 && !stack_top_true_after) ==> ERR(SCRIPT_ERR_EVAL_FALSE))
VERIF_REACH_ENSURES(ExecuteWitnessScript, __CPROVER_return_value && !g_eval_called && stack_span->n > 2000 && g_e < stack_span->n && g_e_size > 520)
VERIF_REACH_ENSURES(ExecuteWitnessScript, ERR(SCRIPT_ERR_PUSH_SIZE) && TAPSCRIPT && exec_script->n > 2)
VERIF_REACH_ENSURES(ExecuteWitnessScript, ERR(SCRIPT_ERR_BAD_OPCODE) && g_scan > 1)
VERIF_REACH_ENSURES(ExecuteWitnessScript, __CPROVER_return_value && g_eval_called && sigversion == 1)
__CPROVER_assigns(*serror, g_scan, g_scan_ok, g_scan_op, g_elem, g_elem_size, g_eval_called, stack_top_true_after);

#define C12_PASS_FUNCS
#define C12_PASS_EWS
#include "slices.h"

int64_t nondet_i64(void); bool nondet_bool(void); size_t nondet_size_t(void); int nondet_int(void);
void h_serialize(void) { ByteVec* r; int64_t v = nondet_i64(); CScriptNum_serialize(r, v); if (v == INT64_MIN) VERIF_REACH_PT("int64 min"); if (v == 255) VERIF_REACH_PT("255"); if (v == 0) VERIF_REACH_PT("zero"); }
void h_set_vch(void) { const ByteVec* v; int64_t r = CScriptNum_set_vch(v); if (r < 0) VERIF_REACH_PT("negative"); if (r == 0) VERIF_REACH_PT("zero"); }
void h_from_vch(void) { const ByteVec* v; CScriptNum_from_vch(v, nondet_bool(), nondet_size_t()); if (g_thrown) VERIF_REACH_PT("throws"); else VERIF_REACH_PT("value"); }
void h_getint(void) { int r = CScriptNum_getint(nondet_i64()); if (r == INT_MAX) VERIF_REACH_PT("saturated high"); if (r == INT_MIN) VERIF_REACH_PT("saturated low"); }
void h_CastToBool(void) { const ByteVec* v; g_i = nondet_size_t(); bool r = CastToBool(v); if (r) VERIF_REACH_PT("true"); else VERIF_REACH_PT("false"); }
void h_CheckMinimalPush(void) { const ByteVec* d; bool r = CheckMinimalPush(d, nondet_int()); if (r) VERIF_REACH_PT("minimal"); else VERIF_REACH_PT("not minimal"); }
void h_VerifyWitnessProgram(void) { const WitView* w; const ByteVec* pr; ScriptError* se; int wv; unsigned fl; bool p2sh; WITPROG_HARNESS_INPUTS(); g_ews_err = (ScriptError)nondet_uchar(); g_schnorr_err = (ScriptError)nondet_uchar(); VERIF_REACH_ON(VerifyWitnessProgram); VerifyWitnessProgram(w, wv, pr, fl, se, p2sh); }
void h_ExecuteWitnessScript(void) { const WStack* st; const OpStream* sc; ScriptError* se; g_s = nondet_size_t(); g_s_ok = nondet_bool(); g_s_op = nondet_uchar(); g_e = nondet_size_t(); g_e_size = nondet_size_t(); g_eval_result = nondet_bool(); g_eval_stack_n = nondet_size_t(); unsigned fl; int sv; VERIF_REACH_ON(ExecuteWitnessScript); ExecuteWitnessScript(st, sc, fl, sv, se); }
void h_IsOpSuccess(void) { bool r = IsOpSuccess(nondet_int()); if (r) VERIF_REACH_PT("op_success"); else VERIF_REACH_PT("ordinary"); }
/* lemma (contracts only): decoding what serialize emits gives the value back, for every value that fits the 7-byte decoder */
void h_lemma_scriptnum_roundtrip(void)
{
    unsigned char buf[9]; ByteVec r = {buf, 0, 9}; int64_t v = nondet_i64();
    CScriptNum_serialize(&r, v);
    if (r.size <= 7) { ByteVec in = {buf, r.size, r.size}; int64_t back = CScriptNum_set_vch(&in);
#ifdef TWIN_RT
        __CPROVER_assert(back == v + 1, "set_vch(serialize(v)) == v");
#else
        __CPROVER_assert(back == v, "set_vch(serialize(v)) == v");
#endif
        VERIF_REACH_PT("round trip"); }
    VERIF_REACH_PT("lemma end");
}
