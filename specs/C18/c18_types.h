/* C18 shim types and stubs (see spec.c) */
#ifndef C18_TYPES_H
#define C18_TYPES_H
typedef struct { unsigned char b[20]; } uint160_c;
typedef struct { unsigned char vch[65]; } CPubKey;
#define CPUBKEY_INVALID {{0xFF}}
typedef struct { CTxOut out; unsigned int fCoinBase : 1; uint32_t nHeight : 31; } Coin;
static inline bool Coin_IsSpent(const Coin* c) { return c->out.nValue == -1; }      /* CTxOut::IsNull: nValue == -1 (VERIF_STUB) */
int g_thrown;
bool g_fully_valid, g_decompress_ok;
#ifdef VERIF_CBMC
unsigned char nondet_uchar(void);
#endif
/* VERIF_STUB of CPubKey::GetLen / Set / size (pubkey.h), compared natively with the real class on every run */
static inline unsigned int CPubKey_GetLen(unsigned char h) { if (h == 2 || h == 3) return 33; if (h == 4 || h == 6 || h == 7) return 65; return 0; }
static inline unsigned int CPubKey_size(const CPubKey* k) { return CPubKey_GetLen(k->vch[0]); }
static inline void CPubKey_Set(CPubKey* k, const unsigned char* pbegin, const unsigned char* pend)
{
    int len = pend == pbegin ? 0 : CPubKey_GetLen(pbegin[0]);
    if (len && len == (pend - pbegin)) memcpy(k->vch, pbegin, len); else k->vch[0] = 0xFF;
}
/* VERIF_TRUSTED secp256k1: IsFullyValid is an arbitrary predicate of the key; Decompress (if it succeeds) keeps x and yields
 * the y of the requested parity */
static inline bool CPubKey_IsFullyValid(const CPubKey* k) { return g_fully_valid; }
#ifdef VERIF_CBMC
static inline bool CPubKey_Decompress(CPubKey* k)
{
    if (!g_decompress_ok) return 0;
    unsigned char par = k->vch[0] & 1;
    k->vch[0] = 4;
    for (int i = 33; i < 65; i++) k->vch[i] = nondet_uchar();
    __CPROVER_assume((k->vch[64] & 1) == par);      /* VERIF_TRUSTED */
    return 1;
}
#else
bool CPubKey_Decompress(CPubKey* k);   /* native: provided by the harness from the real CPubKey::Decompress */
#endif

/* ghost event stream: formatters record WHAT they hand to the stream and in which order */
enum { EV_NONE = 0, EV_VARINT32, EV_U8, EV_TXOUT, EV_SPAN };
typedef struct { int kind; uint64_t val; const void* ptr; } Ev;
typedef struct { Ev w[4]; int nw; Ev r[4]; int nr; int mismatch; const void* r_txout_target; unsigned char* r_span_target; size_t r_span_len; size_t ignored; } EvStream;
static inline void ev_w(EvStream* s, int kind, uint64_t val, const void* ptr) { if (s->nw >= 0 && s->nw < 4) { s->w[s->nw].kind = kind; s->w[s->nw].val = val; s->w[s->nw].ptr = ptr; } s->nw = s->nw + 1; }
static inline void Ser_VARINT_u32(EvStream* s, uint32_t v) { ev_w(s, EV_VARINT32, v, 0); }
static inline void Ser_u8(EvStream* s, unsigned char v) { ev_w(s, EV_U8, v, 0); }
static inline void Ser_TxOutCompression(EvStream* s, const CTxOut* o) { ev_w(s, EV_TXOUT, 0, o); }
static inline void Ser_span(EvStream* s, const unsigned char* p, size_t n) { ev_w(s, EV_SPAN, n, p); }
static inline uint32_t Unser_VARINT_u32(EvStream* s)
{   /* a single byte < 128 is its own VARINT (h_varint32_roundtrip) */
    uint32_t v = 0;
    if (s->nr >= 0 && s->nr < 4 && (s->r[s->nr].kind == EV_VARINT32 || (s->r[s->nr].kind == EV_U8 && s->r[s->nr].val < 128))) v = (uint32_t)s->r[s->nr].val; else s->mismatch = 1;
    s->nr = s->nr + 1; return v;
}
static inline void Unser_TxOutCompression(EvStream* s, CTxOut* o) { if (!(s->nr >= 0 && s->nr < 4 && s->r[s->nr].kind == EV_TXOUT)) s->mismatch = 1; s->r_txout_target = o; s->nr = s->nr + 1; }
static inline void Unser_span(EvStream* s, unsigned char* p, size_t n) { if (!(s->nr >= 0 && s->nr < 4 && s->r[s->nr].kind == EV_SPAN)) s->mismatch = 1; s->r_span_target = p; s->r_span_len = n; s->nr = s->nr + 1; }
static inline void Stream_ignore(EvStream* s, size_t n) { s->ignored = n; }
static inline void ByteVec_push_opcode(ByteVec* v, unsigned char op)
{
#ifdef VERIF_CBMC
    __CPROVER_assert(v->size < v->cap, "push within ghost capacity");
#endif
    v->data[v->size] = op; v->size = v->size + 1;
}
#endif
