#include "verif_ser.h"
#include "verif_tx.h"
#include "c18_types.h"
#include "slices.h"
