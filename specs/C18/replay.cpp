// C18 native harness: the real compressor.cpp / coins.h / undo.h / serialize.h (compiled from the working tree) vs the extracted C text
// (xc_*) vs the property-level oracle: every coin with amount in [0, 21M BTC], any height/coinbase flag and a script of at most
// MAX_SCRIPT_SIZE bytes is read back unchanged; amount compression is inverted exactly; special scripts decode to the original.
#include <coins.h>
#include <compressor.h>
#include <consensus/amount.h>
#include <pubkey.h>
#include <script/script.h>
#include <serialize.h>
#include <streams.h>
#include <undo.h>
#include <fstream>
#include <sstream>
#include "replay_util.h"

struct xByteVec { unsigned char* data; size_t size; size_t cap; };
struct xCPubKey { unsigned char vch[65]; };
extern "C" {
extern bool g_fully_valid, g_decompress_ok; extern int g_thrown;
uint64_t xc_CompressAmount(uint64_t); uint64_t xc_DecompressAmount(uint64_t);
bool xc_CompressScript(const xByteVec*, xByteVec*); bool xc_DecompressScript(xByteVec*, unsigned, const xByteVec*); unsigned xc_GetSpecialScriptSize(unsigned);
bool CPubKey_Decompress(xCPubKey* k) { CPubKey p; p.Set(k->vch, k->vch + 33); if (!p.Decompress()) return false; memcpy(k->vch, p.begin(), 65); return true; }
}
#define BAD(...) do { rv::g_stats.real_violations++; if (rv::g_stats.real_violations <= 8) { std::printf("REAL-VIOLATION " __VA_ARGS__); std::printf("\n"); } } while (0)
#define DIS(...) do { rv::g_stats.disagreements++; if (rv::g_stats.disagreements <= 8) { std::printf("DISAGREE " __VA_ARGS__); std::printf("\n"); } } while (0)

// independent reference encoder for amounts (from the format description: strip up to 9 trailing zeros, split the last digit)
static uint64_t ref_compress(uint64_t n) { if (n == 0) return 0; int e = 0; while (n % 10 == 0 && e < 9) { n /= 10; e++; } if (e < 9) { int d = n % 10; n /= 10; return 1 + (n * 9 + d - 1) * 10 + e; } return 1 + (n - 1) * 10 + 9; }

static uint64_t rnd_amount(rv::Rng& r)
{
    switch (r.below(5)) {
    case 0: return r.below(2100000000000001ULL);
    case 1: { uint64_t d = 1 + r.below(999); uint64_t p = 1; for (int e = (int)r.below(16); e > 0; e--) p *= 10; uint64_t v = d * p; int k = (int)r.below(5) - 2; v = (uint64_t)((int64_t)v + k); return v > 2100000000000000ULL ? 2100000000000000ULL - r.below(3) : v; }
    case 2: return 2100000000000000ULL - r.below(1000);
    case 3: return r.below(1000);
    default: return (r.next() >> r.below(64)) % 2100000000000001ULL;
    }
}
static std::vector<unsigned char> g_valid_x;   // x coordinate + parity of a valid point, refreshed
static CPubKey rnd_valid_key(rv::Rng& r, bool uncompressed)
{
    for (;;) { unsigned char b[33]; b[0] = 2 + (unsigned char)r.below(2); for (int i = 1; i < 33; i++) b[i] = (unsigned char)r.next(); CPubKey k; k.Set(b, b + 33); if (!k.IsFullyValid()) continue; if (uncompressed) { if (!k.Decompress()) continue; } return k; }
}
static CScript rnd_script(rv::Rng& r, int& kind)
{
    std::vector<unsigned char> v; kind = (int)r.below(9);
    auto rb = [&](size_t n) { for (size_t i = 0; i < n; i++) v.push_back((unsigned char)r.next()); };
    switch (kind) {
    case 0: v = {0x76, 0xa9, 20}; rb(20); v.push_back(0x88); v.push_back(0xac); break;
    case 1: v = {0xa9, 20}; rb(20); v.push_back(0x87); break;
    case 2: { CPubKey k = rnd_valid_key(r, false); v.push_back(33); v.insert(v.end(), k.begin(), k.end()); v.push_back(0xac); break; }
    case 3: { CPubKey k = rnd_valid_key(r, true); v.push_back(65); v.insert(v.end(), k.begin(), k.end()); v.push_back(0xac); break; }
    case 4: { v.push_back(33); v.push_back(2 + (unsigned char)r.below(2)); rb(32); v.push_back(0xac); break; }                 // compressed key, possibly not on the curve
    case 5: { v.push_back(65); v.push_back(4 + (r.below(4) ? 0 : (unsigned char)r.below(4))); rb(64); v.push_back(0xac); break; }   // uncompressed garbage (not on curve) / hybrid header
    case 6: { static const size_t S[] = {0, 1, 20, 21, 22, 23, 24, 25, 26, 33, 34, 35, 36, 65, 66, 67, 68, 9993, 9994, 9995, 9999, 10000}; rb(S[r.below(22)]); break; }
    case 7: rb(r.below(3) ? r.below(120) : r.below(10001)); break;
    default: {   // near miss: a template with one byte or the length disturbed
        int k2; CScript s = rnd_script(r, k2); v.assign(s.begin(), s.end()); if (!v.empty() && r.below(2)) v[r.below(v.size() < 4 ? v.size() : 4) % v.size()] ^= (unsigned char)(1 << r.below(8)); else if (!v.empty() && r.below(2)) v.back() ^= 1; else if (r.below(2)) v.push_back(0xac); else if (!v.empty()) v.pop_back(); kind = 8; }
    }
    if (v.size() > 10000) v.resize(10000);
    return CScript(v.begin(), v.end());
}
static std::string hex(const CScript& s) { static const char* H = "0123456789abcdef"; std::string o; size_t n = 0; for (unsigned char c : s) { if (n++ >= 70) { o += ".."; break; } o += H[c >> 4]; o += H[c & 15]; } return o + "(" + std::to_string(s.size()) + " bytes)"; }

static void check_amount(uint64_t n)
{
    rv::g_stats.inputs++;
    uint64_t c = CompressAmount(n), d = DecompressAmount(c), xc = xc_CompressAmount(n), xd = xc_DecompressAmount(c);
    if (c != xc || d != xd) DIS("amount %llu: real %llu/%llu extracted %llu/%llu", (unsigned long long)n, (unsigned long long)c, (unsigned long long)d, (unsigned long long)xc, (unsigned long long)xd);
    if (d != n) BAD("DecompressAmount(CompressAmount(%llu)) = %llu", (unsigned long long)n, (unsigned long long)d);
    if (c != ref_compress(n)) BAD("CompressAmount(%llu) = %llu, reference encoder says %llu", (unsigned long long)n, (unsigned long long)c, (unsigned long long)ref_compress(n));
}
static void check_script(rv::Rng& r)
{
    int kind; CScript s = rnd_script(r, kind); rv::g_stats.inputs++;
    CompressedScript out; bool c = CompressScript(s, out);
    // extracted C on the same bytes
    std::vector<unsigned char> sb(s.begin(), s.end()); unsigned char ob[33] = {0}; xByteVec xs{sb.data(), sb.size(), sb.size()}, xo{ob, 0, 33};
    if (s.size() == 67 && s[0] == 65 && s[66] == 0xac && s[1] == 4) { CPubKey k; k.Set(&s[1], &s[66]); g_fully_valid = k.IsFullyValid(); } else g_fully_valid = false;
    bool xcr = xc_CompressScript(&xs, &xo);
    if (c != xcr || (c && (out.size() != xo.size || memcmp(out.data(), ob, xo.size)))) DIS("CompressScript(%s) real=%d extracted=%d", hex(s).c_str(), c, xcr);
    // statement: the special encodings decode to the original script
    bool tmpl = (s.size() == 25 && s[0] == 0x76 && s[1] == 0xa9 && s[2] == 20 && s[23] == 0x88 && s[24] == 0xac) || (s.size() == 23 && s[0] == 0xa9 && s[1] == 20 && s[22] == 0x87) ||
                (s.size() == 35 && s[0] == 33 && s[34] == 0xac && (s[1] == 2 || s[1] == 3)) || (s.size() == 67 && s[0] == 65 && s[66] == 0xac && s[1] == 4 && g_fully_valid);
    if (c != tmpl) BAD("CompressScript(%s) = %d but the script %s one of the special templates", hex(s).c_str(), c, tmpl ? "is" : "is not");
    if (c) {
        if (out.size() != GetSpecialScriptSize(out[0]) + 1) BAD("compressed form of %s has %zu bytes, tag %u announces %u", hex(s).c_str(), (size_t)out.size(), out[0], GetSpecialScriptSize(out[0]) + 1);
        CScript back; CompressedScript in(out.begin() + 1, out.end()); bool d = DecompressScript(back, out[0], in);
        std::vector<unsigned char> db(67); xByteVec xd{db.data(), 0, 67}, xin{ob + 1, xo.size - 1, 32}; g_decompress_ok = true; bool xdr = xc_DecompressScript(&xd, ob[0], &xin);
        if (d != xdr || (d && (back.size() != xd.size || memcmp(back.data(), db.data(), xd.size)))) DIS("DecompressScript of %s", hex(s).c_str());
        if (!d || back != s) BAD("script %s compresses to tag %u and decompresses to %s", hex(s).c_str(), out[0], d ? hex(back).c_str() : "(failure)");
    }
}
template <typename W, typename Rd> static void roundtrip(const Coin& c, const char* what, W wr, Rd rd)
{
    DataStream ss; wr(ss, c); Coin d; bool threw = false;
    try { rd(ss, d); } catch (const std::exception&) { threw = true; }
    rv::g_stats.inputs++;
    if (threw || !ss.empty() || d.out.nValue != c.out.nValue || d.out.scriptPubKey != c.out.scriptPubKey || d.nHeight != c.nHeight || d.fCoinBase != c.fCoinBase)
        BAD("%s round trip: coin(amount=%lld, height=%u, coinbase=%d, script=%s) read back as (amount=%lld, height=%u, coinbase=%d, script=%s)%s%s", what, (long long)c.out.nValue, (unsigned)c.nHeight, (int)c.fCoinBase, hex(c.out.scriptPubKey).c_str(),
            (long long)d.out.nValue, (unsigned)d.nHeight, (int)d.fCoinBase, hex(d.out.scriptPubKey).c_str(), threw ? " [exception]" : "", ss.empty() ? "" : " [bytes left over]");
}
static void check_coin(rv::Rng& r)
{
    int kind; Coin c; c.out.nValue = (CAmount)rnd_amount(r); c.out.scriptPubKey = rnd_script(r, kind);
    static const uint32_t HS[] = {0, 1, 2, 127, 128, 16383, 16384, 0x3fffffff, 0x40000000, 0x7ffffffe, 0x7fffffff};
    c.nHeight = r.below(2) ? HS[r.below(11)] : (uint32_t)(r.next() & 0x7fffffff); c.fCoinBase = r.below(2);
    roundtrip(c, "Coin::Serialize/Unserialize", [](DataStream& s, const Coin& x) { s << x; }, [](DataStream& s, Coin& x) { s >> x; });
    roundtrip(c, "TxInUndoFormatter", [](DataStream& s, const Coin& x) { s << Using<TxInUndoFormatter>(x); }, [](DataStream& s, Coin& x) { s >> Using<TxInUndoFormatter>(x); });
}
static void check_varint(rv::Rng& r)
{
    uint64_t n = r.below(3) ? (r.next() >> r.below(64)) : (((uint64_t)1 << (7 * r.below(10))) + r.below(3) - 1);
    DataStream ss; ss << VARINT(n); size_t len = ss.size(); uint64_t m = 0; ss >> VARINT(m); rv::g_stats.inputs++;
    if (m != n || !ss.empty() || len != GetSizeOfVarInt<VarIntMode::DEFAULT>(n)) BAD("VARINT(%llu) reads back %llu (len %zu)", (unsigned long long)n, (unsigned long long)m, len);
}
// B2 self-test: vectors computed by engine/wp_int.py's interpreter on Python ints vs the machine (real function)
static void check_wp_vectors(const char* path)
{
    std::ifstream f(path); std::string fn, arrow; unsigned long long a, out; uint64_t n = 0;
    while (f >> fn >> a >> arrow >> out) { n++; uint64_t real = fn == "CompressAmount" ? CompressAmount(a) : fn == "DecompressAmount" ? DecompressAmount(a) : 0; rv::g_stats.inputs++;
        if (real != out) DIS("wp_int interpreter: %s(%llu) = %llu, machine = %llu", fn.c_str(), a, out, (unsigned long long)real); }
    std::printf("WPVECTORS %llu\n", (unsigned long long)n);
}
int main(int argc, char** argv)
{
    auto a = rv::parse(argc, argv); rv::Rng rng(a.seed); uint64_t n = a.diff ? a.n : 100000;
    for (uint64_t e = 0, p = 1; e < 16; e++, p *= 10) for (uint64_t d = 1; d < 30; d++) for (int k = -2; k <= 2; k++) { uint64_t v = d * p + (uint64_t)(int64_t)k; if (v <= 2100000000000000ULL) check_amount(v); }
    for (uint64_t i = 0; i < n; i++) { check_amount(rnd_amount(rng)); check_varint(rng); if (i % 4 == 0) check_script(rng); if (i % 8 == 0) check_coin(rng); }
    if (const char* w = std::getenv("VERIF_WP_VECTORS")) check_wp_vectors(w);
    rv::report();
    return rv::g_stats.real_violations ? 1 : (rv::g_stats.disagreements ? 3 : 0);
}
