/* C18 -- UTXO database encoding preserves every spendable coin exactly.
 * (amount arithmetic: see wp_spec.c, discharged by engine/wp_int.py; everything else below by CBMC) */
#include "verif_ser.h"
#include "verif_tx.h"
#include "c18_types.h"
#include <stdlib.h>

/* ---------------- byte templates from the statement ---------------- */
#define SD(i) (script->data[i])
#define IS_P2PKH (script->size == 25 && SD(0) == 0x76 && SD(1) == 0xa9 && SD(2) == 20 && SD(23) == 0x88 && SD(24) == 0xac)
#define IS_P2SH (script->size == 23 && SD(0) == 0xa9 && SD(1) == 20 && SD(22) == 0x87)
#define IS_P2PK_C (script->size == 35 && SD(0) == 33 && SD(34) == 0xac && (SD(1) == 0x02 || SD(1) == 0x03))
#define IS_P2PK_U (script->size == 67 && SD(0) == 65 && SD(66) == 0xac && SD(1) == 0x04)
/* quantifier-free: equality at the arbitrary ghost index g_i */
size_t g_i;
#define EQ_AT(a, b, n) (g_i < (n) ==> (a)[g_i] == (b)[g_i])
/* second arbitrary index, for a callee whose caller needs the equality one position further on (the caller's harness fixes g_j = g_i + 1;
 * the callee's own harness leaves g_j arbitrary) */
size_t g_j;
#define EQ_AT_J(a, b, n) (g_j < (n) ==> (a)[g_j] == (b)[g_j])
/* output vectors: the ghost capacity is EXACTLY the largest size the statement allows (the strongest bounds check: one byte more is a failed obligation);
 * a fixed-size object also keeps the SAT encoding small */
#define FRESH_VEC(v, exactcap) (__CPROVER_is_fresh(v, sizeof(ByteVec)) && (v)->cap == (exactcap) && (v)->size <= (v)->cap && __CPROVER_is_fresh((v)->data, (exactcap)))
#define FRESH_IN(v) (__CPROVER_is_fresh(v, sizeof(ByteVec)) && (v)->size <= 20000 && (v)->cap == (v)->size && ((v)->size == 0 || __CPROVER_is_fresh((v)->data, (v)->size)))

static bool IsToKeyID(const ByteVec* script, uint160_c* hash)
__CPROVER_requires(FRESH_IN(script) && __CPROVER_is_fresh(hash, sizeof(*hash)))
#ifdef TWIN_P2PKH
__CPROVER_ensures(__CPROVER_return_value == (script->size == 25 && SD(0) == 0x76 && SD(1) == 0xa9 && SD(2) == 20 && SD(23) == 0x88))
#else
__CPROVER_ensures(__CPROVER_return_value == IS_P2PKH)
#endif
__CPROVER_ensures(__CPROVER_return_value ==> EQ_AT(hash->b, &SD(3), 20))
__CPROVER_assigns(*hash);

static bool IsToScriptID(const ByteVec* script, uint160_c* hash)
__CPROVER_requires(FRESH_IN(script) && __CPROVER_is_fresh(hash, sizeof(*hash)))
__CPROVER_ensures(__CPROVER_return_value == IS_P2SH)
__CPROVER_ensures(__CPROVER_return_value ==> EQ_AT(hash->b, &SD(2), 20))
__CPROVER_assigns(*hash);

static bool IsToPubKey(const ByteVec* script, CPubKey* pubkey)
__CPROVER_requires(FRESH_IN(script) && __CPROVER_is_fresh(pubkey, sizeof(*pubkey)))
#ifdef TWIN_P2PK
__CPROVER_ensures(__CPROVER_return_value == (IS_P2PK_C || IS_P2PK_U))
#else
__CPROVER_ensures(__CPROVER_return_value == (IS_P2PK_C || (IS_P2PK_U && g_fully_valid)))
#endif
__CPROVER_ensures((__CPROVER_return_value && IS_P2PK_C) ==> EQ_AT_J(pubkey->vch, &SD(1), 33))
__CPROVER_ensures((__CPROVER_return_value && IS_P2PK_U) ==> EQ_AT_J(pubkey->vch, &SD(1), 65))
/* the header byte and the last byte of y (parity) are read by CompressScript at fixed positions */
__CPROVER_ensures(__CPROVER_return_value ==> pubkey->vch[0] == SD(1))
__CPROVER_ensures((__CPROVER_return_value && IS_P2PK_U) ==> pubkey->vch[64] == SD(65))
__CPROVER_assigns(*pubkey);

/* compressed forms: 0x00|hash160, 0x01|hash160, 0x02/0x03|x, 0x04+parity(y)|x */
#define OD(i) (out->data[i])
bool CompressScript(const ByteVec* script, ByteVec* out)
__CPROVER_requires(FRESH_IN(script) && FRESH_VEC(out, 33))
#ifdef TWIN_COMPRESS
__CPROVER_ensures(__CPROVER_return_value == (IS_P2PKH || IS_P2SH || IS_P2PK_C))
#else
__CPROVER_ensures(__CPROVER_return_value == (IS_P2PKH || IS_P2SH || IS_P2PK_C || (IS_P2PK_U && g_fully_valid)))
#endif
__CPROVER_ensures(IS_P2PKH ==> (out->size == 21 && OD(0) == 0x00 && EQ_AT(&OD(1), &SD(3), 20)))
__CPROVER_ensures(IS_P2SH ==> (out->size == 21 && OD(0) == 0x01 && EQ_AT(&OD(1), &SD(2), 20)))
__CPROVER_ensures(IS_P2PK_C ==> (out->size == 33 && OD(0) == SD(1) && EQ_AT(&OD(1), &SD(2), 32)))
__CPROVER_ensures((IS_P2PK_U && g_fully_valid) ==> (out->size == 33 && OD(0) == (0x04 | (SD(65) & 1)) && EQ_AT(&OD(1), &SD(2), 32)))
__CPROVER_assigns(out->size, __CPROVER_object_whole(out->data));

unsigned int GetSpecialScriptSize(unsigned int nSize)
#ifdef TWIN_SPECIAL
__CPROVER_ensures(__CPROVER_return_value == (nSize <= 1 ? 20u : nSize <= 4 ? 32u : 0u))
#else
__CPROVER_ensures(__CPROVER_return_value == (nSize <= 1 ? 20u : nSize <= 5 ? 32u : 0u))
#endif
__CPROVER_assigns();

#define ID(i) (in->data[i])
#define XD(i) (script->data[i])
bool DecompressScript(ByteVec* script, unsigned int nSize, const ByteVec* in)
/* target capacity: exactly 67 (largest special script) when proved on its own, or the 10000-byte target ScriptCompression::Unser passes */
__CPROVER_requires(__CPROVER_is_fresh(script, sizeof(ByteVec)) && (script->cap == 67 || script->cap == 10000) && script->size <= script->cap && __CPROVER_is_fresh(script->data, script->cap) && __CPROVER_is_fresh(in, sizeof(ByteVec)) && in->size == (nSize <= 1 ? 20u : 32u) && __CPROVER_is_fresh(in->data, in->size))
__CPROVER_ensures(nSize == 0 ==> (__CPROVER_return_value && script->size == 25 && XD(0) == 0x76 && XD(1) == 0xa9 && XD(2) == 20 && XD(23) == 0x88 && XD(24) == 0xac && EQ_AT(&XD(3), &ID(0), 20)))
__CPROVER_ensures(nSize == 1 ==> (__CPROVER_return_value && script->size == 23 && XD(0) == 0xa9 && XD(1) == 20 && XD(22) == 0x87 && EQ_AT(&XD(2), &ID(0), 20)))
#ifdef TWIN_DECOMPRESS
__CPROVER_ensures((nSize == 2 || nSize == 3) ==> (__CPROVER_return_value && script->size == 35 && XD(0) == 33 && XD(1) == 2 && XD(34) == 0xac && EQ_AT(&XD(2), &ID(0), 32)))
#else
__CPROVER_ensures((nSize == 2 || nSize == 3) ==> (__CPROVER_return_value && script->size == 35 && XD(0) == 33 && XD(1) == nSize && XD(34) == 0xac && EQ_AT(&XD(2), &ID(0), 32)))
#endif
/* uncompressed key: relies on the ASSUMED contract of CPubKey::Decompress (same x, parity as requested) */
__CPROVER_ensures(((nSize == 4 || nSize == 5) && __CPROVER_return_value) ==> (script->size == 67 && XD(0) == 65 && XD(1) == 0x04 && XD(66) == 0xac && EQ_AT(&XD(2), &ID(0), 32) && (XD(65) & 1) == (nSize - 4)))
__CPROVER_ensures(nSize > 5 ==> !__CPROVER_return_value)
__CPROVER_assigns(script->size, __CPROVER_object_whole(script->data));

/* ---------------- code words ---------------- */
void Coin_Serialize(const Coin* self, EvStream* s)
__CPROVER_requires(__CPROVER_is_fresh(self, sizeof(*self)) && __CPROVER_is_fresh(s, sizeof(*s)) && self->out.nValue != -1 && s->nw == 0)
__CPROVER_ensures(s->nw == 2 && s->w[0].kind == EV_VARINT32 && s->w[0].val == (((uint32_t)self->nHeight << 1) | (uint32_t)self->fCoinBase) && s->w[1].kind == EV_TXOUT && s->w[1].ptr == &self->out)
__CPROVER_assigns(s->w[0], s->w[1], s->w[2], s->w[3], s->nw);

void Coin_Unserialize(Coin* self, EvStream* s)
__CPROVER_requires(__CPROVER_is_fresh(self, sizeof(*self)) && __CPROVER_is_fresh(s, sizeof(*s)) && s->nr == 0 && s->mismatch == 0 && s->r[0].kind == EV_VARINT32 && s->r[0].val <= 0xffffffffu && s->r[1].kind == EV_TXOUT)
__CPROVER_ensures(s->nr == 2 && !s->mismatch && self->nHeight == (s->r[0].val >> 1) && self->fCoinBase == (s->r[0].val & 1) && s->r_txout_target == &self->out)
__CPROVER_assigns(s->nr, s->mismatch, s->r_txout_target, s->r_span_target, s->r_span_len, s->ignored, *self);

void TxInUndo_Ser(EvStream* s, const Coin* txout)
__CPROVER_requires(__CPROVER_is_fresh(txout, sizeof(*txout)) && __CPROVER_is_fresh(s, sizeof(*s)) && s->nw == 0)
__CPROVER_ensures(s->w[0].kind == EV_VARINT32 && s->w[0].val == (((uint32_t)txout->nHeight << 1) | (uint32_t)txout->fCoinBase))
__CPROVER_ensures(txout->nHeight > 0 ? (s->nw == 3 && s->w[1].kind == EV_U8 && s->w[1].val == 0 && s->w[2].kind == EV_TXOUT && s->w[2].ptr == &txout->out) : (s->nw == 2 && s->w[1].kind == EV_TXOUT && s->w[1].ptr == &txout->out))
__CPROVER_assigns(s->w[0], s->w[1], s->w[2], s->w[3], s->nw);

void TxInUndo_Unser(EvStream* s, Coin* txout)
__CPROVER_requires(__CPROVER_is_fresh(txout, sizeof(*txout)) && __CPROVER_is_fresh(s, sizeof(*s)) && s->nr == 0 && s->mismatch == 0 && s->r[0].kind == EV_VARINT32 && s->r[0].val <= 0xffffffffu)
__CPROVER_requires((s->r[0].val >> 1) > 0 ? ((s->r[1].kind == EV_U8 || s->r[1].kind == EV_VARINT32) && s->r[1].val < 128 && s->r[2].kind == EV_TXOUT) : s->r[1].kind == EV_TXOUT)
__CPROVER_ensures(!s->mismatch && txout->nHeight == (s->r[0].val >> 1) && txout->fCoinBase == (s->r[0].val & 1) && s->r_txout_target == &txout->out && s->nr == ((s->r[0].val >> 1) > 0 ? 3 : 2))
__CPROVER_assigns(s->nr, s->mismatch, s->r_txout_target, s->r_span_target, s->r_span_len, s->ignored, *txout);

/* ---------------- raw script size prefix ---------------- */
#define COMPRESSIBLE (IS_P2PKH || IS_P2SH || IS_P2PK_C || (IS_P2PK_U && g_fully_valid))
void ScriptCompression_Ser(EvStream* s, const ByteVec* script)
__CPROVER_requires(FRESH_IN(script) && __CPROVER_is_fresh(s, sizeof(*s)) && s->nw == 0)
__CPROVER_ensures(COMPRESSIBLE ? (s->nw == 1 && s->w[0].kind == EV_SPAN) : (s->nw == 2 && s->w[0].kind == EV_VARINT32 && s->w[0].val == script->size + 6 && s->w[1].kind == EV_SPAN && s->w[1].ptr == script->data && s->w[1].val == script->size))
__CPROVER_assigns(s->w[0], s->w[1], s->w[2], s->w[3], s->nw);

void ScriptCompression_Unser(EvStream* s, ByteVec* script)
__CPROVER_requires(FRESH_VEC(script, 10000) && script->size == 0 && __CPROVER_is_fresh(s, sizeof(*s)) && s->nr == 0 && s->mismatch == 0 && s->r[0].kind == EV_VARINT32 && s->r[0].val <= 0xffffffffu && s->r[1].kind == EV_SPAN)
/* a prefix >= 6 announces a raw script of (prefix - 6) bytes; every script of at most 10000 bytes is kept in full */
#ifdef TWIN_MAXSCRIPT
__CPROVER_ensures((s->r[0].val >= 6 && s->r[0].val - 6 < 10000) ==> (script->size == s->r[0].val - 6 && s->nr == 2 && s->r_span_target == script->data && s->r_span_len == s->r[0].val - 6 && !s->mismatch))
__CPROVER_ensures((s->r[0].val >= 6 && s->r[0].val - 6 >= 10000) ==> (script->size == 1 && script->data[0] == 0x6a && s->ignored == s->r[0].val - 6))
#else
__CPROVER_ensures((s->r[0].val >= 6 && s->r[0].val - 6 <= 10000) ==> (script->size == s->r[0].val - 6 && s->nr == 2 && s->r_span_target == script->data && s->r_span_len == s->r[0].val - 6 && !s->mismatch))
__CPROVER_ensures((s->r[0].val >= 6 && s->r[0].val - 6 > 10000) ==> (script->size == 1 && script->data[0] == 0x6a && s->ignored == s->r[0].val - 6))
#endif
__CPROVER_ensures(s->r[0].val < 6 ==> (s->nr == 2 && s->r_span_len == (s->r[0].val <= 1 ? 20u : 32u)))
__CPROVER_assigns(s->nr, s->mismatch, s->r_txout_target, s->r_span_target, s->r_span_len, s->ignored, script->size, __CPROVER_object_whole(script->data));

#include "slices.h"

uint64_t nondet_u64(void); uint32_t nondet_u32(void); unsigned nondet_uint(void); bool nondet_bool(void);

/* ---- VARINT round trip, byte-exact, all values (loops bounded by the type width: 10 / 5 bytes) ---- */
void h_varint64_roundtrip(void)
{
    uint64_t n = nondet_u64(); unsigned char buf[10]; ByteStream s = {buf, 0, 0, 10};
    g_thrown = 0;
    WriteVarInt_u64(&s, n);
    __CPROVER_assert(!g_thrown && s.wpos >= 1 && s.wpos <= 10, "VARINT of a 64-bit value takes 1..10 bytes");
    __CPROVER_assert(s.wpos == GetSizeOfVarInt_u64(n), "GetSizeOfVarInt agrees with what is written");
    size_t k = nondet_u64(); __CPROVER_assume(k < s.wpos);
    __CPROVER_assert(((buf[k] & 0x80) != 0) == (k + 1 < s.wpos), "MSB-continuation form: every byte but the last has the top bit set");
    uint64_t m = ReadVarInt_u64(&s);
#ifdef TWIN_VARINT
    __CPROVER_assert(!g_thrown && m == n + 1 && s.rpos == s.wpos, "roundtrip: ReadVarInt(WriteVarInt(n)) == n, consuming exactly the bytes written");
#else
    __CPROVER_assert(!g_thrown && m == n && s.rpos == s.wpos, "roundtrip: ReadVarInt(WriteVarInt(n)) == n, consuming exactly the bytes written");
#endif
    VERIF_REACH_PT("varint64 end"); if (s.wpos == 10) VERIF_REACH_PT("ten byte varint");
}
void h_varint32_roundtrip(void)
{
    uint32_t n = nondet_u32(); unsigned char buf[5]; ByteStream s = {buf, 0, 0, 5};
    g_thrown = 0;
    WriteVarInt_u32(&s, n);
    __CPROVER_assert(!g_thrown && s.wpos >= 1 && s.wpos <= 5 && s.wpos == GetSizeOfVarInt_u32(n), "VARINT of a 32-bit value takes 1..5 bytes");
    __CPROVER_assert(n < 128 ==> (s.wpos == 1 && buf[0] == n), "values below 128 are the byte itself (compressed-script tag == size prefix)");
    uint32_t m = ReadVarInt_u32(&s);
    __CPROVER_assert(!g_thrown && m == n && s.rpos == s.wpos, "roundtrip: ReadVarInt(WriteVarInt(n)) == n");
    VERIF_REACH_PT("varint32 end");
}

void h_IsToKeyID(void) { const ByteVec* s; uint160_c* h; g_i = nondet_u64(); bool r = IsToKeyID(s, h); if (r) VERIF_REACH_PT("p2pkh"); else VERIF_REACH_PT("not p2pkh"); }
void h_IsToScriptID(void) { const ByteVec* s; uint160_c* h; g_i = nondet_u64(); bool r = IsToScriptID(s, h); if (r) VERIF_REACH_PT("p2sh"); else VERIF_REACH_PT("not p2sh"); }
void h_IsToPubKey(void) { const ByteVec* s; CPubKey* k; g_j = nondet_u64(); g_fully_valid = nondet_bool(); bool r = IsToPubKey(s, k); if (r) VERIF_REACH_PT("p2pk"); else VERIF_REACH_PT("not p2pk"); }
void h_CompressScript(void) { const ByteVec* s; ByteVec* o; g_i = nondet_u64(); g_j = g_i + 1; g_fully_valid = nondet_bool(); bool r = CompressScript(s, o); if (r) VERIF_REACH_PT("compressible"); else VERIF_REACH_PT("not compressible"); }
void h_GetSpecialScriptSize(void) { unsigned r = GetSpecialScriptSize(nondet_uint()); if (r == 32) VERIF_REACH_PT("32"); if (r == 0) VERIF_REACH_PT("0"); }
void h_DecompressScript(void) { ByteVec* s; const ByteVec* in; g_i = nondet_u64(); g_decompress_ok = nondet_bool(); bool r = DecompressScript(s, nondet_uint(), in); if (r) VERIF_REACH_PT("decompressed"); else VERIF_REACH_PT("refused"); }
void h_Coin_Serialize(void) { const Coin* c; EvStream* s; Coin_Serialize(c, s); VERIF_REACH_PT("returns"); }
void h_Coin_Unserialize(void) { Coin* c; EvStream* s; Coin_Unserialize(c, s); VERIF_REACH_PT("returns"); }
void h_TxInUndo_Ser(void) { const Coin* c; EvStream* s; TxInUndo_Ser(s, c); VERIF_REACH_PT("returns"); }
void h_TxInUndo_Unser(void) { Coin* c; EvStream* s; TxInUndo_Unser(s, c); VERIF_REACH_PT("returns"); }
void h_ScriptCompression_Ser(void) { const ByteVec* v; EvStream* s; g_fully_valid = nondet_bool(); ScriptCompression_Ser(s, v); VERIF_REACH_PT("returns"); }
void h_ScriptCompression_Unser(void) { ByteVec* v; EvStream* s; ScriptCompression_Unser(s, v); if (v) VERIF_REACH_PT("returns"); }

/* lemma (contracts only): the special script encodings decode to the original script (every byte, via the arbitrary ghost index g_i) */
void h_lemma_script_roundtrip(void)
{
    unsigned char sbuf[67], obuf[33], dbuf[67]; ByteVec sv = {sbuf, nondet_u64(), 0}, out = {obuf, 0, 33}, dec = {dbuf, 0, 67};
    __CPROVER_assume(sv.size <= 67); sv.cap = sv.size;
    g_i = nondet_u64(); g_fully_valid = nondet_bool(); g_decompress_ok = nondet_bool();
    const ByteVec* script = &sv;
    bool c = CompressScript(&sv, &out);
    if (c) {
        __CPROVER_assert(obuf[0] <= 5 && out.size == (obuf[0] <= 1 ? 21 : 33), "compressed form: tag 0..5 followed by 20 or 32 bytes");
        ByteVec in = {&obuf[1], out.size - 1, 32};
        bool d = DecompressScript(&dec, obuf[0], &in);
        if (IS_P2PKH) __CPROVER_assert(d && dec.size == 25 && dbuf[0] == sbuf[0] && dbuf[1] == sbuf[1] && dbuf[2] == sbuf[2] && dbuf[23] == sbuf[23] && dbuf[24] == sbuf[24] && (g_i < 20 ==> dbuf[3 + g_i] == sbuf[3 + g_i]), "P2PKH decodes to the original script");
        if (IS_P2SH) __CPROVER_assert(d && dec.size == 23 && dbuf[0] == sbuf[0] && dbuf[1] == sbuf[1] && dbuf[22] == sbuf[22] && (g_i < 20 ==> dbuf[2 + g_i] == sbuf[2 + g_i]), "P2SH decodes to the original script");
        if (IS_P2PK_C) __CPROVER_assert(d && dec.size == 35 && dbuf[0] == sbuf[0] && dbuf[1] == sbuf[1] && dbuf[34] == sbuf[34] && (g_i < 32 ==> dbuf[2 + g_i] == sbuf[2 + g_i]), "P2PK (compressed key) decodes to the original script");
        if (IS_P2PK_U) __CPROVER_assert(d ==> (dec.size == 67 && dbuf[0] == sbuf[0] && dbuf[1] == sbuf[1] && dbuf[66] == sbuf[66] && (g_i < 32 ==> dbuf[2 + g_i] == sbuf[2 + g_i]) && (dbuf[65] & 1) == (sbuf[65] & 1)), "P2PK (uncompressed key) decodes to the same x and y parity (y itself: secp256k1, assumed)");
        VERIF_REACH_PT("compress then decompress");
        if (IS_P2PK_U) VERIF_REACH_PT("uncompressed key case");
    }
    VERIF_REACH_PT("lemma end");
}

/* lemma (contracts only): Coin and undo code words round trip; the event stream delivers what was written (FIFO) */
void h_lemma_coin_roundtrip(void)
{
    Coin a, b; EvStream s;
    __CPROVER_assume(a.out.nValue != -1);
    s.nw = 0; s.nr = 0; s.mismatch = 0;
    Coin_Serialize(&a, &s);
    s.r[0] = s.w[0]; s.r[1] = s.w[1];      /* VERIF_TRUSTED stream FIFO law */
    Coin_Unserialize(&b, &s);
    __CPROVER_assert(b.nHeight == a.nHeight && b.fCoinBase == a.fCoinBase, "Coin: height and coinbase flag survive serialization for every 31-bit height");
    Coin c, d; EvStream u; u.nw = 0; u.nr = 0; u.mismatch = 0;
    TxInUndo_Ser(&u, &c);
    u.r[0] = u.w[0]; u.r[1] = u.w[1]; u.r[2] = u.w[2];
    TxInUndo_Unser(&u, &d);
    __CPROVER_assert(d.nHeight == c.nHeight && d.fCoinBase == c.fCoinBase && u.nr == u.nw, "undo record: height and coinbase flag survive, reader consumes exactly what the writer produced");
    VERIF_REACH_PT("lemma end");
}

/* lemma (contracts only): a non-special script of at most 10000 bytes is read back with its length and from the same span */
void h_lemma_rawscript_roundtrip(void)
{
    size_t wn = nondet_u64(); __CPROVER_assume(wn >= 1 && wn <= 10000);
    unsigned char *wbuf = malloc(wn), *rbuf = malloc(10000); __CPROVER_assume(wbuf != NULL && rbuf != NULL);
    ByteVec w = {wbuf, wn, wn}, r = {rbuf, 0, 10000}; EvStream s;
    s.nw = 0; s.nr = 0; s.mismatch = 0; g_fully_valid = nondet_bool();
    const ByteVec* script = &w;
    __CPROVER_assume(!COMPRESSIBLE);
    ScriptCompression_Ser(&s, &w);
    s.r[0] = s.w[0]; s.r[1] = s.w[1];      /* VERIF_TRUSTED stream FIFO law */
    ScriptCompression_Unser(&s, &r);
    __CPROVER_assert(r.size == w.size && s.r_span_len == w.size && s.r_span_target == rbuf, "raw script of <= 10000 bytes: same length read back into the script's own storage");
    VERIF_REACH_PT("lemma end"); if (w.size == 10000) VERIF_REACH_PT("max size script");
}
