/* C18 integer lemmas for back end B2 (engine/wp_int.py): same C subset as the slices; __wp_assume / __wp_assert.
 * The statement: amount compression on [0, 21M BTC] is exactly inverted by decompression. */
void lemma_amount_roundtrip(uint64_t n)
{
    __wp_assume(n <= 2100000000000000);
    uint64_t c = CompressAmount(n);
    uint64_t d = DecompressAmount(c);
    __wp_assert(d == n, "DecompressAmount(CompressAmount(n)) == n for 0 <= n <= 21,000,000 BTC");
    __wp_assert(c <= 18900000000000000, "compressed amount stays below 1.89e16 (fits the VARINT it is written with)");
    __wp_assert((n == 0) == (c == 0), "zero encodes to zero and nothing else does");
    __wp_assert(n % 10 == 0 || c == 1 + (n / 10 * 9 + n % 10 - 1) * 10, "amounts not divisible by 10 use exponent 0 with the last digit split off");
}
