#include "verif.h"
typedef struct { int first; int second; } PruneRange;
typedef struct { unsigned int nBlocks; unsigned int nSize; unsigned int nUndoSize; unsigned int nHeightFirst; unsigned int nHeightLast; uint64_t nTimeFirst, nTimeLast; } CBlockFileInfo;
typedef struct { int height_first; } PruneLockInfo;
static inline int verif_max_int(int a, int b) { return a < b ? b : a; }
static inline int verif_min_int(int a, int b) { return b < a ? b : a; }
int g_inserted, g_pruned; uint64_t g_usage_at_cut, g_buffer_at_cut, g_target; int g_cut_mode; int g_bad_cut;
#define VERIF_READ_IN_DOMAIN(expr, lo, hi) (expr)
static inline void PruneOneBlockFile_cut(const CBlockFileInfo* info, int k, int lo, int hi) { g_pruned = g_pruned + 1; }
#define LOOP_LOCKS
#define LOOP_FILES_MANUAL
#define LOOP_FILES_AUTO
#include "slices.h"
