import os, sys
sys.path.insert(0, os.path.dirname(os.path.dirname(os.path.abspath(__file__))))
from engine.extract import R

BS, VAL = "src/node/blockstorage.cpp", "src/validation.cpp"
FILEINFO = [R("ref-local: fileinfo = m_blockfile_info[k]", r"const auto& fileinfo = m_blockfile_info\[fileNumber\];", "const CBlockFileInfo* fileinfo = &blockfile_info[fileNumber];", False),
            R("member:fileinfo.", r"(?<![\w.>])fileinfo\.(?=\w)", "fileinfo->", False),
            R("ghost:this->MaxBlockfileNum()", r"this->MaxBlockfileNum\(\)", "n_files", False),
            R("cut point:PruneOneBlockFile(k)", r"PruneOneBlockFile\(fileNumber\);", "PruneOneBlockFile_cut(blockfile_info, fileNumber, min_block_to_prune, last_block_can_prune);", False),
            R("ghost:setFilesToPrune.insert", r"setFilesToPrune\.insert\(fileNumber\);", "g_inserted = g_inserted + 1;", False)]
SLICES = [
    {"name": "MIN_BLOCKS_TO_KEEP", "kind": "const", "file": "src/validation.h", "pat": r"inline constexpr unsigned int MIN_BLOCKS_TO_KEEP = (\d+);", "emit": r"static const unsigned int MIN_BLOCKS_TO_KEEP = \1;"},
    {"name": "GetPruneRange", "kind": "func", "file": VAL, "head": r"std::pair<int, int> Chainstate::GetPruneRange\(int last_height_can_prune\)",
     "rules": [R("method-head (chain height, snapshot state as inputs)", r"std::pair<int, int> Chainstate::GetPruneRange\(int last_height_can_prune\) const", "PruneRange GetPruneRange(int chain_height, bool from_snapshot, bool snapshot_validated, int snapshot_base_height, int last_height_can_prune)"),
               R("ghost:m_chain.Height()", r"m_chain\.Height\(\)", "chain_height", False),
               R("ghost:snapshot chainstate not yet validated", r"m_from_snapshot_blockhash && m_assumeutxo != Assumeutxo::VALIDATED", "from_snapshot && !snapshot_validated", False),
               R("ghost:Assert(SnapshotBase())->nHeight", r"Assert\(SnapshotBase\(\)\)->nHeight", "snapshot_base_height", False),
               R("std::max<int>", r"std::max<int>\(", "verif_max_int(", False), R("std::min", r"std::min\(", "verif_min_int(", False),
               R("brace-init int", r"int prune_start\{0\};", "int prune_start = 0;", False),
               R("return pair", r"return \{([^;]*)\};", r"return (PruneRange){\1};", False)]},
    {"name": "PRUNE_LOCK_BUFFER", "kind": "const", "file": VAL, "pat": r"static constexpr int PRUNE_LOCK_BUFFER\{(\d+)\};", "emit": r"static const int PRUNE_LOCK_BUFFER = \1;"},
    {"name": "prune_lock_limit", "cname": "FlushStateToDisk_prune_lock_limit", "kind": "frag", "file": VAL, "within": r"bool Chainstate::FlushStateToDisk\([^)]*\)",
     "begin": r"int last_prune\{m_chain\.Height\(\)\};", "end": r"if \(limiting_lock\) \{", "include_end": False,
     "prologue": "int FlushStateToDisk_prune_lock_limit(int chain_height, const PruneLockInfo* locks, size_t n_locks)\n{", "epilogue": "    return last_prune;\n}",
     "rules": [R("ghost:m_chain.Height()", r"int last_prune\{m_chain\.Height\(\)\};", "int last_prune = chain_height;", False),
               R("ghost:limiting_lock (logging only)", r"std::optional<std::string> limiting_lock;", "int limiting_lock = 0;", False), R("ghost:limiting_lock = name", r"limiting_lock = prune_lock\.first;", "limiting_lock = 1;", False),
               R("rangefor:m_prune_locks", r"for \(const auto& prune_lock : m_blockman\.m_prune_locks\)", "for (size_t i_l = 0; i_l < n_locks; i_l++)", False),
               R("member:prune_lock.second.height_first (domain: a block height, applied at the read)", r"prune_lock\.second\.height_first", "VERIF_READ_IN_DOMAIN(locks[i_l].height_first, 0, INT_MAX)", False),
               R("numeric_limits<int>::max()", r"std::numeric_limits<int>::max\(\)", "INT_MAX", False), R("brace-init const int", r"const int lock_height\{([^;]*)\};", r"const int lock_height = (\1);", False),
               R("std::max", r"std::max\(", "verif_max_int(", False), R("std::min", r"std::min\(", "verif_min_int(", False)],
     "loops": [{"match": r"\bi_l\b", "contract": "LOOP_LOCKS", "required": False}]},
    {"name": "prune_manual_loop", "cname": "FindFilesToPruneManual_loop", "kind": "frag", "file": BS, "within": r"void BlockManager::FindFilesToPruneManual\(\s*std::set<int>& setFilesToPrune,\s*int nManualPruneHeight,\s*const Chainstate& chain\)",
     "begin": r"int count = 0;", "end": r"LogInfo\(", "include_end": False,
     "prologue": "int FindFilesToPruneManual_loop(const CBlockFileInfo* blockfile_info, int n_files, int min_block_to_prune, int last_block_can_prune)\n{", "epilogue": "    return count;\n}",
     "rules": FILEINFO, "loops": [{"match": r"for \(int fileNumber = 0;", "contract": "LOOP_FILES_MANUAL", "required": False}]},
    {"name": "prune_auto_block", "cname": "FindFilesToPrune_block", "kind": "frag", "file": BS, "within": r"void BlockManager::FindFilesToPrune\(\s*std::set<int>& setFilesToPrune,\s*int last_prune,\s*const Chainstate& chain,\s*ChainstateManager& chainman\)",
     "begin": r"uint64_t nBytesToPrune;", "end": r"LogDebug\(BCLog::PRUNE,", "include_end": False,
     "prologue": "int FindFilesToPrune_block(const CBlockFileInfo* blockfile_info, int n_files, int min_block_to_prune, int last_block_can_prune, uint64_t nCurrentUsage, uint64_t nBuffer, uint64_t target, int chain_height, bool is_ibd, uint64_t target_sync_height)\n{",
     "epilogue": "    return count;\n}",
     "rules": FILEINFO + [R("ghost:chain.m_chain.Height()", r"chain\.m_chain\.Height\(\)", "chain_height", False), R("ghost:chainman.IsInitialBlockDownload()", r"chainman\.IsInitialBlockDownload\(\)", "is_ibd", False),
                          R("auto local", r"const auto chain_tip_height", "const int chain_tip_height", False), R("static constexpr local", r"static constexpr uint64_t average_block_size", "const uint64_t average_block_size", False),
                          R("cut point: usage at prune time", r"PruneOneBlockFile_cut\(", "g_usage_at_cut = nCurrentUsage; g_buffer_at_cut = nBuffer; PruneOneBlockFile_cut(", False)],
     "loops": [{"match": r"for \(int fileNumber = 0;", "contract": "LOOP_FILES_AUTO", "required": False}]},
]
def H(name, fn, twins=(), **kw):
    d = {"name": name, "enforce": fn, "twins": [{"define": t, "expect": "postcondition|assertion"} for t in twins]}
    d.update(kw)
    return d
PLAN = {
    "id": "C19", "level": "proof", "slices": SLICES, "spec": "spec.c", "default_solver": ["cadical", "z3"],
    "harnesses": [{"name": "h_prune_lock_limit", "enforce": "FlushStateToDisk_prune_lock_limit", "loop_contracts": True, "twins": [{"define": "TWIN_LOCKBUF", "expect": "postcondition|loop_invariant"}]}, H("h_GetPruneRange", "GetPruneRange", ["TWIN_288"]), H("h_manual_loop", "FindFilesToPruneManual_loop", ["TWIN_ELIGIBLE"], loop_contracts=True), H("h_auto_block", "FindFilesToPrune_block", ["TWIN_TARGET"], loop_contracts=True),
                  {"name": "h_lemma_tip_window", "replace": ["GetPruneRange", "FlushStateToDisk_prune_lock_limit"], "twins": [{"define": "TWIN_WINDOW", "expect": "assertion"}]}],
    "native": {"src": "replay.cpp", "c_src": "native_slices.c", "diff_n_quick": 60000, "diff_n_thorough": 2000000, "libs": []},
    "not_covered": ["DisconnectTip moving prune locks back, UpdatePruneLock; which chainstate's range is used for which files",
                    "PruneOneBlockFile / UnlinkPrunedFiles themselves and the block-file bookkeeping (nHeightFirst / nHeightLast maintenance); usage accounting (CalculateCurrentUsage) and unsigned wrap of nCurrentUsage"],
    "assumptions": ["every prune lock's height_first is a block height (>= 0) or INT_MAX: applied where the field is read, not re-checked at call sites", "m_chain.Height(), the snapshot state and SnapshotBase()->nHeight are inputs of GetPruneRange; m_blockfile_info is an array of {nSize, nUndoSize, nHeightFirst, nHeightLast}",
                    "PruneOneBlockFile(k) is a cut point: the obligation is that file k is eligible at that moment (assertion in the stub)"],
    "manifest": {
        "category": "proof",
        "text": "partial: the prune-lock loop of FlushStateToDisk yields a requested height that is never negative, at least 1 once a lock is active, and at most lock.height_first - 11 for every active lock (floor 1); Chainstate::GetPruneRange returns (0,0) for an empty chain; otherwise the end is min(requested height, max(0, tip height - 288)) -- never within the last 288 blocks of the tip -- and the start is snapshot base + 1 exactly for a snapshot chainstate not yet validated (else 0); "
                "in both FindFilesToPruneManual and FindFilesToPrune (loops cut from blockstorage.cpp) a file is handed to PruneOneBlockFile only if it is non-empty, its highest block is <= the range end and its lowest block >= the range start, for any number of files; "
                "automatic pruning prunes a file only while usage + buffer >= target and prunes nothing when it starts below the target; a contract-only lemma: no pruned file contains a block above tip - 288.",
        "note": "Not covered: prune locks (the requested height), file bookkeeping, actual unlinking, usage accounting. Trusted: anchors, call-to-ghost rewrites.",
        "technique": "CBMC function contract on extracted GetPruneRange + loop contracts with cut-point assertions on anchor-delimited loops of FindFilesToPrune(Manual) (X-frag)",
    },
    "trusted_base": ["specs/C19/spec.c"],
}
