// C19 native harness: the ORIGINAL text of Chainstate::GetPruneRange and of the prune-lock loop of FlushStateToDisk (cut from the working tree's validation.cpp),
// compiled as C++ inside minimal stand-ins, next to the extracted C text and the statement-level oracle.  (The real call path needs a full node; the replay is
// against the real text, not the real call path.)
#include <algorithm>
#include <cassert>
#include <limits>
#include <map>
#include <optional>
#include <string>
#include <unordered_map>
#include "replay_util.h"
#define Assert(x) (x)
namespace shim {
static constexpr unsigned int MIN_BLOCKS_TO_KEEP = 288; static constexpr int PRUNE_LOCK_BUFFER{10};
enum class Assumeutxo { VALIDATED, UNVALIDATED, INVALID };
struct Idx { int nHeight; };
struct Chain { int h; int Height() const { return h; } };
struct PruneLockInfo { int height_first{std::numeric_limits<int>::max()}; };
struct BlockMan { std::unordered_map<std::string, PruneLockInfo> m_prune_locks; };
struct Chainstate {
    Chain m_chain; std::optional<int> m_from_snapshot_blockhash; Assumeutxo m_assumeutxo{Assumeutxo::VALIDATED}; Idx base{0}; BlockMan m_blockman;
    const Idx* SnapshotBase() const { return &base; }
    std::pair<int, int> GetPruneRange(int last_height_can_prune) const;
    int prune_lock_limit() {
#define LogDebug(...) ((void)0)
#include "orig_prune_lock_limit.inc"
        return last_prune; }
};
#include "orig_GetPruneRange.inc"
}
struct xRange { int first, second; }; struct xLock { int height_first; };
extern "C" { xRange xc_GetPruneRange(int, bool, bool, int, int); int xc_FlushStateToDisk_prune_lock_limit(int, const xLock*, size_t); }
#define BAD(...) do { rv::g_stats.real_violations++; if (rv::g_stats.real_violations <= 8) { std::printf("REAL-VIOLATION " __VA_ARGS__); std::printf("\n"); } } while (0)
#define DIS(...) do { rv::g_stats.disagreements++; if (rv::g_stats.disagreements <= 8) { std::printf("DISAGREE " __VA_ARGS__); std::printf("\n"); } } while (0)
int main(int argc, char** argv)
{
    auto a = rv::parse(argc, argv); rv::Rng r(a.seed); uint64_t n = a.diff ? a.n : 100000;
    for (uint64_t i = 0; i < n; i++) {
        shim::Chainstate cs; int h = r.below(4) ? (int)r.below(2000) : (int)r.below(3) - 1; cs.m_chain.h = h; bool snap = r.below(3) == 0, val = r.below(2); if (snap) cs.m_from_snapshot_blockhash = 1; cs.m_assumeutxo = val ? shim::Assumeutxo::VALIDATED : shim::Assumeutxo::UNVALIDATED; cs.base.nHeight = (int)r.below(1500);
        int req = r.below(5) ? (int)r.below(2200) : (int)r.below(5) - 2;
        auto pr = cs.GetPruneRange(req); xRange xr = xc_GetPruneRange(h, snap, val, cs.base.nHeight, req); rv::g_stats.inputs++;
        if (pr.first != xr.first || pr.second != xr.second) DIS("GetPruneRange(h=%d req=%d)", h, req);
        int wend = std::min(req, std::max(0, h - 288)), wstart = (snap && !val) ? cs.base.nHeight + 1 : 0; if (h <= 0) { wend = 0; wstart = 0; }
        if (pr.first != wstart || pr.second != wend) BAD("GetPruneRange(tip height %d, requested %d, snapshot=%d validated=%d base=%d) = (%d,%d), the statement says (%d,%d)", h, req, snap, val, cs.base.nHeight, pr.first, pr.second, wstart, wend);
        if (h >= 0) { size_t nl = r.below(4); std::vector<xLock> xl; for (size_t k = 0; k < nl; k++) { int hf = r.below(6) == 0 ? std::numeric_limits<int>::max() : (r.below(2) ? (int)r.below(30) : (int)r.below(2500)); cs.m_blockman.m_prune_locks["l" + std::to_string(k)].height_first = hf; }
            for (auto& kv : cs.m_blockman.m_prune_locks) xl.push_back(xLock{kv.second.height_first});
            int lp = cs.prune_lock_limit(); int xlp = xc_FlushStateToDisk_prune_lock_limit(h, xl.data(), xl.size()); rv::g_stats.inputs++;
            if (lp != xlp) DIS("prune lock limit h=%d", h);
            bool ok = lp >= 0; for (auto& l : xl) if (l.height_first != std::numeric_limits<int>::max() && lp > std::max(1, l.height_first - 11)) ok = false;
            if (!ok) BAD("prune-lock loop of FlushStateToDisk: tip height %d, %zu locks (first at %d) -> may prune up to height %d (negative, or above a lock minus its buffer)", h, xl.size(), xl.empty() ? -1 : xl[0].height_first, lp); }
    }
    rv::report();
    return rv::g_stats.real_violations ? 1 : (rv::g_stats.disagreements ? 3 : 0);
}
