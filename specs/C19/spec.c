/* C19 -- Pruning never deletes data the node still needs: prune range and the eligibility test of the two prune loops. */
#include "verif.h"
typedef struct { int first; int second; } PruneRange;
typedef struct { unsigned int nBlocks; unsigned int nSize; unsigned int nUndoSize; unsigned int nHeightFirst; unsigned int nHeightLast; uint64_t nTimeFirst, nTimeLast; } CBlockFileInfo;
static inline int verif_max_int(int a, int b) { return a < b ? b : a; }
static inline int verif_min_int(int a, int b) { return b < a ? b : a; }
int g_inserted, g_pruned; uint64_t g_usage_at_cut, g_buffer_at_cut, g_target;
int g_cut_mode;     /* 1: automatic pruning (usage must be at or above the target when a file is pruned) */

/* ---- FlushStateToDisk: the height up to which pruning is allowed, limited by the prune locks ---- */
typedef struct { int height_first; } PruneLockInfo;
#ifdef VERIF_CBMC
#define VERIF_READ_IN_DOMAIN(expr, lo, hi) ({ __typeof__(expr) v_ = (expr); __CPROVER_assume(v_ >= (lo) && v_ <= (hi)); v_; })
#else
#define VERIF_READ_IN_DOMAIN(expr, lo, hi) (expr)
#endif
size_t g_l;       /* arbitrary lock (forall) */
#ifdef TWIN_LOCKBUF
#define LOCK_LIMIT(k) ((int64_t)locks[k].height_first - 12)
#else
#define LOCK_LIMIT(k) ((int64_t)locks[k].height_first - 10 - 1)        /* 10 blocks of buffer and one more */
#endif
#define RESPECTS(k, v) (locks[k].height_first == INT_MAX || (int64_t)(v) <= (LOCK_LIMIT(k) > 1 ? LOCK_LIMIT(k) : 1))
#define LOOP_LOCKS \
    __CPROVER_assigns(i_l, last_prune, limiting_lock) \
    __CPROVER_loop_invariant(i_l <= n_locks && last_prune <= (chain_height > 1 ? chain_height : 1) && last_prune >= (chain_height < 1 ? chain_height : 1) && (g_l < i_l ==> RESPECTS(g_l, last_prune))) \
    __CPROVER_decreases(n_locks - i_l)
int FlushStateToDisk_prune_lock_limit(int chain_height, const PruneLockInfo* locks, size_t n_locks)
__CPROVER_requires(chain_height >= 0 && n_locks <= 0x100000 && __CPROVER_is_fresh(locks, sizeof(PruneLockInfo) * (n_locks > 0 ? n_locks : 1)))
__CPROVER_requires(g_l < n_locks ==> locks[g_l].height_first >= 0)
/* never negative (the prune range compares heights as unsigned), never above the tip, and below every active lock */
__CPROVER_ensures(__CPROVER_return_value >= 0 && __CPROVER_return_value <= (chain_height > 1 ? chain_height : 1) && (chain_height >= 1 ==> __CPROVER_return_value >= 1))
__CPROVER_ensures(g_l < n_locks ==> RESPECTS(g_l, __CPROVER_return_value))
__CPROVER_assigns();

#ifdef TWIN_288
#define KEEP 287
#else
#define KEEP 288
#endif
#define SPEC_END(h, req) ((req) < ((h) - KEEP > 0 ? (h) - KEEP : 0) ? (req) : ((h) - KEEP > 0 ? (h) - KEEP : 0))
PruneRange GetPruneRange(int chain_height, bool from_snapshot, bool snapshot_validated, int snapshot_base_height, int last_height_can_prune)
__CPROVER_requires(chain_height >= -1 && snapshot_base_height >= 0 && snapshot_base_height < INT_MAX)
__CPROVER_ensures(chain_height <= 0 ==> (__CPROVER_return_value.first == 0 && __CPROVER_return_value.second == 0))
__CPROVER_ensures(chain_height > 0 ==> (__CPROVER_return_value.second == SPEC_END(chain_height, last_height_can_prune) && __CPROVER_return_value.first == ((from_snapshot && !snapshot_validated) ? snapshot_base_height + 1 : 0)))
__CPROVER_assigns();

/* a file may be pruned only if it is non-empty and all its blocks lie inside [start, end] */
#ifdef TWIN_ELIGIBLE
#define ELIGIBLE(f, lo, hi) ((f)->nSize != 0 && (int64_t)(f)->nHeightLast < (int64_t)(hi) && (int64_t)(f)->nHeightFirst >= (int64_t)(lo))
#else
#define ELIGIBLE(f, lo, hi) ((f)->nSize != 0 && (int64_t)(f)->nHeightLast <= (int64_t)(hi) && (int64_t)(f)->nHeightFirst >= (int64_t)(lo))
#endif
static inline void PruneOneBlockFile_cut(const CBlockFileInfo* info, int k, int lo, int hi)
{
    __CPROVER_assert(ELIGIBLE(&info[k], lo, hi), "cut point: the file handed to PruneOneBlockFile is non-empty and all its blocks are inside the prune range");
#ifdef TWIN_TARGET
    __CPROVER_assert(!g_cut_mode || g_usage_at_cut + g_buffer_at_cut > g_target, "cut point (automatic): a file is pruned only while usage + buffer >= target");
#else
    __CPROVER_assert(!g_cut_mode || g_usage_at_cut + g_buffer_at_cut >= g_target, "cut point (automatic): a file is pruned only while usage + buffer >= target");
#endif
    g_pruned = g_pruned + 1;
}
#define FRESH_FILES (n_files >= 0 && n_files <= 0x1000000 && __CPROVER_is_fresh(blockfile_info, sizeof(CBlockFileInfo) * (n_files > 0 ? n_files : 1)))
#define LOOP_FILES_MANUAL \
    __CPROVER_assigns(fileNumber, count, g_inserted, g_pruned) \
    __CPROVER_loop_invariant(0 <= fileNumber && fileNumber <= n_files && 0 <= count && count <= fileNumber && g_pruned == count && g_inserted == count) \
    __CPROVER_decreases(n_files - fileNumber)
int FindFilesToPruneManual_loop(const CBlockFileInfo* blockfile_info, int n_files, int min_block_to_prune, int last_block_can_prune)
__CPROVER_requires(FRESH_FILES && min_block_to_prune >= 0 && last_block_can_prune >= 0 && g_inserted == 0 && g_pruned == 0 && g_cut_mode == 0)
__CPROVER_ensures(__CPROVER_return_value == g_pruned && g_inserted == g_pruned && __CPROVER_return_value >= 0 && __CPROVER_return_value <= n_files)
__CPROVER_assigns(g_inserted, g_pruned);

#define LOOP_FILES_AUTO \
    __CPROVER_assigns(fileNumber, count, nCurrentUsage, nBytesToPrune, g_inserted, g_pruned, g_usage_at_cut, g_buffer_at_cut) \
    __CPROVER_loop_invariant(0 <= fileNumber && fileNumber <= n_files && 0 <= count && count <= fileNumber && g_pruned == count && g_inserted == count) \
    __CPROVER_decreases(n_files - fileNumber)
int FindFilesToPrune_block(const CBlockFileInfo* blockfile_info, int n_files, int min_block_to_prune, int last_block_can_prune, uint64_t nCurrentUsage, uint64_t nBuffer, uint64_t target, int chain_height, bool is_ibd, uint64_t target_sync_height)
__CPROVER_requires(FRESH_FILES && min_block_to_prune >= 0 && last_block_can_prune >= 0 && g_inserted == 0 && g_pruned == 0 && g_cut_mode == 1 && g_target == target && chain_height >= 0)
__CPROVER_requires(nCurrentUsage <= ((uint64_t)1 << 62) && nBuffer <= ((uint64_t)1 << 40) && target_sync_height <= 0x7fffffff)
__CPROVER_ensures(__CPROVER_return_value == g_pruned && g_inserted == g_pruned && __CPROVER_return_value >= 0 && __CPROVER_return_value <= n_files)
/* nothing is pruned when the node starts below its target */
__CPROVER_ensures(nCurrentUsage + nBuffer < target ==> __CPROVER_return_value == 0)
__CPROVER_assigns(g_inserted, g_pruned, g_usage_at_cut, g_buffer_at_cut);

#include "slices.h"

int nondet_int(void); bool nondet_bool(void); uint64_t nondet_u64(void);
size_t nondet_size_t(void);
void h_prune_lock_limit(void) { const PruneLockInfo* l; g_l = nondet_size_t(); int r = FlushStateToDisk_prune_lock_limit(nondet_int(), l, nondet_size_t()); if (r == 1) VERIF_REACH_PT("floor"); if (r > 100) VERIF_REACH_PT("deep"); }
void h_GetPruneRange(void) { PruneRange r = GetPruneRange(nondet_int(), nondet_bool(), nondet_bool(), nondet_int(), nondet_int()); if (r.first > 0) VERIF_REACH_PT("snapshot start"); if (r.second > 1000) VERIF_REACH_PT("deep chain"); if (r.second == 0) VERIF_REACH_PT("nothing prunable"); }
void h_manual_loop(void) { const CBlockFileInfo* f; int n = FindFilesToPruneManual_loop(f, nondet_int(), nondet_int(), nondet_int()); if (n > 1) VERIF_REACH_PT("pruned several"); if (n == 0) VERIF_REACH_PT("pruned none"); }
void h_auto_block(void) { const CBlockFileInfo* f; g_target = nondet_u64(); int n = FindFilesToPrune_block(f, nondet_int(), nondet_int(), nondet_int(), nondet_u64(), nondet_u64(), g_target, nondet_int(), nondet_bool(), nondet_u64()); if (n > 1) VERIF_REACH_PT("pruned several"); if (n == 0) VERIF_REACH_PT("pruned none"); }
/* lemma (contracts only): with the range GetPruneRange returns, an eligible file holds no block above tip - 288 */
void h_lemma_tip_window(void)
{
    int h = nondet_int(), base = nondet_int(); __CPROVER_assume(h >= 1 && base >= 0 && base < INT_MAX);
    PruneLockInfo lk[2]; g_l = nondet_size_t(); __CPROVER_assume(lk[0].height_first >= 0 && lk[1].height_first >= 0);
    int req = FlushStateToDisk_prune_lock_limit(h, lk, 2);
    __CPROVER_assert(req >= 0, "the height handed to the prune range is never negative (it is compared as unsigned against file heights)");
    PruneRange r = GetPruneRange(h, nondet_bool(), nondet_bool(), base, req);
    __CPROVER_assert(r.second >= 0 && r.first >= 0, "the prune range handed to the file loops is non-negative (their precondition)");
    CBlockFileInfo f; __CPROVER_assume(ELIGIBLE(&f, r.first, r.second));
#ifdef TWIN_WINDOW
    __CPROVER_assert((int64_t)f.nHeightLast <= (int64_t)h - 289, "twin");
#else
    __CPROVER_assert((int64_t)f.nHeightLast <= (int64_t)h - 288 || f.nHeightLast == 0, "an eligible file has no block within the last 288 blocks of the tip");
    __CPROVER_assert((int64_t)f.nHeightLast <= (int64_t)req, "nor above the height the caller allowed (prune locks enter here)");
#endif
    VERIF_REACH_PT("lemma end");
}
