#include "verif.h"
enum { RBF_OK = 0, RBF_LESS_FEES, RBF_NOT_ENOUGH_ADDITIONAL };
enum { DIAGRAM_OK = 0, DIAGRAM_UNCALCULABLE, DIAGRAM_FAILURE };
enum { ORD_LESS = -1, ORD_EQUIVALENT = 0, ORD_GREATER = 1, ORD_UNORDERED = 2 };
CAmount g_relay_cost; bool g_chunks_ok; int g_ordering;
static inline CAmount RelayFee_GetFee(size_t vsize) { return g_relay_cost; }
static inline bool CalculateChunksForRBF_ok(void) { return g_chunks_ok; }
static inline int CompareChunks_new_vs_old(void) { return g_ordering; }
static inline bool std_is_eq(int o) { return o == ORD_EQUIVALENT; }
static inline bool std_is_neq(int o) { return o != ORD_EQUIVALENT; }
static inline bool std_is_lt(int o) { return o == ORD_LESS; }
static inline bool std_is_lteq(int o) { return o == ORD_LESS || o == ORD_EQUIVALENT; }
static inline bool std_is_gt(int o) { return o == ORD_GREATER; }
static inline bool std_is_gteq(int o) { return o == ORD_GREATER || o == ORD_EQUIVALENT; }
#include "slices.h"
