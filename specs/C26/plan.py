import os, sys
sys.path.insert(0, os.path.dirname(os.path.dirname(os.path.abspath(__file__))))
from engine.extract import R

RBF = "src/policy/rbf.cpp"
SLICES = [
    {"name": "PaysForRBF", "kind": "func", "file": RBF, "head": r"std::optional<std::string> PaysForRBF\(CAmount original_fees,\s*CAmount replacement_fees,\s*size_t replacement_vsize,\s*CFeeRate relay_fee,\s*const Txid& txid\)",
     "rules": [R("head: error string -> reason code; the relay fee rate's GetFee(vsize) is a ghost input", r"std::optional<std::string> PaysForRBF\(CAmount original_fees,\s*CAmount replacement_fees,\s*size_t replacement_vsize,\s*CFeeRate relay_fee,\s*const Txid& txid\)",
                 "int PaysForRBF(CAmount original_fees, CAmount replacement_fees, size_t replacement_vsize)"),
               R("error: less fees (Rule 3)", r'return strprintf\("rejecting replacement %s, less fees than conflicting txs(?:[^"\\]|\\.)*"(?:[^;"]|"(?:[^"\\]|\\.)*")*\);', "return RBF_LESS_FEES;", False),
               R("error: not enough additional fees (Rule 4)", r'return strprintf\("rejecting replacement %s, not enough additional fees to relay(?:[^"\\]|\\.)*"(?:[^;"]|"(?:[^"\\]|\\.)*")*\);', "return RBF_NOT_ENOUGH_ADDITIONAL;", False),
               R("ghost:relay_fee.GetFee(replacement_vsize)", r"relay_fee\.GetFee\(replacement_vsize\)", "RelayFee_GetFee(replacement_vsize)", False),
               R("return std::nullopt -> 0", r"return std::nullopt;", "return 0;", False)]},
    {"name": "ImprovesFeerateDiagram", "kind": "func", "file": RBF, "head": r"std::optional<std::pair<DiagramCheckError, std::string>> ImprovesFeerateDiagram\(CTxMemPool::ChangeSet& changeset\)",
     "rules": [R("head: (error kind, text) -> error kind; the chunking result and the diagram comparison are ghost inputs", r"std::optional<std::pair<DiagramCheckError, std::string>> ImprovesFeerateDiagram\(CTxMemPool::ChangeSet& changeset\)", "int ImprovesFeerateDiagram(void)"),
               R("ghost:changeset.CalculateChunksForRBF()", r"const auto chunk_results\{changeset\.CalculateChunksForRBF\(\)\};", "const bool chunk_results_ok = CalculateChunksForRBF_ok();", False),
               R("ghost:chunk_results.has_value()", r"chunk_results\.has_value\(\)", "chunk_results_ok", False),
               R("error: uncalculable", r"return std::make_pair\(DiagramCheckError::UNCALCULABLE, [^;]*\);", "return DIAGRAM_UNCALCULABLE;", False),
               R("error: failure", r"return std::make_pair\(DiagramCheckError::FAILURE, [^;]*\);", "return DIAGRAM_FAILURE;", False),
               R("std::is_XX on the partial ordering (function kept by name)", r"std::is_(\w+)\(", r"std_is_\1(", False),
               R("ghost:CompareChunks(new diagram, old diagram)", r"CompareChunks\(chunk_results\.value\(\)\.second, chunk_results\.value\(\)\.first\)", "CompareChunks_new_vs_old()", False),
               R("return std::nullopt -> 0", r"return std::nullopt;", "return 0;", False)]},
]
def H(name, fn, twins=(), **kw):
    d = {"name": name, "enforce": fn, "twins": [{"define": t, "expect": "postcondition"} for t in twins]}
    d.update(kw)
    return d
PLAN = {
    "id": "C26", "level": "proof", "slices": SLICES, "spec": "spec.c", "default_solver": ["cadical", "z3"],
    "harnesses": [H("h_PaysForRBF", "PaysForRBF", ["TWIN_RULE4"]), H("h_ImprovesFeerateDiagram", "ImprovesFeerateDiagram", ["TWIN_DIAGRAM"])],
    "native": {"src": "replay.cpp", "c_src": "native_slices.c", "libs": ["libbitcoin_common.a", "libbitcoin_consensus.a", "libbitcoin_util.a", "libbitcoin_clientversion.a", "libbitcoin_crypto.a"]},
    "not_covered": ["the conflict / eviction set (GetEntriesForConflicts: direct conflicts and all descendants, the 100-cluster limit), EntriesAndTxidsDisjoint, TRUC sibling eviction, package RBF -- mempool state (boost::multi_index, txgraph) outside the extractor's subset",
                    "CalculateChunksForRBF and CompareChunks themselves (the diagram comparison's definition: C30 not covered either); the feerate's GetFee is C30"],
    "assumptions": ["relay_fee.GetFee(replacement_vsize) is a ghost input (its meaning: C30); the chunking result and the comparison of the two feerate diagrams are ghost inputs (a partial ordering: less / equivalent / greater / unordered)",
                    "std::is_gt / is_lteq / ... are modelled with the C++20 semantics on partial orderings (unordered makes every one of them false except is_neq)"],
    "manifest": {
        "category": "proof",
        "text": "partial (the two arithmetic / decision rules): PaysForRBF accepts iff the replacement pays at least the fees of what it evicts (Rule 3) and the difference is at least the relay fee for its own size (Rule 4), with no overflow for fees in range and the right reason otherwise; "
                "ImprovesFeerateDiagram accepts iff the chunking succeeded and the new diagram compares strictly greater than the old one -- equal, worse and INCOMPARABLE (crossing) diagrams are all rejected.",
        "note": "Not covered (most of the statement): conflict-set construction, cluster limit, disjointness, TRUC / package paths, the diagram comparison itself. Trusted: call-to-ghost rewrites.",
        "technique": "CBMC function contracts on extracted policy/rbf.cpp decision functions with ghost inputs for mempool-dependent values",
    },
    "trusted_base": ["specs/C26/spec.c"],
}
