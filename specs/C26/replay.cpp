// C26 native harness: the ORIGINAL text of PaysForRBF and ImprovesFeerateDiagram (cut from the working tree's policy/rbf.cpp) compiled against the real CFeeRate /
// std::partial_ordering with minimal stand-ins for the mempool change set, next to the extracted C text and the statement's rules.
#include <consensus/amount.h>
#include <policy/feerate.h>
#include <primitives/transaction.h>
#include <tinyformat.h>
#include <util/moneystr.h>
#include <compare>
#include <optional>
#include <string>
#include "replay_util.h"
static int g_ord_script; static bool g_chunks_script;
namespace standin {
enum class DiagramCheckError { UNCALCULABLE, FAILURE };
struct FeeFracS {}; using Chunks = std::vector<FeeFracS>;
struct ChunkResult { bool ok; std::pair<Chunks, Chunks> v; bool has_value() const { return ok; } const std::pair<Chunks, Chunks>& value() const { return v; } };
struct ErrS { std::string original; };
namespace util { inline ErrS ErrorString(const ChunkResult&) { return {"uncalculable"}; } }
struct CTxMemPool { struct ChangeSet { ChunkResult CalculateChunksForRBF() { return {g_chunks_script, {}}; } }; };
inline std::partial_ordering CompareChunks(const Chunks&, const Chunks&) { return g_ord_script == -1 ? std::partial_ordering::less : g_ord_script == 0 ? std::partial_ordering::equivalent : g_ord_script == 1 ? std::partial_ordering::greater : std::partial_ordering::unordered; }
#include "orig_PaysForRBF.inc"
#include "orig_ImprovesFeerateDiagram.inc"
}
extern "C" { extern CAmount g_relay_cost; extern bool g_chunks_ok; extern int g_ordering; int xc_PaysForRBF(CAmount, CAmount, size_t); int xc_ImprovesFeerateDiagram(void); }
#define BAD(...) do { rv::g_stats.real_violations++; if (rv::g_stats.real_violations <= 8) { std::printf("REAL-VIOLATION " __VA_ARGS__); std::printf("\n"); } } while (0)
#define DIS(...) do { rv::g_stats.disagreements++; if (rv::g_stats.disagreements <= 8) { std::printf("DISAGREE " __VA_ARGS__); std::printf("\n"); } } while (0)
int main(int argc, char** argv)
{
    auto a = rv::parse(argc, argv); rv::Rng r(a.seed); uint64_t n = a.diff ? a.n : 100000; static const std::vector<int64_t> E = {0, 1, 1000, 10000, 30000, 2100000000000000LL};
    for (uint64_t i = 0; i < n; i++) {
        CAmount orig = std::min<int64_t>(std::max<int64_t>(0, r.pick(E)), 2100000000000000LL), rep = r.below(2) ? orig + (int64_t)r.below(5000) - 1000 : std::min<int64_t>(std::max<int64_t>(0, r.pick(E)), 2100000000000000LL); if (rep < 0) rep = 0;
        size_t vs = 1 + r.below(100000); CFeeRate relay((CAmount)r.below(5000), 1000); CAmount cost = relay.GetFee((int32_t)vs);
        if (r.below(3) == 0) rep = std::min<int64_t>(2100000000000000LL, orig + cost + (int64_t)r.below(3) - 1);
        auto res = standin::PaysForRBF(orig, rep, vs, relay, Txid{}); g_relay_cost = cost; int xr = xc_PaysForRBF(orig, rep, vs);
        int want = rep < orig ? 1 : (rep - orig < cost ? 2 : 0); int real = !res ? 0 : (res->find("less fees") != std::string::npos ? 1 : 2);
        rv::g_stats.inputs++;
        if (real != xr) DIS("PaysForRBF real %d extracted %d", real, xr);
        if (real != want) BAD("PaysForRBF(original fees %lld, replacement fees %lld, vsize %zu, relay cost %lld) -> %s, Rules 3/4 say %s", (long long)orig, (long long)rep, vs, (long long)cost, real ? res->c_str() : "ok", want == 0 ? "ok" : want == 1 ? "less fees" : "not enough additional fees");
    }
    for (int ok = 0; ok < 2; ok++) for (int ord = -1; ord <= 2; ord++) {
        g_chunks_script = ok; g_ord_script = ord; standin::CTxMemPool::ChangeSet cs; auto res = standin::ImprovesFeerateDiagram(cs); g_chunks_ok = ok; g_ordering = ord; int xr = xc_ImprovesFeerateDiagram();
        int real = !res ? 0 : (res->first == standin::DiagramCheckError::UNCALCULABLE ? 1 : 2); int want = !ok ? 1 : (ord == 1 ? 0 : 2); rv::g_stats.inputs++;
        if (real != xr) DIS("ImprovesFeerateDiagram real %d extracted %d", real, xr);
        if (real != want) BAD("ImprovesFeerateDiagram: chunking %s, new diagram is %s the old one -> %s; a replacement must STRICTLY improve the diagram", ok ? "ok" : "failed", ord == -1 ? "worse than" : ord == 0 ? "equal to" : ord == 1 ? "better than" : "incomparable with (crosses)", real == 0 ? "accepted" : "rejected");
    }
    rv::report();
    return rv::g_stats.real_violations ? 1 : (rv::g_stats.disagreements ? 3 : 0);
}
