/* C26 -- Replacements pay for themselves and strictly improve the feerate diagram (the two decision rules of policy/rbf.cpp). */
#include "verif.h"
enum { RBF_OK = 0, RBF_LESS_FEES, RBF_NOT_ENOUGH_ADDITIONAL };
enum { DIAGRAM_OK = 0, DIAGRAM_UNCALCULABLE, DIAGRAM_FAILURE };
enum { ORD_LESS = -1, ORD_EQUIVALENT = 0, ORD_GREATER = 1, ORD_UNORDERED = 2 };      /* std::partial_ordering */
CAmount g_relay_cost; bool g_chunks_ok; int g_ordering;
static inline CAmount RelayFee_GetFee(size_t vsize) { return g_relay_cost; }
static inline bool CalculateChunksForRBF_ok(void) { return g_chunks_ok; }
static inline int CompareChunks_new_vs_old(void) { return g_ordering; }
/* C++20 [compare.alg]: is_gt(o) = o > 0, ...; for an unordered partial_ordering every relational test is false */
static inline bool std_is_eq(int o) { return o == ORD_EQUIVALENT; }
static inline bool std_is_neq(int o) { return o != ORD_EQUIVALENT; }
static inline bool std_is_lt(int o) { return o == ORD_LESS; }
static inline bool std_is_lteq(int o) { return o == ORD_LESS || o == ORD_EQUIVALENT; }
static inline bool std_is_gt(int o) { return o == ORD_GREATER; }
static inline bool std_is_gteq(int o) { return o == ORD_GREATER || o == ORD_EQUIVALENT; }

#define SPEC_MAX_MONEY ((int64_t)2100000000000000LL)
#define MR(v) ((v) >= 0 && (v) <= SPEC_MAX_MONEY)
#ifdef TWIN_RULE4
#define RULE4 (replacement_fees - original_fees > g_relay_cost)
#else
#define RULE4 (replacement_fees - original_fees >= g_relay_cost)
#endif
int PaysForRBF(CAmount original_fees, CAmount replacement_fees, size_t replacement_vsize)
__CPROVER_requires(MR(original_fees) && MR(replacement_fees))
__CPROVER_ensures(__CPROVER_return_value == (replacement_fees < original_fees ? RBF_LESS_FEES : !RULE4 ? RBF_NOT_ENOUGH_ADDITIONAL : RBF_OK))
__CPROVER_assigns();

#ifdef TWIN_DIAGRAM
#define IMPROVES (g_ordering != ORD_LESS && g_ordering != ORD_EQUIVALENT)
#else
#define IMPROVES (g_ordering == ORD_GREATER)          /* strictly better; a crossing (unordered) diagram is not an improvement */
#endif
int ImprovesFeerateDiagram(void)
__CPROVER_requires(g_ordering >= -1 && g_ordering <= 2)
__CPROVER_ensures(__CPROVER_return_value == (!g_chunks_ok ? DIAGRAM_UNCALCULABLE : !IMPROVES ? DIAGRAM_FAILURE : DIAGRAM_OK))
__CPROVER_assigns();

#include "slices.h"
CAmount nondet_amount(void); size_t nondet_size_t(void); bool nondet_bool(void); int nondet_int(void);
void h_PaysForRBF(void) { g_relay_cost = nondet_amount(); int r = PaysForRBF(nondet_amount(), nondet_amount(), nondet_size_t()); if (r == 0) VERIF_REACH_PT("pays"); if (r == 1) VERIF_REACH_PT("less fees"); if (r == 2) VERIF_REACH_PT("not enough"); }
void h_ImprovesFeerateDiagram(void) { g_chunks_ok = nondet_bool(); g_ordering = nondet_int(); int r = ImprovesFeerateDiagram(); if (r == 0) VERIF_REACH_PT("improves"); if (r == 1) VERIF_REACH_PT("uncalculable"); if (r == 2 && g_ordering == ORD_UNORDERED) VERIF_REACH_PT("crossing diagrams rejected"); }
