import os, sys, copy
sys.path.insert(0, os.path.dirname(os.path.dirname(os.path.abspath(__file__))))
from C11.plan import PLAN as P11

PLAN = copy.deepcopy(P11)
PLAN["id"] = "C28"
PLAN["spec"] = "../C11/spec.c"
PLAN["native"] = dict(P11["native"], src="../C11/replay.cpp", c_src="../C11/native_slices.c")
PLAN["not_covered"] = ["the first sentence of the statement: test-accept (testmempoolaccept / ATMP with test_accept) is faithful and free of side effects -- mempool and validation state histories, outside this technique's reach here",
                       "monotonicity of EvalScript / ExecuteWitnessScript / VerifyScript in their flags, which the second sentence also needs: only the flag-set inclusion and the witness-program dispatch (VerifyWitnessProgram) are proved monotone"]
PLAN["manifest"] = {
    "category": "proof",
    "text": "partial (second sentence, flag-set half): the consensus script flags of any block under any deployment state (GetBlockScriptFlags, extracted each run) are a subset of the standard policy flags, MANDATORY is a subset of STANDARD, and every chainparams exception value is a subset of STANDARD -- "
            "so a transaction checked under the policy flags was checked under at least every consensus flag of the next block and the witness-program dispatch VerifyWitnessProgram is proved monotone in its flags given a monotone ExecuteWitnessScript (same obligations as C11).",
    "note": "Not covered: test-accept faithfulness and side-effect freedom (first sentence); EvalScript / VerifyScript monotonicity in flags (assumed for ExecuteWitnessScript in the dispatch lemma). Same engine and obligations as C11.",
    "technique": "CBMC function contracts on extracted VerifyWitnessProgram and GetBlockScriptFlags + contract-only lemmas (flag monotonicity of the dispatch; subset facts over constants extracted from policy.h / interpreter.h / chainparams.cpp)",
}
PLAN["trusted_base"] = ["specs/C11/spec.c"]
