import os, sys, copy
sys.path.insert(0, os.path.dirname(os.path.dirname(os.path.abspath(__file__))))
from C11.plan import PLAN as P11

PLAN = copy.deepcopy(P11)
PLAN["id"] = "C28"
PLAN["spec"] = "../C11/spec.c"
PLAN["native"] = {"src": "../C11/replay.cpp", "c_src": "../C11/native_slices.c", "libs": []}
PLAN["not_covered"] = ["the first sentence of the statement: test-accept (testmempoolaccept / ATMP with test_accept) is faithful and free of side effects -- mempool and validation state histories, outside this technique's reach here",
                       "monotonicity of script verification in its flags (C11's uncovered half), which the second sentence also needs: only the flag-set inclusion is proved"]
PLAN["manifest"] = {
    "category": "proof",
    "text": "partial (second sentence, flag-set half): the consensus script flags of any block under any deployment state (GetBlockScriptFlags, extracted each run) are a subset of the standard policy flags, MANDATORY is a subset of STANDARD, and every chainparams exception value is a subset of STANDARD -- "
            "so a transaction checked under the policy flags was checked under at least every consensus flag of the next block (same obligations as C11).",
    "note": "Not covered: test-accept faithfulness and side-effect freedom (first sentence); interpreter monotonicity in flags. Same engine and obligations as C11.",
    "technique": "CBMC function contract on extracted GetBlockScriptFlags + contract-only lemma over constants extracted from policy.h / interpreter.h / chainparams.cpp",
}
PLAN["trusted_base"] = ["specs/C11/spec.c"]
