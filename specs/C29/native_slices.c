#include "verif.h"
#include <assert.h>
#define C29_CONSTS
#include "slices.h"
#undef C29_CONSTS
typedef struct { size_t n; int64_t total_weight; size_t distinct; bool consistent; const size_t* vin_size; const size_t* const* parent; const bool* spent_by_last; } PackageView;
typedef struct { size_t size; size_t first; } TxidSet;
typedef struct { int mode_invalid; int result; uint32_t reason; } PackageValidationState;
static inline bool PackageState_Invalid(PackageValidationState* state, int result, uint32_t reason) { state->result = result; state->reason = reason; state->mode_invalid = 1; return 0; }
#define Assume(c) do { bool assume_c_ = (c); (void)assume_c_; } while (0)
#define LOOP_TXS
#define LOOP_INPUTS
#define NONE ((size_t)-1)
static inline int64_t Package_total_weight(const PackageView* p) { return p->total_weight; }
static inline TxidSet TxidSet_of_package(const PackageView* p) { TxidSet s = {p->distinct, 0}; return s; }
static inline size_t Tx_vin_size(const PackageView* p, size_t i) { return p->vin_size[i]; }
static inline bool TxidSet_contains_prevout_hash(const TxidSet* s, const PackageView* p, size_t i, size_t j) { size_t par = p->parent[i][j]; return par != NONE && par >= s->first; }
static inline size_t TxidSet_erase_txid_of(TxidSet* s, const PackageView* p, size_t i) { s->first = s->first + 1; s->size = s->size - 1; return 1; }
bool xc_IsTopoSortedPackage(const PackageView* txns, TxidSet* later_txids);
static inline bool IsTopoSortedPackage_stub(const PackageView* p, TxidSet* s) { return xc_IsTopoSortedPackage(p, s); }
static inline bool IsConsistentPackage_stub(const PackageView* p) { return p->consistent; }
typedef struct { size_t of_tx; } InputTxidSet;
static inline InputTxidSet InputTxidSet_of(const PackageView* p, size_t tx) { InputTxidSet s = {tx}; return s; }
static inline bool AllTxidsBelowAreIn(const PackageView* p, size_t below, const InputTxidSet* s) { for (size_t k = 0; k < below; k++) if (!p->spent_by_last[k]) return 0; return 1; }
#define C29_F_CWP
#define C29_F_TOPO
#define C29_F_WF
#include "slices.h"
