import os, sys
sys.path.insert(0, os.path.dirname(os.path.dirname(os.path.abspath(__file__))))
from engine.extract import R, invalid_rule, reason_hash

PC, PH = "src/policy/packages.cpp", "src/policy/packages.h"
SLICES = [
    {"name": "MAX_PACKAGE_COUNT", "kind": "const", "file": PH, "pat": r"inline constexpr uint32_t MAX_PACKAGE_COUNT\{(\d+)\};", "emit": r"static const uint32_t MAX_PACKAGE_COUNT = \1;"},
    {"name": "MAX_PACKAGE_WEIGHT", "kind": "const", "file": PH, "pat": r"inline constexpr uint32_t MAX_PACKAGE_WEIGHT = ([\d']+);", "emit": r"static const uint32_t MAX_PACKAGE_WEIGHT = \1;"},
    {"name": "PackageValidationResult", "kind": "const", "file": PH, "pat": r"enum class PackageValidationResult \{[^}]*\};", "emit": r"\g<0>", "rules": [R("enum class -> enum", r"enum class PackageValidationResult", "enum PackageValidationResult_c", True)]},
    {"name": "IsTopoSortedPackage", "kind": "func", "file": PC, "head": r"bool IsTopoSortedPackage\(const Package& txns, std::unordered_set<Txid, SaltedTxidHasher>& later_txids\)",
     "rules": [R("head: the txid set as the view 'txids of txns[first..]'", r"bool IsTopoSortedPackage\(const Package& txns, std::unordered_set<Txid, SaltedTxidHasher>& later_txids\)", "bool IsTopoSortedPackage(const PackageView* txns, TxidSet* later_txids)"),
               R("member:txns.size()", r"txns\.size\(\)", "txns->n", True), R("set:size()", r"later_txids\.size\(\)", "later_txids->size", True), R("set:empty()", r"later_txids\.empty\(\)", "(later_txids->size == 0)", True),
               R("rangefor:tx over txns", r"for \(const auto& tx : txns\)", "for (size_t i_tx = 0; i_tx < txns->n; i_tx++)", True),
               R("rangefor:input over tx->vin", r"for \(const auto& input : tx->vin\)", "for (size_t i_in = 0; i_in < Tx_vin_size(txns, i_tx); i_in++)", True),
               R("set:contains(prevout.hash)", r"later_txids\.contains\(input\.prevout\.hash\)", "TxidSet_contains_prevout_hash(later_txids, txns, i_tx, i_in)", True),
               R("set:erase(txid)", r"later_txids\.erase\(tx->GetHash\(\)\)", "TxidSet_erase_txid_of(later_txids, txns, i_tx)", True)],
     "loops": [{"match": r"\bi_tx = 0\b", "contract": "LOOP_TXS", "prologue": "((void)0)"}, {"match": r"\bi_in = 0\b", "contract": "LOOP_INPUTS", "prologue": "((void)0)"}]},
    {"name": "IsWellFormedPackage", "kind": "func", "file": PC, "head": r"bool IsWellFormedPackage\(const Package& txns, PackageValidationState& state\)",
     "rules": [R("head", r"bool IsWellFormedPackage\(const Package& txns, PackageValidationState& state\)", "bool IsWellFormedPackage(const PackageView* txns, PackageValidationState* state)"),
               R("member:txns.size()", r"txns\.size\(\)", "txns->n", True),
               R("ghost:sum of transaction weights (std::accumulate + lambda)", r"std::accumulate\(txns\.cbegin\(\), txns\.cend\(\), 0,\s*\[\]\(int64_t sum, const auto& tx\) \{ return sum \+ GetTransactionWeight\(\*tx\); \}\)", "Package_total_weight(txns)", True),
               R("ghost:set of the package's txids (std::transform + inserter)", r"std::unordered_set<Txid, SaltedTxidHasher> later_txids;\s*std::transform\(txns\.cbegin\(\), txns\.cend\(\), std::inserter\(later_txids, later_txids\.end\(\)\),\s*\[\]\(const auto& tx\) \{ return tx->GetHash\(\); \}\);", "TxidSet later_txids = TxidSet_of_package(txns);", True),
               R("set:size()", r"later_txids\.size\(\)", "later_txids.size", True),
               R("stub:IsTopoSortedPackage", r"IsTopoSortedPackage\(txns, later_txids\)", "IsTopoSortedPackage_stub(txns, &later_txids)", True), R("stub:IsConsistentPackage", r"IsConsistentPackage\(txns\)", "IsConsistentPackage_stub(txns)", True),
               invalid_rule(r"state\.", "PackageValidationResult", "PackageState_Invalid")]},
    {"name": "IsChildWithParents", "kind": "func", "file": PC, "head": r"bool IsChildWithParents\(const Package& package\)",
     "rules": [R("head", r"bool IsChildWithParents\(const Package& package\)", "bool IsChildWithParents(const PackageView* package)"),
               R("drop:assert(no null transaction)", r"assert\(std::all_of\(package\.cbegin\(\), package\.cend\(\), \[\]\(const auto& tx\)\{return tx != nullptr;\}\)\);", "", True),
               R("member:package.size()", r"package\.size\(\)", "package->n", True),
               R("view:the child is the last transaction", r"const auto& child = package\.back\(\);", "const size_t child = package->n - 1;", True),
               R("ghost:set of the txids the child's inputs spend (std::transform + inserter)", r"std::unordered_set<Txid, SaltedTxidHasher> input_txids;\s*std::transform\(child->vin\.cbegin\(\), child->vin\.cend\(\),\s*std::inserter\(input_txids, input_txids\.end\(\)\),\s*\[\]\(const auto& input\) \{ return input\.prevout\.hash; \}\);", "InputTxidSet input_txids = InputTxidSet_of(package, child);", True),
               R("ghost:all_of over every transaction but the last: its txid is in the set", r"std::all_of\(package\.cbegin\(\), package\.cend\(\) - 1,\s*\[&input_txids\]\(const auto& ptx\) \{ return input_txids\.contains\(ptx->GetHash\(\)\); \}\)", "AllTxidsBelowAreIn(package, package->n - 1, &input_txids)", True)]},
]
for _s in SLICES:
    _s["guard"] = "C29_CONSTS" if _s["kind"] == "const" else {"IsTopoSortedPackage": "C29_F_TOPO", "IsChildWithParents": "C29_F_CWP"}.get(_s["name"], "C29_F_WF")
RH = {"SPEC_R_" + r.replace("-", "_"): reason_hash(r) for r in ("package-too-many-transactions", "package-too-large", "package-contains-duplicates", "package-not-sorted", "conflict-in-package")}
PLAN = {
    "id": "C29", "level": "proof", "slices": SLICES, "spec": "spec.c", "default_solver": ["cadical", "z3"], "cc_defines": [f"{k}={v:#x}u" for k, v in RH.items()],
    "harnesses": [
        {"name": "h_IsWellFormedPackage", "enforce": "IsWellFormedPackage", "defines": ["C29_TU_WF"], "twins": [{"define": "TWIN_26", "expect": "postcondition"}]},
        {"name": "h_IsChildWithParents", "enforce": "IsChildWithParents", "defines": ["C29_TU_CWP"], "twins": [{"define": "TWIN_CWP", "expect": "postcondition"}]},
        {"name": "h_IsTopoSortedPackage", "enforce": "IsTopoSortedPackage", "loop_contracts": True, "defines": ["C29_TU_TOPO"], "twins": [{"define": "TWIN_SELF", "expect": "postcondition|loop_invariant"}]},
    ],
    "native": {"src": "replay.cpp", "c_src": "native_slices.c", "repo_sources": ["src/policy/packages.cpp"], "diff_n_quick": 5000, "diff_n_thorough": 150000,
               "libs": ["libbitcoin_common.a", "libbitcoin_consensus.a", "libbitcoin_util.a", "libbitcoin_clientversion.a", "libbitcoin_crypto.a", "/repo/_build/src/secp256k1/lib/libsecp256k1.a"]},
    "not_covered": ["IsConsistentPackage (std::transform / std::inserter with lambdas over an unordered set: rendering it would be a rewrite, not an extraction) -- its verdict is an input here; IsChildWithParents is extracted only in the weak sense that each of its two STL expressions is matched verbatim and replaced by a ghost (set of the child's input txids; 'every earlier txid is in it'), so the contract pins the text and the two-transaction minimum, and any other shape of the body falls back to the native oracle on the real function",
                    "everything after the well-formedness gate: AcceptPackage, the 'no dangling children' and result-reporting clauses of the statement (mempool histories)"],
    "assumptions": ["the sum of transaction weights (std::accumulate) and the set of the package's txids (std::transform) are ghost values: total weight >= 0, number of distinct txids <= package size",
                    "IsTopoSortedPackage: under its documented precondition (later_txids = the txids of txns, all distinct) the set is the view 'txids of txns[first..]': contains(h) holds iff h is the txid of a package transaction at index >= first (a ghost parent index per input), erase(txid of tx i) requires i == first"],
    "manifest": {
        "category": "proof",
        "text": "partial (the well-formedness gate): IsWellFormedPackage accepts iff the package has at most 25 transactions, (one transaction or) total weight at most 404,000, no duplicate txids, is topologically sorted and free of conflicts -- checked in that order, each failure with its reason (package-too-many-transactions, package-too-large, package-contains-duplicates, package-not-sorted, conflict-in-package); "
                "IsChildWithParents requires at least two transactions and every transaction but the last to be spent by the last (STL expressions pinned verbatim); IsTopoSortedPackage returns false exactly when some input of some transaction spends a package transaction placed at the same or a later position.",
        "note": "Not covered: IsConsistentPackage / IsChildWithParents bodies, AcceptPackage and the mempool-state clauses.",
        "technique": "CBMC function contracts (loop contracts with a pinned input) on extracted policy/packages.cpp functions, set operations as ghost views",
    },
    "trusted_base": ["specs/C29/spec.c"],
}
