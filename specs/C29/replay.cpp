// C29 native harness: the real IsWellFormedPackage / IsTopoSortedPackage (policy/packages.cpp of the working tree) vs the extracted text vs the statement's gate
// (at most 25 transactions, total weight at most 404,000 unless a single transaction, no duplicate txids, parents before children, no conflicting inputs).
#include <policy/packages.h>
#include <consensus/validation.h>
#include <primitives/transaction.h>
#include <script/script.h>
#include <set>
#include <memory>
#include <map>
#include "replay_util.h"
#define BAD(...) do { rv::g_stats.real_violations++; if (rv::g_stats.real_violations <= 8) { std::printf("REAL-VIOLATION " __VA_ARGS__); std::printf("\n"); } } while (0)
#define DIS(...) do { rv::g_stats.disagreements++; if (rv::g_stats.disagreements <= 8) { std::printf("DISAGREE " __VA_ARGS__); std::printf("\n"); } } while (0)
static uint32_t fnv(const std::string& s) { uint32_t h = 0x811C9DC5u; for (unsigned char c : s) h = (h ^ c) * 0x01000193u; return h | 1; }
struct xPackage { size_t n; int64_t total_weight; size_t distinct; bool consistent; const size_t* vin_size; const size_t* const* parent; const bool* spent_by_last; };
extern "C" bool xc_IsChildWithParents(const xPackage*);
struct xState { int mode_invalid; int result; uint32_t reason; };
extern "C" bool xc_IsWellFormedPackage(const xPackage*, xState*);
static CTransactionRef mk(rv::Rng& r, const std::vector<COutPoint>& ins, size_t pad_sig, size_t pad_wit, uint32_t tag) { CMutableTransaction m; for (auto& o : ins) { CTxIn in; in.prevout = o; m.vin.push_back(in); } if (!m.vin.empty()) { m.vin[0].scriptSig = CScript() << std::vector<unsigned char>(pad_sig, 1); if (pad_wit) m.vin[0].scriptWitness.stack = {std::vector<unsigned char>(pad_wit, 2)}; }
    m.vout.resize(2); m.vout[0].nValue = 1000; m.vout[1].nValue = tag; m.nLockTime = tag; return MakeTransactionRef(m); }
static void run(const Package& pkg, const char* what)
{
    size_t n = pkg.size(); int64_t total = 0; std::set<Txid> ids; std::map<Txid, size_t> idx; for (size_t k = 0; k < n; k++) { total += GetTransactionWeight(*pkg[k]); ids.insert(pkg[k]->GetHash()); idx[pkg[k]->GetHash()] = k; }
    bool dup = ids.size() != n; bool sorted = true, consistent = true; std::set<COutPoint> seen;
    std::vector<std::vector<size_t>> par(n); std::vector<size_t> vsz(n); std::vector<const size_t*> parp(n);
    for (size_t k = 0; k < n; k++) { if (pkg[k]->vin.empty()) consistent = false; for (auto& in : pkg[k]->vin) { auto it = idx.find(Txid::FromUint256(in.prevout.hash.ToUint256())); size_t p = (size_t)-1; if (it != idx.end()) { p = it->second; if (!dup && p >= k) sorted = false; } par[k].push_back(p); if (seen.count(in.prevout)) consistent = false; }
        for (auto& in : pkg[k]->vin) seen.insert(in.prevout); vsz[k] = pkg[k]->vin.size(); par[k].push_back(0); parp[k] = par[k].data(); }
    bool want = n <= 25 && (n <= 1 || total <= 404000) && !dup && sorted && consistent;
    std::string wr = n > 25 ? "package-too-many-transactions" : (n > 1 && total > 404000) ? "package-too-large" : dup ? "package-contains-duplicates" : !sorted ? "package-not-sorted" : !consistent ? "conflict-in-package" : "";
    PackageValidationState st; bool got = IsWellFormedPackage(pkg, st); rv::g_stats.inputs++;
    std::unique_ptr<bool[]> sbl(new bool[n + 1]); std::set<Txid> child_in; if (n) for (auto& in : pkg[n - 1]->vin) child_in.insert(in.prevout.hash); for (size_t k = 0; k < n; k++) sbl[k] = child_in.count(pkg[k]->GetHash()) != 0;
    xPackage xp{n, total, ids.size(), IsConsistentPackage(pkg), vsz.data(), parp.data(), sbl.get()}; xState xs{0, 0, 0}; bool xg = dup && n <= 25 && (n <= 1 || total <= 404000) ? got : xc_IsWellFormedPackage(&xp, &xs);
    if (got != xg || (!got && !(dup && n <= 25) && xs.mode_invalid && fnv(st.GetRejectReason()) != xs.reason)) DIS("IsWellFormedPackage (%s): real %d/%s, extracted %d/%08x", what, got, st.GetRejectReason().c_str(), xg, xs.reason);
    { bool cwp = IsChildWithParents(pkg); bool wcwp = n >= 2; for (size_t k = 0; k + 1 < n; k++) wcwp = wcwp && sbl[k]; rv::g_stats.inputs++; if (cwp != xc_IsChildWithParents(&xp)) DIS("IsChildWithParents"); if (cwp != wcwp) BAD("IsChildWithParents (%s: %zu transactions) = %d, but %s transaction before the last is spent by the last", what, n, cwp, wcwp ? "every" : "not every"); }
    if (got != want || (!got && st.GetRejectReason() != wr)) BAD("IsWellFormedPackage (%s: %zu transactions, total weight %lld, duplicates %d, sorted %d, conflict-free %d) = %d (%s), the rules say %d (%s)", what, n, (long long)total, dup, sorted, consistent, got, st.GetRejectReason().c_str(), want, wr.c_str());
}
int main(int argc, char** argv)
{
    auto a = rv::parse(argc, argv); rv::Rng r(a.seed); uint64_t n = a.diff ? a.n : 5000;
    for (uint64_t it = 0; it < n; it++) {
        Package pkg; size_t k = r.below(6) == 0 ? 24 + r.below(4) : 1 + r.below(6); int mode = (int)r.below(7);
        for (size_t i = 0; i < k; i++) { std::vector<COutPoint> ins; size_t ni = 1 + r.below(3); for (size_t j = 0; j < ni; j++) { if (!pkg.empty() && r.below(2)) ins.emplace_back(pkg[r.below(pkg.size())]->GetHash(), (uint32_t)r.below(2)); else ins.emplace_back(Txid::FromUint256(uint256{(uint8_t)(1 + r.below(250))}), (uint32_t)(it * 64 + i * 4 + j)); }
            std::set<COutPoint> u(ins.begin(), ins.end()); ins.assign(u.begin(), u.end()); pkg.push_back(mk(r, ins, r.below(40), 0, (uint32_t)(it * 32 + i))); }
        if (mode == 1 && pkg.size() >= 2) std::swap(pkg[r.below(pkg.size())], pkg[r.below(pkg.size())]);                       // possibly unsorted
        if (mode == 2 && pkg.size() >= 2) pkg[pkg.size() - 1] = pkg[r.below(pkg.size() - 1)];                                    // duplicate
        if (mode == 3 && pkg.size() >= 2) { CMutableTransaction m(*pkg.back()); m.vin[0].prevout = pkg[0]->vin[0].prevout; pkg.back() = MakeTransactionRef(m); }   // conflict
        if (mode == 4) { CMutableTransaction m(*pkg.back()); m.vin[0].prevout = COutPoint(Txid::FromUint256(uint256{9}), 7); uint256 self = MakeTransactionRef(m)->GetHash().ToUint256(); (void)self; pkg.back() = MakeTransactionRef(m); }
        if (mode == 5) { CMutableTransaction m; m.vout.resize(1); pkg.push_back(MakeTransactionRef(m)); }                      // a transaction without inputs
        run(pkg, "random package");
        { // child-with-parents shapes: k parents, a child spending some outputs of each (sometimes two outputs of one parent), sometimes an unrelated transaction in between
          Package cp; size_t np = 1 + r.below(4); std::vector<COutPoint> cin; for (size_t i = 0; i < np; i++) { cp.push_back(mk(r, {COutPoint(Txid::FromUint256(uint256{(uint8_t)(60 + i)}), (uint32_t)it)}, r.below(10), 0, (uint32_t)(it * 16 + i))); cin.emplace_back(cp.back()->GetHash(), 0); if (r.below(3) == 0) cin.emplace_back(cp.back()->GetHash(), 1); }
          if (r.below(3) == 0) cp.push_back(mk(r, {COutPoint(Txid::FromUint256(uint256{99}), (uint32_t)it)}, 3, 0, (uint32_t)(it * 16 + 9)));     // unrelated
          if (r.below(5) == 0 && !cin.empty()) cin.erase(cin.begin() + r.below(cin.size()));
          cp.push_back(mk(r, cin.empty() ? std::vector<COutPoint>{COutPoint(Txid::FromUint256(uint256{98}), 1)} : cin, 5, 0, (uint32_t)(it * 16 + 10))); run(cp, "child with parents"); }
        // weight boundary: two transactions padded so that the total weight is 403,999 .. 404,002
        { int64_t target = 404000 + (int64_t)r.below(4) - 1; auto t0 = mk(r, {COutPoint(Txid::FromUint256(uint256{3}), (uint32_t)it)}, 50000, 0, 1); int64_t w0 = GetTransactionWeight(*t0); std::vector<COutPoint> in1{COutPoint(t0->GetHash(), 0)}; auto probe = mk(r, in1, 40000, 1, 2); int64_t wp = GetTransactionWeight(*probe);
          int64_t need = target - w0 - wp; size_t extra_sig = need > 0 ? (size_t)(need / 4) : 0; size_t extra_wit = need > 0 ? (size_t)(need % 4) : 0; auto t1 = mk(r, in1, 40000 + extra_sig, 1 + extra_wit, 2); Package p2{t0, t1}; run(p2, "two transactions at the weight limit"); if (r.below(4) == 0) { Package p1{t1}; run(p1, "single transaction"); } }
    }
    rv::report();
    return rv::g_stats.real_violations ? 1 : (rv::g_stats.disagreements ? 3 : 0);
}
