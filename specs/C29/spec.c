/* C29: package well-formedness gate (policy/packages.cpp). */
#include "verif.h"
#define C29_CONSTS
#include "slices.h"
#undef C29_CONSTS
bool nondet_bool(void); size_t nondet_size_t(void); int64_t nondet_i64(void);
typedef struct { size_t n; } PackageView;
typedef struct { size_t size; size_t first; } TxidSet;       /* view of an unordered_set<Txid>: number of elements; for the suffix view, the first package index still in the set */
typedef struct { int mode_invalid; int result; uint32_t reason; } PackageValidationState;
static inline bool PackageState_Invalid(PackageValidationState* state, int result, uint32_t reason) { state->result = result; state->reason = reason; state->mode_invalid = 1; return 0; }
#define Assume(c) do { bool assume_c_ = (c); __CPROVER_assert(assume_c_, "Assume() in the original holds"); } while (0)

#ifdef C29_TU_WF
#define C29_F_WF
int64_t g_total_weight; size_t g_distinct; bool g_sorted, g_consistent; bool g_topo_called, g_cons_called;
static inline int64_t Package_total_weight(const PackageView* p) { return g_total_weight; }
static inline TxidSet TxidSet_of_package(const PackageView* p) { TxidSet s = {g_distinct, 0}; return s; }
static inline bool IsTopoSortedPackage_stub(const PackageView* p, TxidSet* s) { __CPROVER_assert(s->size == p->n, "IsTopoSortedPackage is given a set with one txid per transaction"); g_topo_called = 1; return g_sorted; }
static inline bool IsConsistentPackage_stub(const PackageView* p) { g_cons_called = 1; return g_consistent; }
#define WF_ERR(r) (!__CPROVER_return_value && state->mode_invalid == 1 && state->result == PCKG_POLICY && state->reason == (r))
#ifdef TWIN_26
#define COUNT_OK (txns->n <= 26)
#else
#define COUNT_OK (txns->n <= 25)
#endif
#define WEIGHT_OK (txns->n <= 1 || g_total_weight <= 404000)
VERIF_REACH_DECL(IsWellFormedPackage)
bool IsWellFormedPackage(const PackageView* txns, PackageValidationState* state)
__CPROVER_requires(__CPROVER_is_fresh(txns, sizeof(PackageView)) && __CPROVER_is_fresh(state, sizeof(PackageValidationState)) && state->mode_invalid == 0 && txns->n <= 0xffffffffu && g_total_weight >= 0 && g_distinct <= txns->n && g_sorted <= 1 && g_consistent <= 1 && !g_topo_called && !g_cons_called)
__CPROVER_ensures((__CPROVER_return_value != 0) == (COUNT_OK && WEIGHT_OK && g_distinct == txns->n && g_sorted && g_consistent))
__CPROVER_ensures(!COUNT_OK ==> WF_ERR(SPEC_R_package_too_many_transactions))
__CPROVER_ensures((COUNT_OK && !WEIGHT_OK) ==> WF_ERR(SPEC_R_package_too_large))
__CPROVER_ensures((COUNT_OK && WEIGHT_OK && g_distinct != txns->n) ==> (WF_ERR(SPEC_R_package_contains_duplicates) && !g_topo_called))
__CPROVER_ensures((COUNT_OK && WEIGHT_OK && g_distinct == txns->n && !g_sorted) ==> WF_ERR(SPEC_R_package_not_sorted))
__CPROVER_ensures((COUNT_OK && WEIGHT_OK && g_distinct == txns->n && g_sorted && !g_consistent) ==> WF_ERR(SPEC_R_conflict_in_package))
__CPROVER_ensures(__CPROVER_return_value ==> state->mode_invalid == 0)
VERIF_REACH_ENSURES(IsWellFormedPackage, __CPROVER_return_value && txns->n == 25 && g_total_weight == 404000)
VERIF_REACH_ENSURES(IsWellFormedPackage, WF_ERR(SPEC_R_package_too_large) && g_total_weight == 404001 && txns->n == 2)
VERIF_REACH_ENSURES(IsWellFormedPackage, __CPROVER_return_value && txns->n == 1 && g_total_weight == 500000)
__CPROVER_assigns(state->mode_invalid, state->result, state->reason, g_topo_called, g_cons_called);
#endif

#ifdef C29_TU_TOPO
#define C29_F_TOPO
#define NONE ((size_t)-1)
size_t g_i, g_j; size_t g_parent;          /* pinned input (transaction g_i, input g_j) and the package index of the transaction it spends (NONE: not a package transaction) */
size_t g_ci, g_cj, g_cparent;              /* last input looked at */
size_t g_vin_i_size;                       /* number of inputs of transaction g_i */
static inline size_t Tx_vin_size(const PackageView* p, size_t i) { __CPROVER_assert(i < p->n, "txns[i] exists"); if (i == g_i) return g_vin_i_size; size_t s = nondet_size_t(); __CPROVER_assume(s <= 0x02000000); return s; }
static inline bool TxidSet_contains_prevout_hash(const TxidSet* s, const PackageView* p, size_t i, size_t j)
{ size_t par = (i == g_i && j == g_j) ? g_parent : nondet_size_t(); __CPROVER_assume(par == NONE || par < p->n); g_ci = i; g_cj = j; g_cparent = par; return par != NONE && par >= s->first; }
static inline size_t TxidSet_erase_txid_of(TxidSet* s, const PackageView* p, size_t i) { __CPROVER_assert(i == s->first && s->size > 0, "the erased txid is the oldest one still in the set"); s->first = s->first + 1; s->size = s->size - 1; return 1; }
#ifdef TWIN_SELF
#define SPENDS_LATER(par, i) ((par) != NONE && (par) > (i))
#else
#define SPENDS_LATER(par, i) ((par) != NONE && (par) >= (i))
#endif
#define LOOP_TXS \
    __CPROVER_assigns(i_tx, later_txids->first, later_txids->size, g_ci, g_cj, g_cparent) \
    __CPROVER_loop_invariant(i_tx <= txns->n && later_txids->first == i_tx && later_txids->size == txns->n - i_tx && ((g_i < i_tx && g_j < g_vin_i_size) ==> !SPENDS_LATER(g_parent, g_i))) \
    __CPROVER_decreases(txns->n - i_tx)
#define LOOP_INPUTS \
    __CPROVER_assigns(i_in, g_ci, g_cj, g_cparent) \
    __CPROVER_loop_invariant(((i_tx == g_i && g_j < i_in && g_j < g_vin_i_size) ==> !SPENDS_LATER(g_parent, g_i))) \
    __CPROVER_decreases(0x02000001 - i_in)
VERIF_REACH_DECL(IsTopoSortedPackage)
bool IsTopoSortedPackage(const PackageView* txns, TxidSet* later_txids)
__CPROVER_requires(__CPROVER_is_fresh(txns, sizeof(PackageView)) && __CPROVER_is_fresh(later_txids, sizeof(TxidSet)) && txns->n <= 0x02000000 && later_txids->size == txns->n && later_txids->first == 0 && g_vin_i_size <= 0x02000000 && (g_parent == NONE || g_parent < txns->n))
/* sorted <=> no input spends a package transaction at the same or a later position */
__CPROVER_ensures((__CPROVER_return_value && g_i < txns->n && g_j < g_vin_i_size) ==> !SPENDS_LATER(g_parent, g_i))
__CPROVER_ensures(!__CPROVER_return_value ==> (g_ci < txns->n && SPENDS_LATER(g_cparent, g_ci)))
__CPROVER_ensures(__CPROVER_return_value ==> later_txids->size == 0)
VERIF_REACH_ENSURES(IsTopoSortedPackage, __CPROVER_return_value && txns->n == 3 && g_i == 2 && g_parent == 1 && g_j < g_vin_i_size)
VERIF_REACH_ENSURES(IsTopoSortedPackage, !__CPROVER_return_value && g_ci == 1 && g_cparent == 1)
__CPROVER_assigns(later_txids->first, later_txids->size, g_ci, g_cj, g_cparent);
#endif

#ifdef C29_TU_CWP
#define C29_F_CWP
typedef struct { size_t of_tx; } InputTxidSet;       /* the set of txids spent by the inputs of transaction of_tx */
size_t g_p; bool g_p_is_parent;                     /* pinned package position below the child, and whether the child spends that transaction */
size_t g_first_nonparent;                           /* position of the first transaction the child does not spend, or n - 1 */
static inline InputTxidSet InputTxidSet_of(const PackageView* p, size_t tx) { __CPROVER_assert(tx == p->n - 1, "the set is built from the LAST transaction's inputs"); InputTxidSet s = {tx}; return s; }
static inline bool AllTxidsBelowAreIn(const PackageView* p, size_t below, const InputTxidSet* s) { __CPROVER_assert(below == p->n - 1 && s->of_tx == p->n - 1, "all_of ranges over every transaction but the last"); return g_first_nonparent == below; }
bool IsChildWithParents(const PackageView* package)
__CPROVER_requires(__CPROVER_is_fresh(package, sizeof(PackageView)) && package->n <= 0x02000000 && g_first_nonparent <= (package->n > 0 ? package->n - 1 : 0) && ((g_p < g_first_nonparent) ==> g_p_is_parent) && ((g_p == g_first_nonparent && package->n >= 1 && g_p < package->n - 1) ==> !g_p_is_parent))
#ifdef TWIN_CWP
__CPROVER_ensures(package->n == 1 ==> __CPROVER_return_value)
#endif
__CPROVER_ensures(package->n < 2 ==> !__CPROVER_return_value)
__CPROVER_ensures((__CPROVER_return_value && package->n >= 1 && g_p < package->n - 1) ==> g_p_is_parent)                   /* accepted: every transaction but the last is a parent of the last */
__CPROVER_ensures((!__CPROVER_return_value && package->n >= 2) ==> g_first_nonparent < package->n - 1)      /* rejected (two or more): some earlier transaction is not spent by the last */
__CPROVER_assigns();
#endif

#include "slices.h"
#ifdef C29_TU_CWP
void h_IsChildWithParents(void) { const PackageView* p; g_p = nondet_size_t(); g_p_is_parent = nondet_bool(); g_first_nonparent = nondet_size_t(); bool r = IsChildWithParents(p); if (r) VERIF_REACH_PT("child with parents"); else VERIF_REACH_PT("not"); }
#endif
#ifdef C29_TU_WF
void h_IsWellFormedPackage(void) { const PackageView* p; PackageValidationState* st; g_total_weight = nondet_i64(); g_distinct = nondet_size_t(); g_sorted = nondet_bool(); g_consistent = nondet_bool(); VERIF_REACH_ON(IsWellFormedPackage); IsWellFormedPackage(p, st); }
#endif
#ifdef C29_TU_TOPO
void h_IsTopoSortedPackage(void) { const PackageView* p; TxidSet* s; g_i = nondet_size_t(); g_j = nondet_size_t(); g_parent = nondet_size_t(); g_vin_i_size = nondet_size_t(); VERIF_REACH_ON(IsTopoSortedPackage); IsTopoSortedPackage(p, s); }
#endif
