/* native build (clang, C) of the extracted feefrac / feerate slices */
#include "verif.h"
typedef struct { int64_t fee; int32_t size; } FeeFrac;
#define VERIF_CMP3(x, y) ((x) < (y) ? -1 : (x) > (y) ? 1 : 0)
#undef VERIF_ASSERT
#define VERIF_ASSERT(c) ((void)0)
#include "slices.h"
