import os, sys
sys.path.insert(0, os.path.dirname(os.path.dirname(os.path.abspath(__file__))))
from engine.extract import R

FF = "src/util/feefrac.h"
PAIRHEAD = r"static inline std::pair<int64_t, uint32_t> MulFallback\(int64_t a, int32_t b\) noexcept"
ASSUME = R("Assume(cond) -> assertion (the caller's obligation)", r"\bAssume\(", "VERIF_ASSERT(", False)
def mulfb(name, sel):
    return {"name": name, "kind": "func", "file": FF, "head": PAIRHEAD,
            "rules": [R("pair-view:" + name, PAIRHEAD, f"int64_t {name}(int64_t a, int32_t b)"),
                      R("pair component " + sel, r"return \{([^,;]*), ([^;]*)\};", r"return \1;" if sel == "first" else r"return (int64_t)(\2);")]}
def evalfee(name, down):
    return {"name": name, "kind": "func", "file": FF, "head": r"template<bool RoundDown>\s*int64_t EvaluateFee\(int32_t at_size\) const noexcept",
            "rules": [R("template-instance:EvaluateFee<%s> as a function of (fee, size, at_size)" % ("true" if down else "false"), r"template<bool RoundDown>\s*int64_t EvaluateFee\(int32_t at_size\) const noexcept", f"int64_t {name}(int64_t fee, int32_t size, int32_t at_size)"),
                      ASSUME, R("if constexpr (RoundDown)", r"if constexpr \(RoundDown\)", "if (%d)" % (1 if down else 0), False), R("template arg RoundDown", r"\bRoundDown\b", "%d" % (1 if down else 0), False),
                      R("call:CeilDiv<u64,u32>", r"\bCeilDiv\(", "CeilDiv_u64_u32(", False),
                      R("static member Div", r"(?<![\w.>])Div\(", "FeeFrac_Div(", False), R("static member Mul", r"(?<![\w.>])Mul\(", "FeeFrac_Mul(", False)]}
def cmpop(op, cname):
    head = r"friend bool operator" + re.escape(op) + r"\(const ByRatio& a, const ByRatio& b\) noexcept"
    return {"name": cname, "kind": "func", "file": FF, "within_class": r"class ByRatio\b(?!Neg)", "head": head,
            "rules": [R("operator-head:ByRatio " + op, head, f"bool {cname}(const FeeFrac* a, const FeeFrac* b)")] + CROSS}
import re
CROSS = [R("T::Mul(a.fee, b.size)", r"auto cross_a = T::Mul\(a\.m_feefrac\.fee, b\.m_feefrac\.size\);", "__int128 cross_a = FeeFrac_Mul(a->fee, b->size);", False),
         R("T::Mul(b.fee, a.size)", r"auto cross_b = T::Mul\(b\.m_feefrac\.fee, a\.m_feefrac\.size\);", "__int128 cross_b = FeeFrac_Mul(b->fee, a->size);", False)]
SLICES = [
    mulfb("MulFallback_hi", "first"), mulfb("MulFallback_lo", "second"),
    {"name": "DivFallback", "kind": "func", "file": FF, "head": r"static inline int64_t DivFallback\(std::pair<int64_t, uint32_t> n, int32_t d, bool round_down\) noexcept",
     "rules": [R("pair param -> two scalars", r"static inline int64_t DivFallback\(std::pair<int64_t, uint32_t> n, int32_t d, bool round_down\) noexcept", "int64_t DivFallback(int64_t n_first, uint32_t n_second, int32_t d, bool round_down)"),
               R("n.first", r"\bn\.first\b", "n_first", False), R("n.second", r"\bn\.second\b", "n_second", False), ASSUME]},
    {"name": "Mul", "cname": "FeeFrac_Mul", "kind": "func", "file": FF, "head": r"static inline __int128 Mul\(int64_t a, int32_t b\) noexcept",
     "rules": [R("head:FeeFrac::Mul", r"static inline __int128 Mul\(int64_t a, int32_t b\) noexcept", "__int128 FeeFrac_Mul(int64_t a, int32_t b)"), R("brace-cast __int128{a}", r"__int128\{a\}", "((__int128)(a))", False)]},
    {"name": "Div", "cname": "FeeFrac_Div", "kind": "func", "file": FF, "head": r"static inline int64_t Div\(__int128 n, int32_t d, bool round_down\) noexcept",
     "rules": [R("head:FeeFrac::Div", r"static inline int64_t Div\(__int128 n, int32_t d, bool round_down\) noexcept", "int64_t FeeFrac_Div(__int128 n, int32_t d, bool round_down)"), ASSUME]},
    {"name": "CeilDiv_u64_u32", "kind": "func", "file": "src/util/overflow.h",
     "head": r"template <std::unsigned_integral Dividend, std::unsigned_integral Divisor>\s*\[\[nodiscard\]\] constexpr auto CeilDiv\(const Dividend dividend, const Divisor divisor\)",
     "rules": [R("template-instance:CeilDiv<uint64_t,uint32_t>", r"template <std::unsigned_integral Dividend, std::unsigned_integral Divisor>\s*\[\[nodiscard\]\] constexpr auto CeilDiv\(const Dividend dividend, const Divisor divisor\)",
                 "uint64_t CeilDiv_u64_u32(const uint64_t dividend, const uint32_t divisor)"), R("assert", r"\bassert\(", "VERIF_ASSERT(", False)]},
    evalfee("EvaluateFeeDown_", True), evalfee("EvaluateFeeUp_", False),
    {"name": "IsEmpty", "cname": "FeeFrac_IsEmpty", "kind": "func", "file": FF, "head": r"bool inline IsEmpty\(\) const noexcept",
     "rules": [R("head:FeeFrac::IsEmpty as a function of size", r"bool inline IsEmpty\(\) const noexcept", "bool FeeFrac_IsEmpty(int32_t size)")]},
    {"name": "GetFee", "cname": "CFeeRate_GetFee", "kind": "func", "file": "src/policy/feerate.cpp", "head": r"CAmount CFeeRate::GetFee\(int32_t virtual_bytes\)",
     "rules": [R("head:CFeeRate::GetFee as a function of (m_feerate.fee, m_feerate.size, virtual_bytes)", r"CAmount CFeeRate::GetFee\(int32_t virtual_bytes\) const", "CAmount CFeeRate_GetFee(int64_t fee, int32_t size, int32_t virtual_bytes)"),
               ASSUME, R("call:m_feerate.IsEmpty()", r"m_feerate\.IsEmpty\(\)", "FeeFrac_IsEmpty(size)", False),
               R("call:m_feerate.EvaluateFeeUp", r"m_feerate\.EvaluateFeeUp\(", "EvaluateFeeUp_(fee, size, ", False), R("member:m_feerate.fee", r"m_feerate\.fee", "fee", False),
               R("functional cast CAmount(x)", r"\bCAmount\(", "(CAmount)(", False)]},
    cmpop("==", "ByRatio_eq"), cmpop("<", "ByRatio_lt"), cmpop(">", "ByRatio_gt"), cmpop("<=", "ByRatio_le"), cmpop(">=", "ByRatio_ge"),
    {"name": "ByRatio_cmp", "kind": "func", "file": FF, "within_class": r"class ByRatio\b(?!Neg)", "head": r"friend std::strong_ordering operator<=>\(const ByRatio& a, const ByRatio& b\) noexcept",
     "rules": [R("operator-head:ByRatio <=>", r"friend std::strong_ordering operator<=>\(const ByRatio& a, const ByRatio& b\) noexcept", "int ByRatio_cmp(const FeeFrac* a, const FeeFrac* b)"),
               R("three-way compare of integers", r"return cross_a <=> cross_b;", "return VERIF_CMP3(cross_a, cross_b);", False)] + CROSS},
    {"name": "ByRatioNegSize_cmp", "kind": "func", "file": FF, "within_class": r"class ByRatioNegSize", "head": r"friend std::strong_ordering operator<=>\(const ByRatioNegSize& a, const ByRatioNegSize& b\) noexcept",
     "rules": [R("operator-head:ByRatioNegSize <=>", r"friend std::strong_ordering operator<=>\(const ByRatioNegSize& a, const ByRatioNegSize& b\) noexcept", "int ByRatioNegSize_cmp(const FeeFrac* a, const FeeFrac* b)"),
               R("three-way compare of integers", r"auto cmp = cross_a <=> cross_b;", "int cmp = VERIF_CMP3(cross_a, cross_b);", False),
               R("three-way compare of sizes", r"return b\.m_feefrac\.size <=> a\.m_feefrac\.size;", "return VERIF_CMP3(b->size, a->size);", False)] + CROSS},
]

def H(name, fn, twins=(), **kw):
    d = {"name": name, "enforce": fn, "twins": [{"define": t, "expect": "postcondition"} for t in twins]}
    d.update(kw)
    return d

PLAN = {
    "id": "C30", "level": "proof", "slices": SLICES, "spec": "spec.c", "default_solver": ["cadical", "z3"],
    "wp_int": {"file": "wp.json"},
    "harnesses": [
        H("h_Mul", "FeeFrac_Mul"),
        H("h_ByRatio_eq", "ByRatio_eq", replace=["FeeFrac_Mul"]), H("h_ByRatio_lt", "ByRatio_lt", ["TWIN_LT"], replace=["FeeFrac_Mul"]), H("h_ByRatio_gt", "ByRatio_gt", replace=["FeeFrac_Mul"]),
        H("h_ByRatio_le", "ByRatio_le", replace=["FeeFrac_Mul"]), H("h_ByRatio_ge", "ByRatio_ge", replace=["FeeFrac_Mul"]), H("h_ByRatio_cmp", "ByRatio_cmp", replace=["FeeFrac_Mul"]),
        H("h_ByRatioNegSize_cmp", "ByRatioNegSize_cmp", ["TWIN_NEGSIZE"], replace=["FeeFrac_Mul"]),
        {"name": "h_lemma_order_is_rational", "replace": ["ByRatio_lt", "ByRatio_eq"]},
    ],
    "native": {"src": "replay.cpp", "c_src": "native_slices.c", "repo_sources": ["src/policy/feerate.cpp"], "diff_n_quick": 60000, "diff_n_thorough": 3000000,
               "libs": ["libbitcoin_common.a", "libbitcoin_util.a", "libbitcoin_clientversion.a", "libbitcoin_crypto.a"]},
    "not_covered": ["CompareChunks (feerate-diagram comparison): capturing lambdas over std::span / std::array, outside the extractor's subset",
                    "FeeFrac operator+ / - / += / -= overflow behaviour (callers' obligation)"],
    "assumptions": ["B2 (engine/wp_int.py): Div / DivFallback / MulFallback / EvaluateFee / CeilDiv / GetFee are symbolically executed over mathematical integers, every arithmetic step range-checked against its C type; explicit casts to unsigned types are modular; the generator is tested against the machine on every run",
                    "the sign lemma 'a/b < c/d <=> a*d < c*b for b, d > 0' is the definition of comparing rationals by cross-multiplication (stated in the lemma harness over __int128 products)"],
    "manifest": {
        "category": "proof",
        "text": "core: ByRatio ==,<,>,<=,>=,<=> are each the corresponding comparison of the exact 128-bit cross products fee_a*size_b vs fee_b*size_a (so for positive sizes exactly the order of the rationals fee/size), ByRatioNegSize <=> breaks ties by larger size first; "
                "over mathematical integers (WP-Int back end, every machine operation range-checked): Div(n,d) is floor resp. ceiling of n/d for d > 0, DivFallback on the (hi, lo) limbs equals Div on hi*2^32+lo, MulFallback's limbs represent exactly a*b, "
                "EvaluateFee's 64-bit fast path (0 <= fee < 2^33) never wraps and equals the 128-bit path, rounds exactly down / up, and CFeeRate::GetFee rounds a non-negative rate up to the next satoshi (with the -1 special case for negative rates that round to 0).",
        "note": "Not covered: CompareChunks. Division/multiplication facts are discharged by the WP-Int back end written for this task (z3 Int), comparisons and structure by CBMC.",
        "technique": "CBMC function contracts on extracted ByRatio / ByRatioNegSize operators (shared 128-bit products) + WP-Int (symbolic execution over z3 Int with per-operation range obligations) for Mul/Div/EvaluateFee/GetFee and their lemmas",
    },
    "trusted_base": ["specs/C30/spec.c", "specs/C30/wp_spec.c", "engine/wp_int.py"],
}
