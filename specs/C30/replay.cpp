// C30 native harness: the real FeeFrac (util/feefrac.h) and CFeeRate::GetFee (policy/feerate.cpp from the working tree) vs the extracted C text vs exact
// __int128 references; plus the self-test vectors of the WP-Int generator against the machine.
#include <policy/feerate.h>
#include <util/feefrac.h>
#include <fstream>
#include <sstream>
#include "replay_util.h"
struct xFF { int64_t fee; int32_t size; };
extern "C" { int64_t xc_MulFallback_hi(int64_t, int32_t); int64_t xc_MulFallback_lo(int64_t, int32_t); int64_t xc_DivFallback(int64_t, uint32_t, int32_t, bool); __int128 xc_FeeFrac_Mul(int64_t, int32_t); int64_t xc_FeeFrac_Div(__int128, int32_t, bool);
  int64_t xc_EvaluateFeeDown_(int64_t, int32_t, int32_t); int64_t xc_EvaluateFeeUp_(int64_t, int32_t, int32_t); int64_t xc_CFeeRate_GetFee(int64_t, int32_t, int32_t);
  bool xc_ByRatio_lt(const xFF*, const xFF*); bool xc_ByRatio_eq(const xFF*, const xFF*); int xc_ByRatio_cmp(const xFF*, const xFF*); int xc_ByRatioNegSize_cmp(const xFF*, const xFF*); }
#define BAD(...) do { rv::g_stats.real_violations++; if (rv::g_stats.real_violations <= 8) { std::printf("REAL-VIOLATION " __VA_ARGS__); std::printf("\n"); } } while (0)
#define DIS(...) do { rv::g_stats.disagreements++; if (rv::g_stats.disagreements <= 8) { std::printf("DISAGREE " __VA_ARGS__); std::printf("\n"); } } while (0)
static __int128 fdiv(__int128 n, __int128 d) { __int128 q = n / d; if ((n % d != 0) && ((n < 0) != (d < 0))) q--; return q; }
static __int128 cdiv(__int128 n, __int128 d) { return -fdiv(-n, d); }
static int64_t rnd_fee(rv::Rng& r) { static const std::vector<int64_t> E = {0, 1, -1, (int64_t)1 << 32, (int64_t)1 << 33, ((int64_t)1 << 33) - 1, (int64_t)1 << 34, ((int64_t)1 << 34) - 1, 0x3ffffffffLL, 2100000000000000LL, -2100000000000000LL, INT64_MAX, INT64_MIN}; return r.pick(E); }
static int32_t rnd_size(rv::Rng& r) { static const std::vector<int64_t> E = {1, 2, 0x7fffffff, 0x40000000, 0x40000001, 1000, 4000000, 98765432}; int64_t v = r.pick(E); v = v < 0 ? -v : v; return (int32_t)std::max<int64_t>(1, std::min<int64_t>(v, 0x7fffffff)); }
static void one(rv::Rng& r)
{
    int64_t fee = rnd_fee(r), fee2 = r.below(3) ? rnd_fee(r) : fee; int32_t size = rnd_size(r), size2 = r.below(3) ? rnd_size(r) : size, at = r.below(4) ? rnd_size(r) : (int32_t)r.below(2);
    rv::g_stats.inputs++;
    // Mul / MulFallback
    auto mf = FeeFrac::MulFallback(fee, at); __int128 m = FeeFrac::Mul(fee, at), want = (__int128)fee * at;
    if (m != want || ((__int128)mf.first << 32) + mf.second != want) BAD("Mul/MulFallback(%lld, %d)", (long long)fee, at);
    if (xc_FeeFrac_Mul(fee, at) != m || xc_MulFallback_hi(fee, at) != mf.first || xc_MulFallback_lo(fee, at) != (int64_t)mf.second) DIS("Mul(%lld,%d)", (long long)fee, at);
    // Div / DivFallback when the result fits
    for (bool rd : {true, false}) { __int128 q = rd ? fdiv(want, size) : cdiv(want, size); if (q > INT64_MAX - 1 || q < INT64_MIN + 1) continue;
        int64_t a = FeeFrac::Div(m, size, rd), b = FeeFrac::DivFallback(mf, size, rd);
        if (a != q || b != q) BAD("Div/DivFallback(%lld * %d, %d, round_down=%d) = %lld / %lld, exact %s is %lld", (long long)fee, at, size, rd, (long long)a, (long long)b, rd ? "floor" : "ceiling", (long long)q);
        if (xc_FeeFrac_Div(m, size, rd) != a || xc_DivFallback(mf.first, mf.second, size, rd) != b) DIS("Div(%lld*%d/%d)", (long long)fee, at, size);
        FeeFrac f{fee, size}; int64_t ev = rd ? f.EvaluateFeeDown(at) : f.EvaluateFeeUp(at); int64_t xev = rd ? xc_EvaluateFeeDown_(fee, size, at) : xc_EvaluateFeeUp_(fee, size, at);
        if (ev != xev) DIS("EvaluateFee(%lld/%d at %d)", (long long)fee, size, at);
        if (ev != q) BAD("FeeFrac{%lld, %d}.EvaluateFee%s(%d) = %lld, exact value %lld", (long long)fee, size, rd ? "Down" : "Up", at, (long long)ev, (long long)q); }
    // GetFee
    if (fee > INT64_MIN / 2 && fee < INT64_MAX / 2) { __int128 q = cdiv(want, size); if (q < INT64_MAX - 1 && q > INT64_MIN + 1) { CFeeRate fr(fee, size); CAmount g = fr.GetFee(at); int64_t xg = xc_CFeeRate_GetFee(fee, size, at);
        if (g != xg) DIS("GetFee(%lld/%d, %d) real %lld extracted %lld", (long long)fee, size, at, (long long)g, (long long)xg);
        if (fee >= 0 ? g != q : (at != 0 && g >= 0)) BAD("CFeeRate(%lld, %d).GetFee(%d) = %lld, rounded-up value is %lld", (long long)fee, size, at, (long long)g, (long long)q); } }
    // comparisons
    FeeFrac A{fee, size}, B{fee2, size2}; xFF xa{fee, size}, xb{fee2, size2}; __int128 ca = (__int128)fee * size2, cb = (__int128)fee2 * size; int c3 = ca < cb ? -1 : ca > cb ? 1 : 0;
    auto o = ByRatio{A} <=> ByRatio{B}; int oc = o < 0 ? -1 : o > 0 ? 1 : 0; auto on = ByRatioNegSize{A} <=> ByRatioNegSize{B}; int onc = on < 0 ? -1 : on > 0 ? 1 : 0; int wn = c3 ? c3 : (size2 < size ? -1 : size2 > size ? 1 : 0);
    if (oc != c3 || (ByRatio{A} < ByRatio{B}) != (c3 < 0) || (ByRatio{A} == ByRatio{B}) != (c3 == 0) || (ByRatio{A} >= ByRatio{B}) != (c3 >= 0) || onc != wn) BAD("ordering of %lld/%d vs %lld/%d", (long long)fee, size, (long long)fee2, size2);
    if (xc_ByRatio_cmp(&xa, &xb) != oc || xc_ByRatio_lt(&xa, &xb) != (ByRatio{A} < ByRatio{B}) || xc_ByRatio_eq(&xa, &xb) != (ByRatio{A} == ByRatio{B}) || xc_ByRatioNegSize_cmp(&xa, &xb) != onc) DIS("ordering %lld/%d vs %lld/%d", (long long)fee, size, (long long)fee2, size2);
}
static void check_wp_vectors(const char* path)
{
    std::ifstream f(path); std::string line; uint64_t n = 0;
    while (std::getline(f, line)) { std::istringstream is(line); std::string fn, tok; std::vector<long long> a; is >> fn; while (is >> tok && tok != "->") { try { a.push_back(std::stoll(tok)); } catch (...) { a.clear(); break; } } std::string outs; is >> outs; if (a.empty()) continue; long long out; try { out = std::stoll(outs); } catch (...) { continue; }
        long long real; bool known = true;
        if (fn == "EvaluateFeeDown_" && a.size() == 3 && a[1] > 0) real = FeeFrac{a[0], (int32_t)a[1]}.EvaluateFeeDown((int32_t)a[2]);
        else if (fn == "EvaluateFeeUp_" && a.size() == 3 && a[1] > 0) real = FeeFrac{a[0], (int32_t)a[1]}.EvaluateFeeUp((int32_t)a[2]);
        else if (fn == "MulFallback_hi" && a.size() == 2) real = FeeFrac::MulFallback(a[0], (int32_t)a[1]).first;
        else if (fn == "MulFallback_lo" && a.size() == 2) real = FeeFrac::MulFallback(a[0], (int32_t)a[1]).second;
        else if (fn == "DivFallback" && a.size() == 4) real = FeeFrac::DivFallback({a[0], (uint32_t)a[1]}, (int32_t)a[2], a[3] != 0);
        else if (fn == "CFeeRate_GetFee" && a.size() == 3 && a[1] > 0) real = CFeeRate(a[0], (int32_t)a[1]).GetFee((int32_t)a[2]);
        else known = false;
        if (!known) continue; n++; rv::g_stats.inputs++;
        if (real != out) DIS("wp_int interpreter: %s(...) = %lld, machine = %lld [%s]", fn.c_str(), out, real, line.c_str()); }
    std::printf("WPVECTORS %llu\n", (unsigned long long)n);
}
#include <sstream>
int main(int argc, char** argv)
{
    auto a = rv::parse(argc, argv); rv::Rng rng(a.seed); uint64_t n = a.diff ? a.n : 200000;
    for (uint64_t i = 0; i < n; i++) one(rng);
    if (const char* w = std::getenv("VERIF_WP_VECTORS")) check_wp_vectors(w);
    rv::report();
    return rv::g_stats.real_violations ? 1 : (rv::g_stats.disagreements ? 3 : 0);
}
