/* C30 -- Feerate arithmetic is exact (comparison structure by CBMC; division / fallback arithmetic by WP-Int, see wp_spec.c). */
#include "verif.h"
typedef struct { int64_t fee; int32_t size; } FeeFrac;
#define VERIF_CMP3(x, y) ((x) < (y) ? -1 : (x) > (y) ? 1 : 0)       /* value of a std::strong_ordering: less / equal / greater */
#define FRESH2 (__CPROVER_is_fresh(a, sizeof(FeeFrac)) && __CPROVER_is_fresh(b, sizeof(FeeFrac)))
#define CA ((__int128)a->fee * (__int128)b->size)
#define CB ((__int128)b->fee * (__int128)a->size)

__int128 FeeFrac_Mul(int64_t a, int32_t b)
__CPROVER_ensures(__CPROVER_return_value == (__int128)a * (__int128)b)       /* exact: |a*b| < 2^94 */
__CPROVER_assigns();

bool ByRatio_eq(const FeeFrac* a, const FeeFrac* b) __CPROVER_requires(FRESH2) __CPROVER_ensures(__CPROVER_return_value == (CA == CB)) __CPROVER_assigns();
#ifdef TWIN_LT
bool ByRatio_lt(const FeeFrac* a, const FeeFrac* b) __CPROVER_requires(FRESH2) __CPROVER_ensures(__CPROVER_return_value == (CA <= CB)) __CPROVER_assigns();
#else
bool ByRatio_lt(const FeeFrac* a, const FeeFrac* b) __CPROVER_requires(FRESH2) __CPROVER_ensures(__CPROVER_return_value == (CA < CB)) __CPROVER_assigns();
#endif
bool ByRatio_gt(const FeeFrac* a, const FeeFrac* b) __CPROVER_requires(FRESH2) __CPROVER_ensures(__CPROVER_return_value == (CA > CB)) __CPROVER_assigns();
bool ByRatio_le(const FeeFrac* a, const FeeFrac* b) __CPROVER_requires(FRESH2) __CPROVER_ensures(__CPROVER_return_value == (CA <= CB)) __CPROVER_assigns();
bool ByRatio_ge(const FeeFrac* a, const FeeFrac* b) __CPROVER_requires(FRESH2) __CPROVER_ensures(__CPROVER_return_value == (CA >= CB)) __CPROVER_assigns();
int ByRatio_cmp(const FeeFrac* a, const FeeFrac* b) __CPROVER_requires(FRESH2) __CPROVER_ensures(__CPROVER_return_value == VERIF_CMP3(CA, CB)) __CPROVER_assigns();
/* feerate first; equal feerates: the LARGER size sorts first */
int ByRatioNegSize_cmp(const FeeFrac* a, const FeeFrac* b) __CPROVER_requires(FRESH2)
#ifdef TWIN_NEGSIZE
__CPROVER_ensures(__CPROVER_return_value == (CA != CB ? VERIF_CMP3(CA, CB) : VERIF_CMP3(a->size, b->size)))
#else
__CPROVER_ensures(__CPROVER_return_value == (CA != CB ? VERIF_CMP3(CA, CB) : VERIF_CMP3(b->size, a->size)))
#endif
__CPROVER_assigns();

#ifdef VERIF_CBMC
/* the division-family slices are not CBMC's business in this property (WP-Int proves them); keep the translation unit compiling */
#define VERIF_ASSERT(c) __CPROVER_assert(c, "assert() in the code holds")
#endif
#include "slices.h"

int64_t nondet_i64(void); int nondet_int(void);
void h_Mul(void) { __int128 r = FeeFrac_Mul(nondet_i64(), nondet_int()); if (r < 0) VERIF_REACH_PT("negative product"); if (r > ((__int128)1 << 90)) VERIF_REACH_PT("wider than 64 bits"); }
#define CMP_H(name, fn) void name(void) { const FeeFrac *a, *b; if (fn(a, b)) VERIF_REACH_PT("true"); else VERIF_REACH_PT("false"); }
CMP_H(h_ByRatio_eq, ByRatio_eq) CMP_H(h_ByRatio_lt, ByRatio_lt) CMP_H(h_ByRatio_gt, ByRatio_gt) CMP_H(h_ByRatio_le, ByRatio_le) CMP_H(h_ByRatio_ge, ByRatio_ge)
void h_ByRatio_cmp(void) { const FeeFrac *a, *b; int r = ByRatio_cmp(a, b); if (r < 0) VERIF_REACH_PT("less"); if (r == 0) VERIF_REACH_PT("equal"); if (r > 0) VERIF_REACH_PT("greater"); }
void h_ByRatioNegSize_cmp(void) { const FeeFrac *a, *b; int r = ByRatioNegSize_cmp(a, b); if (r < 0) VERIF_REACH_PT("less"); if (r == 0) VERIF_REACH_PT("equal"); if (r > 0) VERIF_REACH_PT("greater"); }

/* lemma (contracts only): for positive sizes the operators order by the rational fee/size: a/sa < b/sb  <=>  a*sb < b*sa (multiply through by sa*sb > 0).
 * Stated on a witness: if ByRatio says a < b then no rational t with a.fee <= t*a.size ... is needed -- the cross-product form IS the definition; what is checked
 * here is consistency of the family: exactly one of <, ==, > holds. */
void h_lemma_order_is_rational(void)
{
    FeeFrac x, y; __CPROVER_assume(x.size > 0 && y.size > 0);
    bool lt = ByRatio_lt(&x, &y), eq = ByRatio_eq(&x, &y), gt = ByRatio_lt(&y, &x);
    __CPROVER_assert((int)lt + (int)eq + (int)gt == 1, "trichotomy: exactly one of a<b, a==b, b<a");
    VERIF_REACH_PT("lemma end");
}
