/* C30 integer lemmas for back end B2 (engine/wp_int.py): same C subset as the slices; __wp_assume / __wp_assert.  Statement: fee evaluation rounds exactly
 * down or up as requested, the portable fallback arithmetic equals the native 128-bit arithmetic, a non-negative fee rate applied to a size is rounded up.
 * (spec arithmetic is written in __int128 so that it cannot itself overflow: every operation here is range-checked like the code's) */
void lemma_div_floor_ceil(__int128 n, int32_t d, bool round_down)
{
    __wp_assume(d > 0);
    __wp_assume(n > -((__int128)1 << 95) && n < ((__int128)1 << 95));                               /* a 64 x 32 bit product */
    __wp_assume(n / d > -((__int128)1 << 63) + 1 && n / d < ((__int128)1 << 63) - 1);              /* "the result must fit in an int64_t" */
    __int128 q = FeeFrac_Div(n, d, round_down);
    __wp_assert(!round_down || (q * d <= n && n < (q + 1) * d), "round down: q = floor(n / d)");
    __wp_assert(round_down || ((q - 1) * d < n && n <= q * d), "round up: q = ceil(n / d)");
}
void lemma_divfallback_is_div(int64_t hi, uint32_t lo, int32_t d, bool round_down)
{
    __wp_assume(d > 0);
    __wp_assume(hi >= -((int64_t)1 << 62) && hi < ((int64_t)1 << 62));                             /* high limb of a 64 x 32 bit product */
    __int128 n = (__int128)hi * ((__int128)1 << 32) + lo;
    __wp_assume(n / d > -((__int128)1 << 63) + 1 && n / d < ((__int128)1 << 63) - 1);
    int64_t a = DivFallback(hi, lo, d, round_down);
    int64_t b = FeeFrac_Div(n, d, round_down);
    __wp_assert(a == b, "DivFallback on the limbs (hi, lo) equals Div on hi * 2^32 + lo");
}
void lemma_mulfallback_is_product(int64_t a, int32_t b)
{
    __int128 hi = MulFallback_hi(a, b);
    __int128 lo = MulFallback_lo(a, b);
    __wp_assert(lo >= 0 && lo <= 4294967295, "low limb is a 32-bit value");
    __wp_assert(hi * ((__int128)1 << 32) + lo == (__int128)a * b, "MulFallback's limbs represent exactly a * b (= Mul(a, b))");
}
void lemma_evaluatefee(int64_t fee, int32_t size, int32_t at_size)
{
    __wp_assume(size > 0 && at_size >= 0);
    __int128 prod = (__int128)fee * at_size;
    __wp_assume(prod / size > -((__int128)1 << 63) + 1 && prod / size < ((__int128)1 << 63) - 1);   /* "the correct result fits in an int64_t" */
    __int128 dn = EvaluateFeeDown_(fee, size, at_size);
    __int128 up = EvaluateFeeUp_(fee, size, at_size);
    __wp_assert(dn * size <= prod && prod < (dn + 1) * size, "EvaluateFeeDown = floor(fee * at_size / size)");
    __wp_assert((up - 1) * size < prod && prod <= up * size, "EvaluateFeeUp = ceil(fee * at_size / size)");
}
void lemma_getfee(int64_t fee, int32_t size, int32_t vb)
{
    __wp_assume(size >= 0 && vb >= 0);
    __wp_assume(size > 0 || fee == 0);                                                             /* FeeFrac invariant: size 0 only with fee 0 */
    __int128 prod = (__int128)fee * vb;
    __wp_assume(size == 0 || (prod / size > -((__int128)1 << 63) + 1 && prod / size < ((__int128)1 << 63) - 1));
    __int128 r = CFeeRate_GetFee(fee, size, vb);
    __wp_assert(size != 0 || r == 0, "empty fee rate: fee 0");
    __wp_assert(size == 0 || fee < 0 || ((r - 1) * size < prod && prod <= r * size), "non-negative rate: rounded up to the next satoshi");
    __wp_assert(size == 0 || fee >= 0 || vb == 0 || r < 0, "negative rate on a non-empty size: never rounds to 0 (-1 instead)");
}
