#include "verif.h"
typedef struct { int nSubsidyHalvingInterval; } Consensus_Params;
#include "slices.h"
