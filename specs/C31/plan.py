from engine.extract import R, refparam

PLAN = {
    "id": "C31",
    "level": "proof",
    "slices": [
        {"name": "COIN", "kind": "const", "file": "src/consensus/amount.h",
         "pat": r"inline constexpr CAmount COIN\{([\d']+)\};", "emit": r"#define COIN ((CAmount)\1)"},
        {"name": "CHAIN_INTERVALS", "kind": "const_list", "file": "src/kernel/chainparams.cpp", "min_count": 5,
         "pat": r"consensus\.nSubsidyHalvingInterval\s*=\s*([\d']+)\s*;",
         "emit": "static const int CHAIN_INTERVALS[] = {{ {values} }};\n#define N_CHAIN_INTERVALS {n}"},
        {"name": "GetBlockSubsidy", "kind": "func", "file": "src/validation.cpp",
         "head": r"CAmount GetBlockSubsidy\(int nHeight, const Consensus::Params& consensusParams\)",
         "rules": [R("type:Consensus::Params", r"Consensus::Params", "Consensus_Params")] + refparam("consensusParams")},
    ],
    "spec": "spec.c",
    "harnesses": [
        {"name": "h_GetBlockSubsidy", "enforce": "GetBlockSubsidy", "solver": "z3",
         "twins": [{"define": "TWIN_HALVINGS_32", "expect": r"postcondition"}]},
        {"name": "h_lemma_monotone", "replace": ["GetBlockSubsidy"], "solver": "z3",
         "twins": [{"define": "TWIN_STRICT", "expect": r"never increases"}]},
        {"name": "h_lemma_total_supply", "replace": ["GetBlockSubsidy"], "unwind": 66,
         "twins": [{"define": "TWIN_TOTAL_TIGHT", "expect": r"below 21,000,000 BTC"}]},
    ],
    "lemmas_smt": ["div_monotone.smt2"],
    "native": {"src": "replay.cpp", "c_src": "native_slices.c", "libs": []},
    "not_covered": ["that -regtest style overrides cannot change the halving interval (stated, not proved)",
                    "the call site in ConnectBlock that compares the coinbase value against the subsidy (see C01)"],
    "assumptions": ["A4 glue: the per-height contract is summed over heights by hand: heights with the same quotient h/interval form a run of exactly `interval` heights",
                    "halving intervals are the literals assigned to consensus.nSubsidyHalvingInterval in kernel/chainparams.cpp (extracted each run)"],
    "manifest": {
        "category": "proof",
        "text": "core: GetBlockSubsidy (extracted verbatim from validation.cpp each run) is proved against the statement for every height >= 0 and every interval > 0 "
                "(result = 50 BTC >> halvings, 0 from the 64th halving, shift never undefined); monotonicity and the < 21M BTC total for every built-in chain interval "
                "(literals extracted from chainparams.cpp) are lemmas over that contract only.",
        "note": "Trusted: extraction rules (3 token rewrites, listed in evidence/C31.extract.txt), the contract text, CBMC+z3; integer lemma div_monotone.smt2 (quotient monotone) cited by an assume; "
                "summation of the per-height contract over heights is by hand (A4). Not covered: call site in ConnectBlock (C01).",
        "technique": "CBMC function contract on extracted GetBlockSubsidy (z3 back end) + contract-only lemma harnesses + SMT Int lemma",
    },
    "trusted_base": ["specs/C31/spec.c (contracts: the property statement)"],
}
