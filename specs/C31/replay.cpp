// C31 native harness: the ORIGINAL text of GetBlockSubsidy (from the working tree) compiled as C++ against
// the real headers, next to the extracted C text that CBMC verified, and the property-level oracle.
#include <consensus/amount.h>
#include <consensus/params.h>
#include "replay_util.h"
#include "orig_GetBlockSubsidy.inc"

extern "C" { struct Consensus_Params_c { int nSubsidyHalvingInterval; }; int64_t xc_GetBlockSubsidy(int, const Consensus_Params_c*); }

static int64_t oracle(int h, int iv) { int q = h / iv; return q >= 64 ? 0 : (5000000000LL >> q); }

static void one(int h, int iv, bool verbose)
{
    if (h < 0 || iv <= 0) return;
    Consensus::Params p; p.nSubsidyHalvingInterval = iv;
    Consensus_Params_c pc{iv};
    int64_t real = GetBlockSubsidy(h, p), xc = xc_GetBlockSubsidy(h, &pc), sp = oracle(h, iv);
    rv::g_stats.inputs++;
    if (real != xc) { rv::g_stats.disagreements++; std::printf("DISAGREE h=%d interval=%d real=%lld extractedC=%lld\n", h, iv, (long long)real, (long long)xc); }
    if (real != sp) { rv::g_stats.real_violations++; if (rv::g_stats.real_violations <= 5 || verbose) std::printf("REAL-VIOLATION GetBlockSubsidy(height=%d, interval=%d) = %lld, statement says %lld\n", h, iv, (long long)real, (long long)sp); }
}

int main(int argc, char** argv)
{
    auto a = rv::parse(argc, argv);
    rv::Rng rng(a.seed);
    const int ivs[] = {210000, 150, 1, 2, 1000, 2147483647};
    if (a.cex) {
        auto kv = rv::load_kv(a.path);
        int64_t h = 0, iv = 210000; bool have = false;
        for (auto& [k, v] : kv) {
            if (k == "h" || k == "h1" || k == "h2" || k == "nHeight") { if (rv::kv_i64(kv, k, h)) { have = true; int64_t i2; if (rv::kv_i64(kv, "p.nSubsidyHalvingInterval", i2)) iv = i2; one((int)h, (int)iv, true); } }
        }
        (void)have;
    }
    // boundary grid: every halving boundary +-1 for every interval
    for (int iv : ivs) for (int k = 0; k <= 70; k++) for (int d = -1; d <= 1; d++) { long long h = (long long)k * iv + d; if (h >= 0 && h <= 2147483647LL) one((int)h, iv, false); }
    uint64_t n = a.diff ? a.n : 200000;
    for (uint64_t i = 0; i < n; i++) { int iv = (rng.next() & 1) ? ivs[rng.below(6)] : (int)(rng.next() >> (33 + rng.below(30))) + 1; int h = (int)(rng.next() >> (33 + rng.below(31))); one(h, iv, false); }
    rv::report();
    return rv::g_stats.real_violations ? 1 : (rv::g_stats.disagreements ? 3 : 0);
}
