/* C31 -- Block subsidy follows the 21 million schedule.  Contracts on the extracted GetBlockSubsidy. */
#include "verif.h"
typedef struct { int nSubsidyHalvingInterval; } Consensus_Params;

/* the statement: 50 BTC shifted right once per completed halving interval, zero from the 64th halving on.
 * 50 BTC is written out here (5,000,000,000 satoshi) and NOT taken from the code's COIN. */
#define SPEC_50BTC ((int64_t)5000000000LL)
#ifdef TWIN_HALVINGS_32
#define SPEC_SUBSIDY(h, iv) (((h) / (iv)) >= 32 ? (int64_t)0 : (SPEC_50BTC >> ((h) / (iv))))
#else
#define SPEC_SUBSIDY(h, iv) (((h) / (iv)) >= 64 ? (int64_t)0 : (SPEC_50BTC >> ((h) / (iv))))
#endif

CAmount GetBlockSubsidy(int nHeight, const Consensus_Params* consensusParams)
__CPROVER_requires(__CPROVER_is_fresh(consensusParams, sizeof(*consensusParams)))
__CPROVER_requires(nHeight >= 0 && consensusParams->nSubsidyHalvingInterval > 0)
__CPROVER_ensures(__CPROVER_return_value == SPEC_SUBSIDY(nHeight, consensusParams->nSubsidyHalvingInterval))
__CPROVER_ensures(__CPROVER_return_value >= 0 && __CPROVER_return_value <= SPEC_50BTC)
__CPROVER_assigns();

#include "slices.h"

int nondet_int(void);

void h_GetBlockSubsidy(void)
{
    Consensus_Params p;
    int h = nondet_int();
    CAmount r = GetBlockSubsidy(h, &p);
    VERIF_REACH_PT("after GetBlockSubsidy");
    if (r == 0) VERIF_REACH_PT("zero subsidy");
    if (r == SPEC_50BTC >> 33) VERIF_REACH_PT("one satoshi era");
}

/* lemma (contract only): the subsidy never increases with height */
void h_lemma_monotone(void)
{
    Consensus_Params p;
    int h1 = nondet_int(), h2 = nondet_int();
    __CPROVER_assume(p.nSubsidyHalvingInterval > 0);
    __CPROVER_assume(0 <= h1 && h1 <= h2);
    /* integer lemma div_monotone.smt2 (discharged by z3/cvc5 over Int on every run): quotients are monotone.
     * Bit-level division monotonicity does not finish on SAT (probed: >300 s), so it is cited, not re-proved here. */
    __CPROVER_assume(h1 / p.nSubsidyHalvingInterval <= h2 / p.nSubsidyHalvingInterval); /* VERIF_TRUSTED: by lemma div_monotone.smt2 */
    CAmount a = GetBlockSubsidy(h1, &p);
    CAmount b = GetBlockSubsidy(h2, &p);
#ifdef TWIN_STRICT
    __CPROVER_assert(a > b, "subsidy never increases with height");
#else
    __CPROVER_assert(a >= b, "subsidy never increases with height");
#endif
    VERIF_REACH_PT("monotone lemma end");
}

/* lemma (contract only): for every built-in chain's interval the total over all heights is
 * interval * sum_{k<64} subsidy(k*interval) < 21,000,000 BTC, and every height from the 64th halving on pays 0 */
void h_lemma_total_supply(void)
{
    for (int c = 0; c < N_CHAIN_INTERVALS; c++) {
        Consensus_Params p;
        p.nSubsidyHalvingInterval = CHAIN_INTERVALS[c];
        __CPROVER_assert(p.nSubsidyHalvingInterval > 0 && p.nSubsidyHalvingInterval <= INT_MAX / 64, "interval positive and 64 halvings fit in int");
        /* (a) for the arbitrary era k < 64 every height of that era pays exactly 50 BTC >> k */
        int k = nondet_int(), off = nondet_int();
        __CPROVER_assume(0 <= k && k < 64 && 0 <= off && off < p.nSubsidyHalvingInterval);
        CAmount s = GetBlockSubsidy(k * p.nSubsidyHalvingInterval + off, &p);
        __CPROVER_assert(s == (SPEC_50BTC >> k), "every height of halving era k pays 50 BTC >> k");
        /* (b) so the total over eras 0..63 is interval * sum_k (50 BTC >> k): pure arithmetic */
        __CPROVER_bitvector[128] total = 0;
        for (int j = 0; j < 64; j++)
            total += (__CPROVER_bitvector[128])(SPEC_50BTC >> j) * p.nSubsidyHalvingInterval;
#ifdef TWIN_TOTAL_TIGHT
        __CPROVER_assert(total < (__CPROVER_bitvector[128])20999999LL * 100000000LL, "total subsidy below 21,000,000 BTC");
#else
        __CPROVER_assert(total < (__CPROVER_bitvector[128])21000000LL * 100000000LL, "total subsidy below 21,000,000 BTC");
#endif
        /* (c) and nothing is paid afterwards */
        int h = nondet_int();
        __CPROVER_assume(h >= 64 * p.nSubsidyHalvingInterval);
        __CPROVER_assert(GetBlockSubsidy(h, &p) == 0, "zero from the 64th halving on");
    }
    VERIF_REACH_PT("total lemma end");
}
