/* native build (clang, C) of the extracted net_processing decision functions */
#include "verif.h"
typedef struct { bool m_is_inbound; bool m_should_discourage; int m_id; } Peer;
typedef struct { bool noban; bool manual; bool addr_local; bool fDisconnect; bool m_inbound_onion; } CNode;
int g_misbehaving, g_discouraged, g_disconnected_node, g_known_tx, g_extra_tx; bool g_have_banman;
bool nondet_bool(void); size_t nondet_size_t(void); int nondet_int(void);
static inline void Misbehaving_stub(Peer* peer) { peer->m_should_discourage = 1; g_misbehaving = g_misbehaving + 1; }
static inline bool CNode_HasNoBan(const CNode* n) { return n->noban; }
static inline bool CNode_IsManualConn(const CNode* n) { return n->manual; }
static inline bool CNode_addr_IsLocal(const CNode* n) { return n->addr_local; }
static inline void BanMan_Discourage_stub(CNode* n) { g_discouraged = g_discouraged + 1; }
static inline void CConnman_DisconnectNode_stub(CNode* n) { g_disconnected_node = g_disconnected_node + 1; }
static inline void AddKnownTx_stub(Peer* p) { g_known_tx = 1; }
static inline void AddToCompactExtraTransactions_stub(void) { g_extra_tx = 1; }
#define LOOP_PARENTS
#include "slices.h"
