import os, sys
sys.path.insert(0, os.path.dirname(os.path.dirname(os.path.abspath(__file__))))
from engine.extract import R

NP = "src/net_processing.cpp"
LOGDROP = R("drop:Log*(...) statements (format strings only)", r"\bLog(?:Debug|Warning|Info|Error)\((?:[^;\"]|\"(?:[^\"\\]|\\.)*\")*\);", "", False)
LOCKDROP = R("drop:LOCK / AssertLock* (no threads in this model)", r"\b(?:LOCK|AssertLockHeld|AssertLockNotHeld)\([^;]*\);", "", False)
MISB = R("call:Misbehaving(*peer, message) -> ghost recorder", r"\bMisbehaving\(\*peer, [^;]*\);", "Misbehaving_stub(peer);", False)
SLICES = [
    {"name": "BlockValidationResult", "kind": "const", "file": "src/consensus/validation.h", "pat": r"enum class BlockValidationResult \{[^}]*\};", "emit": r"\g<0>",
     "rules": [R("enum class -> enum", r"enum class BlockValidationResult", "enum BlockValidationResult", True)]},
    {"name": "MaybePunishNodeForBlock", "kind": "func", "file": NP,
     "head": r"void PeerManagerImpl::MaybePunishNodeForBlock\(NodeId nodeid, const BlockValidationState& state,\s*bool via_compact_block, const std::string& message\)",
     "rules": [R("method-head (peer = GetPeerRef(nodeid), result = state.GetResult())", r"void PeerManagerImpl::MaybePunishNodeForBlock\(NodeId nodeid, const BlockValidationState& state,\s*bool via_compact_block, const std::string& message\)",
                 "void MaybePunishNodeForBlock(Peer* peer, int state_result, bool via_compact_block)"),
               R("ghost:PeerRef peer{GetPeerRef(nodeid)} is the parameter", r"PeerRef peer\{GetPeerRef\(nodeid\)\};", "", False),
               R("ghost:state.GetResult()", r"state\.GetResult\(\)", "state_result", False), R("enum scope", r"BlockValidationResult::(\w+)", r"\1", False), MISB,
               R("drop:debug log of the message", r"if \(message != \"\"\) \{\s*LogDebug\((?:[^;\"]|\"(?:[^\"\\]|\\.)*\")*\);\s*\}", "", False), LOGDROP]},
    {"name": "MaybeDiscourageAndDisconnect", "kind": "func", "file": NP, "head": r"bool PeerManagerImpl::MaybeDiscourageAndDisconnect\(CNode& pnode, Peer& peer\)",
     "rules": [R("method-head", r"bool PeerManagerImpl::MaybeDiscourageAndDisconnect\(CNode& pnode, Peer& peer\)", "bool MaybeDiscourageAndDisconnect(CNode* pnode, Peer* peer)"),
               LOCKDROP, LOGDROP, R("member:peer.", r"(?<![\w.>])peer\.(?=\w)", "peer->", False),
               R("call:pnode.HasPermission(NoBan)", r"pnode\.HasPermission\(NetPermissionFlags::NoBan\)", "CNode_HasNoBan(pnode)", False), R("call:pnode.IsManualConn()", r"pnode\.IsManualConn\(\)", "CNode_IsManualConn(pnode)", False),
               R("call:pnode.addr.IsLocal()", r"pnode\.addr\.IsLocal\(\)", "CNode_addr_IsLocal(pnode)", False), R("member:pnode.", r"(?<![\w.>])pnode\.(?=\w)", "pnode->", False),
               R("call:m_banman->Discourage", r"if \(m_banman\) m_banman->Discourage\(pnode->addr\);", "if (g_have_banman) BanMan_Discourage_stub(pnode);", False),
               R("call:m_connman.DisconnectNode", r"m_connman\.DisconnectNode\(pnode->addr\);", "CConnman_DisconnectNode_stub(pnode);", False)]},
    {"name": "ProcessInvalidTx", "kind": "func", "file": NP,
     "head": r"std::optional<node::PackageToValidate> PeerManagerImpl::ProcessInvalidTx\(NodeId nodeid, const CTransactionRef& ptx, const TxValidationState& state,\s*bool first_time_failure\)",
     "rules": [R("method-head", r"std::optional<node::PackageToValidate> PeerManagerImpl::ProcessInvalidTx\(NodeId nodeid, const CTransactionRef& ptx, const TxValidationState& state,\s*bool first_time_failure\)",
                 "int ProcessInvalidTx(Peer* peer, int tx_result, bool first_time_failure)"),
               LOCKDROP, LOGDROP, R("ghost:PeerRef peer{GetPeerRef(nodeid)} is the parameter", r"PeerRef peer\{GetPeerRef\(nodeid\)\};", "", False), MISB,
               R("stub:m_txdownloadman.MempoolRejectedTx (structured binding)", r"const auto& \[add_extra_compact_tx, unique_parents, package_to_validate\] = m_txdownloadman\.MempoolRejectedTx\(ptx, state, nodeid, first_time_failure\);",
                 "bool add_extra_compact_tx = nondet_bool(); size_t unique_parents_n = nondet_size_t(); int package_to_validate = nondet_int();", False),
               R("stub:RecursiveDynamicUsage(*ptx)", r"RecursiveDynamicUsage\(\*ptx\)", "nondet_size_t()", False), R("stub:AddToCompactExtraTransactions", r"AddToCompactExtraTransactions\(ptx\);", "AddToCompactExtraTransactions_stub();", False),
               R("rangefor:unique_parents", r"for \(const Txid& parent_txid : unique_parents\)", "for (size_t i_p = 0; i_p < unique_parents_n; i_p++)", False),
               R("stub:AddKnownTx", r"AddKnownTx\(\*peer, parent_txid\.ToUint256\(\)\);", "AddKnownTx_stub(peer);", False)],
     "loops": [{"match": r"\bi_p\b", "contract": "LOOP_PARENTS", "required": False}]},
]

def H(name, fn, twins=(), **kw):
    d = {"name": name, "enforce": fn, "twins": [{"define": t, "expect": "postcondition"} for t in twins]}
    d.update(kw)
    return d
PLAN = {
    "id": "C36", "level": "proof", "slices": SLICES, "spec": "spec.c", "default_solver": ["cadical", "z3"],
    "harnesses": [
        H("h_MaybePunishNodeForBlock", "MaybePunishNodeForBlock", ["TWIN_COMPACT", "TWIN_INBOUND"]),
        H("h_MaybeDiscourageAndDisconnect", "MaybeDiscourageAndDisconnect", ["TWIN_MANUAL", "TWIN_LOCAL"]),
        H("h_ProcessInvalidTx", "ProcessInvalidTx", loop_contracts=True),
        {"name": "h_lemma_tx_never_punished", "replace": ["ProcessInvalidTx", "MaybeDiscourageAndDisconnect"]},
    ],
    "native": {"src": "replay.cpp", "c_src": "native_slices.c", "libs": ["libbitcoin_common.a", "libbitcoin_consensus.a", "libbitcoin_util.a", "libbitcoin_clientversion.a", "libbitcoin_crypto.a"]},
    "not_covered": ["message dispatch (ProcessMessage): that invalid / undecodable tx messages reach only ProcessInvalidTx and never another Misbehaving call site; headers with invalid proof of work reaching MaybePunishNodeForBlock / Misbehaving",
                    "call sites of MaybeDiscourageAndDisconnect (SendMessages) and the threads involved", "BanMan / CConnman behaviour behind Discourage / DisconnectNode"],
    "assumptions": ["GetPeerRef(nodeid) is the peer parameter (NULL if the peer is gone); Misbehaving / Discourage / DisconnectNode / AddKnownTx / AddToCompactExtraTransactions are ghost-recording stubs; MempoolRejectedTx returns arbitrary values",
                    "locks and log statements are dropped (single-threaded model)"],
    "manifest": {
        "category": "proof",
        "text": "partial (decision tables): MaybePunishNodeForBlock flags a peer as misbehaving exactly for: consensus-invalid or mutated blocks that were not compact blocks; cached-invalid blocks from outbound peers, not via compact block; invalid header / invalid previous / missing previous -- and never for unset, low-work-header or time-in-future results or a peer that is gone; "
                "MaybeDiscourageAndDisconnect does nothing without the flag, always clears it, never disconnects or discourages noban peers and manual connections, disconnects without discouraging local addresses, and otherwise discourages (if a ban manager exists) and disconnects; "
                "ProcessInvalidTx (the handler of every rejected transaction) never flags the peer, whatever the validation result; a contract-only lemma chains the last two: after a rejected transaction the peer is neither disconnected nor discouraged.",
        "note": "Not covered: message dispatch and other Misbehaving call sites, threads, BanMan/CConnman internals. Trusted: call-to-stub rewrites, dropped locks/logs.",
        "technique": "CBMC function contracts on extracted net_processing.cpp decision functions with ghost-recording stubs, contract-only lemma",
    },
    "trusted_base": ["specs/C36/spec.c"],
}
