// C36 native harness: the ORIGINAL text of MaybePunishNodeForBlock / MaybeDiscourageAndDisconnect (cut from the working tree's net_processing.cpp) compiled as C++
// inside a minimal stand-in for PeerManagerImpl (recording stubs for Misbehaving / Discourage / DisconnectNode), next to the extracted C text, and the decision tables
// of the statement.  (The real call path through PeerManagerImpl needs a full node context; the replay is against the real text, not the real call path.)
#include <consensus/validation.h>
#include <memory>
#include <string>
#include "replay_util.h"
namespace shim {
struct Peer { bool m_is_inbound{false}; bool m_should_discourage{false}; int m_id{0}; int m_misbehavior_mutex{0}; };
using PeerRef = std::shared_ptr<Peer>;
enum class NetPermissionFlags { NoBan };
struct Addr { bool local{false}; bool IsLocal() const { return local; } };
struct CNode { bool noban{false}, manual{false}, fDisconnect{false}, m_inbound_onion{false}; Addr addr; bool HasPermission(NetPermissionFlags) const { return noban; } bool IsManualConn() const { return manual; } };
using NodeId = int64_t;
struct BanMan { int* n; void Discourage(const Addr&) { ++*n; } };
struct Connman { int n{0}; void DisconnectNode(const Addr&) { ++n; } };
#define LOCK(x) ((void)0)
#define LogWarning(...) ((void)0)
#define LogDebug(...) ((void)0)
struct BCLog { enum { NET }; };
struct PeerManagerImpl {
    PeerRef cur; int misb{0}; int disc{0}; std::unique_ptr<BanMan> m_banman; Connman m_connman;
    PeerRef GetPeerRef(NodeId) { return cur; }
    void Misbehaving(Peer& p, const std::string&) { p.m_should_discourage = true; ++misb; }
    void MaybePunishNodeForBlock(NodeId nodeid, const BlockValidationState& state, bool via_compact_block, const std::string& message);
    bool MaybeDiscourageAndDisconnect(CNode& pnode, Peer& peer);
};
#include "orig_MaybePunishNodeForBlock.inc"
#include "orig_MaybeDiscourageAndDisconnect.inc"
}
struct xPeer { bool m_is_inbound; bool m_should_discourage; int m_id; };
struct xNode { bool noban, manual, addr_local, fDisconnect, m_inbound_onion; };
extern "C" { extern int g_misbehaving, g_discouraged, g_disconnected_node; extern bool g_have_banman; void xc_MaybePunishNodeForBlock(xPeer*, int, bool); bool xc_MaybeDiscourageAndDisconnect(xNode*, xPeer*);
  bool nondet_bool(void) { return false; } size_t nondet_size_t(void) { return 0; } int nondet_int(void) { return 0; } }
#define BAD(...) do { rv::g_stats.real_violations++; if (rv::g_stats.real_violations <= 8) { std::printf("REAL-VIOLATION " __VA_ARGS__); std::printf("\n"); } } while (0)
#define DIS(...) do { rv::g_stats.disagreements++; if (rv::g_stats.disagreements <= 8) { std::printf("DISAGREE " __VA_ARGS__); std::printf("\n"); } } while (0)
static const char* RN[] = {"UNSET", "CONSENSUS", "CACHED_INVALID", "INVALID_HEADER", "MUTATED", "MISSING_PREV", "INVALID_PREV", "TIME_FUTURE", "HEADER_LOW_WORK"};
int main(int argc, char** argv)
{
    auto a = rv::parse(argc, argv); rv::Rng rng(a.seed);
    // both decision tables are finite: enumerate them completely (and repeat with random seeds only to fill the input count)
    for (int res = 0; res <= 8; res++) for (int compact = 0; compact < 2; compact++) for (int inbound = 0; inbound < 2; inbound++) for (int have_peer = 0; have_peer < 2; have_peer++) {
        shim::PeerManagerImpl pm; if (have_peer) { pm.cur = std::make_shared<shim::Peer>(); pm.cur->m_is_inbound = inbound; }
        BlockValidationState st; if (res) st.Invalid((BlockValidationResult)res, "x");
        pm.MaybePunishNodeForBlock(1, st, compact, "msg");
        xPeer xp{(bool)inbound, false, 0}; g_misbehaving = 0; xc_MaybePunishNodeForBlock(have_peer ? &xp : nullptr, res, compact);
        bool want = have_peer && (((res == 1 || res == 4) && !compact) || (res == 2 && !compact && !inbound) || res == 3 || res == 6 || res == 5);
        rv::g_stats.inputs++;
        if ((pm.misb == 1) != (g_misbehaving == 1)) DIS("MaybePunishNodeForBlock(%s compact=%d inbound=%d peer=%d)", RN[res], compact, inbound, have_peer);
        if ((pm.misb == 1) != want || pm.misb > 1) BAD("MaybePunishNodeForBlock(result=%s, via_compact_block=%d, inbound=%d, peer known=%d): misbehaving=%d, the rules say %d", RN[res], compact, inbound, have_peer, pm.misb, want);
    }
    for (int flag = 0; flag < 2; flag++) for (int noban = 0; noban < 2; noban++) for (int manual = 0; manual < 2; manual++) for (int local = 0; local < 2; local++) for (int bm = 0; bm < 2; bm++) for (int fd0 = 0; fd0 < 2; fd0++) {
        shim::PeerManagerImpl pm; if (bm) pm.m_banman = std::make_unique<shim::BanMan>(shim::BanMan{&pm.disc}); shim::Peer p; p.m_should_discourage = flag; shim::CNode n; n.noban = noban; n.manual = manual; n.addr.local = local; n.fDisconnect = fd0;
        bool r = pm.MaybeDiscourageAndDisconnect(n, p);
        xPeer xp{false, (bool)flag, 0}; xNode xn{(bool)noban, (bool)manual, (bool)local, (bool)fd0, false}; g_discouraged = 0; g_disconnected_node = 0; g_have_banman = bm; bool xr = xc_MaybeDiscourageAndDisconnect(&xn, &xp);
        rv::g_stats.inputs++;
        if (r != xr || pm.disc != g_discouraged || pm.m_connman.n != g_disconnected_node || n.fDisconnect != xn.fDisconnect || p.m_should_discourage != xp.m_should_discourage) DIS("MaybeDiscourageAndDisconnect(flag=%d noban=%d manual=%d local=%d)", flag, noban, manual, local);
        bool exempt = !flag || noban || manual; bool wr = !exempt; int wdisc = (!exempt && !local && bm) ? 1 : 0, wdn = (!exempt && !local) ? 1 : 0; bool wfd = exempt ? fd0 : (local ? true : fd0);
        if (r != wr || pm.disc != wdisc || pm.m_connman.n != wdn || n.fDisconnect != wfd || p.m_should_discourage)
            BAD("MaybeDiscourageAndDisconnect(flagged=%d, noban=%d, manual=%d, local address=%d, ban manager=%d): returns %d, discouraged=%d, DisconnectNode=%d, fDisconnect=%d; the rules say %d/%d/%d/%d", flag, noban, manual, local, bm, r, pm.disc, pm.m_connman.n, n.fDisconnect, wr, wdisc, wdn, wfd);
    }
    rv::report();
    return rv::g_stats.real_violations ? 1 : (rv::g_stats.disagreements ? 3 : 0);
}
