/* C36 -- Peers are punished only for what the rules say, never for transactions (decision functions of net_processing.cpp). */
#include "verif.h"
typedef struct { bool m_is_inbound; bool m_should_discourage; int m_id; } Peer;
typedef struct { bool noban; bool manual; bool addr_local; bool fDisconnect; bool m_inbound_onion; } CNode;
int g_misbehaving, g_discouraged, g_disconnected_node, g_known_tx, g_extra_tx; bool g_have_banman;
bool nondet_bool(void); size_t nondet_size_t(void); int nondet_int(void);
static inline void Misbehaving_stub(Peer* peer) { peer->m_should_discourage = 1; g_misbehaving = g_misbehaving + 1; }     /* Misbehaving(): sets the flag (VERIF_STUB of the 4-line original) */
static inline bool CNode_HasNoBan(const CNode* n) { return n->noban; }
static inline bool CNode_IsManualConn(const CNode* n) { return n->manual; }
static inline bool CNode_addr_IsLocal(const CNode* n) { return n->addr_local; }
static inline void BanMan_Discourage_stub(CNode* n) { g_discouraged = g_discouraged + 1; }
static inline void CConnman_DisconnectNode_stub(CNode* n) { g_disconnected_node = g_disconnected_node + 1; }
static inline void AddKnownTx_stub(Peer* p) { g_known_tx = 1; }
static inline void AddToCompactExtraTransactions_stub(void) { g_extra_tx = 1; }

/* result codes in the order of consensus/validation.h (extracted enum): UNSET 0, CONSENSUS 1, CACHED_INVALID 2, INVALID_HEADER 3, MUTATED 4, MISSING_PREV 5, INVALID_PREV 6, TIME_FUTURE 7, HEADER_LOW_WORK 8 */
#ifdef TWIN_COMPACT
#define INVALID_DATA ((state_result == 1 || state_result == 4))
#else
#define INVALID_DATA ((state_result == 1 || state_result == 4) && !via_compact_block)
#endif
#ifdef TWIN_INBOUND
#define CACHED_INVALID_OUTBOUND (state_result == 2 && !via_compact_block)
#else
#define CACHED_INVALID_OUTBOUND (state_result == 2 && !via_compact_block && !peer->m_is_inbound)
#endif
#define PUNISHABLE (peer != NULL && (INVALID_DATA || CACHED_INVALID_OUTBOUND || state_result == 3 || state_result == 6 || state_result == 5))
void MaybePunishNodeForBlock(Peer* peer, int state_result, bool via_compact_block)
__CPROVER_requires((peer == NULL || __CPROVER_is_fresh(peer, sizeof(Peer))) && state_result >= 0 && state_result <= 8 && g_misbehaving == 0)
__CPROVER_ensures((g_misbehaving == 1) == PUNISHABLE && g_misbehaving <= 1)
__CPROVER_ensures(peer != NULL ==> ((peer->m_should_discourage != 0) == (PUNISHABLE || __CPROVER_old(peer->m_should_discourage) != 0)))
__CPROVER_assigns(g_misbehaving; peer != NULL: peer->m_should_discourage);

#define OLD_FLAG __CPROVER_old(peer->m_should_discourage)
#ifdef TWIN_MANUAL
#define EXEMPT (pnode->noban)
#else
#define EXEMPT (pnode->noban || pnode->manual)
#endif
VERIF_REACH_DECL(MaybeDiscourageAndDisconnect)
bool MaybeDiscourageAndDisconnect(CNode* pnode, Peer* peer)
__CPROVER_requires(__CPROVER_is_fresh(pnode, sizeof(CNode)) && __CPROVER_is_fresh(peer, sizeof(Peer)) && g_discouraged == 0 && g_disconnected_node == 0)
__CPROVER_ensures(!peer->m_should_discourage)
/* nothing happens without the flag, to noban peers and to manual connections */
__CPROVER_ensures((!OLD_FLAG || EXEMPT) ==> (!__CPROVER_return_value && g_discouraged == 0 && g_disconnected_node == 0 && pnode->fDisconnect == __CPROVER_old(pnode->fDisconnect)))
/* local address: disconnected, not discouraged */
#ifdef TWIN_LOCAL
__CPROVER_ensures((OLD_FLAG && !EXEMPT && pnode->addr_local) ==> (__CPROVER_return_value && pnode->fDisconnect && g_discouraged == (g_have_banman ? 1 : 0)))
#else
__CPROVER_ensures((OLD_FLAG && !EXEMPT && pnode->addr_local) ==> (__CPROVER_return_value && pnode->fDisconnect && g_discouraged == 0 && g_disconnected_node == 0))
#endif
/* everyone else: discouraged (when there is a ban manager) and disconnected */
__CPROVER_ensures((OLD_FLAG && !EXEMPT && !pnode->addr_local) ==> (__CPROVER_return_value && g_discouraged == (g_have_banman ? 1 : 0) && g_disconnected_node == 1))
VERIF_REACH_ENSURES(MaybeDiscourageAndDisconnect, __CPROVER_return_value && pnode->addr_local)
VERIF_REACH_ENSURES(MaybeDiscourageAndDisconnect, __CPROVER_return_value && g_discouraged == 1)
VERIF_REACH_ENSURES(MaybeDiscourageAndDisconnect, !__CPROVER_return_value && OLD_FLAG && pnode->manual && pnode->addr_local)
__CPROVER_assigns(peer->m_should_discourage, pnode->fDisconnect, g_discouraged, g_disconnected_node);

#define LOOP_PARENTS \
    __CPROVER_assigns(i_p, g_known_tx) \
    __CPROVER_loop_invariant(i_p <= unique_parents_n) \
    __CPROVER_decreases(unique_parents_n - i_p)
/* whatever the transaction's validation result: the peer is not flagged */
int ProcessInvalidTx(Peer* peer, int tx_result, bool first_time_failure)
__CPROVER_requires((peer == NULL || __CPROVER_is_fresh(peer, sizeof(Peer))) && g_misbehaving == 0)
__CPROVER_ensures(g_misbehaving == 0 && (peer != NULL ==> (peer->m_should_discourage != 0) == (__CPROVER_old(peer->m_should_discourage) != 0)))
__CPROVER_assigns(g_known_tx, g_extra_tx);

#include "slices.h"

void h_MaybePunishNodeForBlock(void) { Peer* p; bool c = nondet_bool(); int r = nondet_int(); MaybePunishNodeForBlock(p, r, c); if (g_misbehaving) VERIF_REACH_PT("punished"); else VERIF_REACH_PT("not punished"); if (r == 2 && g_misbehaving) VERIF_REACH_PT("cached invalid punished"); }
void h_MaybeDiscourageAndDisconnect(void) { CNode* n; Peer* p; g_have_banman = nondet_bool(); VERIF_REACH_ON(MaybeDiscourageAndDisconnect); MaybeDiscourageAndDisconnect(n, p); }
void h_ProcessInvalidTx(void) { Peer* p; ProcessInvalidTx(p, nondet_int(), nondet_bool()); VERIF_REACH_PT("returns"); }
/* lemma (contracts only): a peer whose only offence is a rejected transaction is neither disconnected nor discouraged */
void h_lemma_tx_never_punished(void)
{
    Peer peer; CNode node; peer.m_should_discourage = 0; g_misbehaving = 0; g_discouraged = 0; g_disconnected_node = 0; g_have_banman = nondet_bool(); bool fd0 = node.fDisconnect;
    ProcessInvalidTx(&peer, nondet_int(), nondet_bool());
    bool r = MaybeDiscourageAndDisconnect(&node, &peer);
    __CPROVER_assert(!r && g_discouraged == 0 && g_disconnected_node == 0 && node.fDisconnect == fd0, "no disconnection or discouragement follows a rejected transaction");
    VERIF_REACH_PT("lemma end");
}
