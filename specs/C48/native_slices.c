/* native build (clang, C) of the extracted serialize.h integer codecs */
#include "verif_ser.h"
int g_thrown;
#define VERIF_BIG_ENDIAN 0
static inline uint16_t internal_bswap_16(uint16_t x) { return (uint16_t)((x >> 8) | (x << 8)); }
static inline uint32_t internal_bswap_32(uint32_t x) { return ((x & 0xff) << 24) | ((x & 0xff00) << 8) | ((x >> 8) & 0xff00) | (x >> 24); }
static inline uint64_t internal_bswap_64(uint64_t x) { return ((uint64_t)internal_bswap_32((uint32_t)x) << 32) | internal_bswap_32((uint32_t)(x >> 32)); }
#include "slices.h"
