import os, sys
sys.path.insert(0, os.path.dirname(os.path.dirname(os.path.abspath(__file__))))
from engine.extract import R
from common_ser import THROW

SER, EN = "src/serialize.h", "src/compat/endian.h"
def endian(name, w, big_means_swap):
    head = rf"inline BSWAP_CONSTEXPR uint{w}_t {name}\(uint{w}_t \w+\)"
    return {"name": name, "kind": "func", "file": EN, "head": head,
            "rules": [R("drop:BSWAP_CONSTEXPR", r"inline BSWAP_CONSTEXPR ", "static inline ", True),
                      R("if constexpr (native == big)", r"if constexpr \(std::endian::native == std::endian::big\)", "if (VERIF_BIG_ENDIAN)", False),
                      R("if constexpr (native == little)", r"if constexpr \(std::endian::native == std::endian::little\)", "if (!VERIF_BIG_ENDIAN)", False)]}
def wr(w):
    head = rf"template<typename Stream> inline void ser_writedata{w}\(Stream &s, uint{w}_t obj\)"
    return {"name": f"ser_writedata{w}", "kind": "func", "file": SER, "head": head,
            "rules": [R(f"template-instance:ser_writedata{w}<ByteStream>", head, f"void ser_writedata{w}(ByteStream* s, uint{w}_t obj)"),
                      R("stream write of the object's bytes", r"s\.write\(std::as_bytes\(std::span\{&obj, 1\}\)\);", "ByteStream_write(s, &obj, sizeof(obj));", False)]}
def rd(w):
    head = rf"template<typename Stream> inline uint{w}_t ser_readdata{w}\(Stream &s\)"
    return {"name": f"ser_readdata{w}", "kind": "func", "file": SER, "head": head,
            "rules": [R(f"template-instance:ser_readdata{w}<ByteStream>", head, f"uint{w}_t ser_readdata{w}(ByteStream* s)"),
                      R("stream read into the object's bytes", r"s\.read\(std::as_writable_bytes\(std::span\{&obj, 1\}\)\);", "ByteStream_read(s, &obj, sizeof(obj));", False)]}
NUMLIM = [R("numeric_limits<uint16_t>::max()", r"std::numeric_limits<uint16_t>::max\(\)", "UINT16_MAX", False), R("numeric_limits<unsigned int>::max()", r"std::numeric_limits<unsigned int>::max\(\)", "UINT_MAX", False),
          R("numeric_limits<uint32_t>::max()", r"std::numeric_limits<uint32_t>::max\(\)", "UINT32_MAX", False), R("numeric_limits<uint64_t>::max()", r"std::numeric_limits<uint64_t>::max\(\)", "UINT64_MAX", False)]
SLICES = [
    {"name": "MAX_SIZE", "kind": "const", "file": SER, "pat": r"inline constexpr uint64_t MAX_SIZE = (0x[0-9a-fA-F]+);", "emit": r"static const uint64_t MAX_SIZE = \1;"},
    endian("htole16_internal", 16, True), endian("htole32_internal", 32, True), endian("htole64_internal", 64, True),
    endian("le16toh_internal", 16, True), endian("le32toh_internal", 32, True), endian("le64toh_internal", 64, True),
    wr(8), wr(16), wr(32), wr(64), rd(8), rd(16), rd(32), rd(64),
    {"name": "GetSizeOfCompactSize", "kind": "func", "file": SER, "head": r"constexpr inline unsigned int GetSizeOfCompactSize\(uint64_t nSize\)",
     "rules": [R("head", r"constexpr inline unsigned int GetSizeOfCompactSize", "unsigned int GetSizeOfCompactSize", True)] + NUMLIM, "no_generic": False},
    {"name": "WriteCompactSize", "kind": "func", "file": SER, "head": r"template<typename Stream>\s*void WriteCompactSize\(Stream& os, uint64_t nSize\)",
     "rules": [R("template-instance:WriteCompactSize<ByteStream>", r"template<typename Stream>\s*void WriteCompactSize\(Stream& os, uint64_t nSize\)", "void WriteCompactSize(ByteStream* os, uint64_t nSize)")] + NUMLIM},
    {"name": "ReadCompactSize", "kind": "func", "file": SER, "head": r"template<typename Stream>\s*uint64_t ReadCompactSize\(Stream& is, bool range_check = true\)",
     "rules": [R("template-instance:ReadCompactSize<ByteStream>", r"template<typename Stream>\s*uint64_t ReadCompactSize\(Stream& is, bool range_check = true\)", "uint64_t ReadCompactSize(ByteStream* is, bool range_check)"), THROW]},
]

def H(name, fn, twins=(), **kw):
    d = {"name": name, "enforce": fn, "twins": [{"define": t, "expect": "postcondition"} for t in twins]}
    d.update(kw)
    return d
PLAN = {
    "id": "C48", "level": "proof", "slices": SLICES, "spec": "spec.c", "default_solver": ["cadical", "z3"], "cc_defines": ["VERIF_SER_REAL_DATA"],
    "harnesses": [
        H("h_writedata16", "ser_writedata16"), H("h_writedata32", "ser_writedata32", ["TWIN_LE32"]), H("h_writedata64", "ser_writedata64"),
        H("h_readdata16", "ser_readdata16"), H("h_readdata32", "ser_readdata32"), H("h_readdata64", "ser_readdata64", ["TWIN_LE64"]),
        H("h_GetSizeOfCompactSize", "GetSizeOfCompactSize", ["TWIN_SIZEOF"]),
        H("h_WriteCompactSize", "WriteCompactSize", ["TWIN_WRITE"], replace=["ser_writedata16", "ser_writedata32", "ser_writedata64"]),
        H("h_ReadCompactSize", "ReadCompactSize", ["TWIN_CANON"], replace=["ser_readdata16", "ser_readdata32", "ser_readdata64"]),
        {"name": "h_lemma_compactsize_roundtrip", "replace": ["WriteCompactSize", "ReadCompactSize", "GetSizeOfCompactSize"], "twins": [{"define": "TWIN_RT", "expect": "assertion"}]},
    ],
    "native": {"src": "replay.cpp", "c_src": "native_slices.c", "c_defines": ["VERIF_SER_REAL_DATA"], "diff_n_quick": 60000, "diff_n_thorough": 3000000, "libs": ["libbitcoin_common.a", "libbitcoin_util.a", "libbitcoin_clientversion.a", "libbitcoin_crypto.a"]},
    "not_covered": ["object-level round trips (transactions, blocks, headers, P2P payloads) and txid / wtxid = double-SHA256 of the BIP141 serializations", "hex, base58(check), base64, base32, money and integer strings",
                    "the byte transport itself (DataStream / AutoFile): a buffer stream stub with the 'end of data' exception"],
    "assumptions": ["A5 little-endian machine model (VERIF_BIG_ENDIAN = 0): htoleNN / leNNtoh take their identity branch; internal_bswap_* is a stub (dead on this model)", "stream write/read of an object's bytes is memcpy into / out of the buffer (include/verif_ser.h), end of data raises the ghost exception flag"],
    "manifest": {
        "category": "proof",
        "text": "partial (integer codecs): ser_writedata16/32/64 and ser_readdata16/32/64 (extracted from serialize.h) write / read exactly the little-endian bytes of the value; GetSizeOfCompactSize is 1/3/5/9 at the reference thresholds; WriteCompactSize emits the reference format (value, or 0xfd/0xfe/0xff followed by the 2/4/8-byte little-endian value, shortest form) for every 64-bit value; "
                "ReadCompactSize on arbitrary bytes returns the decoded value, throws exactly for non-canonical encodings (0xfd with value < 253, 0xfe with value < 2^16, 0xff with value < 2^32), for values above MAX_SIZE when range-checked, and on truncated input; a contract-only lemma: Read(Write(n)) == n consuming GetSizeOfCompactSize(n) bytes.",
        "note": "Not covered (the larger part of the statement): object-level serialization, txid/wtxid hashing, text encodings. Trusted: little-endian machine model, buffer stream stub.",
        "technique": "CBMC function contracts on extracted serialize.h integer codecs over a byte-buffer stream shim, callee contracts substituted, contract-only round-trip lemma",
    },
    "trusted_base": ["specs/C48/spec.c", "include/verif_ser.h"],
}
