// C48 native harness: the real WriteCompactSize / ReadCompactSize / GetSizeOfCompactSize and fixed-width integer serialization (serialize.h from the working tree,
// through DataStream) vs the extracted C text vs a reference encoder written from the format description.
#include <serialize.h>
#include <streams.h>
#include "replay_util.h"
struct xBS { unsigned char* buf; size_t wpos, rpos, cap; };
extern "C" { extern int g_thrown; void xc_WriteCompactSize(xBS*, uint64_t); uint64_t xc_ReadCompactSize(xBS*, bool); unsigned xc_GetSizeOfCompactSize(uint64_t); void xc_ser_writedata32(xBS*, uint32_t); void xc_ser_writedata64(xBS*, uint64_t); void xc_ser_writedata16(xBS*, uint16_t); }
#define BAD(...) do { rv::g_stats.real_violations++; if (rv::g_stats.real_violations <= 8) { std::printf("REAL-VIOLATION " __VA_ARGS__); std::printf("\n"); } } while (0)
#define DIS(...) do { rv::g_stats.disagreements++; if (rv::g_stats.disagreements <= 8) { std::printf("DISAGREE " __VA_ARGS__); std::printf("\n"); } } while (0)
static std::vector<unsigned char> ref_enc(uint64_t n) { std::vector<unsigned char> v; int w; if (n < 253) { v.push_back((unsigned char)n); return v; } if (n <= 0xffff) { v.push_back(253); w = 2; } else if (n <= 0xffffffffULL) { v.push_back(254); w = 4; } else { v.push_back(255); w = 8; } for (int i = 0; i < w; i++) v.push_back((unsigned char)(n >> (8 * i))); return v; }
static std::string hx(const std::vector<unsigned char>& v) { static const char* H = "0123456789abcdef"; std::string o; for (auto c : v) { o += H[c >> 4]; o += H[c & 15]; } return o; }
static uint64_t rnd_n(rv::Rng& r) { static const std::vector<int64_t> E = {0, 252, 253, 254, 255, 0xffff, 0x10000, 0xffffffffLL, 0x100000000LL, 0x02000000, 0x02000001, INT64_MAX}; return r.below(8) == 0 ? r.next() : (uint64_t)r.pick(E); }
static void one(rv::Rng& r)
{
    uint64_t n = rnd_n(r); rv::g_stats.inputs++;
    DataStream ss; WriteCompactSize(ss, n); std::vector<unsigned char> got((const unsigned char*)ss.data(), (const unsigned char*)ss.data() + ss.size()), want = ref_enc(n);
    unsigned char xb[16] = {0}; xBS xs{xb, 0, 0, 16}; g_thrown = 0; xc_WriteCompactSize(&xs, n);
    if (g_thrown || xs.wpos != got.size() || memcmp(xb, got.data(), got.size())) DIS("WriteCompactSize(%llu)", (unsigned long long)n);
    if (got != want) BAD("WriteCompactSize(%llu) = %s, reference format is %s", (unsigned long long)n, hx(got).c_str(), hx(want).c_str());
    if (GetSizeOfCompactSize(n) != want.size() || xc_GetSizeOfCompactSize(n) != GetSizeOfCompactSize(n)) BAD("GetSizeOfCompactSize(%llu) = %u, reference %zu", (unsigned long long)n, GetSizeOfCompactSize(n), want.size());
    uint64_t back = 0; bool threw = false; try { back = ReadCompactSize(ss, false); } catch (const std::ios_base::failure&) { threw = true; }
    if (threw || back != n || !ss.empty()) BAD("ReadCompactSize(WriteCompactSize(%llu)) %s", (unsigned long long)n, threw ? "throws" : "returns a different value");
    // arbitrary bytes through the reader
    std::vector<unsigned char> in; size_t len = 1 + r.below(9); static const unsigned char MK[] = {0, 1, 252, 253, 254, 255}; in.push_back(r.below(3) ? MK[r.below(6)] : (unsigned char)r.next());
    for (size_t i = 1; i < len; i++) in.push_back(r.below(3) == 0 ? 0 : (unsigned char)r.next()); if (r.below(3) == 0) { in = ref_enc(rnd_n(r)); if (r.below(4) == 0 && in.size() > 1) in.pop_back(); }
    bool rc = r.below(2); DataStream si{std::span<const unsigned char>(in)}; uint64_t rv_ = 0; bool th = false; try { rv_ = ReadCompactSize(si, rc); } catch (const std::ios_base::failure&) { th = true; }
    unsigned char ib[16] = {0}; memcpy(ib, in.data(), in.size()); xBS xi{ib, in.size(), 0, 16}; g_thrown = 0; uint64_t xv = xc_ReadCompactSize(&xi, rc);
    unsigned m = in[0]; size_t need = m < 253 ? 1 : m == 253 ? 3 : m == 254 ? 5 : 9; bool ok = in.size() >= need; uint64_t val = m; if (ok && m >= 253) { val = 0; for (size_t i = 1; i < need; i++) val |= (uint64_t)in[i] << (8 * (i - 1)); }
    bool canon = m < 253 || (m == 253 && val >= 253) || (m == 254 && val >= 0x10000) || (m == 255 && val >= 0x100000000ULL); bool wantok = ok && canon && (!rc || val <= 0x02000000);
    rv::g_stats.inputs++;
    if (th != (g_thrown != 0) || (!th && rv_ != xv)) DIS("ReadCompactSize(%s)", hx(in).c_str());
    if (th == wantok || (!th && rv_ != val)) BAD("ReadCompactSize(%s, range_check=%d) %s, the format says %s", hx(in).c_str(), rc, th ? "throws" : ("= " + std::to_string(rv_)).c_str(), wantok ? ("value " + std::to_string(val)).c_str() : "reject (truncated / non-canonical / too large)");
    // fixed-width little-endian
    uint32_t v32 = (uint32_t)r.next(); uint64_t v64 = r.next(); uint16_t v16 = (uint16_t)r.next(); DataStream sf; sf << v16 << v32 << v64; std::vector<unsigned char> fw((const unsigned char*)sf.data(), (const unsigned char*)sf.data() + sf.size()), fwant;
    for (int i = 0; i < 2; i++) fwant.push_back((unsigned char)(v16 >> (8 * i))); for (int i = 0; i < 4; i++) fwant.push_back((unsigned char)(v32 >> (8 * i))); for (int i = 0; i < 8; i++) fwant.push_back((unsigned char)(v64 >> (8 * i)));
    unsigned char fb[16] = {0}; xBS xf{fb, 0, 0, 16}; g_thrown = 0; xc_ser_writedata16(&xf, v16); xc_ser_writedata32(&xf, v32); xc_ser_writedata64(&xf, v64);
    if (fw != fwant) BAD("fixed-width integers are not little-endian: %s vs %s", hx(fw).c_str(), hx(fwant).c_str());
    if (xf.wpos != 14 || memcmp(fb, fw.data(), 14)) DIS("ser_writedata16/32/64");
}
int main(int argc, char** argv)
{
    auto a = rv::parse(argc, argv); rv::Rng rng(a.seed); uint64_t n = (a.diff ? a.n : 200000) / 2;
    for (uint64_t i = 0; i < n; i++) one(rng);
    rv::report();
    return rv::g_stats.real_violations ? 1 : (rv::g_stats.disagreements ? 3 : 0);
}
