/* C48 -- integer codecs of serialize.h: fixed-width little-endian data and the compact size. */
#include "verif_ser.h"
int g_thrown;
#define VERIF_BIG_ENDIAN 0
static inline uint16_t internal_bswap_16(uint16_t x) { return (uint16_t)((x >> 8) | (x << 8)); }                      /* VERIF_STUB (dead on the little-endian model) */
static inline uint32_t internal_bswap_32(uint32_t x) { return ((x & 0xff) << 24) | ((x & 0xff00) << 8) | ((x >> 8) & 0xff00) | (x >> 24); }
static inline uint64_t internal_bswap_64(uint64_t x) { return ((uint64_t)internal_bswap_32((uint32_t)x) << 32) | internal_bswap_32((uint32_t)(x >> 32)); }

#define FRESH_STREAM(s) (__CPROVER_is_fresh(s, sizeof(ByteStream)) && (s)->cap == 16 && __CPROVER_is_fresh((s)->buf, 16) && (s)->wpos <= (s)->cap && (s)->rpos <= (s)->wpos)
#define B(s, k) ((uint64_t)(s)->buf[k])
#define LE16_AT(s, p) (B(s, p) | (B(s, (p) + 1) << 8))
#define LE32_AT(s, p) (LE16_AT(s, p) | (B(s, (p) + 2) << 16) | (B(s, (p) + 3) << 24))
#define LE64_AT(s, p) (LE32_AT(s, p) | (B(s, (p) + 4) << 32) | (B(s, (p) + 5) << 40) | (B(s, (p) + 6) << 48) | (B(s, (p) + 7) << 56))
#define OLDW __CPROVER_old(s->wpos)
#define OLDR __CPROVER_old(s->rpos)
#define WRITE_C(W, LEX) \
__CPROVER_requires(FRESH_STREAM(s) && g_thrown == 0) \
__CPROVER_ensures(OLDW + (W) <= 16 ? (!g_thrown && s->wpos == OLDW + (W) && LEX(s, OLDW) == (uint64_t)obj) : (g_thrown && s->wpos == OLDW)) \
__CPROVER_assigns(g_thrown, s->wpos, __CPROVER_object_from(s->buf + s->wpos))
#define READ_C(W, LEX) \
__CPROVER_requires(FRESH_STREAM(s) && g_thrown == 0) \
__CPROVER_ensures(OLDR + (W) <= s->wpos ? (!g_thrown && s->rpos == OLDR + (W) && (uint64_t)__CPROVER_return_value == LEX(s, OLDR)) : (g_thrown && s->rpos == OLDR)) \
__CPROVER_assigns(g_thrown, s->rpos)
#define LE8_AT(s, p) B(s, p)
void ser_writedata8(ByteStream* s, uint8_t obj) WRITE_C(1, LE8_AT);
void ser_writedata16(ByteStream* s, uint16_t obj) WRITE_C(2, LE16_AT);
#ifdef TWIN_LE32
#define BE32_AT(s, p) (B(s, (p) + 3) | (B(s, (p) + 2) << 8) | (B(s, (p) + 1) << 16) | (B(s, p) << 24))
void ser_writedata32(ByteStream* s, uint32_t obj) WRITE_C(4, BE32_AT);
#else
void ser_writedata32(ByteStream* s, uint32_t obj) WRITE_C(4, LE32_AT);
#endif
void ser_writedata64(ByteStream* s, uint64_t obj) WRITE_C(8, LE64_AT);
uint8_t ser_readdata8(ByteStream* s) READ_C(1, LE8_AT);
uint16_t ser_readdata16(ByteStream* s) READ_C(2, LE16_AT);
uint32_t ser_readdata32(ByteStream* s) READ_C(4, LE32_AT);
#ifdef TWIN_LE64
#define SW64_AT(s, p) (LE32_AT(s, (p) + 4) | (LE32_AT(s, p) << 32))
uint64_t ser_readdata64(ByteStream* s) READ_C(8, SW64_AT);
#else
uint64_t ser_readdata64(ByteStream* s) READ_C(8, LE64_AT);
#endif

/* ---- compact size: the reference format ---- */
#ifdef TWIN_SIZEOF
#define SPEC_CS_LEN(n) ((n) < 253 ? 1u : (n) < 0xffffu ? 3u : (n) <= 0xffffffffu ? 5u : 9u)
#else
#define SPEC_CS_LEN(n) ((n) < 253 ? 1u : (n) <= 0xffffu ? 3u : (n) <= 0xffffffffu ? 5u : 9u)
#endif
unsigned int GetSizeOfCompactSize(uint64_t nSize)
__CPROVER_ensures(__CPROVER_return_value == SPEC_CS_LEN(nSize))
__CPROVER_assigns();

#define os_ os
#ifdef TWIN_WRITE
#define SPEC_ENC_OK(s, p, n) ((n) < 253 ? B(s, p) == (n) : (n) <= 0xffffu ? (B(s, p) == 253 && LE16_AT(s, (p) + 1) == (n)) : (n) < 0xffffffffu ? (B(s, p) == 254 && LE32_AT(s, (p) + 1) == (n)) : (B(s, p) == 255 && LE64_AT(s, (p) + 1) == (n)))
#else
#define SPEC_ENC_OK(s, p, n) ((n) < 253 ? B(s, p) == (n) : (n) <= 0xffffu ? (B(s, p) == 253 && LE16_AT(s, (p) + 1) == (n)) : (n) <= 0xffffffffu ? (B(s, p) == 254 && LE32_AT(s, (p) + 1) == (n)) : (B(s, p) == 255 && LE64_AT(s, (p) + 1) == (n)))
#endif
VERIF_REACH_DECL(WriteCompactSize)
void WriteCompactSize(ByteStream* os, uint64_t nSize)
__CPROVER_requires(FRESH_STREAM(os) && g_thrown == 0 && os->wpos == 0)
__CPROVER_ensures(!g_thrown && os->wpos == SPEC_CS_LEN(nSize) && SPEC_ENC_OK(os, 0, nSize))
VERIF_REACH_ENSURES(WriteCompactSize, nSize == 0xffffffffu)
VERIF_REACH_ENSURES(WriteCompactSize, nSize == 252)
VERIF_REACH_ENSURES(WriteCompactSize, nSize > 0xffffffffffffULL)
__CPROVER_assigns(g_thrown, os->wpos, __CPROVER_object_whole(os->buf));

/* what the bytes at the read position denote: marker byte m, then 0/2/4/8 value bytes; one clause per marker (keeps each obligation small) */
#define M0(s) B(s, 0)
#ifdef TWIN_CANON
#define CANON32(v) ((v) > 0x10000u)
#else
#define CANON32(v) ((v) >= 0x10000u)          /* the shortest form: 0xfe only for values that need more than 16 bits */
#endif
#define IN_RANGE(v) (!range_check || (v) <= 0x02000000ULL)
#define DECODED(v, len) (!g_thrown && __CPROVER_return_value == (v) && is->rpos == (len))
VERIF_REACH_DECL(ReadCompactSize)
uint64_t ReadCompactSize(ByteStream* is, bool range_check)
__CPROVER_requires(FRESH_STREAM(is) && g_thrown == 0 && is->rpos == 0 && is->wpos >= 1)
/* decodes exactly the well-formed, canonical (shortest-form), in-range encodings; anything else throws */
__CPROVER_ensures(M0(is) < 253 ==> DECODED(M0(is), 1))
__CPROVER_ensures(M0(is) == 253 ==> ((is->wpos >= 3 && LE16_AT(is, 1) >= 253) ? DECODED(LE16_AT(is, 1), 3) : g_thrown != 0))
__CPROVER_ensures(M0(is) == 254 ==> ((is->wpos >= 5 && CANON32(LE32_AT(is, 1)) && IN_RANGE(LE32_AT(is, 1))) ? DECODED(LE32_AT(is, 1), 5) : g_thrown != 0))
__CPROVER_ensures(M0(is) == 255 ==> ((is->wpos >= 9 && LE64_AT(is, 1) >= 0x100000000ULL && IN_RANGE(LE64_AT(is, 1))) ? DECODED(LE64_AT(is, 1), 9) : g_thrown != 0))
VERIF_REACH_ENSURES(ReadCompactSize, !g_thrown && M0(is) == 255)
VERIF_REACH_ENSURES(ReadCompactSize, g_thrown && M0(is) == 254 && is->wpos >= 5)
VERIF_REACH_ENSURES(ReadCompactSize, g_thrown && M0(is) == 253 && is->wpos == 2)
VERIF_REACH_ENSURES(ReadCompactSize, g_thrown && M0(is) == 255 && is->wpos >= 9 && B(is, 8) != 0)
__CPROVER_assigns(g_thrown, is->rpos);

#include "slices.h"

uint64_t nondet_u64(void); bool nondet_bool(void); uint16_t nondet_u16(void); uint32_t nondet_u32(void);
void h_writedata16(void) { ByteStream* s; ser_writedata16(s, nondet_u16()); VERIF_REACH_PT("returns"); }
void h_writedata32(void) { ByteStream* s; ser_writedata32(s, nondet_u32()); VERIF_REACH_PT("returns"); }
void h_writedata64(void) { ByteStream* s; ser_writedata64(s, nondet_u64()); VERIF_REACH_PT("returns"); }
void h_readdata16(void) { ByteStream* s; ser_readdata16(s); VERIF_REACH_PT("returns"); }
void h_readdata32(void) { ByteStream* s; ser_readdata32(s); VERIF_REACH_PT("returns"); }
void h_readdata64(void) { ByteStream* s; ser_readdata64(s); VERIF_REACH_PT("returns"); }
void h_GetSizeOfCompactSize(void) { unsigned r = GetSizeOfCompactSize(nondet_u64()); if (r == 9) VERIF_REACH_PT("nine"); if (r == 3) VERIF_REACH_PT("three"); }
void h_WriteCompactSize(void) { ByteStream* s; VERIF_REACH_ON(WriteCompactSize); WriteCompactSize(s, nondet_u64()); }
void h_ReadCompactSize(void) { ByteStream* s; VERIF_REACH_ON(ReadCompactSize); ReadCompactSize(s, nondet_bool()); }
/* lemma (contracts only): what WriteCompactSize emits for n, ReadCompactSize decodes to n, consuming GetSizeOfCompactSize(n) bytes (range check off: n is any 64-bit value) */
void h_lemma_compactsize_roundtrip(void)
{
    unsigned char buf[16]; ByteStream s = {buf, 0, 0, 16}; uint64_t n = nondet_u64(); g_thrown = 0;
    WriteCompactSize(&s, n);
    uint64_t m = ReadCompactSize(&s, 0);
#ifdef TWIN_RT
    __CPROVER_assert(!g_thrown && m == n && s.rpos + 1 == s.wpos, "compact size round trip");
#else
    __CPROVER_assert(!g_thrown && m == n && s.rpos == s.wpos && s.wpos == GetSizeOfCompactSize(n), "compact size round trip");
#endif
    VERIF_REACH_PT("lemma end");
}
