#include "verif_tx.h"
#include <assert.h>
#define C49_CONSTS
#include "slices.h"
#undef C49_CONSTS
typedef struct { uint64_t m_v0, m_v1, m_v2, m_v3; } SipHashState;
typedef struct { SipHashState m_state; uint64_t m_tmp; uint8_t m_count; } CSipHasher;
typedef struct { SipHashState m_state; } PresaltedSipHasher;
#define ROTL64(x, n) (((x) << (n)) | ((x) >> (64 - (n))))
#define VERIF_ASSERT(c) assert(c)
typedef struct { uint32_t input[12]; } ChaCha20Aligned;
#define C49_FUNCS
#include "slices.h"
