import os, sys, re
sys.path.insert(0, os.path.dirname(os.path.dirname(os.path.abspath(__file__))))
from engine.extract import R

SH, SC = "src/crypto/siphash.h", "src/crypto/siphash.cpp"
MV = R("member:m_vN", r"(?<![\w.>])m_v([0-3])\b", r"self->m_v\1", False)
ROTL = R("std::rotl (64-bit)", r"std::rotl\(", "ROTL64(", False)
ROUND = R("call:SipRound()", r"(?<![\w.>])SipRound\(\);", "SipHashState_SipRound(self);", False)
RET_THIS = R("return *this", r"return \*this;", "return;", False)
_ARG = r"((?:[^()]|\((?:[^()]|\([^()]*\))*\))*)"
def _chain(m):
    calls = re.findall(r"\.Compress2\(" + _ARG + r"\)", m.group(1))
    return "SipHashState st = self->m_state; " + " ".join(f"SipHashState_Compress2(&st, {a.strip()});" for a in calls) + " return SipHashState_Finalize4(&st);"
CHAIN = R("fluent chain m_state.Copy().Compress2(..)...Finalize4() -> statement sequence on a copy", r"return m_state\.Copy\(\)\s*((?:\.Compress2\(" + _ARG + r"\)\s*)+)\.Finalize4\(\);", _chain, True)
GETU64 = R("uint256::GetUint64(i) -> i-th little-endian word", r"val\.GetUint64\((\d)\)", r"val->w[\1]", True)
def member(name, cname, head, newhead, extra=(), file=SH, cls=r"class SipHashState"):
    d = {"name": name, "cname": cname, "kind": "func", "file": file, "head": head, "rules": [R("method-head:" + name, head, newhead, True)] + list(extra) + [MV, ROTL, ROUND, RET_THIS]}
    if cls: d["within_class"] = cls
    return d
SLICES = [
    {"name": "SIP_CONSTANTS", "kind": "const", "file": SH, "pat": r"static constexpr uint64_t C0\{(0x[0-9a-f]+)\}, C1\{(0x[0-9a-f]+)\}, C2\{(0x[0-9a-f]+)\}, C3\{(0x[0-9a-f]+)\};", "emit": r"#define C0 \1ULL\n#define C1 \2ULL\n#define C2 \3ULL\n#define C3 \4ULL"},
    {"name": "FINALIZER", "kind": "const", "file": SH, "pat": r"static constexpr uint64_t FINALIZER\{(0x[0-9A-Fa-f]+)\};", "emit": r"#define FINALIZER \1ULL"},
    member("SipRound", "SipHashState_SipRound", r"ALWAYS_INLINE void SipRound\(\) noexcept", "void SipHashState_SipRound(SipHashState* self)"),
    {"name": "SipHashState_init", "kind": "func", "file": SH, "within_class": r"class SipHashState", "head": r"explicit ALWAYS_INLINE SipHashState\(uint64_t k0, uint64_t k1\) noexcept : SipHashState\{C0 \^ k0, C1 \^ k1, C2 \^ k0, C3 \^ k1\}",
     "rules": [R("delegating ctor -> init function", r"explicit ALWAYS_INLINE SipHashState\(uint64_t k0, uint64_t k1\)(?:\s*noexcept)? : SipHashState\{([^,}]+), ([^,}]+), ([^,}]+), ([^,}]+)\}\s*\{\}",
                 r"void SipHashState_init(SipHashState* self, uint64_t k0, uint64_t k1) { self->m_v0 = \1; self->m_v1 = \2; self->m_v2 = \3; self->m_v3 = \4; }", True)]},
    member("Compress2", "SipHashState_Compress2", r"ALWAYS_INLINE SipHashState& Compress2\(uint64_t data\) noexcept", "void SipHashState_Compress2(SipHashState* self, uint64_t data)"),
    member("Finalize4", "SipHashState_Finalize4", r"ALWAYS_INLINE uint64_t Finalize4\(\) noexcept", "uint64_t SipHashState_Finalize4(SipHashState* self)"),
    {"name": "CSipHasher_Write64", "kind": "func", "file": SC, "head": r"CSipHasher& CSipHasher::Write\(uint64_t data\)",
     "rules": [R("head", r"CSipHasher& CSipHasher::Write\(uint64_t data\)", "void CSipHasher_Write64(CSipHasher* self, uint64_t data)"), R("assert", r"assert\(m_count % 8 == 0\);", "VERIF_ASSERT(self->m_count % 8 == 0);", True),
               R("call:m_state.Compress2", r"m_state\.Compress2\(data\);", "SipHashState_Compress2(&self->m_state, data);", True), R("member:m_count", r"(?<![\w.>])m_count\b", "self->m_count", True), RET_THIS]},
    {"name": "CSipHasher_WriteBytes", "kind": "func", "file": SC, "head": r"CSipHasher& CSipHasher::Write\(std::span<const unsigned char> data\)",
     "rules": [R("head: span as pointer + length", r"CSipHasher& CSipHasher::Write\(std::span<const unsigned char> data\)", "void CSipHasher_WriteBytes(CSipHasher* self, const unsigned char* data, size_t data_size)"),
               R("copy of the state", r"SipHashState state\{m_state\.Copy\(\)\};", "SipHashState state = self->m_state;", True),
               R("member:m_tmp", r"(?<![\w.>])m_tmp\b", "self->m_tmp", True), R("member:m_count", r"(?<![\w.>])m_count\b", "self->m_count", True), R("member:m_state =", r"(?<![\w.>])m_state = state;", "self->m_state = state;", True),
               R("span:size()", r"data\.size\(\)", "data_size", True), R("span:front()", r"data\.front\(\)", "data[0]", True), R("span:subspan(1)", r"data = data\.subspan\(1\);", "data = data + 1; data_size = data_size - 1;", True),
               R("call:state.Compress2", r"state\.Compress2\(t\);", "SipHashState_Compress2(&state, t);", True), RET_THIS]},
    {"name": "CSipHasher_Finalize", "kind": "func", "file": SC, "head": r"uint64_t CSipHasher::Finalize\(\) const",
     "rules": [R("head", r"uint64_t CSipHasher::Finalize\(\) const", "uint64_t CSipHasher_Finalize(const CSipHasher* self)"), CHAIN, R("member:m_tmp", r"(?<![\w.>])m_tmp\b", "self->m_tmp", True), R("member:m_count", r"(?<![\w.>])m_count\b", "self->m_count", True)]},
    {"name": "PresaltedSipHasher_call", "kind": "func", "file": SC, "head": r"uint64_t PresaltedSipHasher::operator\(\)\(const uint256& val\) const noexcept",
     "rules": [R("head", r"uint64_t PresaltedSipHasher::operator\(\)\(const uint256& val\) const(?:\s*noexcept)?", "uint64_t PresaltedSipHasher_call(const PresaltedSipHasher* self, const uint256_c* val)"), CHAIN, GETU64]},
    {"name": "PresaltedSipHasher_call_extra", "kind": "func", "file": SC, "head": r"uint64_t PresaltedSipHasher::operator\(\)\(const uint256& val, uint32_t extra\) const noexcept",
     "rules": [R("head", r"uint64_t PresaltedSipHasher::operator\(\)\(const uint256& val, uint32_t extra\) const(?:\s*noexcept)?", "uint64_t PresaltedSipHasher_call_extra(const PresaltedSipHasher* self, const uint256_c* val, uint32_t extra)"), CHAIN, GETU64]},
]
CC = "src/crypto/chacha20.cpp"
def _store(name, within):
    return {"name": name, "cname": "ChaCha20Aligned_" + name, "kind": "frag", "file": CC, "within": within, "begin": r"if \(blocks == 1\) \{", "end": r"blocks -= 1;", "include_end": False,
            "prologue": "int ChaCha20Aligned_" + name + "(ChaCha20Aligned* self, size_t blocks, uint32_t j12, uint32_t j13)\n{", "epilogue": "    return 0;   /* more blocks follow */\n}",
            "rules": [R("member:input[]", r"(?<![\w.>])input\[", "self->input[", True), R("return -> the function is done", r"return;", "return 1;", True)]}
SLICES += [_store("Keystream_store_counter", r"inline void ChaCha20Aligned::Keystream\(std::span<std::byte> output\) noexcept"),
           _store("Crypt_store_counter", r"inline void ChaCha20Aligned::Crypt\(std::span<const std::byte> in_bytes, std::span<std::byte> out_bytes\) noexcept")]
for _s in SLICES:
    _s["guard"] = "C49_CONSTS" if _s["kind"] == "const" else "C49_FUNCS"
PLAN = {
    "id": "C49", "level": "proof", "slices": SLICES, "spec": "spec.c", "default_solver": ["cadical", "z3"],
    "harnesses": [
        {"name": "h_presalted_u256", "enforce": "PresaltedSipHasher_call", "unwind": 8, "twins": [{"define": "TWIN_SIP_CONST", "expect": "postcondition"}]},
        {"name": "h_presalted_extra", "enforce": "PresaltedSipHasher_call_extra", "unwind": 8, "twins": [{"define": "TWIN_SIP_LEN", "expect": "postcondition"}]},
        {"name": "h_lemma_hasher_words", "unwind": 8, "twins": [{"define": "TWIN_WORDS", "expect": "assertion"}]},
        {"name": "h_lemma_hasher_bytes36", "unwind": 40, "twins": [{"define": "TWIN_BYTES", "expect": "assertion"}]},
        {"name": "h_Keystream_store_counter", "enforce": "ChaCha20Aligned_Keystream_store_counter", "twins": [{"define": "TWIN_STORE", "expect": "postcondition"}]},
        {"name": "h_Crypt_store_counter", "enforce": "ChaCha20Aligned_Crypt_store_counter"},
        {"name": "h_lemma_bytes16", "unwind": 20},
    ] + [{"name": f"h_lemma_chunk_{k}", "unwind": 20, "reach": k in (0, 5, 16)} for k in range(17)] + [
    ],
    "native": {"src": "replay.cpp", "c_src": "native_slices.c", "repo_sources": ["src/crypto/siphash.cpp", "src/crypto/chacha20.cpp"], "diff_n_quick": 20000, "diff_n_thorough": 2000000, "libs": ["libbitcoin_crypto.a", "libbitcoin_util.a"]},
    "not_covered": ["ChaCha20 (attempted: the one-block equivalence with the RFC 8439 block function went through once by hand for a fixed output word in 5.5 minutes, but with an arbitrary word it exceeded 25 minutes and the multi-block loop-contract version ran out of memory; not claimed)", "SHA-256 / SHA-512 / SHA-1 / SHA3 / RIPEMD-160 compression functions, HMAC, HKDF, Poly1305, AES, the AEAD and its tamper rejection, SIMD back ends: none of these is under contract (hash compression functions against the FIPS text and wide multiplication are outside what the back ends decided here)",
                    "SipHash for message lengths other than 32 and 36 bytes (the two lengths the node hashes: txids / outpoints), SipHasher13UJ"],
    "assumptions": ["uint256::GetUint64(i) is the i-th 64-bit little-endian word of the value (the C rendering reads w[i]); the reference function spec_siphash24 in specs/C49/spec.c is written from the SipHash paper (Aumasson-Bernstein 2012, section 2) and is itself checked natively against the paper's test vector",
                    "std::rotl on uint64_t is ROTL64 (x << n | x >> (64 - n))"],
    "manifest": {
        "category": "proof",
        "text": "partial (SipHash-2-4; one ChaCha20 bookkeeping fact): when ChaCha20Aligned::Keystream / Crypt finish their last block they store BOTH words of the running 64-bit block counter back into the cipher state (and only then; nothing else of the state is written), so a following call continues where this one stopped -- needed for chunked use to equal one-shot use across a 2^32-block boundary; for every 128-bit key and every input, PresaltedSipHasher(k0,k1)(uint256) equals SipHash-2-4 of the 32 bytes, PresaltedSipHasher(uint256, extra) equals SipHash-2-4 of the 36 bytes (value || LE32 extra), "
                "CSipHasher with four Write(uint64) calls and with a byte-wise Write(span) of 36 bytes gives the same results (specialised paths = generic path), and writing 16 bytes in one call or split at any point gives the same hash (chunking).",
        "note": "Not covered: every other primitive in the statement (ChaCha20Aligned::Keystream against an RFC 8439 block function was attempted and is NOT claimed: see DESIGN 8.3). The reference is a spec function written from the SipHash paper; rounds are structurally unwound (c=2, d=4, at most 5 message words).",
        "technique": "CBMC function contracts on extracted crypto/siphash.{h,cpp} against a spec function of SipHash-2-4; loops over a constant number of words/bytes unwound with unwinding assertions",
    },
    "trusted_base": ["specs/C49/spec.c"],
}
