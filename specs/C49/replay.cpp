// C49 native harness (SipHash-2-4): the real CSipHasher / PresaltedSipHasher (crypto/siphash.cpp of the working tree) vs the extracted C text vs an independent byte-oriented
// reference written from the SipHash paper, plus the paper's test vector (key 00..0f, message 00..0e -> a129ca6149be45e5).
#include <crypto/siphash.h>
#include <uint256.h>
#include "replay_util.h"
#define BAD(...) do { rv::g_stats.real_violations++; if (rv::g_stats.real_violations <= 8) { std::printf("REAL-VIOLATION " __VA_ARGS__); std::printf("\n"); } } while (0)
#define DIS(...) do { rv::g_stats.disagreements++; if (rv::g_stats.disagreements <= 8) { std::printf("DISAGREE " __VA_ARGS__); std::printf("\n"); } } while (0)
struct xState { uint64_t v0, v1, v2, v3; }; struct xHasher { xState st; uint64_t tmp; uint8_t count; }; struct xPre { xState st; }; struct xU256 { uint64_t w[4]; };
extern "C" { void xc_SipHashState_init(xState*, uint64_t, uint64_t); void xc_CSipHasher_Write64(xHasher*, uint64_t); void xc_CSipHasher_WriteBytes(xHasher*, const unsigned char*, size_t); uint64_t xc_CSipHasher_Finalize(const xHasher*);
             uint64_t xc_PresaltedSipHasher_call(const xPre*, const xU256*); uint64_t xc_PresaltedSipHasher_call_extra(const xPre*, const xU256*, uint32_t); }
static inline uint64_t rotl(uint64_t x, int b) { return (x << b) | (x >> (64 - b)); }
static uint64_t ref_siphash24(uint64_t k0, uint64_t k1, const unsigned char* in, size_t len)     // after the reference C code of the paper's appendix
{
    uint64_t v0 = 0x736f6d6570736575ULL ^ k0, v1 = 0x646f72616e646f6dULL ^ k1, v2 = 0x6c7967656e657261ULL ^ k0, v3 = 0x7465646279746573ULL ^ k1;
    auto round = [&]() { v0 += v1; v1 = rotl(v1, 13); v1 ^= v0; v0 = rotl(v0, 32); v2 += v3; v3 = rotl(v3, 16); v3 ^= v2; v0 += v3; v3 = rotl(v3, 21); v3 ^= v0; v2 += v1; v1 = rotl(v1, 17); v1 ^= v2; v2 = rotl(v2, 32); };
    size_t full = len / 8; for (size_t i = 0; i < full; i++) { uint64_t m = 0; for (int k = 0; k < 8; k++) m |= (uint64_t)in[8 * i + k] << (8 * k); v3 ^= m; round(); round(); v0 ^= m; }
    uint64_t b = (uint64_t)len << 56; for (size_t k = 0; k < len % 8; k++) b |= (uint64_t)in[8 * full + k] << (8 * k); v3 ^= b; round(); round(); v0 ^= b; v2 ^= 0xff; round(); round(); round(); round(); return v0 ^ v1 ^ v2 ^ v3;
}
int main(int argc, char** argv)
{
    auto a = rv::parse(argc, argv); rv::Rng r(a.seed); uint64_t n = a.diff ? a.n : 20000;
    { unsigned char key[16], msg[15]; for (int i = 0; i < 16; i++) key[i] = i; for (int i = 0; i < 15; i++) msg[i] = i; uint64_t k0 = 0, k1 = 0; for (int i = 0; i < 8; i++) { k0 |= (uint64_t)key[i] << (8 * i); k1 |= (uint64_t)key[8 + i] << (8 * i); }
      rv::g_stats.inputs++; if (ref_siphash24(k0, k1, msg, 15) != 0xa129ca6149be45e5ULL) DIS("the harness reference does not reproduce the paper's test vector"); if (CSipHasher(k0, k1).Write(std::span<const unsigned char>(msg, 15)).Finalize() != 0xa129ca6149be45e5ULL) BAD("CSipHasher on the SipHash paper's test vector"); }
    for (uint64_t it = 0; it < n; it++) {
        uint64_t k0 = r.next(), k1 = r.next(); unsigned char msg[64]; size_t len = r.below(4) == 0 ? r.below(64) : (r.below(2) ? 32 : 36); for (auto& c : msg) c = r.below(4) ? (unsigned char)r.next() : (r.below(2) ? 0 : 0xff);
        uint64_t want = ref_siphash24(k0, k1, msg, len); CSipHasher h(k0, k1); size_t cut = r.below(len + 1); h.Write(std::span<const unsigned char>(msg, cut)); h.Write(std::span<const unsigned char>(msg + cut, len - cut)); uint64_t got = h.Finalize(); rv::g_stats.inputs++;
        xHasher xh{{0, 0, 0, 0}, 0, 0}; xc_SipHashState_init(&xh.st, k0, k1); xc_CSipHasher_WriteBytes(&xh, msg, cut); xc_CSipHasher_WriteBytes(&xh, msg + cut, len - cut); uint64_t xg = xc_CSipHasher_Finalize(&xh);
        if (got != xg) DIS("CSipHasher bytes len %zu", len); if (got != want) BAD("CSipHasher(%016llx,%016llx) over %zu bytes written as %zu + %zu = %016llx, SipHash-2-4 is %016llx", (unsigned long long)k0, (unsigned long long)k1, len, cut, len - cut, (unsigned long long)got, (unsigned long long)want);
        uint256 v; memcpy(v.begin(), msg, 32); uint32_t extra = (uint32_t)msg[32] | (uint32_t)msg[33] << 8 | (uint32_t)msg[34] << 16 | (uint32_t)msg[35] << 24; PresaltedSipHasher p(k0, k1); xPre xp; xc_SipHashState_init(&xp.st, k0, k1); xU256 xv; memcpy(&xv, msg, 32);
        uint64_t g32 = p(v), g36 = p(v, extra), w32 = ref_siphash24(k0, k1, msg, 32), w36 = ref_siphash24(k0, k1, msg, 36); rv::g_stats.inputs++;
        if (g32 != xc_PresaltedSipHasher_call(&xp, &xv) || g36 != xc_PresaltedSipHasher_call_extra(&xp, &xv, extra)) DIS("PresaltedSipHasher");
        if (g32 != w32) BAD("PresaltedSipHasher(uint256) = %016llx, SipHash-2-4 of the 32 bytes is %016llx", (unsigned long long)g32, (unsigned long long)w32);
        if (g36 != w36) BAD("PresaltedSipHasher(uint256, extra) = %016llx, SipHash-2-4 of the 36 bytes is %016llx", (unsigned long long)g36, (unsigned long long)w36);
        CSipHasher hw(k0, k1); xHasher xw{{0, 0, 0, 0}, 0, 0}; xc_SipHashState_init(&xw.st, k0, k1); for (int k = 0; k < 4; k++) { uint64_t w = 0; for (int b = 0; b < 8; b++) w |= (uint64_t)msg[8 * k + b] << (8 * b); hw.Write(w); xc_CSipHasher_Write64(&xw, w); }
        if (hw.Finalize() != xc_CSipHasher_Finalize(&xw)) DIS("Write(uint64)"); if (hw.Finalize() != w32) BAD("CSipHasher with four Write(uint64) = %016llx, SipHash-2-4 of the 32 bytes is %016llx", (unsigned long long)hw.Finalize(), (unsigned long long)w32);
    }
    rv::report();
    return rv::g_stats.real_violations ? 1 : (rv::g_stats.disagreements ? 3 : 0);
}
