// C49 native harness (SipHash-2-4): the real CSipHasher / PresaltedSipHasher (crypto/siphash.cpp of the working tree) vs the extracted C text vs an independent byte-oriented
// reference written from the SipHash paper, plus the paper's test vector (key 00..0f, message 00..0e -> a129ca6149be45e5).
#include <crypto/siphash.h>
#include <crypto/chacha20.h>
#include <span>
#include <uint256.h>
#include "replay_util.h"
#define BAD(...) do { rv::g_stats.real_violations++; if (rv::g_stats.real_violations <= 8) { std::printf("REAL-VIOLATION " __VA_ARGS__); std::printf("\n"); } } while (0)
#define DIS(...) do { rv::g_stats.disagreements++; if (rv::g_stats.disagreements <= 8) { std::printf("DISAGREE " __VA_ARGS__); std::printf("\n"); } } while (0)
struct xState { uint64_t v0, v1, v2, v3; }; struct xHasher { xState st; uint64_t tmp; uint8_t count; }; struct xPre { xState st; }; struct xU256 { uint64_t w[4]; };
extern "C" { void xc_SipHashState_init(xState*, uint64_t, uint64_t); void xc_CSipHasher_Write64(xHasher*, uint64_t); void xc_CSipHasher_WriteBytes(xHasher*, const unsigned char*, size_t); uint64_t xc_CSipHasher_Finalize(const xHasher*);
             uint64_t xc_PresaltedSipHasher_call(const xPre*, const xU256*); uint64_t xc_PresaltedSipHasher_call_extra(const xPre*, const xU256*, uint32_t); }
static inline uint64_t rotl(uint64_t x, int b) { return (x << b) | (x >> (64 - b)); }
static uint64_t ref_siphash24(uint64_t k0, uint64_t k1, const unsigned char* in, size_t len)     // after the reference C code of the paper's appendix
{
    uint64_t v0 = 0x736f6d6570736575ULL ^ k0, v1 = 0x646f72616e646f6dULL ^ k1, v2 = 0x6c7967656e657261ULL ^ k0, v3 = 0x7465646279746573ULL ^ k1;
    auto round = [&]() { v0 += v1; v1 = rotl(v1, 13); v1 ^= v0; v0 = rotl(v0, 32); v2 += v3; v3 = rotl(v3, 16); v3 ^= v2; v0 += v3; v3 = rotl(v3, 21); v3 ^= v0; v2 += v1; v1 = rotl(v1, 17); v1 ^= v2; v2 = rotl(v2, 32); };
    size_t full = len / 8; for (size_t i = 0; i < full; i++) { uint64_t m = 0; for (int k = 0; k < 8; k++) m |= (uint64_t)in[8 * i + k] << (8 * k); v3 ^= m; round(); round(); v0 ^= m; }
    uint64_t b = (uint64_t)len << 56; for (size_t k = 0; k < len % 8; k++) b |= (uint64_t)in[8 * full + k] << (8 * k); v3 ^= b; round(); round(); v0 ^= b; v2 ^= 0xff; round(); round(); round(); round(); return v0 ^ v1 ^ v2 ^ v3;
}
// ChaCha20 (original DJB layout: 64-bit block counter in words 12..13, 64-bit nonce in 14..15; Seek maps (nonce.first, nonce.second, counter) onto it) -- reference after RFC 8439 2.3
static void ref_chacha_block(const unsigned char key[32], uint64_t counter_lo32, uint32_t w13, uint32_t w14, uint32_t w15, unsigned char out[64])
{
    auto rl = [](uint32_t x, int n) { return (x << n) | (x >> (32 - n)); }; uint32_t s[16] = {0x61707865, 0x3320646e, 0x79622d32, 0x6b206574}; for (int i = 0; i < 8; i++) s[4 + i] = (uint32_t)key[4 * i] | (uint32_t)key[4 * i + 1] << 8 | (uint32_t)key[4 * i + 2] << 16 | (uint32_t)key[4 * i + 3] << 24;
    s[12] = (uint32_t)counter_lo32; s[13] = w13; s[14] = w14; s[15] = w15; uint32_t x[16]; for (int i = 0; i < 16; i++) x[i] = s[i];
    auto qr = [&](int a, int b, int c, int d) { x[a] += x[b]; x[d] ^= x[a]; x[d] = rl(x[d], 16); x[c] += x[d]; x[b] ^= x[c]; x[b] = rl(x[b], 12); x[a] += x[b]; x[d] ^= x[a]; x[d] = rl(x[d], 8); x[c] += x[d]; x[b] ^= x[c]; x[b] = rl(x[b], 7); };
    for (int i = 0; i < 10; i++) { qr(0, 4, 8, 12); qr(1, 5, 9, 13); qr(2, 6, 10, 14); qr(3, 7, 11, 15); qr(0, 5, 10, 15); qr(1, 6, 11, 12); qr(2, 7, 8, 13); qr(3, 4, 9, 14); }
    for (int i = 0; i < 16; i++) { uint32_t v = x[i] + s[i]; out[4 * i] = (unsigned char)v; out[4 * i + 1] = (unsigned char)(v >> 8); out[4 * i + 2] = (unsigned char)(v >> 16); out[4 * i + 3] = (unsigned char)(v >> 24); }
}
static void test_chacha(rv::Rng& r)
{
    unsigned char key[32]; for (auto& c : key) c = (unsigned char)r.next(); uint32_t n0 = (uint32_t)r.next(); uint64_t n1 = r.next(); static const uint32_t CS[] = {0, 1, 7, 0xfffffffe, 0xffffffff}; uint32_t ctr = CS[r.below(5)];
    size_t len = 64 * (1 + r.below(4)) + (r.below(2) ? r.below(64) : 0); std::vector<std::byte> in(len), one(len), chunked(len); for (auto& b : in) b = (std::byte)r.next();
    ChaCha20 a{std::span<const std::byte>((const std::byte*)key, 32)}; a.Seek({n0, n1}, ctr); a.Crypt(in, one);
    ChaCha20 b{std::span<const std::byte>((const std::byte*)key, 32)}; b.Seek({n0, n1}, ctr); size_t pos = 0; while (pos < len) { size_t k = std::min(len - pos, (size_t)(r.below(3) ? 64 : 1 + r.below(130))); b.Crypt(std::span<const std::byte>(in).subspan(pos, k), std::span<std::byte>(chunked).subspan(pos, k)); pos += k; }
    std::vector<std::byte> want(len); uint64_t c64 = ((uint64_t)n0 << 32) | ctr; for (size_t blk = 0; blk * 64 < len; blk++) { unsigned char ks[64]; uint64_t c = c64 + blk; ref_chacha_block(key, (uint32_t)c, (uint32_t)(c >> 32), (uint32_t)n1, (uint32_t)(n1 >> 32), ks); for (size_t k = 0; k < 64 && blk * 64 + k < len; k++) want[blk * 64 + k] = in[blk * 64 + k] ^ (std::byte)ks[k]; }
    rv::g_stats.inputs++;
    if (one != want) BAD("ChaCha20::Crypt of %zu bytes from block counter %08x differs from the reference keystream", len, ctr);
    if (chunked != one) BAD("ChaCha20::Crypt of %zu bytes from block counter %08x: chunked calls give a different result than one call (the block counter is not carried from call to call)", len, ctr);
}
int main(int argc, char** argv)
{
    auto a = rv::parse(argc, argv); rv::Rng r(a.seed); uint64_t n = a.diff ? a.n : 20000;
    { unsigned char key[16], msg[15]; for (int i = 0; i < 16; i++) key[i] = i; for (int i = 0; i < 15; i++) msg[i] = i; uint64_t k0 = 0, k1 = 0; for (int i = 0; i < 8; i++) { k0 |= (uint64_t)key[i] << (8 * i); k1 |= (uint64_t)key[8 + i] << (8 * i); }
      rv::g_stats.inputs++; if (ref_siphash24(k0, k1, msg, 15) != 0xa129ca6149be45e5ULL) DIS("the harness reference does not reproduce the paper's test vector"); if (CSipHasher(k0, k1).Write(std::span<const unsigned char>(msg, 15)).Finalize() != 0xa129ca6149be45e5ULL) BAD("CSipHasher on the SipHash paper's test vector"); }
    for (uint64_t it = 0; it < n; it++) {
        uint64_t k0 = r.next(), k1 = r.next(); unsigned char msg[64]; size_t len = r.below(4) == 0 ? r.below(64) : (r.below(2) ? 32 : 36); for (auto& c : msg) c = r.below(4) ? (unsigned char)r.next() : (r.below(2) ? 0 : 0xff);
        uint64_t want = ref_siphash24(k0, k1, msg, len); CSipHasher h(k0, k1); size_t cut = r.below(len + 1); h.Write(std::span<const unsigned char>(msg, cut)); h.Write(std::span<const unsigned char>(msg + cut, len - cut)); uint64_t got = h.Finalize(); rv::g_stats.inputs++;
        xHasher xh{{0, 0, 0, 0}, 0, 0}; xc_SipHashState_init(&xh.st, k0, k1); xc_CSipHasher_WriteBytes(&xh, msg, cut); xc_CSipHasher_WriteBytes(&xh, msg + cut, len - cut); uint64_t xg = xc_CSipHasher_Finalize(&xh);
        if (got != xg) DIS("CSipHasher bytes len %zu", len); if (got != want) BAD("CSipHasher(%016llx,%016llx) over %zu bytes written as %zu + %zu = %016llx, SipHash-2-4 is %016llx", (unsigned long long)k0, (unsigned long long)k1, len, cut, len - cut, (unsigned long long)got, (unsigned long long)want);
        uint256 v; memcpy(v.begin(), msg, 32); uint32_t extra = (uint32_t)msg[32] | (uint32_t)msg[33] << 8 | (uint32_t)msg[34] << 16 | (uint32_t)msg[35] << 24; PresaltedSipHasher p(k0, k1); xPre xp; xc_SipHashState_init(&xp.st, k0, k1); xU256 xv; memcpy(&xv, msg, 32);
        uint64_t g32 = p(v), g36 = p(v, extra), w32 = ref_siphash24(k0, k1, msg, 32), w36 = ref_siphash24(k0, k1, msg, 36); rv::g_stats.inputs++;
        if (g32 != xc_PresaltedSipHasher_call(&xp, &xv) || g36 != xc_PresaltedSipHasher_call_extra(&xp, &xv, extra)) DIS("PresaltedSipHasher");
        if (g32 != w32) BAD("PresaltedSipHasher(uint256) = %016llx, SipHash-2-4 of the 32 bytes is %016llx", (unsigned long long)g32, (unsigned long long)w32);
        if (g36 != w36) BAD("PresaltedSipHasher(uint256, extra) = %016llx, SipHash-2-4 of the 36 bytes is %016llx", (unsigned long long)g36, (unsigned long long)w36);
        CSipHasher hw(k0, k1); xHasher xw{{0, 0, 0, 0}, 0, 0}; xc_SipHashState_init(&xw.st, k0, k1); for (int k = 0; k < 4; k++) { uint64_t w = 0; for (int b = 0; b < 8; b++) w |= (uint64_t)msg[8 * k + b] << (8 * b); hw.Write(w); xc_CSipHasher_Write64(&xw, w); }
        if (hw.Finalize() != xc_CSipHasher_Finalize(&xw)) DIS("Write(uint64)"); if (hw.Finalize() != w32) BAD("CSipHasher with four Write(uint64) = %016llx, SipHash-2-4 of the 32 bytes is %016llx", (unsigned long long)hw.Finalize(), (unsigned long long)w32);
    }
    { unsigned char k0[32] = {0}; unsigned char blk[64]; for (int i = 0; i < 32; i++) k0[i] = (unsigned char)i; ref_chacha_block(k0, 1, 0x09000000, 0x4a000000, 0, blk); rv::g_stats.inputs++; if (blk[0] != 0x10 || blk[1] != 0xf1 || blk[2] != 0xe7 || blk[3] != 0xe4 || blk[63] != 0x4e) DIS("the harness ChaCha20 reference does not reproduce RFC 8439 2.3.2"); }
    for (uint64_t it = 0; it < n / 4; it++) test_chacha(r);
    rv::report();
    return rv::g_stats.real_violations ? 1 : (rv::g_stats.disagreements ? 3 : 0);
}
