/* C49 (SipHash-2-4 part): the extracted hasher classes against a reference written from the paper. */
#include "verif_tx.h"
#define C49_CONSTS
#include "slices.h"
#undef C49_CONSTS
uint64_t nondet_u64(void); size_t nondet_size_t(void); unsigned char nondet_uchar(void);
typedef struct { uint64_t m_v0, m_v1, m_v2, m_v3; } SipHashState;
typedef struct { SipHashState m_state; uint64_t m_tmp; uint8_t m_count; } CSipHasher;
typedef struct { SipHashState m_state; } PresaltedSipHasher;
#define ROTL64(x, n) (((x) << (n)) | ((x) >> (64 - (n))))
#define VERIF_ASSERT(c) __CPROVER_assert(c, "assert() in the original")

/* ---- reference: SipHash-2-4 (Aumasson, Bernstein: "SipHash: a fast short-input PRF", section 2) over nwords full little-endian words and the final word b (remaining bytes | length << 56) ---- */
#define SPEC_SIPROUND(v) do { v[0] += v[1]; v[2] += v[3]; v[1] = ROTL64(v[1], 13); v[3] = ROTL64(v[3], 16); v[1] ^= v[0]; v[3] ^= v[2]; v[0] = ROTL64(v[0], 32); \
                              v[2] += v[1]; v[0] += v[3]; v[1] = ROTL64(v[1], 17); v[3] = ROTL64(v[3], 21); v[1] ^= v[2]; v[3] ^= v[0]; v[2] = ROTL64(v[2], 32); } while (0)
#ifdef TWIN_SIP_CONST
#define SPEC_V2 0x6c7967656e657262ULL
#else
#define SPEC_V2 0x6c7967656e657261ULL
#endif
static uint64_t spec_siphash24(uint64_t k0, uint64_t k1, uint64_t m0, uint64_t m1, uint64_t m2, uint64_t m3, unsigned nwords, uint64_t b)
{
    uint64_t v[4] = {k0 ^ 0x736f6d6570736575ULL, k1 ^ 0x646f72616e646f6dULL, k0 ^ SPEC_V2, k1 ^ 0x7465646279746573ULL};
    uint64_t m[5] = {m0, m1, m2, m3, 0};
    m[nwords] = b;
    for (unsigned i = 0; i <= nwords; i++) { v[3] ^= m[i]; SPEC_SIPROUND(v); SPEC_SIPROUND(v); v[0] ^= m[i]; }
    v[2] ^= 0xff;
    SPEC_SIPROUND(v); SPEC_SIPROUND(v); SPEC_SIPROUND(v); SPEC_SIPROUND(v);
    return v[0] ^ v[1] ^ v[2] ^ v[3];
}
uint64_t g_k0, g_k1;
#define KEYED(s) ((s).m_v0 == (0x736f6d6570736575ULL ^ g_k0) && (s).m_v1 == (0x646f72616e646f6dULL ^ g_k1) && (s).m_v2 == (0x6c7967656e657261ULL ^ g_k0) && (s).m_v3 == (0x7465646279746573ULL ^ g_k1))
#ifdef TWIN_SIP_LEN
#define LEN36 35
#else
#define LEN36 36
#endif
uint64_t PresaltedSipHasher_call(const PresaltedSipHasher* self, const uint256_c* val)
__CPROVER_requires(__CPROVER_is_fresh(self, sizeof(PresaltedSipHasher)) && __CPROVER_is_fresh(val, sizeof(uint256_c)) && KEYED(self->m_state))
__CPROVER_ensures(__CPROVER_return_value == spec_siphash24(g_k0, g_k1, val->w[0], val->w[1], val->w[2], val->w[3], 4, (uint64_t)32 << 56))
__CPROVER_assigns();
uint64_t PresaltedSipHasher_call_extra(const PresaltedSipHasher* self, const uint256_c* val, uint32_t extra)
__CPROVER_requires(__CPROVER_is_fresh(self, sizeof(PresaltedSipHasher)) && __CPROVER_is_fresh(val, sizeof(uint256_c)) && KEYED(self->m_state))
__CPROVER_ensures(__CPROVER_return_value == spec_siphash24(g_k0, g_k1, val->w[0], val->w[1], val->w[2], val->w[3], 4, ((uint64_t)LEN36 << 56) | extra))
__CPROVER_assigns();

/* ---- ChaCha20Aligned: the end of the per-block loop of Keystream and of Crypt (same text in both): the running counter (j12 low word, j13 high word) goes back into input[8], input[9] ---- */
typedef struct { uint32_t input[12]; } ChaCha20Aligned;
#define STORE_CONTRACT(fn) \
int fn(ChaCha20Aligned* self, size_t blocks, uint32_t j12, uint32_t j13) \
__CPROVER_requires(__CPROVER_is_fresh(self, sizeof(ChaCha20Aligned))) \
__CPROVER_ensures((__CPROVER_return_value == 1) == (blocks == 1)) \
__CPROVER_ensures(blocks == 1 ==> (self->input[8] == j12 && STORE_HI)) \
__CPROVER_ensures(blocks != 1 ==> (self->input[8] == __CPROVER_old(self->input[8]) && self->input[9] == __CPROVER_old(self->input[9]))) \
__CPROVER_assigns(self->input[8], self->input[9]);
#ifdef TWIN_STORE
#define STORE_HI (self->input[9] == j13 + 1)
#else
#define STORE_HI (self->input[9] == j13)
#endif
STORE_CONTRACT(ChaCha20Aligned_Keystream_store_counter)
STORE_CONTRACT(ChaCha20Aligned_Crypt_store_counter)

#define C49_FUNCS
#include "slices.h"
void h_Keystream_store_counter(void) { ChaCha20Aligned* c; size_t b; uint32_t lo, hi; int r = ChaCha20Aligned_Keystream_store_counter(c, b, lo, hi); if (r) VERIF_REACH_PT("last block"); else VERIF_REACH_PT("more blocks"); }
void h_Crypt_store_counter(void) { ChaCha20Aligned* c; size_t b; uint32_t lo, hi; int r = ChaCha20Aligned_Crypt_store_counter(c, b, lo, hi); if (r) VERIF_REACH_PT("last block"); else VERIF_REACH_PT("more blocks"); }
void h_presalted_u256(void) { const PresaltedSipHasher* h; const uint256_c* v; g_k0 = nondet_u64(); g_k1 = nondet_u64(); uint64_t r = PresaltedSipHasher_call(h, v); VERIF_REACH_PT("hashed"); }
void h_presalted_extra(void) { const PresaltedSipHasher* h; const uint256_c* v; uint32_t e; g_k0 = nondet_u64(); g_k1 = nondet_u64(); uint64_t r = PresaltedSipHasher_call_extra(h, v, e); VERIF_REACH_PT("hashed"); }
/* CSipHasher(k0,k1) as the constructor builds it: keyed state, no pending bytes */
static void hasher_new(CSipHasher* h, uint64_t k0, uint64_t k1) { SipHashState_init(&h->m_state, k0, k1); h->m_tmp = 0; h->m_count = 0; }
void h_lemma_hasher_words(void)
{
    uint64_t k0 = nondet_u64(), k1 = nondet_u64(), w0 = nondet_u64(), w1 = nondet_u64(), w2 = nondet_u64(), w3 = nondet_u64(); CSipHasher h; hasher_new(&h, k0, k1);
    CSipHasher_Write64(&h, w0); CSipHasher_Write64(&h, w1); CSipHasher_Write64(&h, w2); CSipHasher_Write64(&h, w3);
#ifdef TWIN_WORDS
    __CPROVER_assert(CSipHasher_Finalize(&h) == spec_siphash24(k0, k1, w0, w1, w3, w2, 4, (uint64_t)32 << 56), "twin: words 2 and 3 swapped");
#else
    __CPROVER_assert(CSipHasher_Finalize(&h) == spec_siphash24(k0, k1, w0, w1, w2, w3, 4, (uint64_t)32 << 56), "CSipHasher(k).Write(w0..w3).Finalize() == SipHash-2-4(k, 32 bytes)");
#endif
    VERIF_REACH_PT("end");
}
#define LE64(p) ((uint64_t)(p)[0] | (uint64_t)(p)[1] << 8 | (uint64_t)(p)[2] << 16 | (uint64_t)(p)[3] << 24 | (uint64_t)(p)[4] << 32 | (uint64_t)(p)[5] << 40 | (uint64_t)(p)[6] << 48 | (uint64_t)(p)[7] << 56)
void h_lemma_hasher_bytes36(void)
{
    uint64_t k0 = nondet_u64(), k1 = nondet_u64(); unsigned char msg[36]; for (int i = 0; i < 36; i++) msg[i] = nondet_uchar(); CSipHasher h; hasher_new(&h, k0, k1);
    CSipHasher_WriteBytes(&h, msg, 36);
    uint64_t tail = (uint64_t)msg[32] | (uint64_t)msg[33] << 8 | (uint64_t)msg[34] << 16 | (uint64_t)msg[35] << 24;
#ifdef TWIN_BYTES
    __CPROVER_assert(CSipHasher_Finalize(&h) == spec_siphash24(k0, k1, LE64(msg), LE64(msg + 8), LE64(msg + 16), LE64(msg + 24), 4, ((uint64_t)36 << 56) | (tail << 8)), "twin: tail bytes shifted");
#else
    __CPROVER_assert(CSipHasher_Finalize(&h) == spec_siphash24(k0, k1, LE64(msg), LE64(msg + 8), LE64(msg + 16), LE64(msg + 24), 4, ((uint64_t)36 << 56) | tail), "byte-wise Write of 36 bytes == SipHash-2-4 of those bytes (little-endian words, length in the top byte)");
#endif
    VERIF_REACH_PT("end");
}
/* chunking: a 16-byte message written in one call or split at cut (every cut 0..16 has its own harness, so the split point is a constant and the loops unwind structurally) */
static void chunk_body(size_t cut)
{
    uint64_t k0 = nondet_u64(), k1 = nondet_u64(); unsigned char msg[16]; for (int i = 0; i < 16; i++) msg[i] = nondet_uchar();
    CSipHasher a, b; hasher_new(&a, k0, k1); hasher_new(&b, k0, k1);
    CSipHasher_WriteBytes(&a, msg, 16); CSipHasher_WriteBytes(&b, msg, cut); CSipHasher_WriteBytes(&b, msg + cut, 16 - cut);
    __CPROVER_assert(a.m_state.m_v0 == b.m_state.m_v0 && a.m_state.m_v1 == b.m_state.m_v1 && a.m_state.m_v2 == b.m_state.m_v2 && a.m_state.m_v3 == b.m_state.m_v3 && a.m_tmp == b.m_tmp && a.m_count == b.m_count, "writing 16 bytes at once or split at this point leaves the same hasher state");
    __CPROVER_assert(CSipHasher_Finalize(&a) == CSipHasher_Finalize(&b), "and the same hash");
    VERIF_REACH_PT("end");
}
#define CHUNK_H(k) void h_lemma_chunk_##k(void) { chunk_body(k); }
CHUNK_H(0) CHUNK_H(1) CHUNK_H(2) CHUNK_H(3) CHUNK_H(4) CHUNK_H(5) CHUNK_H(6) CHUNK_H(7) CHUNK_H(8) CHUNK_H(9) CHUNK_H(10) CHUNK_H(11) CHUNK_H(12) CHUNK_H(13) CHUNK_H(14) CHUNK_H(15) CHUNK_H(16)
void h_lemma_bytes16(void)
{
    uint64_t k0 = nondet_u64(), k1 = nondet_u64(); unsigned char msg[16]; for (int i = 0; i < 16; i++) msg[i] = nondet_uchar(); CSipHasher a; hasher_new(&a, k0, k1); CSipHasher_WriteBytes(&a, msg, 16);
    __CPROVER_assert(CSipHasher_Finalize(&a) == spec_siphash24(k0, k1, LE64(msg), LE64(msg + 8), 0, 0, 2, (uint64_t)16 << 56), "byte-wise Write of 16 bytes == SipHash-2-4 of the 16 bytes");
    VERIF_REACH_PT("end");
}
