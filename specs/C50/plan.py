SC = "src/secp256k1/src/scalar_4x64_impl.h"
def H(name, fn, twins=(), **kw):
    d = {"name": name, "enforce": fn, "twins": [{"define": t, "expect": "postcondition"} for t in twins]}
    d.update(kw)
    return d

PLAN = {
    "id": "C50",
    "level": "proof",
    "slices": [],
    "spec": "spec.c",
    "repo_incdirs": ["src/secp256k1"],
    "cc_defines": ["COMB_BLOCKS=43", "COMB_TEETH=6", "ECMULT_WINDOW_SIZE=15", "SECP256K1_NO_API_VISIBILITY_ATTRIBUTES"],
    "c_direct_functions": [
        {"file": SC, "route": "C-direct", "functions": ["secp256k1_scalar_check_overflow", "secp256k1_scalar_reduce", "secp256k1_scalar_add", "secp256k1_scalar_cadd_bit",
                                                        "secp256k1_scalar_set_b32", "secp256k1_scalar_get_b32", "secp256k1_scalar_is_zero", "secp256k1_scalar_negate", "secp256k1_scalar_half",
                                                        "secp256k1_scalar_is_one", "secp256k1_scalar_is_high", "secp256k1_scalar_cond_negate", "secp256k1_scalar_eq"]},
        {"file": "src/secp256k1/src/secp256k1.c", "route": "C-direct", "functions": ["secp256k1_ecdsa_signature_normalize", "secp256k1_ecdsa_verify", "secp256k1_ecdsa_signature_load", "secp256k1_ecdsa_signature_save"]},
    ],
    "harnesses": [
        H("h_check_overflow", "secp256k1_scalar_check_overflow", ["TWIN_OVERFLOW"]),
        H("h_reduce", "secp256k1_scalar_reduce", ["TWIN_REDUCE"]),
        H("h_add", "secp256k1_scalar_add", ["TWIN_ADD"]),
        H("h_cadd_bit", "secp256k1_scalar_cadd_bit"),
        H("h_is_zero", "secp256k1_scalar_is_zero"),
        H("h_is_one", "secp256k1_scalar_is_one"),
        H("h_eq", "secp256k1_scalar_eq"),
        H("h_negate", "secp256k1_scalar_negate", ["TWIN_NEGATE"]),
        H("h_half", "secp256k1_scalar_half"),
        H("h_is_high", "secp256k1_scalar_is_high", ["TWIN_HIGH"]),
        H("h_cond_negate", "secp256k1_scalar_cond_negate"),
        H("h_set_b32", "secp256k1_scalar_set_b32"),
        H("h_get_b32", "secp256k1_scalar_get_b32", ["TWIN_GETB32"]),
        H("h_normalize", "secp256k1_ecdsa_signature_normalize", ["TWIN_NORMALIZE"]),
        H("h_verify_gate", "secp256k1_ecdsa_verify", ["TWIN_VERIFY_GATE"], replace=["secp256k1_ecdsa_sig_verify", "secp256k1_pubkey_load"]),
        {"name": "h_lemma_b32_roundtrip", "replace": ["secp256k1_scalar_get_b32", "secp256k1_scalar_set_b32"]},
        {"name": "h_lemma_add_negate", "replace": ["secp256k1_scalar_negate", "secp256k1_scalar_add"]},
    ],
    "not_covered": ["scalar/field multiplication and inversion, group law, ecmult, the ECDSA/Schnorr verification equations, ECDH, ElligatorSwift, RFC6979, MuSig, the C++ wrappers (key.cpp/pubkey.cpp)",
                    "x86_64 assembly variants (the production build defines USE_ASM_X86_64 for scalar/field multiplication; the contracted functions have no asm variant)",
                    "aliased arguments (r == a) of scalar_add/negate/half: contracts are proved for separated objects"],
    "assumptions": ["secp256k1_ecdsa_sig_verify and secp256k1_pubkey_load are replaced by assumed contracts with arbitrary 0/1 results in the low-S gate harness",
                    "int128 arithmetic is the native unsigned __int128 variant (int128_native_impl.h), as in the production x86_64 build",
                    "volatile locals (vflag) are read as ordinary variables"],
    "manifest": {
        "category": "proof",
        "text": "partial (scalar layer + strictness): 13 unmodified functions of scalar_4x64_impl.h are proved against 256/257-bit integer specs for ALL inputs (check_overflow <=> a>=N, add = (a+b) mod N in carry form, "
                "negate, half, is_high <=> a>(N-1)/2, cond_negate, cadd_bit, reduce, set_b32/get_b32 big-endian with exact overflow flag, byte round trip lemma), ecdsa_signature_normalize yields the low-S form and "
                "reports highness exactly, and ecdsa_verify returns 0 for every high-S signature regardless of the (stubbed) curve arithmetic.",
        "note": "The bulk of the statement (multiplication, inversion, group law, ecmult, signature equations, ECDH, ElligatorSwift) is NOT covered: multiplication-heavy code is beyond every installed back end. "
                "Trusted: spec macros (N written from SEC 2), CBMC. No extraction: the repo's C is #included unmodified.",
        "technique": "CBMC function contracts on forward declarations of the unmodified libsecp256k1 C sources (C-direct), bit-vector[256/257] spec integers",
    },
    "trusted_base": ["specs/C50/spec.c"],
    "native": {"src": "replay.c", "src_lang": "c", "c_slices": False, "libs": []},
}
