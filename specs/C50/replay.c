/* C50 native harness (C): the real libsecp256k1 scalar functions (sources #included from the working tree) vs
 * a 4-limb reference written independently with unsigned __int128. */
#include <stdio.h>
#include <stdlib.h>
#include <string.h>
#include <stdint.h>
#include "src/secp256k1.c"
#include "src/precomputed_ecmult.c"
#include "src/precomputed_ecmult_gen.c"

typedef struct { uint64_t w[5]; } big;   /* little-endian limbs, 320 bits */
static const big BN = {{0xBFD25E8CD0364141ULL, 0xBAAEDCE6AF48A03BULL, 0xFFFFFFFFFFFFFFFEULL, 0xFFFFFFFFFFFFFFFFULL, 0}};
static int bcmp_(const big* a, const big* b) { for (int i = 4; i >= 0; i--) { if (a->w[i] < b->w[i]) return -1; if (a->w[i] > b->w[i]) return 1; } return 0; }
static big badd(const big* a, const big* b) { big r; unsigned __int128 c = 0; for (int i = 0; i < 5; i++) { c += (unsigned __int128)a->w[i] + b->w[i]; r.w[i] = (uint64_t)c; c >>= 64; } return r; }
static big bsub(const big* a, const big* b) { big r; unsigned __int128 br = 0; for (int i = 0; i < 5; i++) { unsigned __int128 t = (unsigned __int128)a->w[i] - b->w[i] - br; r.w[i] = (uint64_t)t; br = (t >> 64) & 1; } return r; }
static big from_sc(const secp256k1_scalar* s) { big r = {{s->d[0], s->d[1], s->d[2], s->d[3], 0}}; return r; }
static big bhalfN(void) { big r = BN; for (int i = 0; i < 4; i++) r.w[i] = (r.w[i] >> 1) | (r.w[i + 1] << 63); return r; }

static uint64_t S; static uint64_t rnd(void) { uint64_t z = (S += 0x9E3779B97F4A7C15ULL); z = (z ^ (z >> 30)) * 0xBF58476D1CE4E5B9ULL; z = (z ^ (z >> 27)) * 0x94D049BB133111EBULL; return z ^ (z >> 31); }
static unsigned long long inputs, bad;
static void fail(const char* what, const secp256k1_scalar* a, const secp256k1_scalar* b) {
    bad++; if (bad <= 5) printf("REAL-VIOLATION %s a=%016llx%016llx%016llx%016llx b=%016llx%016llx%016llx%016llx\n", what, (unsigned long long)a->d[3], (unsigned long long)a->d[2], (unsigned long long)a->d[1], (unsigned long long)a->d[0], b ? (unsigned long long)b->d[3] : 0, b ? (unsigned long long)b->d[2] : 0, b ? (unsigned long long)b->d[1] : 0, b ? (unsigned long long)b->d[0] : 0);
}
static secp256k1_scalar gen(int below_n) {
    secp256k1_scalar s; int m = rnd() % 8; big h = bhalfN();
    for (int i = 0; i < 4; i++) s.d[i] = rnd();
    if (m == 0) { big t = BN; memcpy(s.d, t.w, 32); s.d[0] += (int64_t)(rnd() % 5) - 2; }
    else if (m == 1) { memcpy(s.d, h.w, 32); s.d[0] += (int64_t)(rnd() % 5) - 2; }
    else if (m == 2) { memset(s.d, 0, 32); s.d[0] = rnd() % 3; }
    else if (m == 3) { memset(s.d, 0xff, 32); s.d[0] -= rnd() % 3; }
    if (below_n) { big b = from_sc(&s); if (bcmp_(&b, &BN) >= 0) { b = bsub(&b, &BN); memcpy(s.d, b.w, 32); } }
    return s;
}
static void run_with(secp256k1_scalar a, secp256k1_scalar an, secp256k1_scalar bn);
static void one(void) { run_with(gen(0), gen(1), gen(1)); }
static void run_with(secp256k1_scalar a, secp256k1_scalar an, secp256k1_scalar bn) {
    secp256k1_scalar r; big A = from_sc(&a), An = from_sc(&an), Bn = from_sc(&bn), H = bhalfN(), R, T;
    inputs++;
    if (secp256k1_scalar_check_overflow(&a) != (bcmp_(&A, &BN) >= 0)) fail("check_overflow(a) != (a >= N)", &a, 0);
    if (secp256k1_scalar_is_high(&a) != (bcmp_(&A, &H) > 0)) fail("is_high(a) != (a > (N-1)/2)", &a, 0);
    { int o = secp256k1_scalar_add(&r, &an, &bn); R = from_sc(&r); T = badd(&An, &Bn); if (o) { big x = badd(&R, &BN); R = x; } if (bcmp_(&R, &T) != 0 || (o != 0 && o != 1)) fail("add(a,b) != (a+b) mod N", &an, &bn); R = from_sc(&r); if (bcmp_(&R, &BN) >= 0) fail("add result not < N", &an, &bn); }
    { secp256k1_scalar_negate(&r, &an); R = from_sc(&r); T = badd(&R, &An); big z = {{0}}; if (!((bcmp_(&An, &z) == 0 && bcmp_(&R, &z) == 0) || bcmp_(&T, &BN) == 0)) fail("negate(a) + a != N", &an, 0); }
    { secp256k1_scalar_half(&r, &an); R = from_sc(&r); T = badd(&R, &R); big t2 = badd(&An, &BN); if (bcmp_(&T, &An) != 0 && bcmp_(&T, &t2) != 0) fail("2*half(a) != a (mod N)", &an, 0); }
    { unsigned char buf[32]; int ov; secp256k1_scalar_get_b32(buf, &an); secp256k1_scalar_set_b32(&r, buf, &ov); if (ov || memcmp(r.d, an.d, 32)) fail("set_b32(get_b32(a)) != a", &an, 0); if (buf[31] != (unsigned char)an.d[0] || buf[0] != (unsigned char)(an.d[3] >> 56)) fail("get_b32 not big-endian", &an, 0);
      for (int i = 0; i < 32; i++) buf[i] = (unsigned char)(a.d[3 - i / 8] >> (56 - 8 * (i % 8))); secp256k1_scalar_set_b32(&r, buf, &ov); R = from_sc(&r); T = A; if (bcmp_(&A, &BN) >= 0) T = bsub(&A, &BN); if (ov != (bcmp_(&A, &BN) >= 0) || bcmp_(&R, &T) != 0) fail("set_b32 reduction/overflow flag wrong", &a, 0); }
    { secp256k1_ecdsa_signature si, so; memcpy(&si.data[0], bn.d, 32); memcpy(&si.data[32], an.d, 32); int hi = secp256k1_ecdsa_signature_normalize(secp256k1_context_static, &so, &si); secp256k1_scalar s2; memcpy(s2.d, &so.data[32], 32); big S2 = from_sc(&s2);
      if (hi != (bcmp_(&An, &H) > 0) || bcmp_(&S2, &H) > 0 || memcmp(&so.data[0], &si.data[0], 32)) fail("signature_normalize wrong", &an, &bn);
      if (hi) { static secp256k1_context* cx; static secp256k1_pubkey pk; unsigned char sk[32] = {0}; sk[31] = 1; unsigned char msg[32] = {1}; if (!cx) { cx = secp256k1_context_create(SECP256K1_CONTEXT_NONE); secp256k1_ec_pubkey_create(cx, &pk, sk); } if (secp256k1_ecdsa_verify(cx, &si, msg, &pk)) fail("ecdsa_verify accepted a high-S signature", &an, &bn); } }
}
int main(int argc, char** argv) {
    unsigned long long n = 200000; S = 1;
    if (argc >= 3 && !strcmp(argv[1], "--diff")) { n = strtoull(argv[2], 0, 10); if (argc > 3) S = strtoull(argv[3], 0, 10); }
    else if (argc >= 3 && !strcmp(argv[1], "--cex")) {
        /* counterexample from the verifier: every object with limbs d[0..3] in the trace is tried as input scalar */
        char path[4096], line[1024]; snprintf(path, sizeof path, "%s.kv", argv[2]); FILE* f = fopen(path, "r");
        secp256k1_scalar sc[16]; char names[16][64]; int ns = 0; memset(sc, 0, sizeof sc);
        while (f && fgets(line, sizeof line, f)) { char obj[64]; int k; unsigned long long v; char* dot = strstr(line, ".d["); if (!dot) continue; size_t ol = dot - line; if (ol >= 64) continue; memcpy(obj, line, ol); obj[ol] = 0;
            if (sscanf(dot, ".d[%dl]\t%llu", &k, &v) != 2 || k < 0 || k > 3) continue; int i; for (i = 0; i < ns; i++) if (!strcmp(names[i], obj)) break; if (i == ns) { if (ns == 16) continue; strcpy(names[ns++], obj); } sc[i].d[k] = v; }
        if (f) fclose(f);
        for (int i = 0; i < ns; i++) { secp256k1_scalar lo = sc[i]; big b = from_sc(&lo); if (bcmp_(&b, &BN) >= 0) { b = bsub(&b, &BN); memcpy(lo.d, b.w, 32); } for (int j = 0; j < ns; j++) { secp256k1_scalar lo2 = sc[j]; big b2 = from_sc(&lo2); if (bcmp_(&b2, &BN) >= 0) { b2 = bsub(&b2, &BN); memcpy(lo2.d, b2.w, 32); } run_with(sc[i], lo, lo2); } }
        if (argc > 3) S = strtoull(argv[3], 0, 10); }
    for (unsigned long long i = 0; i < n; i++) one();
    printf("DIFF inputs=%llu disagreements=0 real_violations=%llu\n", inputs, bad);
    return bad ? 1 : 0;
}
