/* C50 -- secp256k1 operations agree with the curve's mathematics: scalar layer and low-S strictness.
 * C-direct route: the repository's own C files are #included unmodified after contract-bearing forward
 * declarations.  Spec-side integers are 256/257/512-bit bit-vectors; N is written out from SEC 2 (secp256k1 order). */
#include <stdint.h>
#include <stddef.h>
#include <string.h>
#ifndef VERIF_CBMC
#error "CBMC only"
#endif
#define VERIF_REACH_PT_(name) __CPROVER_assert(0, "REACH:" name)
#ifdef VERIF_REACH
#define VERIF_REACH_PT(name) VERIF_REACH_PT_(name)
#else
#define VERIF_REACH_PT(name) ((void)0)
#endif
typedef unsigned __CPROVER_bitvector[256] u256;
typedef unsigned __CPROVER_bitvector[257] u257;

#define SECP256K1_BUILD
#include "include/secp256k1.h"
#include "src/util.h"
#include "src/scalar.h"
#include "src/field.h"
#include "src/group.h"
#include "src/ecmult_gen.h"
#include "src/ecdsa.h"

#define U256_4(a3, a2, a1, a0) ((((u256)(uint64_t)(a3)) << 192) | (((u256)(uint64_t)(a2)) << 128) | (((u256)(uint64_t)(a1)) << 64) | ((u256)(uint64_t)(a0)))
/* group order n of secp256k1 (SEC 2, 2.4.1) */
#define N256 U256_4(0xFFFFFFFFFFFFFFFFULL, 0xFFFFFFFFFFFFFFFEULL, 0xBAAEDCE6AF48A03BULL, 0xBFD25E8CD0364141ULL)
#define S256(p) U256_4((p)->d[3], (p)->d[2], (p)->d[1], (p)->d[0])
#define S256_OLD(p) U256_4(__CPROVER_old((p)->d[3]), __CPROVER_old((p)->d[2]), __CPROVER_old((p)->d[1]), __CPROVER_old((p)->d[0]))
#define B8(b, i) (((u256)(b)[i]) << (8 * (31 - (i))))
#define BE256(b) (B8(b,0)|B8(b,1)|B8(b,2)|B8(b,3)|B8(b,4)|B8(b,5)|B8(b,6)|B8(b,7)|B8(b,8)|B8(b,9)|B8(b,10)|B8(b,11)|B8(b,12)|B8(b,13)|B8(b,14)|B8(b,15)|B8(b,16)|B8(b,17)|B8(b,18)|B8(b,19)|B8(b,20)|B8(b,21)|B8(b,22)|B8(b,23)|B8(b,24)|B8(b,25)|B8(b,26)|B8(b,27)|B8(b,28)|B8(b,29)|B8(b,30)|B8(b,31))
/* scalar stored as raw limbs inside a 32-byte little-endian host buffer (secp256k1_ecdsa_signature layout) */
#define L8(b, i) (((u256)(b)[i]) << (8 * (i)))
#define LE256(b) (L8(b,0)|L8(b,1)|L8(b,2)|L8(b,3)|L8(b,4)|L8(b,5)|L8(b,6)|L8(b,7)|L8(b,8)|L8(b,9)|L8(b,10)|L8(b,11)|L8(b,12)|L8(b,13)|L8(b,14)|L8(b,15)|L8(b,16)|L8(b,17)|L8(b,18)|L8(b,19)|L8(b,20)|L8(b,21)|L8(b,22)|L8(b,23)|L8(b,24)|L8(b,25)|L8(b,26)|L8(b,27)|L8(b,28)|L8(b,29)|L8(b,30)|L8(b,31))
#define FRESH_SC(p) __CPROVER_is_fresh(p, sizeof(secp256k1_scalar))

#ifdef TWIN_OVERFLOW
#define GE_N(x) ((x) > N256)
#else
#define GE_N(x) ((x) >= N256)
#endif

static int secp256k1_scalar_check_overflow(const secp256k1_scalar *a)
__CPROVER_requires(FRESH_SC(a))
__CPROVER_ensures(__CPROVER_return_value == (GE_N(S256(a)) ? 1 : 0))
__CPROVER_assigns();

/* reduce: subtract N exactly `overflow` times, modulo 2^256 */
static int secp256k1_scalar_reduce(secp256k1_scalar *r, unsigned int overflow)
__CPROVER_requires(FRESH_SC(r) && overflow <= 1)
__CPROVER_ensures(__CPROVER_return_value == (int)overflow)
#ifdef TWIN_REDUCE
__CPROVER_ensures(S256(r) == (u256)(S256_OLD(r) - (overflow ? N256 : (u256)1)))
#else
__CPROVER_ensures(S256(r) == (u256)(S256_OLD(r) - (overflow ? N256 : (u256)0)))
#endif
__CPROVER_assigns(r->d[0], r->d[1], r->d[2], r->d[3]);

/* add: r = (a + b) mod N, in carry form; returns whether a reduction happened */
static int secp256k1_scalar_add(secp256k1_scalar *r, const secp256k1_scalar *a, const secp256k1_scalar *b)
__CPROVER_requires(FRESH_SC(r) && FRESH_SC(a) && FRESH_SC(b) && S256(a) < N256 && S256(b) < N256)
__CPROVER_ensures(__CPROVER_return_value == 0 || __CPROVER_return_value == 1)
__CPROVER_ensures(S256(r) < N256)
#ifdef TWIN_ADD
__CPROVER_ensures((u257)S256(r) + (__CPROVER_return_value ? (u257)N256 : (u257)0) == (u257)S256(a) + (u257)S256(b) + (u257)1)
#else
__CPROVER_ensures((u257)S256(r) + (__CPROVER_return_value ? (u257)N256 : (u257)0) == (u257)S256(a) + (u257)S256(b))
#endif
__CPROVER_assigns(r->d[0], r->d[1], r->d[2], r->d[3]);

static void secp256k1_scalar_cadd_bit(secp256k1_scalar *r, unsigned int bit, int flag)
__CPROVER_requires(FRESH_SC(r) && bit < 256 && (flag == 0 || flag == 1))
__CPROVER_requires((u257)S256(r) + (((u257)flag) << bit) < ((u257)1 << 256))
__CPROVER_ensures((u257)S256(r) == (u257)S256_OLD(r) + (((u257)flag) << bit))
__CPROVER_assigns(r->d[0], r->d[1], r->d[2], r->d[3]);

static int secp256k1_scalar_is_zero(const secp256k1_scalar *a)
__CPROVER_requires(FRESH_SC(a))
__CPROVER_ensures(__CPROVER_return_value == (S256(a) == 0))
__CPROVER_assigns();

static int secp256k1_scalar_is_one(const secp256k1_scalar *a)
__CPROVER_requires(FRESH_SC(a))
__CPROVER_ensures(__CPROVER_return_value == (S256(a) == 1))
__CPROVER_assigns();

static int secp256k1_scalar_eq(const secp256k1_scalar *a, const secp256k1_scalar *b)
__CPROVER_requires(FRESH_SC(a) && FRESH_SC(b))
__CPROVER_ensures(__CPROVER_return_value == (S256(a) == S256(b)))
__CPROVER_assigns();

/* negate: additive inverse mod N */
static void secp256k1_scalar_negate(secp256k1_scalar *r, const secp256k1_scalar *a)
__CPROVER_requires(FRESH_SC(r) && FRESH_SC(a) && S256(a) < N256)
#ifdef TWIN_NEGATE
__CPROVER_ensures((u257)S256(r) + (u257)S256(a) == (u257)N256)
#else
__CPROVER_ensures((S256(a) == 0 && S256(r) == 0) || ((u257)S256(r) + (u257)S256(a) == (u257)N256))
#endif
__CPROVER_ensures(S256(r) < N256)
__CPROVER_assigns(r->d[0], r->d[1], r->d[2], r->d[3]);

/* half: r = a / 2 mod N, i.e. 2r = a or 2r = a + N */
static void secp256k1_scalar_half(secp256k1_scalar *r, const secp256k1_scalar *a)
__CPROVER_requires(FRESH_SC(r) && FRESH_SC(a) && S256(a) < N256)
__CPROVER_ensures(S256(r) < N256)
__CPROVER_ensures(((u257)S256(r) << 1) == (u257)S256(a) || ((u257)S256(r) << 1) == (u257)S256(a) + (u257)N256)
__CPROVER_assigns(r->d[0], r->d[1], r->d[2], r->d[3]);

/* is_high: a > (N-1)/2  (strictly above the half order) */
static int secp256k1_scalar_is_high(const secp256k1_scalar *a)
__CPROVER_requires(FRESH_SC(a))
#ifdef TWIN_HIGH
__CPROVER_ensures(__CPROVER_return_value == (S256(a) >= (N256 >> 1)))
#else
__CPROVER_ensures(__CPROVER_return_value == (S256(a) > (N256 >> 1)))
#endif
__CPROVER_assigns();

static int secp256k1_scalar_cond_negate(secp256k1_scalar *r, int flag)
__CPROVER_requires(FRESH_SC(r) && (flag == 0 || flag == 1) && S256(r) < N256)
__CPROVER_ensures(__CPROVER_return_value == (flag ? -1 : 1))
__CPROVER_ensures(flag == 0 ==> S256(r) == S256_OLD(r))
__CPROVER_ensures(flag == 1 ==> ((S256_OLD(r) == 0 && S256(r) == 0) || ((u257)S256(r) + (u257)S256_OLD(r) == (u257)N256)))
__CPROVER_assigns(r->d[0], r->d[1], r->d[2], r->d[3]);

/* byte conversion: big-endian 32 bytes, reduced mod N with the overflow flag telling whether the input was >= N */
static void secp256k1_scalar_set_b32(secp256k1_scalar *r, const unsigned char *b32, int *overflow)
__CPROVER_requires(FRESH_SC(r) && __CPROVER_is_fresh(b32, 32) && (overflow == NULL || __CPROVER_is_fresh(overflow, sizeof(int))))
__CPROVER_ensures(BE256(b32) >= N256 ? S256(r) == (u256)(BE256(b32) - N256) : S256(r) == BE256(b32))
__CPROVER_ensures(S256(r) < N256)
__CPROVER_ensures(overflow != NULL ==> *overflow == (BE256(b32) >= N256 ? 1 : 0))
__CPROVER_assigns(r->d[0], r->d[1], r->d[2], r->d[3]; overflow != NULL: *overflow);

static void secp256k1_scalar_get_b32(unsigned char *bin, const secp256k1_scalar* a)
__CPROVER_requires(__CPROVER_is_fresh(bin, 32) && FRESH_SC(a))
#ifdef TWIN_GETB32
__CPROVER_ensures(LE256(bin) == S256(a))
#else
__CPROVER_ensures(BE256(bin) == S256(a))
#endif
__CPROVER_assigns(__CPROVER_object_whole(bin));

/* ---- ECDSA strictness ------------------------------------------------------------------------- */
#define SIG_R(sig) LE256(&(sig)->data[0])
#define SIG_S(sig) LE256(&(sig)->data[32])

int secp256k1_ecdsa_signature_normalize(const secp256k1_context* ctx, secp256k1_ecdsa_signature *sigout, const secp256k1_ecdsa_signature *sigin)
__CPROVER_requires(__CPROVER_is_fresh(sigin, sizeof(*sigin)) && (sigout == NULL || __CPROVER_is_fresh(sigout, sizeof(*sigout))))
__CPROVER_requires(SIG_S(sigin) < N256)
__CPROVER_ensures(__CPROVER_return_value == (SIG_S(sigin) > (N256 >> 1)))
__CPROVER_ensures(sigout != NULL ==> SIG_R(sigout) == SIG_R(sigin))
#ifdef TWIN_NORMALIZE
__CPROVER_ensures(sigout != NULL ==> SIG_S(sigout) == SIG_S(sigin))
#else
__CPROVER_ensures(sigout != NULL ==> SIG_S(sigout) == (SIG_S(sigin) > (N256 >> 1) ? (u256)(N256 - SIG_S(sigin)) : SIG_S(sigin)))
#endif
__CPROVER_ensures(sigout != NULL ==> SIG_S(sigout) <= (N256 >> 1))
__CPROVER_assigns(sigout != NULL: __CPROVER_object_whole(sigout));

/* assumed contracts (VERIF_TRUSTED: arbitrary results; the group arithmetic behind them is NOT verified) */
static int secp256k1_ecdsa_sig_verify(const secp256k1_scalar *sigr, const secp256k1_scalar *sigs, const secp256k1_ge *pubkey, const secp256k1_scalar *message)
__CPROVER_ensures(__CPROVER_return_value == 0 || __CPROVER_return_value == 1)
__CPROVER_assigns();
static int secp256k1_pubkey_load(const secp256k1_context* ctx, secp256k1_ge* ge, const secp256k1_pubkey* pubkey)
__CPROVER_requires(__CPROVER_is_fresh(ge, sizeof(*ge)))
__CPROVER_ensures(__CPROVER_return_value == 0 || __CPROVER_return_value == 1)
__CPROVER_assigns(__CPROVER_object_whole(ge));

/* strict verification accepts only low-S signatures, whatever the (unverified) curve arithmetic says */
int secp256k1_ecdsa_verify(const secp256k1_context* ctx, const secp256k1_ecdsa_signature *sig, const unsigned char *msghash32, const secp256k1_pubkey *pubkey)
__CPROVER_requires(__CPROVER_is_fresh(sig, sizeof(*sig)) && __CPROVER_is_fresh(msghash32, 32) && __CPROVER_is_fresh(pubkey, sizeof(*pubkey)))
#ifdef TWIN_VERIFY_GATE
__CPROVER_ensures(SIG_S(sig) >= (N256 >> 1) ==> __CPROVER_return_value == 0)
#else
__CPROVER_ensures(SIG_S(sig) > (N256 >> 1) ==> __CPROVER_return_value == 0)
#endif
__CPROVER_ensures(__CPROVER_return_value == 0 || __CPROVER_return_value == 1)
__CPROVER_assigns();

#include "src/secp256k1.c"

unsigned int nondet_uint(void);
int nondet_int(void);

void h_check_overflow(void) { secp256k1_scalar *a; int r = secp256k1_scalar_check_overflow(a); if (r) VERIF_REACH_PT("overflow"); else VERIF_REACH_PT("no overflow"); }
void h_reduce(void) { secp256k1_scalar *r; secp256k1_scalar_reduce(r, nondet_uint()); VERIF_REACH_PT("reduce returns"); }
void h_add(void) { secp256k1_scalar *r, *a, *b; int o = secp256k1_scalar_add(r, a, b); if (o) VERIF_REACH_PT("add wrapped"); else VERIF_REACH_PT("add plain"); }
void h_cadd_bit(void) { secp256k1_scalar *r; secp256k1_scalar_cadd_bit(r, nondet_uint(), nondet_int()); VERIF_REACH_PT("cadd_bit returns"); }
void h_is_zero(void) { secp256k1_scalar *a; if (secp256k1_scalar_is_zero(a)) VERIF_REACH_PT("zero"); else VERIF_REACH_PT("nonzero"); }
void h_is_one(void) { secp256k1_scalar *a; if (secp256k1_scalar_is_one(a)) VERIF_REACH_PT("one"); else VERIF_REACH_PT("not one"); }
void h_eq(void) { secp256k1_scalar *a, *b; if (secp256k1_scalar_eq(a, b)) VERIF_REACH_PT("eq"); else VERIF_REACH_PT("neq"); }
void h_negate(void) { secp256k1_scalar *r, *a; secp256k1_scalar_negate(r, a); VERIF_REACH_PT("negate returns"); }
void h_half(void) { secp256k1_scalar *r, *a; secp256k1_scalar_half(r, a); VERIF_REACH_PT("half returns"); }
void h_is_high(void) { secp256k1_scalar *a; if (secp256k1_scalar_is_high(a)) VERIF_REACH_PT("high"); else VERIF_REACH_PT("low"); }
void h_cond_negate(void) { secp256k1_scalar *r; int f = secp256k1_scalar_cond_negate(r, nondet_int()); if (f == 1) VERIF_REACH_PT("kept"); else VERIF_REACH_PT("negated"); }
void h_set_b32(void) { secp256k1_scalar *r; const unsigned char *b; int *o; secp256k1_scalar_set_b32(r, b, o); VERIF_REACH_PT("set_b32 returns"); }
void h_get_b32(void) { unsigned char *b; const secp256k1_scalar *a; secp256k1_scalar_get_b32(b, a); VERIF_REACH_PT("get_b32 returns"); }
void h_normalize(void) { const secp256k1_context *ctx; secp256k1_ecdsa_signature *so; const secp256k1_ecdsa_signature *si; int r = secp256k1_ecdsa_signature_normalize(ctx, so, si); if (r) VERIF_REACH_PT("was high"); else VERIF_REACH_PT("was low"); }
void h_verify_gate(void) { const secp256k1_context *ctx; const secp256k1_ecdsa_signature *s; const unsigned char *m; const secp256k1_pubkey *p; int r = secp256k1_ecdsa_verify(ctx, s, m, p); if (r) VERIF_REACH_PT("verify may accept (low s)"); else VERIF_REACH_PT("verify rejects"); }

/* lemma (contracts only): byte round trip on [0, N) */
void h_lemma_b32_roundtrip(void)
{
    secp256k1_scalar a, r; unsigned char buf[32]; int ov;
    __CPROVER_assume(S256(&a) < N256);
    secp256k1_scalar_get_b32(buf, &a);
    secp256k1_scalar_set_b32(&r, buf, &ov);
    __CPROVER_assert(S256(&r) == S256(&a) && ov == 0, "set_b32(get_b32(a)) == a without overflow for a < N");
    VERIF_REACH_PT("roundtrip end");
}
/* lemma (contracts only): a + (-a) == 0 mod N */
void h_lemma_add_negate(void)
{
    secp256k1_scalar a, na, r;
    __CPROVER_assume(S256(&a) < N256);
    secp256k1_scalar_negate(&na, &a);
    secp256k1_scalar_add(&r, &a, &na);
    __CPROVER_assert(S256(&r) == 0, "a + negate(a) == 0 (mod N)");
    VERIF_REACH_PT("add-negate end");
}
