#include "verif.h"
typedef struct { unsigned char* vData; size_t vData_size; unsigned int nHashFuncs; unsigned int nTweak; unsigned char nFlags; } CBloomFilter;
unsigned g_hash[50]; unsigned g_wit;
static inline unsigned int CBloomFilter_Hash(const CBloomFilter* self, unsigned int i) { return g_hash[i]; }
#define LOOP_INSERT
#define LOOP_CONTAINS
#define GHOST_WIT(i) (g_wit = (i))
#include "slices.h"
