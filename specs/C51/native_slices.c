#include "verif.h"
typedef struct { unsigned char* vData; size_t vData_size; unsigned int nHashFuncs; unsigned int nTweak; unsigned char nFlags; } CBloomFilter;
unsigned g_hash[50]; unsigned g_wit;
static inline unsigned int CBloomFilter_Hash(const CBloomFilter* self, unsigned int i) { return g_hash[i]; }
#define LOOP_INSERT
#define LOOP_CONTAINS
#define GHOST_WIT(i) (g_wit = (i))
typedef struct { unsigned char* buf; size_t nbits; } BitWriter; typedef struct { const unsigned char* buf; size_t pos; } BitReader;     /* MSB-first bit strings, as BitStreamWriter / Reader lay them out */
static inline void BitWriter_Write(BitWriter* w, uint64_t data, int nbits) { for (int k = nbits - 1; k >= 0; k--) { if ((data >> k) & 1) w->buf[w->nbits >> 3] |= (unsigned char)(0x80 >> (w->nbits & 7)); w->nbits++; } }
static inline uint64_t BitReader_Read(BitReader* r, int nbits) { uint64_t v = 0; for (int k = 0; k < nbits; k++) { v = (v << 1) | ((r->buf[r->pos >> 3] >> (7 - (r->pos & 7))) & 1); r->pos++; } return v; }
#define LOOP_UNARY_W
#define LOOP_UNARY_R
#include "slices.h"
