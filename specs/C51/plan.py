import os, sys
sys.path.insert(0, os.path.dirname(os.path.dirname(os.path.abspath(__file__))))
from engine.extract import R

BC = "src/common/bloom.cpp"
COMMON = [R("member:vData.empty()", r"vData\.empty\(\)", "(self->vData_size == 0)", True), R("member:nHashFuncs", r"(?<![\w.>])nHashFuncs\b", "self->nHashFuncs", True),
          R("stub:Hash(i, vKey)", r"(?<![\w.>])Hash\(i, vKey\)", "CBloomFilter_Hash(self, i)", True), R("index:vData[k]", r"(?<![\w.>])vData\[", "self->vData[", True)]
SLICES = [
    {"name": "insert", "cname": "CBloomFilter_insert", "kind": "func", "file": BC, "head": r"void CBloomFilter::insert\(std::span<const unsigned char> vKey\)",
     "rules": [R("head: the key enters only through Hash()", r"void CBloomFilter::insert\(std::span<const unsigned char> vKey\)", "void CBloomFilter_insert(CBloomFilter* self)")] + COMMON,
     "loops": [{"match": r"unsigned int i = \d+;", "contract": "LOOP_INSERT", "prologue": "((void)0)"}]},
    {"name": "contains", "cname": "CBloomFilter_contains", "kind": "func", "file": BC, "head": r"bool CBloomFilter::contains\(std::span<const unsigned char> vKey\) const",
     "rules": [R("head", r"bool CBloomFilter::contains\(std::span<const unsigned char> vKey\) const", "bool CBloomFilter_contains(const CBloomFilter* self)"), R("ghost:the hash number whose bit is clear", r"return false;", "{ GHOST_WIT(i); return 0; }", True)] + COMMON,
     "loops": [{"match": r"unsigned int i = \d+;", "contract": "LOOP_CONTAINS", "prologue": "((void)0)"}]},
    {"name": "GolombRiceEncode", "kind": "func", "file": "src/util/golombrice.h", "head": r"template <typename OStream>\s*void GolombRiceEncode\(BitStreamWriter<OStream>& bitwriter, uint8_t P, uint64_t x\)",
     "rules": [R("head: the bit writer as a ghost stream of events", r"template <typename OStream>\s*void GolombRiceEncode\(BitStreamWriter<OStream>& bitwriter, uint8_t P, uint64_t x\)", "void GolombRiceEncode(BitWriter* bitwriter, uint8_t P, uint64_t x)"),
               R("stub:bitwriter.Write", r"bitwriter\.Write\(", "BitWriter_Write(bitwriter, ", True)],
     "loops": [{"match": r"while \(q > 0\)", "contract": "LOOP_UNARY_W", "prologue": "((void)0)"}]},
    {"name": "GolombRiceDecode", "kind": "func", "file": "src/util/golombrice.h", "head": r"template <typename IStream>\s*uint64_t GolombRiceDecode\(BitStreamReader<IStream>& bitreader, uint8_t P\)",
     "rules": [R("head", r"template <typename IStream>\s*uint64_t GolombRiceDecode\(BitStreamReader<IStream>& bitreader, uint8_t P\)", "uint64_t GolombRiceDecode(BitReader* bitreader, uint8_t P)"),
               R("stub:bitreader.Read", r"bitreader\.Read\(", "BitReader_Read(bitreader, ", True)],
     "loops": [{"match": r"while \(BitReader_Read\(bitreader, 1\) == 1\)", "contract": "LOOP_UNARY_R", "prologue": "((void)0)"}]},
    {"name": "gcs_range_decode", "cname": "GCSFilter_range_decode", "kind": "frag", "file": "src/blockfilter.cpp", "within": r"GCSFilter::GCSFilter\(const Params& params, std::vector<unsigned char> encoded_filter, bool skip_decode_check\)\s*: m_params\(params\), m_encoded\(std::move\(encoded_filter\)\)",
     "begin": r"m_F = ", "end": r"if \(skip_decode_check\) return;", "include_end": False,
     "prologue": "uint64_t GCSFilter_range_decode(uint32_t m_N, uint32_t m_params_m_M)\n{\n    uint64_t m_F;", "epilogue": "    return m_F;\n}", "rules": [R("member:m_params.m_M", r"m_params\.m_M", "m_params_m_M", True)]},
    {"name": "gcs_range_build", "cname": "GCSFilter_range_build", "kind": "frag", "file": "src/blockfilter.cpp", "within": r"GCSFilter::GCSFilter\(const Params& params, const ElementSet& elements\)\s*: m_params\(params\)",
     "begin": r"m_F = ", "end": r"VectorWriter stream", "include_end": False,
     "prologue": "uint64_t GCSFilter_range_build(uint32_t m_N, uint32_t m_params_m_M)\n{\n    uint64_t m_F;", "epilogue": "    return m_F;\n}", "rules": [R("member:m_params.m_M", r"m_params\.m_M", "m_params_m_M", True)]},
]
PLAN = {
    "id": "C51", "level": "proof", "slices": SLICES, "spec": "spec.c", "default_solver": ["cadical", "z3"],
    "harnesses": [
        {"name": "h_insert", "enforce": "CBloomFilter_insert", "loop_contracts": True, "twins": [{"define": "TWIN_CLEAR", "expect": "postcondition|loop_invariant"}]},
        {"name": "h_contains", "enforce": "CBloomFilter_contains", "loop_contracts": True, "twins": [{"define": "TWIN_ANY", "expect": "postcondition"}]},
        {"name": "h_GolombRiceEncode", "enforce": "GolombRiceEncode", "loop_contracts": True, "twins": [{"define": "TWIN_GR", "expect": "postcondition|loop_invariant"}]},
        {"name": "h_GolombRiceDecode", "enforce": "GolombRiceDecode", "loop_contracts": True},
        {"name": "h_lemma_golomb_roundtrip", "replace": ["GolombRiceEncode", "GolombRiceDecode"], "twins": [{"define": "TWIN_RT", "expect": "assertion"}]},
        {"name": "h_lemma_no_false_negative", "replace": ["CBloomFilter_insert", "CBloomFilter_contains"], "twins": [{"define": "TWIN_OTHER_KEY", "expect": "assertion"}]},
    ],
    "wp_int": {"file": "wp.json"},
    "native": {"src": "replay.cpp", "c_src": "native_slices.c", "repo_sources": ["src/common/bloom.cpp", "src/blockfilter.cpp"], "diff_n_quick": 3000, "diff_n_thorough": 300000,
               "libs": ["libbitcoin_common.a", "libbitcoin_consensus.a", "libbitcoin_util.a", "libbitcoin_clientversion.a", "libbitcoin_crypto.a", "/repo/_build/src/secp256k1/lib/libsecp256k1.a"]},
    "not_covered": ["BitStreamWriter / BitStreamReader themselves (the bit stream under Golomb-Rice coding is a ghost event stream: a run of one bits, a zero bit, a P-bit field; its FIFO law is assumed)", "MurmurHash3 and the reduction `% (vData.size() * 8)` inside CBloomFilter::Hash (the hash is a deterministic ghost table per hash number with the range ASSUMED)", "BIP158 GCS filter construction and matching (hashing to the range, sorting, deltas), the rolling bloom filter, partial merkle trees, IsRelevantAndUpdate"],
    "assumptions": ["CBloomFilter::Hash(i, key) is a ghost table g_hash[i] (same key => same values) with g_hash[i] < 8 * vData.size() ASSUMED (the property of `%` that no back end decides here)",
                    "vData is a byte array of at most 36,000 bytes (MAX_BLOOM_FILTER_SIZE), nHashFuncs at most 50 (MAX_HASH_FUNCS)"],
    "manifest": {
        "category": "proof",
        "text": "partial (plain bloom filter, Golomb-Rice coding): CBloomFilter::insert sets, for every hash number below nHashFuncs, exactly the bit the hash selects and never clears a bit (empty filter: no-op); contains returns true for an empty filter and otherwise reports a mismatch only when some selected bit is clear; "
                "hence (contract-only lemma) a key is matched after it has been inserted, also after any number of other inserts -- no false negatives; GolombRiceEncode writes x >> P one bits, a zero bit and the low P bits of x, GolombRiceDecode reads such a stream back as (ones << P) + field, so decode(encode(x)) == x for every x and every P below 64 (the element coding of BIP158 filters); both GCSFilter constructors compute the hash range F = N * M without wrapping (Int back end), so a filter decoded from bytes hashes queries into the range its elements were hashed into.",
        "note": "Not covered: the hash function itself, GCS / Golomb-Rice, rolling bloom, partial merkle trees.",
        "technique": "CBMC function contracts with loop contracts on extracted common/bloom.cpp insert / contains and util/golombrice.h, contract-only lemmas; WP-Int (z3 Int) on the range statement of both GCSFilter constructors",
    },
    "trusted_base": ["specs/C51/spec.c"],
}
