// C51 native harness (plain bloom filter): the real CBloomFilter (common/bloom.cpp of the working tree) vs the extracted insert / contains text (with the hash table computed by the
// harness from MurmurHash3) vs the property: every inserted key matches, no bit is ever cleared, at most nHashFuncs bits are set per insert.
#include <common/bloom.h>
#include <hash.h>
#include <streams.h>
#include <serialize.h>
#include <util/golombrice.h>
#include <blockfilter.h>
#include <fstream>
#include <sstream>
#include "replay_util.h"
#define BAD(...) do { rv::g_stats.real_violations++; if (rv::g_stats.real_violations <= 8) { std::printf("REAL-VIOLATION " __VA_ARGS__); std::printf("\n"); } } while (0)
#define DIS(...) do { rv::g_stats.disagreements++; if (rv::g_stats.disagreements <= 8) { std::printf("DISAGREE " __VA_ARGS__); std::printf("\n"); } } while (0)
struct xFilter { unsigned char* vData; size_t vData_size; unsigned nHashFuncs, nTweak; unsigned char nFlags; };
extern "C" { extern unsigned g_hash[50]; void xc_CBloomFilter_insert(xFilter*); bool xc_CBloomFilter_contains(const xFilter*); }
struct Raw { std::vector<unsigned char> data; unsigned nh, tweak; unsigned char flags; };
static Raw raw(const CBloomFilter& f) { DataStream s; s << f; Raw r; s >> r.data >> r.nh >> r.tweak >> r.flags; return r; }
struct xBW { unsigned char* buf; size_t nbits; }; struct xBR { const unsigned char* buf; size_t pos; };
extern "C" { void xc_GolombRiceEncode(xBW*, uint8_t, uint64_t); uint64_t xc_GolombRiceDecode(xBR*, uint8_t); }
static void test_golomb(rv::Rng& r)
{
    uint8_t P = r.below(3) ? 19 : (uint8_t)r.below(33); size_t cnt = 1 + r.below(5); std::vector<uint64_t> xs; for (size_t k = 0; k < cnt; k++) { uint64_t q = r.below(4) ? r.below(200) : 60 + r.below(10); xs.push_back((q << P) | (P ? (r.next() & ((1ULL << P) - 1)) : 0)); if (r.below(6) == 0) xs.back() = (64ULL << P) + r.below(3) - 1; }
    std::vector<unsigned char> bytes; { VectorWriter vw(bytes, 0); BitStreamWriter<VectorWriter> bw(vw); for (auto x : xs) GolombRiceEncode(bw, P, x); bw.Flush(); }
    std::vector<unsigned char> xb(bytes.size() + 64, 0); xBW xw{xb.data(), 0}; for (auto x : xs) xc_GolombRiceEncode(&xw, P, x); rv::g_stats.inputs++;
    if ((xw.nbits + 7) / 8 != bytes.size() || memcmp(xb.data(), bytes.data(), bytes.size())) DIS("GolombRiceEncode P=%u", P);
    // reference encoding: q ones, a zero, P bits of the remainder, MSB first
    std::vector<unsigned char> ref; size_t nb = 0; auto put = [&](int bit) { if ((nb & 7) == 0) ref.push_back(0); if (bit) ref.back() |= (unsigned char)(0x80 >> (nb & 7)); nb++; }; for (auto x : xs) { for (uint64_t k = 0; k < (x >> P); k++) put(1); put(0); for (int k = P - 1; k >= 0; k--) put((x >> k) & 1); }
    if (ref != bytes) BAD("GolombRiceEncode(P=%u) of %zu values differs from the reference bit string (BIP158: quotient in unary, a zero, P remainder bits)", P, xs.size());
    SpanReader sr(bytes); BitStreamReader<SpanReader> br(sr); xBR xr{bytes.data(), 0}; for (auto x : xs) { uint64_t y = GolombRiceDecode(br, P), xy = xc_GolombRiceDecode(&xr, P); if (y != xy) DIS("GolombRiceDecode"); if (y != x) BAD("GolombRiceDecode(GolombRiceEncode(%llu), P=%u) = %llu", (unsigned long long)x, P, (unsigned long long)y); }
}
extern "C" { uint64_t xc_GCSFilter_range_decode(uint32_t, uint32_t); uint64_t xc_GCSFilter_range_build(uint32_t, uint32_t); }
// B2 self-test: vectors computed by engine/wp_int.py's interpreter on Python ints vs the machine (the extracted statement compiled natively)
static void check_wp_vectors(const char* path)
{
    std::ifstream f(path); std::string line; uint64_t n = 0;
    while (std::getline(f, line)) { std::istringstream is(line); std::string fn, arrow; unsigned long long a, b, out; if (!(is >> fn >> a >> b >> arrow >> out)) continue; n++; rv::g_stats.inputs++;
        uint64_t real = fn == "GCSFilter_range_decode" ? xc_GCSFilter_range_decode((uint32_t)a, (uint32_t)b) : xc_GCSFilter_range_build((uint32_t)a, (uint32_t)b); if (real != out) DIS("wp_int interpreter: %s(%llu, %llu) = %llu, machine = %llu", fn.c_str(), a, b, out, (unsigned long long)real); }
    std::printf("WPVECTORS %llu\n", (unsigned long long)n);
}
// a GCS filter rebuilt from its own bytes must match every element it was built from (N * M crosses 2^32 at N = 5472 for the BASIC parameters)
static void test_gcs_reload(size_t N, rv::Rng& r)
{
    GCSFilter::ElementSet els; while (els.size() < N) { GCSFilter::Element e(8 + r.below(24)); for (auto& c : e) c = (unsigned char)r.next(); els.insert(e); }
    GCSFilter::Params params{r.next(), r.next(), 19, 784931}; GCSFilter built(params, els); GCSFilter reloaded(params, built.GetEncoded(), r.below(2)); rv::g_stats.inputs++;
    size_t miss_b = 0, miss_r = 0; for (const auto& e : els) { if (!built.Match(e)) miss_b++; if (!reloaded.Match(e)) miss_r++; }
    if (miss_b) BAD("a GCS filter built from %zu elements does not match %zu of them", N, miss_b);
    if (miss_r) BAD("a GCS filter of %zu elements decoded from its own encoding does not match %zu of them (false negatives)", N, miss_r);
}
int main(int argc, char** argv)
{
    auto a = rv::parse(argc, argv); rv::Rng r(a.seed); uint64_t n = a.diff ? a.n : 3000;
    for (uint64_t it = 0; it < n; it++) {
        unsigned nel = 1 + (unsigned)r.below(r.below(4) ? 20 : 2000); static const double FP[] = {0.5, 0.01, 0.000001, 0.9999}; unsigned tweak = (unsigned)r.next(); CBloomFilter f(nel, FP[r.below(4)], tweak, BLOOM_UPDATE_NONE);
        std::vector<std::vector<unsigned char>> keys; size_t nk = 1 + r.below(12);
        for (size_t k = 0; k < nk; k++) { std::vector<unsigned char> key(r.below(3) ? 32 : r.below(40)); for (auto& c : key) c = (unsigned char)r.next(); Raw before = raw(f);
            xFilter xf{nullptr, before.data.size(), before.nh, before.tweak, before.flags}; std::vector<unsigned char> xd = before.data; xf.vData = xd.data(); for (unsigned i = 0; i < before.nh && i < 50; i++) g_hash[i] = before.data.empty() ? 0 : MurmurHash3(i * 0xFBA4C795 + before.tweak, key) % (before.data.size() * 8);
            f.insert(key); if (before.nh <= 50) xc_CBloomFilter_insert(&xf); Raw after = raw(f); rv::g_stats.inputs++;
            if (before.nh <= 50 && xd != after.data) DIS("insert: the extracted text sets other bits than the real filter");
            unsigned newly = 0; bool cleared = false; for (size_t b = 0; b < after.data.size(); b++) { cleared |= (before.data[b] & ~after.data[b]) != 0; newly += __builtin_popcount(after.data[b] & ~before.data[b]); }
            if (cleared) BAD("CBloomFilter::insert cleared a bit of the filter"); if (newly > after.nh) BAD("CBloomFilter::insert set %u bits with %u hash functions", newly, after.nh);
            keys.push_back(key);
            for (const auto& kk : keys) { bool c = f.contains(kk); if (before.nh <= 50) { for (unsigned i = 0; i < after.nh; i++) g_hash[i] = after.data.empty() ? 0 : MurmurHash3(i * 0xFBA4C795 + after.tweak, kk) % (after.data.size() * 8); xFilter xq{after.data.data(), after.data.size(), after.nh, after.tweak, after.flags}; if (c != xc_CBloomFilter_contains(&xq)) DIS("contains"); }
                rv::g_stats.inputs++; if (!c) BAD("false negative: a key of %zu bytes inserted %zu inserts ago is not matched (filter of %zu bytes, %u hash functions)", kk.size(), keys.size(), after.data.size(), after.nh); } }
    }
    for (uint64_t it = 0; it < n * 4; it++) test_golomb(r);
    { static const size_t NS[] = {0, 1, 100, 5471, 5472, 5473, 12000}; for (size_t N : NS) test_gcs_reload(N, r); }
    if (const char* w = std::getenv("VERIF_WP_VECTORS")) check_wp_vectors(w);
    rv::report();
    return rv::g_stats.real_violations ? 1 : (rv::g_stats.disagreements ? 3 : 0);
}
