/* C51 (plain bloom filter): insert / contains over the text extracted from common/bloom.cpp. */
#include "verif.h"
bool nondet_bool(void); unsigned nondet_uint(void); size_t nondet_size_t(void);
typedef struct { unsigned char* vData; size_t vData_size; unsigned int nHashFuncs; unsigned int nTweak; unsigned char nFlags; } CBloomFilter;
unsigned g_hash[50];                 /* Hash(i, key) for the key at hand: a function of i */
unsigned g_n;                        /* arbitrary hash number */
size_t g_byte;                       /* arbitrary byte of the filter */
unsigned g_wit;                      /* the hash number whose bit contains() found clear */
static inline unsigned int CBloomFilter_Hash(const CBloomFilter* self, unsigned int i) { __CPROVER_assert(i < 50, "hash number below MAX_HASH_FUNCS"); unsigned h = g_hash[i]; __CPROVER_assume(h < self->vData_size * 8); /* ASSUMED: x % m < m */ return h; }
#define BIT_SET(f, idx) (((f)->vData[(idx) >> 3] & (1 << (7 & (idx)))) != 0)
#define FILTER_OK(f) (__CPROVER_is_fresh(f, sizeof(CBloomFilter)) && (f)->vData_size <= 36000 && (f)->nHashFuncs <= 50 && __CPROVER_is_fresh((f)->vData, (f)->vData_size > 0 ? (f)->vData_size : 1))
#define LOOP_INSERT \
    __CPROVER_assigns(i, __CPROVER_object_whole(self->vData)) \
    __CPROVER_loop_invariant(i <= self->nHashFuncs && (g_n < i ==> BIT_SET(self, g_hash[g_n])) && (g_byte < self->vData_size ==> (__CPROVER_loop_entry(self->vData[g_byte]) & ~self->vData[g_byte]) == 0)) \
    __CPROVER_decreases(self->nHashFuncs - i)
#define LOOP_CONTAINS \
    __CPROVER_assigns(i, g_wit) \
    __CPROVER_loop_invariant(i <= self->nHashFuncs) \
    __CPROVER_decreases(self->nHashFuncs - i)
void CBloomFilter_insert(CBloomFilter* self)
__CPROVER_requires(FILTER_OK(self) && g_n < 50 && (self->vData_size > 0 ==> g_hash[g_n] < self->vData_size * 8) && g_byte < (self->vData_size > 0 ? self->vData_size : 1))
__CPROVER_ensures((self->vData_size > 0 && g_n < self->nHashFuncs) ==> BIT_SET(self, g_hash[g_n]))                                      /* every selected bit is set ... */
#ifdef TWIN_CLEAR
__CPROVER_ensures(g_byte < self->vData_size ==> self->vData[g_byte] == __CPROVER_old(self->vData[g_byte]))
#else
__CPROVER_ensures(g_byte < self->vData_size ==> (__CPROVER_old(self->vData[g_byte]) & ~self->vData[g_byte]) == 0)                        /* ... and no bit is ever cleared */
#endif
__CPROVER_assigns(__CPROVER_object_whole(self->vData));
bool CBloomFilter_contains(const CBloomFilter* self)
__CPROVER_requires(FILTER_OK(self) && g_n < 50 && (self->vData_size > 0 ==> g_hash[g_n] < self->vData_size * 8))
__CPROVER_ensures(self->vData_size == 0 ==> __CPROVER_return_value)
#ifdef TWIN_ANY
__CPROVER_ensures((self->vData_size > 0 && g_n < self->nHashFuncs && BIT_SET(self, g_hash[g_n])) ==> __CPROVER_return_value)
#endif
/* only the direction the property needs: a mismatch is reported only because some selected bit is clear (that it reports a match ONLY when all bits are set is not part of "no false negatives") */
__CPROVER_ensures((self->vData_size > 0 && !__CPROVER_return_value) ==> (g_wit < self->nHashFuncs && g_hash[g_wit] < self->vData_size * 8 && !BIT_SET(self, g_hash[g_wit])))
__CPROVER_assigns(g_wit);

/* ---- Golomb-Rice coding over a ghost bit stream: [ones x 1-bits][one 0-bit][P-bit field] ---- */
typedef struct { int dummy; } BitWriter; typedef struct { int dummy; } BitReader;
unsigned __int128 g_ones; bool g_zero_written; bool g_field_written; uint64_t g_field; unsigned g_field_bits;      /* what the writer emitted, in order */
unsigned __int128 g_ones_read; bool g_zero_read;                                                                      /* how far the reader got */
#ifdef TWIN_GR
#define LOWBITS(x, P) ((P) == 0 ? 0 : ((x) & (((uint64_t)1 << (P)) - 1)) ^ 1)
#else
#define LOWBITS(x, P) ((P) == 0 ? 0 : ((x) & (((uint64_t)1 << (P)) - 1)))
#endif
static inline void BitWriter_Write(BitWriter* w, uint64_t data, int nbits)          /* VERIF_STUB of BitStreamWriter::Write: records the events */
{
    __CPROVER_assert(nbits >= 0 && nbits <= 64, "Write: nbits between 0 and 64 (else it throws)");
    if (!g_zero_written) { if (nbits == 1 && (data & 1) == 0) g_zero_written = 1; else { __CPROVER_assert(nbits >= 1 && (nbits == 64 ? data == ~0ULL : (data & (((uint64_t)1 << nbits) - 1)) == (((uint64_t)1 << nbits) - 1)), "unary part: only one bits before the terminating zero"); g_ones = g_ones + (unsigned)nbits; } }
    else { __CPROVER_assert(!g_field_written, "exactly one field after the zero bit"); g_field_written = 1; g_field_bits = (unsigned)nbits; g_field = nbits == 0 ? 0 : nbits == 64 ? data : (data & (((uint64_t)1 << nbits) - 1)); }
}
static inline uint64_t BitReader_Read(BitReader* r, int nbits)                      /* VERIF_STUB of BitStreamReader::Read over the same kind of stream */
{
    if (!g_zero_read) { __CPROVER_assert(nbits == 1, "unary part is read bit by bit"); if (g_ones_read < g_ones) { g_ones_read = g_ones_read + 1; return 1; } g_zero_read = 1; return 0; }
    __CPROVER_assert((unsigned)nbits == g_field_bits, "the field is read with the width it was written with"); return g_field;
}
#define LOOP_UNARY_W \
    __CPROVER_assigns(q, g_ones) \
    __CPROVER_loop_invariant(!g_zero_written && g_ones + q == (x >> P)) \
    __CPROVER_decreases(q)
#define LOOP_UNARY_R \
    __CPROVER_assigns(q, g_ones_read, g_zero_read) \
    __CPROVER_loop_invariant(!g_zero_read && g_ones_read <= g_ones && (unsigned __int128)q == g_ones_read) \
    __CPROVER_decreases(g_ones - g_ones_read)
void GolombRiceEncode(BitWriter* bitwriter, uint8_t P, uint64_t x)
__CPROVER_requires(__CPROVER_is_fresh(bitwriter, sizeof(BitWriter)) && P < 64 && g_ones == 0 && !g_zero_written && !g_field_written)
__CPROVER_ensures(g_ones == (x >> P) && g_zero_written && g_field_written && g_field_bits == P && g_field == LOWBITS(x, P))
__CPROVER_assigns(g_ones, g_zero_written, g_field_written, g_field, g_field_bits);
uint64_t GolombRiceDecode(BitReader* bitreader, uint8_t P)
__CPROVER_requires(__CPROVER_is_fresh(bitreader, sizeof(BitReader)) && P < 64 && g_ones <= 0xffffffffffffffffULL && g_ones_read == 0 && !g_zero_read && g_field_bits == P && (P == 0 ? g_field == 0 : g_field < ((uint64_t)1 << P)) && ((unsigned __int128)g_ones << P) + g_field <= 0xffffffffffffffffULL)
__CPROVER_ensures((unsigned __int128)__CPROVER_return_value == ((unsigned __int128)g_ones << P) + g_field && g_zero_read)
__CPROVER_assigns(g_ones_read, g_zero_read);

#define GHOST_WIT(i) (g_wit = (i))
#include "slices.h"
unsigned char nondet_uchar(void); uint64_t nondet_u64(void);
void h_GolombRiceEncode(void) { BitWriter* w; uint8_t P = nondet_uchar(); uint64_t x = nondet_u64(); GolombRiceEncode(w, P, x); if (P == 19 && (x >> P) == 130) VERIF_REACH_PT("BIP158 P, two full 64-bit unary writes"); }
void h_GolombRiceDecode(void) { BitReader* r; uint8_t P = nondet_uchar(); uint64_t v = GolombRiceDecode(r, P); if (P == 19 && v == 1000000) VERIF_REACH_PT("decoded"); }
/* lemma (contracts only): what Encode writes, Decode reads back as x */
void h_lemma_golomb_roundtrip(void)
{
    BitWriter* w = malloc(sizeof(BitWriter)); BitReader* r = malloc(sizeof(BitReader)); __CPROVER_assume(w && r); uint8_t P = nondet_uchar(); __CPROVER_assume(P < 64); uint64_t x = nondet_u64();
    g_ones = 0; g_zero_written = 0; g_field_written = 0; g_ones_read = 0; g_zero_read = 0;
    GolombRiceEncode(w, P, x);
    uint64_t y = GolombRiceDecode(r, P);
#ifdef TWIN_RT
    __CPROVER_assert(y == x + 1, "twin");
#else
    __CPROVER_assert(y == x, "GolombRiceDecode(GolombRiceEncode(x)) == x for every x and every P < 64");
#endif
    VERIF_REACH_PT("end");
}

void h_insert(void) { CBloomFilter* f; g_n = nondet_uint(); g_byte = nondet_size_t(); CBloomFilter_insert(f); VERIF_REACH_PT("inserted"); }
void h_contains(void) { const CBloomFilter* f; g_n = nondet_uint(); bool r = CBloomFilter_contains(f); if (r) VERIF_REACH_PT("match"); else VERIF_REACH_PT("no match"); }
/* lemma (contracts only): insert(k); any number of other inserts (they never clear a bit: one stands for all); contains(k) is true */
void h_lemma_no_false_negative(void)
{
    CBloomFilter* f = malloc(sizeof(CBloomFilter)); __CPROVER_assume(f); f->vData_size = nondet_size_t(); __CPROVER_assume(f->vData_size <= 36000); f->vData = malloc(f->vData_size > 0 ? f->vData_size : 1); __CPROVER_assume(f->vData); __CPROVER_assume(f->nHashFuncs <= 50);
    unsigned key_hash[50]; for (int i = 0; i < 50; i++) { key_hash[i] = nondet_uint(); g_hash[i] = key_hash[i]; }
    g_n = nondet_uint(); __CPROVER_assume(g_n < 50); __CPROVER_assume(f->vData_size == 0 || key_hash[g_n] < f->vData_size * 8);
    g_byte = f->vData_size > 0 ? (size_t)(key_hash[g_n] >> 3) : 0;
    CBloomFilter_insert(f);                                   /* insert(k) */
    bool bit_after_insert = f->vData_size > 0 && g_n < f->nHashFuncs ? BIT_SET(f, key_hash[g_n]) : 1;
    for (int i = 0; i < 50; i++) g_hash[i] = nondet_uint();   /* another key */
    unsigned other_n = nondet_uint(); __CPROVER_assume(other_n < 50); __CPROVER_assume(f->vData_size == 0 || g_hash[other_n] < f->vData_size * 8); unsigned keep = g_n; g_n = other_n;
    CBloomFilter_insert(f);                                   /* insert(k') */
    g_n = keep;
#ifndef TWIN_OTHER_KEY
    for (int i = 0; i < 50; i++) g_hash[i] = key_hash[i];     /* back to k */
#endif
    bool r = CBloomFilter_contains(f);
    __CPROVER_assume(r || g_wit == g_n);                      /* g_n is arbitrary: the case where it is the hash number contains() complains about */
    __CPROVER_assert(bit_after_insert, "insert set the bit");
    __CPROVER_assert(r, "a key that was inserted is matched, also after other inserts (no false negative)");
    VERIF_REACH_PT("end");
}
