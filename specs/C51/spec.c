/* C51 (plain bloom filter): insert / contains over the text extracted from common/bloom.cpp. */
#include "verif.h"
bool nondet_bool(void); unsigned nondet_uint(void); size_t nondet_size_t(void);
typedef struct { unsigned char* vData; size_t vData_size; unsigned int nHashFuncs; unsigned int nTweak; unsigned char nFlags; } CBloomFilter;
unsigned g_hash[50];                 /* Hash(i, key) for the key at hand: a function of i */
unsigned g_n;                        /* arbitrary hash number */
size_t g_byte;                       /* arbitrary byte of the filter */
unsigned g_wit;                      /* the hash number whose bit contains() found clear */
static inline unsigned int CBloomFilter_Hash(const CBloomFilter* self, unsigned int i) { __CPROVER_assert(i < 50, "hash number below MAX_HASH_FUNCS"); unsigned h = g_hash[i]; __CPROVER_assume(h < self->vData_size * 8); /* ASSUMED: x % m < m */ return h; }
#define BIT_SET(f, idx) (((f)->vData[(idx) >> 3] & (1 << (7 & (idx)))) != 0)
#define FILTER_OK(f) (__CPROVER_is_fresh(f, sizeof(CBloomFilter)) && (f)->vData_size <= 36000 && (f)->nHashFuncs <= 50 && __CPROVER_is_fresh((f)->vData, (f)->vData_size > 0 ? (f)->vData_size : 1))
#define LOOP_INSERT \
    __CPROVER_assigns(i, __CPROVER_object_whole(self->vData)) \
    __CPROVER_loop_invariant(i <= self->nHashFuncs && (g_n < i ==> BIT_SET(self, g_hash[g_n])) && (g_byte < self->vData_size ==> (__CPROVER_loop_entry(self->vData[g_byte]) & ~self->vData[g_byte]) == 0)) \
    __CPROVER_decreases(self->nHashFuncs - i)
#define LOOP_CONTAINS \
    __CPROVER_assigns(i, g_wit) \
    __CPROVER_loop_invariant(i <= self->nHashFuncs) \
    __CPROVER_decreases(self->nHashFuncs - i)
void CBloomFilter_insert(CBloomFilter* self)
__CPROVER_requires(FILTER_OK(self) && g_n < 50 && (self->vData_size > 0 ==> g_hash[g_n] < self->vData_size * 8) && g_byte < (self->vData_size > 0 ? self->vData_size : 1))
__CPROVER_ensures((self->vData_size > 0 && g_n < self->nHashFuncs) ==> BIT_SET(self, g_hash[g_n]))                                      /* every selected bit is set ... */
#ifdef TWIN_CLEAR
__CPROVER_ensures(g_byte < self->vData_size ==> self->vData[g_byte] == __CPROVER_old(self->vData[g_byte]))
#else
__CPROVER_ensures(g_byte < self->vData_size ==> (__CPROVER_old(self->vData[g_byte]) & ~self->vData[g_byte]) == 0)                        /* ... and no bit is ever cleared */
#endif
__CPROVER_assigns(__CPROVER_object_whole(self->vData));
bool CBloomFilter_contains(const CBloomFilter* self)
__CPROVER_requires(FILTER_OK(self) && g_n < 50 && (self->vData_size > 0 ==> g_hash[g_n] < self->vData_size * 8))
__CPROVER_ensures(self->vData_size == 0 ==> __CPROVER_return_value)
#ifdef TWIN_ANY
__CPROVER_ensures((self->vData_size > 0 && g_n < self->nHashFuncs && BIT_SET(self, g_hash[g_n])) ==> __CPROVER_return_value)
#endif
/* only the direction the property needs: a mismatch is reported only because some selected bit is clear (that it reports a match ONLY when all bits are set is not part of "no false negatives") */
__CPROVER_ensures((self->vData_size > 0 && !__CPROVER_return_value) ==> (g_wit < self->nHashFuncs && g_hash[g_wit] < self->vData_size * 8 && !BIT_SET(self, g_hash[g_wit])))
__CPROVER_assigns(g_wit);

#define GHOST_WIT(i) (g_wit = (i))
#include "slices.h"

void h_insert(void) { CBloomFilter* f; g_n = nondet_uint(); g_byte = nondet_size_t(); CBloomFilter_insert(f); VERIF_REACH_PT("inserted"); }
void h_contains(void) { const CBloomFilter* f; g_n = nondet_uint(); bool r = CBloomFilter_contains(f); if (r) VERIF_REACH_PT("match"); else VERIF_REACH_PT("no match"); }
/* lemma (contracts only): insert(k); any number of other inserts (they never clear a bit: one stands for all); contains(k) is true */
void h_lemma_no_false_negative(void)
{
    CBloomFilter* f = malloc(sizeof(CBloomFilter)); __CPROVER_assume(f); f->vData_size = nondet_size_t(); __CPROVER_assume(f->vData_size <= 36000); f->vData = malloc(f->vData_size > 0 ? f->vData_size : 1); __CPROVER_assume(f->vData); __CPROVER_assume(f->nHashFuncs <= 50);
    unsigned key_hash[50]; for (int i = 0; i < 50; i++) { key_hash[i] = nondet_uint(); g_hash[i] = key_hash[i]; }
    g_n = nondet_uint(); __CPROVER_assume(g_n < 50); __CPROVER_assume(f->vData_size == 0 || key_hash[g_n] < f->vData_size * 8);
    g_byte = f->vData_size > 0 ? (size_t)(key_hash[g_n] >> 3) : 0;
    CBloomFilter_insert(f);                                   /* insert(k) */
    bool bit_after_insert = f->vData_size > 0 && g_n < f->nHashFuncs ? BIT_SET(f, key_hash[g_n]) : 1;
    for (int i = 0; i < 50; i++) g_hash[i] = nondet_uint();   /* another key */
    unsigned other_n = nondet_uint(); __CPROVER_assume(other_n < 50); __CPROVER_assume(f->vData_size == 0 || g_hash[other_n] < f->vData_size * 8); unsigned keep = g_n; g_n = other_n;
    CBloomFilter_insert(f);                                   /* insert(k') */
    g_n = keep;
#ifndef TWIN_OTHER_KEY
    for (int i = 0; i < 50; i++) g_hash[i] = key_hash[i];     /* back to k */
#endif
    bool r = CBloomFilter_contains(f);
    __CPROVER_assume(r || g_wit == g_n);                      /* g_n is arbitrary: the case where it is the hash number contains() complains about */
    __CPROVER_assert(bit_after_insert, "insert set the bit");
    __CPROVER_assert(r, "a key that was inserted is matched, also after other inserts (no false negative)");
    VERIF_REACH_PT("end");
}
