/* C51 integer lemma for back end B2 (engine/wp_int.py): the hash range of a GCS filter is F = N * M as a mathematical product (no 32-bit wrap), and both constructors agree on it --
 * else a filter decoded from bytes hashes queries into a different range than the one its elements were hashed into when it was built (false negatives). */
void lemma_gcs_range(uint32_t N, uint32_t M)
{
    uint64_t fd = GCSFilter_range_decode(N, M);
    uint64_t fb = GCSFilter_range_build(N, M);
    __wp_assert((__int128)fd == (__int128)N * (__int128)M, "decode constructor: F == N * M");
    __wp_assert((__int128)fb == (__int128)N * (__int128)M, "build constructor: F == N * M");
    __wp_assert(fd == fb, "both constructors use the same range");
}
