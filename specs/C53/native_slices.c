/* native build (g++ -x c++) of the extracted GetStateFor fragments */
#include <stdint.h>
#include <stddef.h>
extern "C" {
#include "verif.h"
typedef struct { int period, threshold, min_activation_height; int64_t begin_time, end_time; } VBParams;
typedef struct CBlockIndex_s { struct CBlockIndex_s* pprev; int nHeight; } CBlockIndex;
int g_aligned; int64_t g_aligned_height; int g_cache_set, g_cache_val, g_pushed; int64_t g_next_height;
const bool* g_cond; int g_hits;
typedef struct { int back; } VBView;
static inline VBView VB_view(const CBlockIndex* p) { VBView v = {0}; return v; }
static inline VBView VB_prev(VBView v) { VBView r = {v.back + 1}; return r; }
static inline bool VB_Condition(VBView v) { return g_cond[v.back]; }
static inline int VB_MOD(int a, int b) { return a % b; }
#define LOOP_COUNT
#define GHOST_COUNT_STEP(i) ((void)0)
#include "slices.h"
}
