; period alignment in GetStateFor: with r = (h+1) mod P (C remainder of non-negative operands = Euclidean mod), a = h - r
; satisfies (a+1) mod P = 0 and h - P < a <= h.      (h >= 0, P >= 1)
(set-logic ALL)
(declare-const h Int) (declare-const P Int) (declare-const q Int) (declare-const r Int)
(assert (and (>= h 0) (>= P 1)))
; definition of quotient/remainder of (h+1) by P
(assert (and (= (+ h 1) (+ (* q P) r)) (<= 0 r) (< r P)))
(define-fun a () Int (- h r))
; negation of the claim; (a+1) mod P = 0 is stated through its witness q: a + 1 = q*P
(assert (not (and (= (+ a 1) (* q P)) (<= a h) (> a (- h P)))))
(check-sat)
