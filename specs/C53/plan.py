import os, sys
sys.path.insert(0, os.path.dirname(os.path.dirname(os.path.abspath(__file__))))
from engine.extract import R

VB = "src/versionbits.cpp"
W = r"ThresholdState AbstractThresholdConditionChecker::GetStateFor\(const CBlockIndex\* pindexPrev, ThresholdConditionCache& cache\)"
STATES = R("enum scope ThresholdState::", r"ThresholdState::(\w+)", r"TS_\1", False)
GETTERS = [R("ghost:Period()", r"(?<![\w.>])Period\(\)", "vb->period", False), R("ghost:Threshold()", r"(?<![\w.>])Threshold\(\)", "vb->threshold", False),
           R("ghost:MinActivationHeight()", r"(?<![\w.>])MinActivationHeight\(\)", "vb->min_activation_height", False),
           R("ghost:BeginTime()", r"(?<![\w.>])BeginTime\(\)", "vb->begin_time", False), R("ghost:EndTime()", r"(?<![\w.>])EndTime\(\)", "vb->end_time", False)]
SLICES = [
    {"name": "ALWAYS_ACTIVE", "kind": "const", "file": "src/consensus/params.h", "pat": r"static constexpr int64_t ALWAYS_ACTIVE = (-?\d+);", "emit": r"#define BIP9_ALWAYS_ACTIVE ((int64_t)\1)"},
    {"name": "NEVER_ACTIVE", "kind": "const", "file": "src/consensus/params.h", "pat": r"static constexpr int64_t NEVER_ACTIVE = (-?\d+);", "emit": r"#define BIP9_NEVER_ACTIVE ((int64_t)\1)"},
    {"name": "ThresholdState", "kind": "const", "file": "src/versionbits_impl.h", "pat": r"enum class ThresholdState : uint8_t \{\s*DEFINED,[^}]*?STARTED,[^}]*?LOCKED_IN,[^}]*?ACTIVE,[^}]*?FAILED,[^}]*?\};",
     "emit": "enum { TS_DEFINED, TS_STARTED, TS_LOCKED_IN, TS_ACTIVE, TS_FAILED };   /* enumerator order as in versionbits_impl.h */"},
    # early exits and period alignment: from the top of GetStateFor to the declaration of vToCompute
    {"name": "GetStateFor_head", "kind": "frag", "file": VB, "within": W, "begin": r"int nPeriod = Period\(\);", "end": r"std::vector<const CBlockIndex\*> vToCompute;", "include_end": False,
     "prologue": "int GetStateFor_head(const VBParams* vb, const CBlockIndex* pindexPrev)\n{", "epilogue": "    return -1; /* continue with the walk */\n}",
     "rules": GETTERS + [STATES, R("scope:Consensus::BIP9Deployment::", r"Consensus::BIP9Deployment::(\w+)", r"BIP9_\1", False),
                         R("operator % -> its quotient-remainder law (operands recorded; bit-level remainder of a symbolic divisor is beyond every back end here)", r"\(([^()]*(?:\([^()]*\))?[^()]*) % (\w+)\)", r"VB_MOD(\1, \2)", False),
                         R("ghost:pindexPrev = pindexPrev->GetAncestor(h) (height recorded)", r"pindexPrev = pindexPrev->GetAncestor\(([^;]*)\);", r"g_aligned_height = (\1); g_aligned = 1;", False)]},
    # one iteration of the walk back
    {"name": "GetStateFor_walkback", "kind": "frag", "file": VB, "within": W, "begin": r"if \(pindexPrev == nullptr\) \{\s*cache\[pindexPrev\] = ThresholdState::DEFINED;", "end": r"pindexPrev = pindexPrev->GetAncestor\(pindexPrev->nHeight - nPeriod\);", "include_end": True,
     "prologue": "int GetStateFor_walkback(const VBParams* vb, const CBlockIndex* pindexPrev, int nPeriod, int64_t nTimeStart, int64_t mtp)\n{\n    do {", "epilogue": "    return 0; /* next iteration */\n    } while (0);\n    return 1; /* break */\n}",
     "rules": [STATES, R("ghost:cache[pindexPrev] = state", r"cache\[pindexPrev\] = (TS_\w+);", r"g_cache_set = 1; g_cache_val = \1;", False),
               R("ghost:pindexPrev->GetMedianTimePast()", r"pindexPrev->GetMedianTimePast\(\)", "mtp", False),
               R("ghost:vToCompute.push_back", r"vToCompute\.push_back\(pindexPrev\);", "g_pushed = 1;", False),
               R("ghost:pindexPrev = pindexPrev->GetAncestor(h)", r"pindexPrev = pindexPrev->GetAncestor\(([^;]*)\);", r"g_next_height = (\1);", False)]},
    # the transition: body of the forward loop up to (excluding) the cache store
    {"name": "GetStateFor_transition", "kind": "frag", "file": VB, "within": W, "begin": r"ThresholdState stateNext = state;", "end": r"cache\[pindexPrev\] = state = stateNext;", "include_end": False,
     "prologue": "int GetStateFor_transition(int state, const CBlockIndex* popped, int nPeriod, int nThreshold, int min_activation_height, int64_t nTimeStart, int64_t nTimeTimeout, int64_t mtp)\n{\n    const CBlockIndex* pindexPrev;",
     "epilogue": "    return stateNext;\n}",
     "rules": [STATES, R("type:ThresholdState local", r"ThresholdState stateNext", "int stateNext", False),
               R("ghost:vToCompute.back()", r"pindexPrev = vToCompute\.back\(\);", "pindexPrev = popped;", False), R("drop:vToCompute.pop_back()", r"vToCompute\.pop_back\(\);", "", False),
               R("ghost:pindexPrev->GetMedianTimePast()", r"pindexPrev->GetMedianTimePast\(\)", "mtp", False),
               R("view:window walk starts at pindexPrev", r"const CBlockIndex\* pindexCount = pindexPrev;", "VBView pindexCount = VB_view(pindexPrev);", False),
               R("ghost:Condition(block)", r"(?<![\w.>])Condition\(pindexCount\)", "VB_Condition(pindexCount)", False),
               R("view:pindexCount->pprev", r"pindexCount = pindexCount->pprev;", "pindexCount = VB_prev(pindexCount);", False)],
     "loops": [{"match": r"for \(int i = 0; i < nPeriod; i\+\+\)", "contract": "LOOP_COUNT", "prologue": "GHOST_COUNT_STEP(i)", "required": False}]},
]

def H(name, fn, twins=(), **kw):
    d = {"name": name, "enforce": fn, "twins": [{"define": t, "expect": "postcondition"} for t in twins]}
    d.update(kw)
    return d

PLAN = {
    "id": "C53", "level": "proof", "slices": SLICES, "spec": "spec.c", "default_solver": ["cadical", "z3"],
    "harnesses": [
        {"name": "h_head", "enforce": "GetStateFor_head", "twins": [{"define": "TWIN_ALIGN", "expect": "postcondition"}]},
        H("h_walkback", "GetStateFor_walkback", ["TWIN_WALKBACK"]),
        H("h_transition", "GetStateFor_transition", ["TWIN_ORDER", "TWIN_MINHEIGHT"], loop_contracts=True),
    ],
    "lemmas_smt": ["period_align.smt2"],
    "native": {"src": "replay.cpp", "c_src": "native_slices.c", "c_lang": "c++", "repo_sources": ["src/versionbits.cpp", "src/chain.cpp"], "diff_n_quick": 30000, "diff_n_thorough": 600000,
               "libs": ["libbitcoin_common.a", "libbitcoin_consensus.a", "libbitcoin_util.a", "libbitcoin_clientversion.a", "libbitcoin_crypto.a"]},
    "not_covered": ["the composition of transition steps over a whole chain (history semantics) and cache independence as a two-run property: each step is proved to be the BIP9 table applied to chain data only; that this yields the same state for every query order is argued, not proved",
                    "the std::map cache and the vToCompute stack themselves; GetAncestor / GetMedianTimePast (C54, C07)", "GetStateStatisticsFor / GetStateSinceHeightFor"],
    "assumptions": ["C's % with non-negative dividend and positive divisor obeys a = q*b + r, 0 <= r < b: assumed for the one % in the alignment expression (machine arithmetic treated as mathematical), the rest is the Int lemma period_align.smt2",
                    "Period/Threshold/MinActivationHeight/BeginTime/EndTime are inputs (fields of the deployment)",
                    "the Condition() results of the window are the ghost array g_cond[k] = Condition(k-th predecessor of the period's last block); following pprev moves one position (tree invariant)",
                    "cache stores / vToCompute pushes / GetAncestor requests are recorded in ghost variables"],
    "manifest": {
        "category": "proof",
        "text": "core (transition step): three statement ranges of AbstractThresholdConditionChecker::GetStateFor cut from versionbits.cpp each run are proved for all inputs: always-active => ACTIVE and never-active => FAILED before anything else, and the block asked about is replaced by the last block of the previous period (height h - ((h+1) mod P), which is = -1 mod P and within one period below); "
                "walking back stops with DEFINED at genesis' parent or when MTP < start, otherwise queues the period and steps back exactly P blocks; the transition applied to a queued period is BIP9's table: DEFINED->STARTED iff MTP >= start; STARTED->LOCKED_IN iff at least threshold of exactly the P blocks of the period signal (checked before the timeout), else ->FAILED iff MTP >= timeout; "
                "LOCKED_IN->ACTIVE iff height+1 >= min_activation_height; ACTIVE and FAILED never change.",
        "note": "Not covered: composition over the chain / cache independence as a relational property, the map and vector containers, statistics and since-height functions. Trusted: anchors and call-to-ghost rewrites.",
        "technique": "CBMC function + loop contracts on anchor-delimited fragments of the real GetStateFor (X-frag), ghost window array for Condition()",
    },
    "trusted_base": ["specs/C53/spec.c"],
}
