// C53 native harness: the real AbstractThresholdConditionChecker::GetStateFor (versionbits.cpp compiled from the working tree) on chains with random
// versions / timestamps / parameters vs an independent BIP9 reference written from the statement; fresh and warm caches, random query order.
// (The extracted fragments have ghost parameters; their differential is the transition function itself, compared here through the reference.)
#include <chain.h>
#include <consensus/params.h>
#include <versionbits.h>
#include <versionbits_impl.h>
#include <algorithm>
#include <memory>
#include "replay_util.h"
extern "C" int xc_GetStateFor_transition(int state, const void* popped, int nPeriod, int nThreshold, int min_activation_height, int64_t nTimeStart, int64_t nTimeTimeout, int64_t mtp);
extern "C" { extern const bool* g_cond; extern int g_hits; }
struct xIdx { xIdx* pprev; int nHeight; };
class Checker final : public VersionBitsConditionChecker {
public:
    mutable ThresholdConditionCache cache;
    explicit Checker(const Consensus::BIP9Deployment& d) : VersionBitsConditionChecker{d} {}
    ThresholdState State(const CBlockIndex* prev) const { return GetStateFor(prev, cache); }
};
#define BAD(...) do { rv::g_stats.real_violations++; if (rv::g_stats.real_violations <= 8) { std::printf("REAL-VIOLATION " __VA_ARGS__); std::printf("\n"); } } while (0)
#define DIS(...) do { rv::g_stats.disagreements++; if (rv::g_stats.disagreements <= 8) { std::printf("DISAGREE " __VA_ARGS__); std::printf("\n"); } } while (0)
static const char* N[] = {"DEFINED", "STARTED", "LOCKED_IN", "ACTIVE", "FAILED"};
static void one(rv::Rng& r)
{
    Consensus::BIP9Deployment d; d.bit = (int)r.below(29); d.period = 1 + (int)r.below(r.below(3) ? 8 : 40); d.threshold = (int)r.below(d.period + 2);
    int len = d.period * (3 + (int)r.below(8)) + (int)r.below(d.period);
    uint32_t t0 = 1600000000u; std::vector<std::unique_ptr<CBlockIndex>> v; uint32_t t = t0;
    int sigmode = (int)r.below(4);
    // timestamps as consensus allows them: arbitrary, but above the median time past of the previous block (so MTP never decreases along the chain)
    for (int h = 0; h < len; h++) { auto b = std::make_unique<CBlockIndex>(); b->nHeight = h; b->pprev = h ? v.back().get() : nullptr; t += (uint32_t)r.below(1200); b->nTime = r.below(5) == 0 ? t - (uint32_t)r.below(3000) : t;
        if (h) { int64_t pm = v.back()->GetMedianTimePast(); if ((int64_t)b->nTime <= pm) b->nTime = (uint32_t)(pm + 1); }
        bool sig = sigmode == 0 ? true : sigmode == 1 ? r.below(2) : sigmode == 2 ? (r.below(10) < 8) : false; b->nVersion = sig ? (int32_t)(0x20000000u | (1u << d.bit)) : (r.below(2) ? 0x20000000 : (int32_t)(1u << d.bit)); b->BuildSkip(); v.push_back(std::move(b)); }
    auto mtp = [&](int h) { std::vector<int64_t> ts; for (int i = h; i >= 0 && i > h - 11; i--) ts.push_back(v[i]->nTime); std::sort(ts.begin(), ts.end()); return ts[ts.size() / 2]; };
    int mode = (int)r.below(10);
    d.nStartTime = mode == 0 ? Consensus::BIP9Deployment::ALWAYS_ACTIVE : mode == 1 ? Consensus::BIP9Deployment::NEVER_ACTIVE : (int64_t)t0 + (int64_t)r.below((uint64_t)(t - t0) + 5000);
    if (mode >= 2 && r.below(4) == 0) d.nStartTime = mtp((int)r.below(len)) + (int64_t)r.below(3) - 1;
    d.nTimeout = r.below(3) == 0 ? Consensus::BIP9Deployment::NO_TIMEOUT : d.nStartTime + (int64_t)r.below((uint64_t)(t - t0) + 5000); if (r.below(4) == 0) d.nTimeout = mtp((int)r.below(len)) + (int64_t)r.below(3) - 1;
    d.min_activation_height = r.below(2) ? 0 : (int)r.below(len + 5);
    // reference: state of the blocks of period k (blocks kP .. kP+P-1) from the state of period k-1 and the chain data of period k-1
    int P = d.period; int nper = len / P + 1; std::vector<int> st(nper + 1, 0);
    for (int k = 1; k <= nper; k++) { int last = k * P - 1; if (last >= len) { st[k] = -1; continue; } int s = st[k - 1]; int64_t m = mtp(last); int hits = 0; for (int i = 0; i < P; i++) { int32_t ver = v[last - i]->nVersion; if (((uint32_t)ver & 0xE0000000u) == 0x20000000u && ((uint32_t)ver >> d.bit) & 1) hits++; }
        int nx = s; if (s == 0) { if (m >= d.nStartTime) nx = 1; } else if (s == 1) { if (hits >= d.threshold) nx = 2; else if (m >= d.nTimeout) nx = 4; } else if (s == 2) { if (last + 1 >= d.min_activation_height) nx = 3; } st[k] = nx;
        // the extracted transition fragment on the same data
        std::vector<char> cond(P); for (int i = 0; i < P; i++) { int32_t ver = v[last - i]->nVersion; cond[i] = (((uint32_t)ver & 0xE0000000u) == 0x20000000u && ((uint32_t)ver >> d.bit) & 1); }
        xIdx xi{nullptr, last}; g_cond = (const bool*)cond.data(); g_hits = 0; int xn = xc_GetStateFor_transition(s, &xi, P, d.threshold, d.min_activation_height, d.nStartTime, d.nTimeout, m); if (xn != nx) DIS("transition(%s) extracted=%s reference=%s", N[s], N[xn], N[nx]); }
    Checker fresh(d), warm(d);
    for (int q = 0; q < 30; q++) {
        int h = (int)r.below(len + 1);      // state FOR block h, computed from its parent (nullptr for genesis)
        const CBlockIndex* prev = h == 0 ? nullptr : v[h - 1].get(); fresh.cache.clear();
        int a = (int)fresh.State(prev), b = (int)warm.State(prev); int want = mode == 0 ? 3 : mode == 1 ? 4 : st[h / P];
        rv::g_stats.inputs++;
        if (a != want || b != want) BAD("GetStateFor(block %d; period %d, threshold %d, min_activation_height %d, start %lld, timeout %lld) = %s (fresh cache) / %s (warm cache), BIP9 says %s", h, P, d.threshold, d.min_activation_height, (long long)d.nStartTime, (long long)d.nTimeout, N[a], N[b], N[want]);
    }
}
int main(int argc, char** argv)
{
    auto a = rv::parse(argc, argv); rv::Rng rng(a.seed); uint64_t n = (a.diff ? a.n : 100000) / 30 + 1;
    for (uint64_t i = 0; i < n; i++) one(rng);
    rv::report();
    return rv::g_stats.real_violations ? 1 : (rv::g_stats.disagreements ? 3 : 0);
}
