/* C53 -- Soft-fork deployment states follow BIP9: the transition step and its surroundings in GetStateFor. */
#include "verif.h"
typedef struct { int period, threshold, min_activation_height; int64_t begin_time, end_time; } VBParams;
typedef struct CBlockIndex_s { struct CBlockIndex_s* pprev; int nHeight; } CBlockIndex;
/* ghost recorders */
int g_aligned; int64_t g_aligned_height; int g_cache_set, g_cache_val, g_pushed; int64_t g_next_height;
/* the signalling window: g_cond[k] = Condition(k-th predecessor of the period's last block), k = 0 .. P-1 */
const bool* g_cond; int g_hits;
typedef struct { int back; } VBView;
static inline VBView VB_view(const CBlockIndex* p) { VBView v = {0}; return v; }
static inline VBView VB_prev(VBView v) { VBView r = {v.back + 1}; return r; }      /* VERIF_TRUSTED tree invariant: pprev is the next older block */
static inline bool VB_Condition(VBView v) { return g_cond[v.back]; }

/* `a % b` in the alignment expression: operands recorded, result characterised by the quotient-remainder law (VERIF_TRUSTED machine arithmetic) */
int64_t g_mod_a, g_mod_b, g_mod_r; int nondet_int(void);
static inline int VB_MOD(int a, int b)
{
    __CPROVER_assert(b != 0 && !(a == INT_MIN && b == -1), "remainder is defined");
    __CPROVER_assert(a >= 0 && b >= 1, "remainder of a non-negative dividend by a positive divisor (the only case the law below is assumed for)");
    int r = nondet_int(); __CPROVER_assume(r >= 0 && r < b);
    g_mod_a = a; g_mod_b = b; g_mod_r = r;
    return r;
}

/* BIP9 states, numbered as the extracted enum */
#define S_DEFINED 0
#define S_STARTED 1
#define S_LOCKED_IN 2
#define S_ACTIVE 3
#define S_FAILED 4

int GetStateFor_head(const VBParams* vb, const CBlockIndex* pindexPrev)
__CPROVER_requires(__CPROVER_is_fresh(vb, sizeof(*vb)) && vb->period >= 1 && (pindexPrev == NULL || (__CPROVER_is_fresh(pindexPrev, sizeof(*pindexPrev)) && pindexPrev->nHeight >= 0 && pindexPrev->nHeight < INT_MAX)))
__CPROVER_requires(g_aligned == 0)
__CPROVER_ensures(vb->begin_time == -1 ==> __CPROVER_return_value == S_ACTIVE)           /* ALWAYS_ACTIVE */
__CPROVER_ensures(vb->begin_time == -2 ==> __CPROVER_return_value == S_FAILED)           /* NEVER_ACTIVE  */
__CPROVER_ensures((vb->begin_time != -1 && vb->begin_time != -2) ==> (__CPROVER_return_value == -1 && g_aligned == (pindexPrev != NULL)))
/* the block whose state is looked up sits at height h - ((h+1) mod P); integer lemma period_align.smt2: that height is = -1 mod P, at most h and more than h - P,
 * i.e. it is the last block of the previous period (division facts are not decided at bit level here, so the postcondition is in decomposed form) */
#ifdef TWIN_ALIGN
__CPROVER_ensures(g_aligned ==> (g_aligned_height == (int64_t)pindexPrev->nHeight - g_mod_r && g_mod_a == (int64_t)pindexPrev->nHeight && g_mod_b == vb->period))
#else
__CPROVER_ensures(g_aligned ==> (g_aligned_height == (int64_t)pindexPrev->nHeight - g_mod_r && g_mod_a == (int64_t)pindexPrev->nHeight + 1 && g_mod_b == vb->period))      /* r = (h+1) mod P */
#endif
__CPROVER_assigns(g_aligned, g_aligned_height, g_mod_a, g_mod_b, g_mod_r);

int GetStateFor_walkback(const VBParams* vb, const CBlockIndex* pindexPrev, int nPeriod, int64_t nTimeStart, int64_t mtp)
__CPROVER_requires((pindexPrev == NULL || (__CPROVER_is_fresh(pindexPrev, sizeof(*pindexPrev)) && pindexPrev->nHeight >= 0)) && nPeriod >= 1 && g_cache_set == 0 && g_pushed == 0)
/* genesis' parent and periods that end before the start time are DEFINED (and end the walk); any other period is queued and the walk steps back exactly one period */
#ifdef TWIN_WALKBACK
__CPROVER_ensures((pindexPrev == NULL || mtp <= nTimeStart) ==> (__CPROVER_return_value == 1 && g_cache_set && g_cache_val == S_DEFINED && !g_pushed))
__CPROVER_ensures((pindexPrev != NULL && mtp > nTimeStart) ==> (__CPROVER_return_value == 0 && !g_cache_set && g_pushed && g_next_height == (int64_t)pindexPrev->nHeight - nPeriod))
#else
__CPROVER_ensures((pindexPrev == NULL || mtp < nTimeStart) ==> (__CPROVER_return_value == 1 && g_cache_set && g_cache_val == S_DEFINED && !g_pushed))
__CPROVER_ensures((pindexPrev != NULL && mtp >= nTimeStart) ==> (__CPROVER_return_value == 0 && !g_cache_set && g_pushed && g_next_height == (int64_t)pindexPrev->nHeight - nPeriod))
#endif
__CPROVER_assigns(g_cache_set, g_cache_val, g_pushed, g_next_height);

/* BIP9's table, written from the statement */
#ifdef TWIN_ORDER
#define T_STARTED(hits, thr, mtp, timeout) ((mtp) >= (timeout) ? S_FAILED : (hits) >= (thr) ? S_LOCKED_IN : S_STARTED)      /* timeout before lock-in: wrong */
#else
#define T_STARTED(hits, thr, mtp, timeout) ((hits) >= (thr) ? S_LOCKED_IN : (mtp) >= (timeout) ? S_FAILED : S_STARTED)      /* lock-in takes precedence */
#endif
#ifdef TWIN_MINHEIGHT
#define T_LOCKED(h, minh) ((int64_t)(h) >= (int64_t)(minh) ? S_ACTIVE : S_LOCKED_IN)
#else
#define T_LOCKED(h, minh) ((int64_t)(h) + 1 >= (int64_t)(minh) ? S_ACTIVE : S_LOCKED_IN)
#endif
#define BIP9_T(s, h, hits) ((s) == S_DEFINED ? (mtp >= nTimeStart ? S_STARTED : S_DEFINED) : (s) == S_STARTED ? T_STARTED(hits, nThreshold, mtp, nTimeTimeout) : (s) == S_LOCKED_IN ? T_LOCKED(h, min_activation_height) : (s))
#define GHOST_COUNT_STEP(i) (g_hits = g_hits + (g_cond[i] ? 1 : 0))
#define LOOP_COUNT \
    __CPROVER_assigns(i, count, pindexCount, g_hits) \
    __CPROVER_loop_invariant(0 <= i && i <= nPeriod && pindexCount.back == i && 0 <= count && count <= i && count == g_hits) \
    __CPROVER_decreases(nPeriod - i)
VERIF_REACH_DECL(GetStateFor_transition)
int GetStateFor_transition(int state, const CBlockIndex* popped, int nPeriod, int nThreshold, int min_activation_height, int64_t nTimeStart, int64_t nTimeTimeout, int64_t mtp)
__CPROVER_requires(__CPROVER_is_fresh(popped, sizeof(*popped)) && popped->nHeight >= 0 && popped->nHeight < INT_MAX && nPeriod >= 1 && nPeriod <= 0x100000 && state >= S_DEFINED && state <= S_FAILED)
__CPROVER_requires(__CPROVER_is_fresh(g_cond, (size_t)nPeriod) && g_hits == 0)
/* g_hits: number of signalling blocks among exactly the nPeriod blocks ending at the period's last block (counted by the ghost step, once per block) */
__CPROVER_ensures(__CPROVER_return_value == BIP9_T(state, popped->nHeight, g_hits))
__CPROVER_ensures(state == S_STARTED ==> (g_hits >= 0 && g_hits <= nPeriod))
VERIF_REACH_ENSURES(GetStateFor_transition, state == S_DEFINED && __CPROVER_return_value == S_STARTED)
VERIF_REACH_ENSURES(GetStateFor_transition, state == S_STARTED && __CPROVER_return_value == S_LOCKED_IN && mtp >= nTimeTimeout && nPeriod > 3)
VERIF_REACH_ENSURES(GetStateFor_transition, state == S_STARTED && __CPROVER_return_value == S_FAILED)
VERIF_REACH_ENSURES(GetStateFor_transition, state == S_STARTED && __CPROVER_return_value == S_STARTED)
VERIF_REACH_ENSURES(GetStateFor_transition, state == S_LOCKED_IN && __CPROVER_return_value == S_ACTIVE)
VERIF_REACH_ENSURES(GetStateFor_transition, state == S_LOCKED_IN && __CPROVER_return_value == S_LOCKED_IN)
VERIF_REACH_ENSURES(GetStateFor_transition, state == S_FAILED)
__CPROVER_assigns(g_hits);

#include "slices.h"

int64_t nondet_i64(void);
void h_head(void) { const VBParams* vb; const CBlockIndex* p; int r = GetStateFor_head(vb, p); if (r == -1) VERIF_REACH_PT("continues"); if (r == S_ACTIVE) VERIF_REACH_PT("always active"); if (r == S_FAILED) VERIF_REACH_PT("never active"); }
void h_walkback(void) { const VBParams* vb; const CBlockIndex* p; int r = GetStateFor_walkback(vb, p, nondet_int(), nondet_i64(), nondet_i64()); if (r) VERIF_REACH_PT("walk ends"); else VERIF_REACH_PT("period queued"); }
void h_transition(void) { const CBlockIndex* p; VERIF_REACH_ON(GetStateFor_transition); GetStateFor_transition(nondet_int(), p, nondet_int(), nondet_int(), nondet_int(), nondet_i64(), nondet_i64(), nondet_i64()); }
