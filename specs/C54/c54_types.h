/* C54 shims.  On the path from a block to genesis an index entry is identified by its height, so the walk over pprev / pskip links is
 * rendered over NODE VIEWS: (is-null, height, has-pskip).  Following a link applies the TREE INVARIANT
 *   pprev of an entry of height h is the entry of height h-1 (none for genesis);  pskip, if set, is the ancestor entry of height GetSkipHeight(h)
 * (pprev: construction of the index; pskip: CBlockIndex::BuildSkip, whose contract establishes exactly this for one node).
 * Natively a view simply wraps the real pointer and follows the real links. */
#ifndef C54_TYPES_H
#define C54_TYPES_H
#include "verif.h"
typedef struct CBlockIndex_s { struct CBlockIndex_s* pprev; struct CBlockIndex_s* pskip; int nHeight; } CBlockIndex;
static int GetSkipHeight(int height);
#ifdef VERIF_CBMC
typedef struct { bool null; int nHeight; bool has_pskip; } NodeView;
bool nondet_bool(void);
static inline NodeView NODE_null(void) { NodeView v = {1, 0, 0}; return v; }
static inline NodeView NODE_of(const CBlockIndex* p) { NodeView v = {0, p->nHeight, p->pskip != NULL}; return v; }
static inline bool NODE_has_pskip(NodeView v) { return v.has_pskip; }
static inline bool NODE_has_pprev(NodeView v) { return v.nHeight > 0; }
static inline NodeView NODE_follow_pskip(NodeView v)     /* VERIF_TRUSTED tree invariant (pskip) */
{ __CPROVER_assert(!v.null && v.has_pskip, "pskip is followed only when it is set"); NodeView r = {0, GetSkipHeight(v.nHeight), nondet_bool()}; return r; }
static inline NodeView NODE_follow_pprev(NodeView v)     /* VERIF_TRUSTED tree invariant (pprev) */
{ __CPROVER_assert(!v.null && v.nHeight > 0, "pprev is followed only below a non-genesis entry"); NodeView r = {0, v.nHeight - 1, nondet_bool()}; return r; }
#define NODE_is_null(v) ((v).null)
#define NODE_height(v) ((v).nHeight)
#else
typedef struct { const CBlockIndex* p; } NodeView;
static inline NodeView NODE_null(void) { NodeView v = {0}; return v; }
static inline NodeView NODE_of(const CBlockIndex* p) { NodeView v = {p}; return v; }
static inline bool NODE_has_pskip(NodeView v) { return v.p->pskip != 0; }
static inline bool NODE_has_pprev(NodeView v) { return v.p->pprev != 0; }
static inline NodeView NODE_follow_pskip(NodeView v) { NodeView r = {v.p->pskip}; return r; }
static inline NodeView NODE_follow_pprev(NodeView v) { NodeView r = {v.p->pprev}; return r; }
#define NODE_is_null(v) ((v).p == 0)
#define NODE_height(v) ((v).p->nHeight)
#endif
static inline int verif_max_int(int a, int b) { return a < b ? b : a; }          /* std::max (VERIF_STUB) */
/* ghost recorder for the locator: number of entries, and the heights pushed at the arbitrary position g_p and at g_p + 1, and the last one */
typedef struct { size_t n; int h_at_p; int h_at_p1; int h_last; } LocatorList;
extern size_t g_p;
static inline void LocatorList_push(LocatorList* l, int height)
{
    if (l->n == g_p) l->h_at_p = height;
    if (l->n == g_p + 1) l->h_at_p1 = height;
    l->h_last = height;
    l->n = l->n + 1;
}
#endif
