/* native build (g++ -x c++) of the extracted chain.cpp / arith slices: node views wrap real pointers of the mirrored chain */
#include <arith_uint256.h>
#include <string.h>
#include "verif_arith.h"
static arith_uint256 to_a(const base_uint256& x) { arith_uint256 a; for (int i = 7; i >= 0; i--) { a <<= 32; a += x.pn[i]; } return a; }
static base_uint256 from_a(arith_uint256 a) { base_uint256 r; for (int i = 0; i < 8; i++) { r.pn[i] = (uint32_t)a.GetLow64(); a >>= 32; } return r; }
extern "C" {
#include "c54_types.h"
size_t g_p;
#define LOOP_ANCESTOR
#define LOOP_LOCATOR
static base_uint256 base_uint_from64(uint64_t v) { return from_a(arith_uint256(v)); }
static base_uint256 base_uint_not(base_uint256 a) { return from_a(~to_a(a)); }
static base_uint256 base_uint_add64(base_uint256 a, uint64_t b) { return from_a(to_a(a) + arith_uint256(b)); }
static base_uint256 base_uint_div(base_uint256 a, base_uint256 b) { return from_a(to_a(a) / to_a(b)); }
NodeView CBlockIndex_GetAncestor(const CBlockIndex* self, int height);
static NodeView NODE_GetAncestor(NodeView v, int height) { return CBlockIndex_GetAncestor(v.p, height); }
#include "slices.h"
}
