import os, sys
sys.path.insert(0, os.path.dirname(os.path.dirname(os.path.abspath(__file__))))
from engine.extract import R
from common_arith import ARITH_SLICES

CH = "src/chain.cpp"
SLICES = [
    {"name": "InvertLowestOne", "kind": "func", "file": CH, "head": r"int static inline InvertLowestOne\(int n\)", "rules": [R("specifier order", r"int static inline InvertLowestOne", "static int InvertLowestOne")]},
    {"name": "GetSkipHeight", "kind": "func", "file": CH, "head": r"int static inline GetSkipHeight\(int height\)", "rules": [R("specifier order", r"int static inline GetSkipHeight", "static int GetSkipHeight")]},
    {"name": "GetAncestor", "cname": "CBlockIndex_GetAncestor", "kind": "func", "file": CH, "head": r"const CBlockIndex\* CBlockIndex::GetAncestor\(int height\)",
     "rules": [R("method-head:CBlockIndex::GetAncestor const (result as a node view)", r"const CBlockIndex\* CBlockIndex::GetAncestor\(int height\) const", "NodeView CBlockIndex_GetAncestor(const CBlockIndex* self, int height)"),
               R("view:return nullptr", r"return nullptr;", "return NODE_null();", False),
               R("view:walk pointer starts at this", r"const CBlockIndex\* pindexWalk = this;", "NodeView pindexWalk = NODE_of(self);", False),
               R("member:nHeight", r"(?<![\w.>])nHeight\b", "self->nHeight", False),
               R("view:pindexWalk->pskip != nullptr", r"pindexWalk->pskip != nullptr", "NODE_has_pskip(pindexWalk)", False),
               R("view:assert(pindexWalk->pprev)", r"assert\(pindexWalk->pprev\);", "VERIF_ASSERT(NODE_has_pprev(pindexWalk));", False),
               R("view:follow pskip", r"pindexWalk = pindexWalk->pskip;", "pindexWalk = NODE_follow_pskip(pindexWalk);", False),
               R("view:follow pprev", r"pindexWalk = pindexWalk->pprev;", "pindexWalk = NODE_follow_pprev(pindexWalk);", False)],
     "loops": [{"match": r"while \(heightWalk > height\)", "contract": "LOOP_ANCESTOR", "required": False}]},
    {"name": "BuildSkip", "cname": "CBlockIndex_BuildSkip", "kind": "func", "file": CH, "head": r"void CBlockIndex::BuildSkip\(\)",
     "rules": [R("method-head:CBlockIndex::BuildSkip (the entry found is reported as a node view)", r"void CBlockIndex::BuildSkip\(\)", "NodeView CBlockIndex_BuildSkip(CBlockIndex* self)"),
               R("view:pskip = pprev->GetAncestor(h) (the pointer store itself is outside the view model)", r"pskip = pprev->GetAncestor\(([^;]*)\);", r"return CBlockIndex_GetAncestor(self->pprev, \1);", False),
               R("member:pprev", r"(?<![\w.>])pprev\b", "self->pprev", False),
               R("member:nHeight", r"(?<![\w.>])nHeight\b", "self->nHeight", False),
               R("tail: no pprev -> no entry", r"\}\s*$", "    return NODE_null();\n}", False)]},
    {"name": "LocatorEntries", "kind": "func", "file": CH, "head": r"std::vector<uint256> LocatorEntries\(const CBlockIndex\* index\)",
     "rules": [R("ret:std::vector<uint256> -> ghost list; the walk pointer as a node view", r"std::vector<uint256> LocatorEntries\(const CBlockIndex\* index\)", "LocatorList LocatorEntries(NodeView index)"),
               R("decl:have", r"std::vector<uint256> have;", "LocatorList have = {0, 0, 0, 0};", False),
               R("view:index == nullptr", r"index == nullptr", "NODE_is_null(index)", False),
               R("view:while (index)", r"while \(index\)", "while (!NODE_is_null(index))", False),
               R("drop:reserve", r"have\.reserve\(32\);", "", False),
               R("ghost:have.emplace_back(index->GetBlockHash())", r"have\.emplace_back\(index->GetBlockHash\(\)\);", "LocatorList_push(&have, NODE_height(index));", False),
               R("ghost:have.size()", r"have\.size\(\)", "have.n", False),
               R("std::max<int>", r"std::max\(", "verif_max_int(", False),
               R("view:index->GetAncestor", r"index = index->GetAncestor\(([^;]*)\);", r"index = NODE_GetAncestor(index, \1);", False),
               R("view:index->nHeight", r"index->nHeight", "NODE_height(index)", False)],
     "loops": [{"match": r"while \(!NODE_is_null\(index\)\)", "contract": "LOOP_LOCATOR", "required": False}]},
] + ARITH_SLICES + [
    {"name": "GetBitsProof", "kind": "func", "file": CH, "head": r"arith_uint256 GetBitsProof\(uint32_t bits\)",
     "rules": [R("ret:arith_uint256 -> base_uint256", r"arith_uint256 GetBitsProof", "base_uint256 GetBitsProof"),
               R("decl:arith_uint256 bnTarget (zero-initialised by the constructor)", r"arith_uint256 bnTarget;", "base_uint256 bnTarget = {{0, 0, 0, 0, 0, 0, 0, 0}};", False),
               R("call:bnTarget.SetCompact", r"bnTarget\.SetCompact\(", "arith_SetCompact(&bnTarget, ", False),
               R("operator==(uint64_t) via EqualTo", r"bnTarget == 0", "base_uint_EqualTo(&bnTarget, 0)", False),
               R("return 0 -> zero value", r"return 0;", "return base_uint_from64(0);", False),
               # overloaded operators become named calls; operands and constants are captured, not fixed
               R("operators ~ / + on arith_uint256 -> calls", r"return \(~(\w+) / \((\w+) \+ (\d+)\)\) \+ (\d+);", r"return base_uint_add64(base_uint_div(base_uint_not(\1), base_uint_add64(\2, \3)), \4);", False)]},
]

def H(name, fn, twins=(), **kw):
    d = {"name": name, "enforce": fn, "twins": [{"define": t, "expect": "postcondition"} for t in twins]}
    d.update(kw)
    return d

PLAN = {
    "id": "C54", "level": "proof", "slices": SLICES, "spec": "spec.c", "default_solver": ["cadical", "z3"],
    "harnesses": [
        H("h_InvertLowestOne", "InvertLowestOne"),
        H("h_GetSkipHeight", "GetSkipHeight", ["TWIN_SKIP"], replace=["InvertLowestOne"]),
        H("h_GetAncestor", "CBlockIndex_GetAncestor", ["TWIN_ANCESTOR"], loop_contracts=True),
        H("h_BuildSkip", "CBlockIndex_BuildSkip", replace=["CBlockIndex_GetAncestor"]),
        {"name": "h_LocatorEntries", "enforce": "LocatorEntries", "replace": ["NODE_GetAncestor"], "loop_contracts": True, "twins": [{"define": "TWIN_LOCATOR", "expect": "postcondition|loop_invariant"}]},
        H("h_GetBitsProof", "GetBitsProof", ["TWIN_PROOF"], replace=["arith_SetCompact", "base_uint_EqualTo"]),
    ],
    "lemmas_smt": ["work_identity.smt2"],
    "native": {"src": "replay.cpp", "c_src": "native_slices.c", "c_lang": "c++", "repo_sources": ["src/chain.cpp", "src/arith_uint256.cpp"], "diff_n_quick": 40000, "diff_n_thorough": 1000000,
               "libs": ["libbitcoin_common.a", "libbitcoin_consensus.a", "libbitcoin_util.a", "libbitcoin_clientversion.a", "libbitcoin_crypto.a"]},
    "not_covered": ["LastCommonAncestor and CChain::FindFork (two simultaneous walks / the active-chain vector): not under contract",
                    "accumulation of nChainWork over the ancestry (call site in AddToBlockIndex / LoadBlockIndex)",
                    "256-bit operator/ (long division) and operator~ / operator+: assumed contracts (quotient as an uninterpreted function; complement; modular sum)",
                    "that every index entry's pskip was produced by BuildSkip (the tree invariant is established per node by BuildSkip's contract and assumed when a link is read)"],
    "assumptions": ["block-tree invariant, applied where a link is read (specs/C54/c54_types.h): a node of height h lies at path[h]; its pprev is path[h-1] (NULL for genesis); its pskip is NULL or path[GetSkipHeight(h)]",
                    "LocatorList is a ghost recorder of (position, height) pairs for have.emplace_back(index->GetBlockHash())",
                    "base_uint_div / base_uint_not / base_uint_add64: VERIF_TRUSTED contracts of the arith_uint256 operators used by GetBitsProof"],
    "manifest": {
        "category": "proof",
        "text": "core (skip arithmetic, ancestor walk, locator steps), partial (work): GetSkipHeight(h) is 0 for h < 2 and in [0,h) otherwise; CBlockIndex::GetAncestor(height) returns NULL outside [0,nHeight] and otherwise the node at that height on the pprev path for ANY chain length (unbounded loop contract, termination proved), following pskip only to a height >= the target; "
                "BuildSkip sets pskip to the path node at GetSkipHeight(nHeight); LocatorEntries lists the start block, then 11 single steps back, then doubling steps, clamps at 0 and ends with genesis; GetBitsProof returns 0 exactly for negative/overflowing/zero targets and otherwise (~target / (target+1)) + 1, which an integer lemma equates with floor(2^256 / (target+1)).",
        "note": "Assumed: tree invariant at link reads, 256-bit division/complement/add contracts. Not covered: LastCommonAncestor, FindFork, chainwork accumulation call sites.",
        "technique": "CBMC function + loop contracts (unbounded walk over a ghost path array) on extracted chain.cpp functions, callee contracts substituted, u256 spec integers, SMT Int lemma",
    },
    "trusted_base": ["specs/C54/spec.c", "specs/C54/c54_types.h", "include/verif_arith.h"],
}
