// C54 native harness: the real chain.cpp (compiled from the working tree) on random block trees vs the extracted C text (xc_*) on a mirrored
// tree vs naive references (parent walk, closed-form locator heights, big-integer work).
#include <arith_uint256.h>
#include <chain.h>
#include <uint256.h>
#include <boost/multiprecision/cpp_int.hpp>
#include <memory>
#include "replay_util.h"
using boost::multiprecision::cpp_int;
struct xIdx { xIdx* pprev; xIdx* pskip; int nHeight; };
struct xView { const xIdx* p; };
struct xLoc { size_t n; int h_at_p; int h_at_p1; int h_last; };
struct xbu { uint32_t pn[8]; };
extern "C" { extern size_t g_p; xView xc_CBlockIndex_GetAncestor(const xIdx*, int); xView xc_CBlockIndex_BuildSkip(xIdx*); xLoc xc_LocatorEntries(xView); xbu xc_GetBitsProof(uint32_t); }
#define BAD(...) do { rv::g_stats.real_violations++; if (rv::g_stats.real_violations <= 8) { std::printf("REAL-VIOLATION " __VA_ARGS__); std::printf("\n"); } } while (0)
#define DIS(...) do { rv::g_stats.disagreements++; if (rv::g_stats.disagreements <= 8) { std::printf("DISAGREE " __VA_ARGS__); std::printf("\n"); } } while (0)
static cpp_int big(arith_uint256 t) { cpp_int r = 0; for (int i = 0; i < 8; i++) { r |= cpp_int((uint32_t)t.GetLow64()) << (32 * i); t >>= 32; } return r; }
static arith_uint256 from(const xbu& x) { arith_uint256 a; for (int i = 7; i >= 0; i--) { a <<= 32; a += x.pn[i]; } return a; }

struct Tree { std::vector<std::unique_ptr<CBlockIndex>> v; std::vector<std::unique_ptr<xIdx>> x; std::vector<int> parent; std::vector<uint256> hashes;
    explicit Tree(rv::Rng& r, int n) { hashes.resize(n); for (int i = 0; i < n; i++) { unsigned char b[32] = {0}; memcpy(b, &i, 4); b[31] = 1; hashes[i] = uint256(std::span<const unsigned char>(b, 32)); }
        for (int i = 0; i < n; i++) { int par = i == 0 ? -1 : (r.below(4) ? i - 1 : (int)r.below(i)); parent.push_back(par); auto b = std::make_unique<CBlockIndex>(); auto xb = std::make_unique<xIdx>();
            b->pprev = par < 0 ? nullptr : v[par].get(); b->nHeight = par < 0 ? 0 : v[par]->nHeight + 1; b->phashBlock = &hashes[i]; b->BuildSkip();
            xb->pprev = par < 0 ? nullptr : x[par].get(); xb->nHeight = b->nHeight; xb->pskip = nullptr; v.push_back(std::move(b)); x.push_back(std::move(xb)); }
        // mirror the real skip pointers into the extracted text's tree (index of a pointer = position in v)
        for (int i = 0; i < n; i++) if (v[i]->pskip) { for (int j = parent[i]; j >= 0; j = parent[j]) if (v[j].get() == v[i]->pskip) { x[i]->pskip = x[j].get(); break; } } }
    int naive_ancestor(int i, int h) const { if (h < 0 || h > v[i]->nHeight) return -1; while (v[i]->nHeight > h) i = parent[i]; return i; } };

static int64_t spec_D(int p) { return p <= 11 ? p : ((int64_t)1 << (p - 10)) + 9; }
static void check_tree(rv::Rng& r)
{
    int n = 2 + (int)r.below(r.below(4) ? 300 : 5000); Tree t(r, n);
    for (int q = 0; q < 40; q++) {
        int i = (int)r.below(n); int H = t.v[i]->nHeight; int h = r.below(8) == 0 ? (int)r.below(H + 3) - 1 : (int)r.below(H + 1);
        const CBlockIndex* real = t.v[i]->GetAncestor(h); int want = t.naive_ancestor(i, h); xView xr = xc_CBlockIndex_GetAncestor(t.x[i].get(), h);
        rv::g_stats.inputs++;
        int xi = -1; if (xr.p) for (int j = i; j >= 0; j = t.parent[j]) if (t.x[j].get() == xr.p) { xi = j; break; }
        int ri = -1; if (real) for (int j = i; j >= 0; j = t.parent[j]) if (t.v[j].get() == real) { ri = j; break; }
        if ((real == nullptr) != (xr.p == nullptr) || ri != xi) DIS("GetAncestor(node %d height %d, %d)", i, H, h);
        if ((want < 0) != (real == nullptr) || (want >= 0 && real != t.v[want].get())) BAD("GetAncestor(%d) from a block at height %d returns %s (height %d), the parent walk gives height %d", h, H, real ? "a block" : "null", real ? real->nHeight : -1, want < 0 ? -1 : t.v[want]->nHeight);
        // BuildSkip: the entry it selects
        xIdx tmp = *t.x[i]; xView bs = xc_CBlockIndex_BuildSkip(&tmp); if ((bs.p == nullptr) != (t.x[i]->pskip == nullptr) || (bs.p && bs.p != t.x[i]->pskip)) DIS("BuildSkip(node %d)", i);
        if (t.v[i]->pprev && (!t.v[i]->pskip || t.v[i]->pskip->nHeight >= H || t.v[i]->pskip != t.v[t.naive_ancestor(i, t.v[i]->pskip->nHeight)].get())) BAD("BuildSkip at height %d: pskip is not a strict ancestor", H);
    }
    for (int q = 0; q < 6; q++) {
        int i = (int)r.below(n); int H = t.v[i]->nHeight; std::vector<uint256> loc = LocatorEntries(t.v[i].get()); g_p = r.below(loc.size()); xLoc xl = xc_LocatorEntries(xView{t.x[i].get()});
        rv::g_stats.inputs++;
        std::vector<int> want; for (int p = 0;; p++) { int64_t hh = std::max<int64_t>(0, H - spec_D(p)); want.push_back((int)hh); if (hh == 0) break; }
        bool ok = loc.size() == want.size(); for (size_t p = 0; ok && p < loc.size(); p++) { int a = t.naive_ancestor(i, want[p]); ok = a >= 0 && loc[p] == t.hashes[a]; }
        if (xl.n != loc.size() || xl.h_last != 0 || xl.h_at_p != (g_p < want.size() ? want[g_p] : -1)) if (ok) DIS("LocatorEntries(height %d): real %zu entries, extracted %zu (h_at_p %d)", H, loc.size(), xl.n, xl.h_at_p);
        if (!ok) BAD("LocatorEntries from height %d: %zu entries, expected %zu (start block, 11 single steps, then doubling gaps, ending at genesis)", H, loc.size(), want.size());
    }
}
static void check_work(rv::Rng& r)
{
    static const uint32_t S[] = {0, 1, 2, 3, 4, 5, 28, 29, 30, 31, 32, 33, 34, 35}; uint32_t size = r.below(3) ? S[r.below(14)] : (uint32_t)r.below(40);
    static const uint32_t M[] = {0, 1, 0xff, 0x100, 0xffff, 0x10000, 0x7fffff, 0x8000, 0x7fff, 0x00ffff, 0x010000, 3, 7, 0xf, 0x7f}; uint32_t m = r.below(2) ? M[r.below(15)] : (uint32_t)r.below(0x800000);
    uint32_t c = (size << 24) | m | (r.below(8) == 0 ? 0x800000 : 0);
    arith_uint256 real = GetBitsProof(c); xbu xr = xc_GetBitsProof(c);
    bool neg, ovf; arith_uint256 t; t.SetCompact(c, &neg, &ovf); cpp_int want = (neg || ovf || t == 0) ? cpp_int(0) : (cpp_int(1) << 256) / (big(t) + 1);
    rv::g_stats.inputs++;
    if (from(xr) != real) DIS("GetBitsProof(0x%08x)", c);
    if (big(real) != want) BAD("GetBitsProof(0x%08x) = %s, floor(2^256/(target+1)) = %s", c, real.GetHex().c_str(), want.str(0, std::ios_base::hex).c_str());
}
int main(int argc, char** argv)
{
    auto a = rv::parse(argc, argv); rv::Rng rng(a.seed); uint64_t n = a.diff ? a.n : 100000;
    for (uint64_t i = 0; i < n; i++) { check_work(rng); if (i % 200 == 0) check_tree(rng); }
    rv::report();
    return rv::g_stats.real_violations ? 1 : (rv::g_stats.disagreements ? 3 : 0);
}
