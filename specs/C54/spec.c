/* C54 -- Block index navigation and chainwork are correct (skip arithmetic, ancestor walk, locator steps, work of one block). */
#include "c54_types.h"
#include "../arith_contracts.h"
size_t g_p;

static int InvertLowestOne(int n)
__CPROVER_requires(n >= 0)
/* clears the lowest set bit: the result is n minus its lowest set bit */
__CPROVER_ensures(__CPROVER_return_value == (n & (n - 1)) && __CPROVER_return_value >= 0 && __CPROVER_return_value <= n && (n > 0 ==> __CPROVER_return_value < n))
__CPROVER_assigns();

/* "any number strictly lower than height" -- that is all the walk needs */
static int GetSkipHeight(int height)
__CPROVER_requires(height >= 0)
#ifdef TWIN_SKIP
__CPROVER_ensures(height < 2 ? __CPROVER_return_value == 0 : (__CPROVER_return_value >= 0 && 2 * (int64_t)__CPROVER_return_value < height))
#else
__CPROVER_ensures(height < 2 ? __CPROVER_return_value == 0 : (__CPROVER_return_value >= 0 && __CPROVER_return_value < height))
#endif
__CPROVER_assigns();

#define MAXH 0x7ffffffe
#define FRESH_NODE(p) (__CPROVER_is_fresh(p, sizeof(CBlockIndex)) && (p)->nHeight >= 0 && (p)->nHeight <= MAXH)
#define LOOP_ANCESTOR \
    __CPROVER_assigns(pindexWalk, heightWalk) \
    __CPROVER_loop_invariant(height <= heightWalk && heightWalk <= self->nHeight && !pindexWalk.null && pindexWalk.nHeight == heightWalk) \
    __CPROVER_decreases(heightWalk - height)

VERIF_REACH_DECL(CBlockIndex_GetAncestor)
NodeView CBlockIndex_GetAncestor(const CBlockIndex* self, int height)
__CPROVER_requires(FRESH_NODE(self))
__CPROVER_ensures((height > self->nHeight || height < 0) ==> __CPROVER_return_value.null)
#ifdef TWIN_ANCESTOR
__CPROVER_ensures((height >= 0 && height <= self->nHeight) ==> (!__CPROVER_return_value.null && __CPROVER_return_value.nHeight == (height > 0 ? height - 1 : 0)))
#else
/* the entry at that height on the path to genesis (reached through pprev / pskip links only, whatever the chain length) */
__CPROVER_ensures((height >= 0 && height <= self->nHeight) ==> (!__CPROVER_return_value.null && __CPROVER_return_value.nHeight == height))
#endif
VERIF_REACH_ENSURES(CBlockIndex_GetAncestor, __CPROVER_return_value.null && height < 0)
VERIF_REACH_ENSURES(CBlockIndex_GetAncestor, !__CPROVER_return_value.null && height + 1000 < self->nHeight)
VERIF_REACH_ENSURES(CBlockIndex_GetAncestor, !__CPROVER_return_value.null && height == self->nHeight)
__CPROVER_assigns();

/* BuildSkip establishes the pskip half of the tree invariant for one node: the entry it stores is the ancestor at GetSkipHeight(nHeight) */
NodeView CBlockIndex_BuildSkip(CBlockIndex* self)
__CPROVER_requires(__CPROVER_is_fresh(self, sizeof(CBlockIndex)) && self->nHeight >= 0 && self->nHeight <= MAXH)
__CPROVER_requires(self->pprev == NULL || (self->nHeight >= 1 && FRESH_NODE(self->pprev) && self->pprev->nHeight == self->nHeight - 1))
__CPROVER_ensures(self->pprev != NULL ==> (!__CPROVER_return_value.null && __CPROVER_return_value.nHeight == GetSkipHeight(self->nHeight)))
__CPROVER_ensures(self->pprev == NULL ==> __CPROVER_return_value.null)
__CPROVER_assigns();

/* GetAncestor's contract restated for a caller that holds a node view (LocatorEntries) */
NodeView NODE_GetAncestor(NodeView v, int height)
__CPROVER_requires(!v.null && v.nHeight >= 0)
__CPROVER_ensures((height > v.nHeight || height < 0) ==> __CPROVER_return_value.null)
__CPROVER_ensures((height >= 0 && height <= v.nHeight) ==> (!__CPROVER_return_value.null && __CPROVER_return_value.nHeight == height))
__CPROVER_assigns();

/* locator: entry p (0-based) is the ancestor at height max(H - D(p), 0) where the distances D are 0,1,...,11 and then grow by doubling gaps
 * (12th gap 2, then 4, 8, ...): D(p) = p for p <= 11, 2^(p-10) + 9 beyond; the list ends with the first entry at height 0 (genesis). */
#ifdef TWIN_LOCATOR
#define SPEC_D(p) ((p) <= 10 ? (int64_t)(p) : (p) <= 41 ? (((int64_t)1 << ((p) - 9)) + 8) : ((int64_t)1 << 40))
#else
#define SPEC_D(p) ((p) <= 11 ? (int64_t)(p) : (p) <= 41 ? (((int64_t)1 << ((p) - 10)) + 9) : ((int64_t)1 << 40))
#endif
#define MAX0(x) ((x) > 0 ? (x) : 0)
#define ENTRY_H(p) MAX0((int64_t)start_height - SPEC_D(p))
#define STEP_OF_SIZE(n) ((n) <= 10 ? 1 : (n) <= 40 ? (1 << ((n) - 10)) : 0)
#define LOOP_LOCATOR \
    __CPROVER_assigns(index, step, have) \
    __CPROVER_loop_invariant(have.n <= 41 && step == STEP_OF_SIZE(have.n) && !index.null && (int64_t)index.nHeight == ENTRY_H(have.n)) \
    __CPROVER_loop_invariant(have.n >= 1 ==> ((int64_t)have.h_last == ENTRY_H(have.n - 1) && have.h_last > 0)) \
    __CPROVER_loop_invariant(have.n > g_p ==> (int64_t)have.h_at_p == ENTRY_H(g_p)) \
    __CPROVER_loop_invariant(have.n > g_p + 1 ==> (int64_t)have.h_at_p1 == ENTRY_H(g_p + 1)) \
    __CPROVER_decreases((int64_t)index.nHeight + 1)
int start_height;      /* ghost: height of the block the locator starts from */
VERIF_REACH_DECL(LocatorEntries)
LocatorList LocatorEntries(NodeView index)
__CPROVER_requires(index.null || (index.nHeight >= 0 && index.nHeight <= 0x3fffffff && start_height == index.nHeight))
__CPROVER_requires(g_p < 64)
__CPROVER_ensures(index.null ==> __CPROVER_return_value.n == 0)
/* first entry is the block itself (D(0) = 0), the last entry is genesis, entry p is at height max(H - D(p), 0) */
__CPROVER_ensures(!index.null ==> (__CPROVER_return_value.n >= 1 && __CPROVER_return_value.n <= 42 && __CPROVER_return_value.h_last == 0))
__CPROVER_ensures((!index.null && __CPROVER_return_value.n > g_p) ==> (int64_t)__CPROVER_return_value.h_at_p == ENTRY_H(g_p))
__CPROVER_ensures((!index.null && __CPROVER_return_value.n > g_p + 1) ==> ((int64_t)__CPROVER_return_value.h_at_p1 == ENTRY_H(g_p + 1) && __CPROVER_return_value.h_at_p > 0))
VERIF_REACH_ENSURES(LocatorEntries, !index.null && __CPROVER_return_value.n > 20 && g_p == 15)
VERIF_REACH_ENSURES(LocatorEntries, !index.null && __CPROVER_return_value.n == 1)
__CPROVER_assigns();

/* ---- work of one block: floor(2^256 / (target + 1)) ---- */
u256 __CPROVER_uninterpreted_div256(u256 x, u256 d);      /* quotient of the 256-bit operator/ : VERIF_TRUSTED (long division not verified) */
static inline base_uint256 base_uint_from_u256(u256 v) { base_uint256 r; for (int i = 0; i < 8; i++) r.pn[i] = (uint32_t)(v >> (32 * i)); return r; }
static inline base_uint256 base_uint_from64(uint64_t v) { return base_uint_from_u256((u256)v); }
static inline base_uint256 base_uint_not(base_uint256 a) { return base_uint_from_u256(~U256_OF(&a)); }                         /* VERIF_TRUSTED operator~ */
static inline base_uint256 base_uint_add64(base_uint256 a, uint64_t b) { return base_uint_from_u256(U256_OF(&a) + (u256)b); }   /* VERIF_TRUSTED operator+ (mod 2^256) */
static inline base_uint256 base_uint_div(base_uint256 a, base_uint256 b)                                                        /* VERIF_TRUSTED operator/ */
{ __CPROVER_assert(U256_OF(&b) != 0, "division by zero (operator/ throws uint_error)"); return base_uint_from_u256(__CPROVER_uninterpreted_div256(U256_OF(&a), U256_OF(&b))); }
#define RET_U256 U256_OF(&__CPROVER_return_value)
base_uint256 GetBitsProof(uint32_t bits)
__CPROVER_ensures((SETC_NEG(bits) || SETC_OVF(bits) || SETC(bits) == 0) ==> RET_U256 == 0)
/* otherwise (~t / (t + 1)) + 1, all modulo 2^256; lemma work_identity.smt2: for 0 < t < 2^256 this is floor(2^256 / (t + 1)) */
#ifdef TWIN_PROOF
__CPROVER_ensures(!(SETC_NEG(bits) || SETC_OVF(bits) || SETC(bits) == 0) ==> RET_U256 == (u256)(__CPROVER_uninterpreted_div256((u256)~SETC(bits), (u256)(SETC(bits) + 1))))
#else
__CPROVER_ensures(!(SETC_NEG(bits) || SETC_OVF(bits) || SETC(bits) == 0) ==> RET_U256 == (u256)(__CPROVER_uninterpreted_div256((u256)~SETC(bits), (u256)(SETC(bits) + 1)) + 1))
#endif
__CPROVER_assigns();

#include "slices.h"

int nondet_int(void); unsigned nondet_uint(void); size_t nondet_size_t(void);
void h_InvertLowestOne(void) { int r = InvertLowestOne(nondet_int()); if (r == 0) VERIF_REACH_PT("power of two or zero"); else VERIF_REACH_PT("other"); }
void h_GetSkipHeight(void) { int r = GetSkipHeight(nondet_int()); if (r > 1000) VERIF_REACH_PT("big"); if (r == 0) VERIF_REACH_PT("zero"); }
void h_GetAncestor(void) { const CBlockIndex* s; VERIF_REACH_ON(CBlockIndex_GetAncestor); CBlockIndex_GetAncestor(s, nondet_int()); }
void h_BuildSkip(void) { CBlockIndex* s; CBlockIndex_BuildSkip(s); VERIF_REACH_PT("returns"); }
void h_LocatorEntries(void) { NodeView s = {nondet_bool(), nondet_int(), nondet_bool()}; g_p = nondet_size_t(); start_height = nondet_int(); VERIF_REACH_ON(LocatorEntries); LocatorEntries(s); }
void h_GetBitsProof(void) { base_uint256 r = GetBitsProof(nondet_uint()); if (U256_OF(&r) == 0) VERIF_REACH_PT("zero work"); else VERIF_REACH_PT("positive work"); }
