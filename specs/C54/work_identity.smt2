; (2^256 - 1 - t) div (t + 1) + 1 = 2^256 div (t + 1)   for 0 <= t < 2^256   (the identity in the comment of GetBitsProof)
; with q = (2^256 - 1 - t) div (t+1): 2^256 = (2^256 - 1 - t) + (t + 1) = q(t+1) + r + (t+1) = (q+1)(t+1) + r, 0 <= r < t+1.
(set-logic ALL)
(declare-const t Int)
(define-fun P () Int 115792089237316195423570985008687907853269984665640564039457584007913129639936)
(assert (and (<= 0 t) (< t P)))
(assert (not (= (+ (div (- (- P 1) t) (+ t 1)) 1) (div P (+ t 1)))))
(check-sat)
