#include "verif_chain.h"
#include "verif_tx.h"
enum { BLOCK_RESULT_UNSET = 0, BLOCK_CONSENSUS = 1 };
typedef struct { int mode_invalid; int result; uint32_t reason; } BlockValidationState;
#ifdef __cplusplus
extern "C" {
#endif
extern int g_cis_calls, g_cis_deferred, g_added; extern bool g_cis_verdict;
static bool CheckInputScripts_stub(int deferred, TxValidationState* tx_state) { g_cis_calls++; g_cis_deferred = deferred; if (!g_cis_verdict) { tx_state->mode_invalid = 1; tx_state->result = TX_CONSENSUS; tx_state->reason = 0x5c121u; } return g_cis_verdict; }
static void control_Add(void) { g_added++; }
static bool BlockState_Invalid_from_tx(BlockValidationState* state, int result, const TxValidationState* tx_state) { state->mode_invalid = 1; state->result = result; state->reason = tx_state->reason; return 0; }
#include "slices.h"
#ifdef __cplusplus
}
#endif
