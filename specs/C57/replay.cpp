// C57 native harness: the ORIGINAL three fragments of ConnectBlock (working tree text) compiled as C++ against mock
// m_chainman / m_blockman objects backed by a REAL block index (real CBlockIndex, GetAncestor, BuildSkip,
// GetBlockProofEquivalentTime from src/chain.cpp), next to the extracted C text, and the statement-level oracle.
#include <chain.h>
#include <arith_uint256.h>
#include <consensus/params.h>
#include <consensus/validation.h>
#include <uint256.h>
#include <unordered_map>
#include <memory>
#include "replay_util.h"
namespace xc {
#define CBlockIndex xc_CBlockIndex
#define CBlockIndex_s xc_CBlockIndex_s
#include "verif_chain.h"
#undef CBlockIndex
#undef CBlockIndex_s
}
#include "verif_tx_native.h"
struct xc_BlockValidationState { int mode_invalid; int result; uint32_t reason; };
extern "C" {
int g_cis_calls, g_cis_deferred, g_added; bool g_cis_verdict;
const char* xc_ConnectBlock_script_check_reason(bool, const xc::xc_CBlockIndex*, const xc::xc_CBlockIndex*, const xc::xc_CBlockIndex*, const xc::xc_CBlockIndex*, const xc::xc_CBlockIndex*, arith_uint256, int64_t);
bool xc_ConnectBlock_fScriptChecks(const char*);
int xc_ConnectBlock_script_gate(bool, bool, bool, bool, xc_BlockValidationState*);
}
struct SecondRef { CBlockIndex& second; SecondRef* operator->() { return this; } };
// mocks with the member names the original text uses
struct MockIndexMap {
    std::unordered_map<std::string, CBlockIndex*> m;
    struct const_iterator { CBlockIndex* p; bool operator==(const const_iterator& o) const { return p == o.p; } SecondRef operator->() const { return SecondRef{*p}; } };
    const_iterator find(const uint256& h) const { auto it = m.find(h.ToString()); return {it == m.end() ? nullptr : it->second}; }
    const_iterator end() const { return {nullptr}; }
};
namespace BlockMap { using const_iterator = MockIndexMap::const_iterator; }
struct MockBlockman { MockIndexMap m_block_index; };
struct MockChainman { uint256 av; CBlockIndex* m_best_header; arith_uint256 mcw; const uint256& AssumedValidBlock() const { return av; } const arith_uint256& MinimumChainWork() const { return mcw; } };
struct MockParams { Consensus::Params c; const Consensus::Params& GetConsensus() const { return c; } };

static const char* orig_reason(MockChainman& m_chainman, MockBlockman& m_blockman, MockParams& params, CBlockIndex* pindex)
{
#include "orig_script_check_reason.inc"
    return script_check_reason;
}
static bool orig_fsc(const char* script_check_reason)
{
#include "orig_fScriptChecks_def.inc"
    return fScriptChecks;
}

int main(int argc, char** argv)
{
    auto a = rv::parse(argc, argv); rv::Rng rng(a.seed); uint64_t n = a.diff ? a.n : 100000; if (n > 200000) n = 200000;
    // real index: main chain 0..2200 and a fork from 150 of 2100 blocks
    std::vector<std::unique_ptr<CBlockIndex>> store; std::vector<uint256> hashes; hashes.reserve(5000);
    auto mk = [&](CBlockIndex* prev) { auto b = std::make_unique<CBlockIndex>(); b->pprev = prev; b->nHeight = prev ? prev->nHeight + 1 : 0; b->nBits = 0x207fffff; b->nChainWork = (prev ? prev->nChainWork : arith_uint256(0)) + GetBlockProof(*b); b->BuildSkip(); unsigned char hb[32] = {0}; uint64_t id = store.size() + 1; memcpy(hb, &id, 8); hashes.push_back(uint256(std::span<const unsigned char>(hb, 32))); b->phashBlock = &hashes.back(); store.push_back(std::move(b)); return store.back().get(); };
    std::vector<CBlockIndex*> mainc, forkc; CBlockIndex* p = nullptr;
    for (int i = 0; i <= 2200; i++) { p = mk(p); mainc.push_back(p); }
    p = mainc[150]; for (int i = 0; i < 2100; i++) { p = mk(p); forkc.push_back(p); }
    MockBlockman bm; for (auto& b : store) bm.m_block_index.m[b->phashBlock->ToString()] = b.get();
    MockParams params; params.c.nPowTargetSpacing = 600;
    auto pick = [&](std::vector<CBlockIndex*>& v, int near) { int64_t i = near >= 0 && rng.below(2) ? near + (int64_t)rng.below(5) - 2 : (int64_t)rng.below(v.size()); if (i < 0) i = 0; if (i >= (int64_t)v.size()) i = v.size() - 1; return v[i]; };
    for (uint64_t it = 0; it < n; it++) {
        MockChainman cm; CBlockIndex* best = rng.below(4) ? pick(mainc, 2200) : pick(forkc, 2099); cm.m_best_header = best;
        CBlockIndex* blk = rng.below(5) ? pick(mainc, best->nHeight - 2016) : pick(forkc, best->nHeight - 2016 - 151);
        CBlockIndex* av = rng.below(5) ? pick(mainc, blk->nHeight) : pick(forkc, 50);
        int mode = (int)rng.below(10); unsigned char unk[32]; memset(unk, 0xee, 32);
        cm.av = mode == 0 ? uint256() : mode == 1 ? uint256(std::span<const unsigned char>(unk, 32)) : *av->phashBlock;
        cm.mcw = rng.below(3) ? arith_uint256(0) : best->nChainWork + (int)rng.below(3) - 1;
        const char* real = orig_reason(cm, bm, params, blk);
        // ghost inputs computed with the real functions
        bool av_is_null = cm.av.IsNull(); auto f = bm.m_block_index.find(cm.av); CBlockIndex* avp = f.p;
        xc::xc_CBlockIndex xblk{}, xbest{}, xav{}, xother{}; xblk.nHeight = blk->nHeight; xbest.nChainWork = best->nChainWork; if (avp) xav.nHeight = avp->nHeight;
        const xc::xc_CBlockIndex* av_anc = avp ? (avp->GetAncestor(blk->nHeight) == blk ? &xblk : &xother) : nullptr;
        const xc::xc_CBlockIndex* best_anc = best->GetAncestor(blk->nHeight) == blk ? &xblk : &xother;
        int64_t et = GetBlockProofEquivalentTime(*best, *blk, *best, params.c);
        const char* xr = xc_ConnectBlock_script_check_reason(av_is_null, avp ? &xav : nullptr, av_anc, best_anc, &xbest, &xblk, cm.mcw, et);
        // oracle from the statement, using a naive walk for ancestry
        auto is_anc = [&](CBlockIndex* d, CBlockIndex* anc) { while (d && d->nHeight > anc->nHeight) d = d->pprev; return d == anc; };
        bool want_skip = !av_is_null && avp && is_anc(avp, blk) && is_anc(best, blk) && !(best->nChainWork < cm.mcw) && (best->nHeight - blk->nHeight) * 600LL > 1209600;
        rv::g_stats.inputs++;
        if ((real == nullptr) != (xr == nullptr) || (real && xr && strcmp(real, xr))) { rv::g_stats.disagreements++; std::printf("DISAGREE real=%s extractedC=%s\n", real ? real : "NULL", xr ? xr : "NULL"); }
        if ((real == nullptr) != want_skip || orig_fsc(real) != (real != nullptr) || xc_ConnectBlock_fScriptChecks(real) != (real != nullptr)) { rv::g_stats.real_violations++; if (rv::g_stats.real_violations <= 5) std::printf("REAL-VIOLATION ConnectBlock script_check_reason: block h=%d (%s) best h=%d assumevalid=%s(h=%d) minwork%sbest -> %s, statement says %s\n", blk->nHeight, is_anc(best, blk) ? "on best chain" : "off best chain", best->nHeight, av_is_null ? "unset" : avp ? "known" : "unknown", avp ? avp->nHeight : -1, best->nChainWork < cm.mcw ? ">" : "<=", real ? real : "SKIP SCRIPTS", want_skip ? "skip" : "verify"); }
    }
    rv::report();
    return rv::g_stats.real_violations ? 1 : (rv::g_stats.disagreements ? 3 : 0);
}
