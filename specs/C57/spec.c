/* C57 -- Scripts are skipped only under the assumed-valid conditions. */
#include "verif_chain.h"
#include "verif_tx.h"
enum { BLOCK_RESULT_UNSET = 0, BLOCK_CONSENSUS = 1 };
typedef struct { int mode_invalid; int result; uint32_t reason; } BlockValidationState;

/* ghost instrumentation for the gate fragment */
int g_cis_calls;          /* number of CheckInputScripts calls */
int g_cis_deferred;       /* last call deferred its checks to the queue */
int g_added;              /* control->Add calls */
bool g_cis_verdict;       /* verdict the stub returns (arbitrary, fixed before the call) */
static bool CheckInputScripts_stub(int deferred, TxValidationState* tx_state)   /* VERIF_STUB */
{ g_cis_calls++; g_cis_deferred = deferred; if (!g_cis_verdict) { tx_state->mode_invalid = 1; tx_state->result = TX_CONSENSUS; tx_state->reason = 0x5c121u; } return g_cis_verdict; }
static void control_Add(void) { g_added++; }                                        /* VERIF_STUB */
static bool BlockState_Invalid_from_tx(BlockValidationState* state, int result, const TxValidationState* tx_state)   /* VERIF_STUB of ValidationState::Invalid */
{ state->mode_invalid = 1; state->result = result; state->reason = tx_state->reason; return 0; }

/* the statement: two weeks = 1,209,600 seconds */
#ifdef TWIN_TWO_WEEKS_GE
#define SPEC_BURIED (equiv_time >= 1209600)
#else
#define SPEC_BURIED (equiv_time > 1209600)
#endif
#ifdef TWIN_NO_BESTCHAIN
#define SPEC_ON_BEST (1)
#else
#define SPEC_ON_BEST (best_anc_at_h == pindex)
#endif
#define SPEC_SKIP (!av_is_null && av_index != NULL && av_anc_at_h == pindex && SPEC_ON_BEST && best_header->nChainWork >= min_work && SPEC_BURIED)

VERIF_REACH_DECL(ConnectBlock_script_check_reason)
const char* ConnectBlock_script_check_reason(bool av_is_null, const CBlockIndex* av_index, const CBlockIndex* av_anc_at_h, const CBlockIndex* best_anc_at_h,
        const CBlockIndex* best_header, const CBlockIndex* pindex, u256 min_work, int64_t equiv_time)
__CPROVER_requires(__CPROVER_is_fresh(pindex, sizeof(*pindex)) && __CPROVER_is_fresh(best_header, sizeof(*best_header)))
__CPROVER_requires(av_index == NULL || __CPROVER_is_fresh(av_index, sizeof(*av_index)))
__CPROVER_ensures((__CPROVER_return_value == NULL) == SPEC_SKIP)
VERIF_REACH_ENSURES(ConnectBlock_script_check_reason, __CPROVER_return_value == NULL)
VERIF_REACH_ENSURES(ConnectBlock_script_check_reason, __CPROVER_return_value != NULL && av_is_null)
VERIF_REACH_ENSURES(ConnectBlock_script_check_reason, __CPROVER_return_value != NULL && !av_is_null && av_index == NULL)
VERIF_REACH_ENSURES(ConnectBlock_script_check_reason, __CPROVER_return_value != NULL && !av_is_null && av_index != NULL && av_anc_at_h != pindex)
VERIF_REACH_ENSURES(ConnectBlock_script_check_reason, __CPROVER_return_value != NULL && !av_is_null && av_index != NULL && av_anc_at_h == pindex && best_anc_at_h != pindex)
VERIF_REACH_ENSURES(ConnectBlock_script_check_reason, __CPROVER_return_value != NULL && !av_is_null && av_index != NULL && av_anc_at_h == pindex && best_anc_at_h == pindex && best_header->nChainWork < min_work)
VERIF_REACH_ENSURES(ConnectBlock_script_check_reason, __CPROVER_return_value != NULL && !av_is_null && av_index != NULL && av_anc_at_h == pindex && best_anc_at_h == pindex && best_header->nChainWork >= min_work && equiv_time == 1209600)
__CPROVER_assigns();

bool ConnectBlock_fScriptChecks(const char* script_check_reason)
#ifdef TWIN_FSC
__CPROVER_ensures(__CPROVER_return_value == (script_check_reason == NULL))
#else
__CPROVER_ensures(__CPROVER_return_value == (script_check_reason != NULL))
#endif
__CPROVER_assigns();

/* gate: returns 1 if the per-transaction loop is left (break), 0 if it continues with this tx */
VERIF_REACH_DECL(ConnectBlock_script_gate)
int ConnectBlock_script_gate(bool tx_is_coinbase, bool fScriptChecks, bool fJustCheck, bool control, BlockValidationState* state)
__CPROVER_requires(__CPROVER_is_fresh(state, sizeof(*state)) && g_cis_calls == 0 && g_added == 0)
#ifdef TWIN_GATE
__CPROVER_ensures(g_cis_calls == ((fScriptChecks) ? 1 : 0))
#else
__CPROVER_ensures(g_cis_calls == ((!tx_is_coinbase && fScriptChecks) ? 1 : 0))
#endif
__CPROVER_ensures((!tx_is_coinbase && fScriptChecks && !g_cis_verdict) ==> (__CPROVER_return_value == 1 && state->mode_invalid == 1 && state->result == BLOCK_CONSENSUS))
__CPROVER_ensures((tx_is_coinbase || !fScriptChecks || g_cis_verdict) ==> (__CPROVER_return_value == 0 && state->mode_invalid == __CPROVER_old(state->mode_invalid) && state->result == __CPROVER_old(state->result)))
__CPROVER_ensures(g_cis_calls == 1 ==> (g_cis_deferred == (control ? 1 : 0) && g_added == ((control && g_cis_verdict) ? 1 : 0)))
VERIF_REACH_ENSURES(ConnectBlock_script_gate, g_cis_calls == 1 && __CPROVER_return_value == 1)
VERIF_REACH_ENSURES(ConnectBlock_script_gate, g_cis_calls == 1 && __CPROVER_return_value == 0 && control)
VERIF_REACH_ENSURES(ConnectBlock_script_gate, g_cis_calls == 0 && !tx_is_coinbase)
__CPROVER_assigns(g_cis_calls, g_cis_deferred, g_added, state->mode_invalid, state->result, state->reason);

#include "slices.h"

bool nondet_bool(void); int64_t nondet_i64(void);
void h_script_check_reason(void) { const CBlockIndex *a, *b, *c, *d, *e; u256 mw; VERIF_REACH_ON(ConnectBlock_script_check_reason); ConnectBlock_script_check_reason(nondet_bool(), a, b, c, d, e, mw, nondet_i64()); }
void h_fScriptChecks(void) { const char* r; bool f = ConnectBlock_fScriptChecks(r); if (f) VERIF_REACH_PT("checks on"); else VERIF_REACH_PT("checks off"); }
void h_script_gate(void) { BlockValidationState* st; g_cis_verdict = nondet_bool(); VERIF_REACH_ON(ConnectBlock_script_gate); ConnectBlock_script_gate(nondet_bool(), nondet_bool(), nondet_bool(), nondet_bool(), st); }

/* lemma (contracts only): a non-coinbase transaction of a connected block escapes script verification only under the five conditions */
void h_lemma_skip_only_if(void)
{
    CBlockIndex av, best, blk, other; const CBlockIndex *av_index = nondet_bool() ? &av : NULL, *av_anc = nondet_bool() ? &blk : &other, *best_anc = nondet_bool() ? &blk : &other; u256 mw; int64_t et = nondet_i64(); bool av_is_null = nondet_bool();
    BlockValidationState st; st.mode_invalid = 0; st.result = 0; st.reason = 0;
    g_cis_verdict = nondet_bool(); g_cis_calls = 0; g_added = 0;
    const char* reason = ConnectBlock_script_check_reason(av_is_null, av_index, av_anc, best_anc, &best, &blk, mw, et);
    bool f = ConnectBlock_fScriptChecks(reason);
    int broke = ConnectBlock_script_gate(0, f, nondet_bool(), nondet_bool(), &st);
    __CPROVER_assert(g_cis_calls == 0 ==> (!av_is_null && av_index != NULL && av_anc == &blk && best_anc == &blk && best.nChainWork >= mw && et > 1209600),
                     "scripts of a non-coinbase tx are skipped only if: assumed-valid configured and known, block is its ancestor, on best header chain, best header work >= minimum, buried by > two weeks of work");
    __CPROVER_assert((g_cis_calls == 1 && !g_cis_verdict) ==> (broke == 1 && st.mode_invalid == 1), "a failing script check invalidates the block");
    VERIF_REACH_PT("lemma end");
    if (g_cis_calls == 0) VERIF_REACH_PT("skip reachable");
}
