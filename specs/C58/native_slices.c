#include "verif_chain.h"
#ifdef __cplusplus
extern "C" {
#endif
#include "slices.h"
#ifdef __cplusplus
}
#endif
