from engine.extract import R

PLAN = {
    "id": "C58",
    "level": "proof",
    "slices": [
        {"name": "BLOCK_HAVE_DATA", "kind": "const", "file": "src/chain.h", "pat": r"BLOCK_HAVE_DATA\s*=\s*(\d+),", "emit": r"#define BLOCK_HAVE_DATA \1"},
        {"name": "BLOCK_FAILED_VALID", "kind": "const", "file": "src/chain.h", "pat": r"BLOCK_FAILED_VALID\s*=\s*(\d+),", "emit": r"#define BLOCK_FAILED_VALID \1"},
        {"name": "MIN_BLOCKS_TO_KEEP", "kind": "const", "file": "src/validation.h", "pat": r"inline constexpr unsigned int MIN_BLOCKS_TO_KEEP = (\d+);", "emit": r"static const unsigned int MIN_BLOCKS_TO_KEEP = \1;"},
        {"name": "AcceptBlock_unrequested", "kind": "frag", "file": "src/validation.cpp",
         "within": r"bool ChainstateManager::AcceptBlock\([^)]*\)",
         "begin": r"bool fAlreadyHave = ", "end": r"const CChainParams& params\{GetParams\(\)\};", "include_end": False,
         "prologue": "int AcceptBlock_unrequested(CBlockIndex* pindex, bool fRequested, bool min_pow_checked, const CBlockIndex* tip, int active_height, u256 min_work)\n{",
         "epilogue": "    return 2; /* fall through: CheckBlock / ContextualCheckBlock / WriteBlock follow */\n}",
         "rules": [
             R("ghost:ActiveTip()->nChainWork", r"ActiveTip\(\)->nChainWork", "tip->nChainWork", False),
             R("ghost:ActiveTip()", r"ActiveTip\(\)", "tip", False),
             R("ghost:ActiveHeight()", r"ActiveHeight\(\)", "active_height", False),
             R("ghost:MinimumChainWork()", r"MinimumChainWork\(\)", "min_work", False),
         ]},
    ],
    "spec": "spec.c",
    "harnesses": [
        {"name": "h_AcceptBlock_unrequested", "enforce": "AcceptBlock_unrequested",
         "twins": [{"define": "TWIN_289", "expect": "postcondition"}, {"define": "TWIN_WORK_STRICT", "expect": "postcondition"}]},
    ],
    "native": {"src": "replay.cpp", "c_src": "native_slices.c", "c_lang": "c++", "libs": ["libbitcoin_consensus.a", "libbitcoin_crypto.a"]},
    "not_covered": ["that the fall-through path leads to WriteBlock and the early exits do not (glue: the statements after the fragment)", "requested redelivery histories"],
    "assumptions": ["the enclosing function's other scalar parameter (min_pow_checked) is a ghost input of the fragment, so a new dependency on it is judged by the contract",
                    "ActiveTip(), ActiveHeight(), MinimumChainWork() are ghost inputs with the relation tip == NULL <=> active_height == -1, tip != NULL => active_height == tip->nHeight (CChain::Height/Tip)",
                    "the fragment is the contiguous statement range of ChainstateManager::AcceptBlock from `bool fAlreadyHave =` up to `const CChainParams& params{GetParams()};`"],
    "manifest": {
        "category": "proof",
        "text": "core: the unrequested-block decision of ChainstateManager::AcceptBlock (statement range cut from the current validation.cpp by anchors each run, operators/constants/ifs/returns verbatim) is proved for all inputs: "
                "it falls through to storage iff the block data is not already present and (requested, or never processed (nTx==0) and work >= tip work (or no tip) and height <= tip height + 288 and work >= minimum chain work); "
                "every early exit returns true without writing the index entry's status (frame), i.e. the block is dropped without being marked invalid.",
        "note": "Trusted: anchors+4 call rewrites (ActiveTip/ActiveHeight/MinimumChainWork become ghost inputs), the relation between tip and active height, CBMC. Not covered: what happens after the fall-through (WriteBlock) and redelivery histories.",
        "technique": "CBMC function contract on an anchor-delimited fragment of the real AcceptBlock (X-frag), u256 chain work",
    },
    "trusted_base": ["specs/C58/spec.c", "include/verif_chain.h"],
}
