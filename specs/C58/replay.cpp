// C58 native harness: the ORIGINAL fragment text of AcceptBlock (from the working tree) compiled as C++ with the real
// CBlockIndex / arith_uint256, next to the extracted C text (compiled as C++ with u256 = arith_uint256), and the oracle.
#include <chain.h>
#include <arith_uint256.h>
#include <validation.h>
#include "replay_util.h"
namespace xc {
#define CBlockIndex xc_CBlockIndex
#define CBlockIndex_s xc_CBlockIndex_s
#include "verif_chain.h"
#undef CBlockIndex
#undef CBlockIndex_s
}
extern "C" int xc_AcceptBlock_unrequested(xc::xc_CBlockIndex* pindex, bool fRequested, bool min_pow_checked, const xc::xc_CBlockIndex* tip, int active_height, arith_uint256 min_work);

static int orig_frag(CBlockIndex* pindex, bool fRequested, bool min_pow_checked, CBlockIndex* tip_, int ah, arith_uint256 mw)
{
    auto ActiveTip = [&] { return tip_; }; auto ActiveHeight = [&] { return ah; }; auto MinimumChainWork = [&] { return mw; };
#include "orig_AcceptBlock_unrequested.inc"
    return 2;
}
static int oracle(const CBlockIndex& b, bool req, const CBlockIndex* tip, int ah, const arith_uint256& mw)
{
    if (b.nStatus & 8) return 1;
    if (req) return 2;
    bool ok = b.nTx == 0 && (!tip || b.nChainWork >= tip->nChainWork) && (int64_t)b.nHeight <= (int64_t)ah + 288 && b.nChainWork >= mw;
    return ok ? 2 : 1;
}
static arith_uint256 rw(rv::Rng& r, const arith_uint256* near) { if (near && r.below(2)) { arith_uint256 x = *near; int d = (int)r.below(3) - 1; if (d > 0) x += 1; if (d < 0 && x > 0) x -= 1; return x; } arith_uint256 x(r.next()); x <<= (unsigned)r.below(190); x += r.below(5); return x; }
int main(int argc, char** argv)
{
    auto a = rv::parse(argc, argv); rv::Rng rng(a.seed); uint64_t n = a.diff ? a.n : 300000;
    for (uint64_t i = 0; i < n; i++) {
        CBlockIndex tip, b; bool has_tip = rng.below(8) != 0; tip.nHeight = (int)rng.below(3) ? (int)rng.below(1000000) : (int)rng.below(4); tip.nChainWork = rw(rng, nullptr);
        int ah = has_tip ? tip.nHeight : -1;
        b.nHeight = (int)std::max<int64_t>(0, (int64_t)ah + 288 + (int64_t)rng.below(7) - 3 - (rng.below(4) == 0 ? (int64_t)rng.below(400) : 0));
        b.nChainWork = rw(rng, &tip.nChainWork); arith_uint256 mw = rw(rng, &b.nChainWork);
        b.nStatus = rng.below(4) == 0 ? 8u | (uint32_t)rng.below(128) : (uint32_t)rng.below(128) & ~8u; b.nTx = rng.below(3) == 0 ? (unsigned)rng.below(3000) : 0; bool req = rng.below(3) == 0; bool mpc = rng.below(2);
        uint32_t st0 = b.nStatus;
        int real = orig_frag(&b, req, mpc, has_tip ? &tip : nullptr, ah, mw);
        xc::xc_CBlockIndex xb{}, xt{}; xb.nHeight = b.nHeight; xb.nStatus = st0; xb.nTx = b.nTx; xb.nChainWork = b.nChainWork; xt.nHeight = tip.nHeight; xt.nChainWork = tip.nChainWork;
        int xr = xc_AcceptBlock_unrequested(&xb, req, mpc, has_tip ? &xt : nullptr, ah, mw);
        int want = oracle(b, req, has_tip ? &tip : nullptr, ah, mw);
        rv::g_stats.inputs++;
        if (real != xr) { rv::g_stats.disagreements++; std::printf("DISAGREE real=%d extractedC=%d\n", real, xr); }
        if (real != want || b.nStatus != st0) { rv::g_stats.real_violations++; if (rv::g_stats.real_violations <= 5) std::printf("REAL-VIOLATION AcceptBlock fragment: requested=%d min_pow_checked=%d have_data=%d nTx=%u height=%d active_height=%d has_tip=%d work%stip_work work%smin_work -> %s, statement says %s%s\n", req, mpc, !!(st0 & 8), b.nTx, b.nHeight, ah, has_tip, b.nChainWork >= tip.nChainWork ? ">=" : "<", b.nChainWork >= mw ? ">=" : "<", real == 2 ? "store" : "drop", want == 2 ? "store" : "drop", b.nStatus != st0 ? " (status modified!)" : ""); }
    }
    rv::report();
    return rv::g_stats.real_violations ? 1 : (rv::g_stats.disagreements ? 3 : 0);
}
