/* C58 -- Unrequested blocks cannot fill the node's storage. */
#include "verif_chain.h"

/* the statement (numbers written out here): stored only if
 *   chain work >= active tip's work, height <= tip height + 288, chain work >= minimum chain work;
 * requested blocks are always processed; blocks whose data we already have are never re-stored;
 * an unrequested block already processed once (nTx != 0, i.e. pruned) is not re-stored either. */
#ifdef TWIN_289
#define SPEC_NOT_TOO_FAR ((int64_t)pindex->nHeight <= (int64_t)active_height + 289)
#else
#define SPEC_NOT_TOO_FAR ((int64_t)pindex->nHeight <= (int64_t)active_height + 288)
#endif
#ifdef TWIN_WORK_STRICT
#define SPEC_ENOUGH_WORK (tip == NULL || pindex->nChainWork > tip->nChainWork)
#else
#define SPEC_ENOUGH_WORK (tip == NULL || pindex->nChainWork >= tip->nChainWork)
#endif
#define SPEC_HAVE_DATA ((pindex->nStatus & 8u) != 0)
#define SPEC_STORE (!SPEC_HAVE_DATA && (fRequested || (pindex->nTx == 0 && SPEC_ENOUGH_WORK && SPEC_NOT_TOO_FAR && pindex->nChainWork >= min_work)))

VERIF_REACH_DECL(AcceptBlock_unrequested)
int AcceptBlock_unrequested(CBlockIndex* pindex, bool fRequested, bool min_pow_checked, const CBlockIndex* tip, int active_height, u256 min_work)
__CPROVER_requires(__CPROVER_is_fresh(pindex, sizeof(*pindex)) && (tip == NULL || __CPROVER_is_fresh(tip, sizeof(*tip))))
__CPROVER_requires(pindex->nHeight >= 0 && active_height >= -1 && active_height <= INT_MAX - 288)
__CPROVER_requires((tip == NULL) == (active_height == -1) && (tip != NULL ==> active_height == tip->nHeight))
__CPROVER_ensures(__CPROVER_return_value == 1 || __CPROVER_return_value == 2)
__CPROVER_ensures((__CPROVER_return_value == 2) == SPEC_STORE)
VERIF_REACH_ENSURES(AcceptBlock_unrequested, __CPROVER_return_value == 2 && !fRequested)
VERIF_REACH_ENSURES(AcceptBlock_unrequested, __CPROVER_return_value == 2 && fRequested)
VERIF_REACH_ENSURES(AcceptBlock_unrequested, __CPROVER_return_value == 1 && !fRequested && pindex->nTx == 0 && SPEC_ENOUGH_WORK && SPEC_NOT_TOO_FAR)
VERIF_REACH_ENSURES(AcceptBlock_unrequested, __CPROVER_return_value == 1 && !fRequested && pindex->nTx == 0 && SPEC_ENOUGH_WORK && !SPEC_NOT_TOO_FAR)
VERIF_REACH_ENSURES(AcceptBlock_unrequested, __CPROVER_return_value == 1 && !fRequested && pindex->nTx == 0 && !SPEC_ENOUGH_WORK)
VERIF_REACH_ENSURES(AcceptBlock_unrequested, __CPROVER_return_value == 1 && SPEC_HAVE_DATA)
/* frame: nothing is written -- in particular pindex->nStatus keeps its value (not marked invalid) */
__CPROVER_assigns();

#include "slices.h"

bool nondet_bool(void); int nondet_int(void);
void h_AcceptBlock_unrequested(void)
{
    CBlockIndex* pindex; const CBlockIndex* tip; u256 mw;
    VERIF_REACH_ON(AcceptBlock_unrequested);
    AcceptBlock_unrequested(pindex, nondet_bool(), nondet_bool(), tip, nondet_int(), mw);
}
