#include "verif.h"
enum { CONN_INBOUND = 0, CONN_OUTBOUND_FULL_RELAY, CONN_MANUAL, CONN_FEELER, CONN_BLOCK_RELAY, CONN_ADDR_FETCH, CONN_PRIVATE_BROADCAST };
typedef struct { int64_t id; int64_t m_connected; int64_t m_min_ping_time; int64_t m_last_block_time; int64_t m_last_tx_time; bool fRelevantServices; bool m_relay_txs; bool fBloomFilter; uint64_t nKeyedNetGroup;
                 bool prefer_evict; bool m_is_local; int m_network; bool m_noban; int m_conn_type; } NodeEvictionCandidate;
#include "slices.h"
