import os, sys
sys.path.insert(0, os.path.dirname(os.path.dirname(os.path.abspath(__file__))))
from engine.extract import R, refparam

EV = "src/node/eviction.cpp"
def cmpf(name):
    return {"name": name, "kind": "func", "file": EV, "head": rf"static bool {name}\(const NodeEvictionCandidate &a, const NodeEvictionCandidate &b\)", "rules": [R("linkage: static dropped (the function is called from the harness)", r"^static bool", "bool", True)] + refparam("a") + refparam("b")}
def kconst(name, comparator):
    return {"name": name, "kind": "const", "file": EV, "pat": rf"EraseLastKElements\(vEvictionCandidates, {comparator}, (\d+)[,)]", "emit": rf"#define {name} \1   /* EraseLastKElements(vEvictionCandidates, {comparator}, K) in SelectNodeToEvict */"}
SLICES = [cmpf(n) for n in ("ReverseCompareNodeMinPingTime", "ReverseCompareNodeTimeConnected", "CompareNetGroupKeyed", "CompareNodeBlockTime", "CompareNodeTXTime", "CompareNodeBlockRelayOnlyTime")] + [
    {"name": "CompareNodeNetworkTime", "kind": "func", "file": EV, "within_class": r"struct CompareNodeNetworkTime", "head": r"bool operator\(\)\(const NodeEvictionCandidate& a, const NodeEvictionCandidate& b\)",
     "rules": [R("method-head:CompareNodeNetworkTime::operator()", r"bool operator\(\)\(const NodeEvictionCandidate& a, const NodeEvictionCandidate& b\) const", "bool CompareNodeNetworkTime(bool m_is_local, int m_network, const NodeEvictionCandidate* a, const NodeEvictionCandidate* b)"),
               R("member:a.", r"(?<![\w.>])a\.(?=\w)", "a->", False), R("member:b.", r"(?<![\w.>])b\.(?=\w)", "b->", False)]},
    {"name": "ProtectNoBan_pred", "kind": "frag", "file": EV, "within": r"void ProtectNoBanConnections\(std::vector<NodeEvictionCandidate>& eviction_candidates\)", "begin": r"return n\.m_noban;", "end": r"return n\.m_noban;", "include_end": True,
     "prologue": "bool ProtectNoBan_pred(const NodeEvictionCandidate* n_p)\n{", "epilogue": "}", "rules": [R("lambda parameter n", r"\bn\.", "n_p->", False)]},
    {"name": "ProtectOutbound_pred", "kind": "frag", "file": EV, "within": r"void ProtectOutboundConnections\(std::vector<NodeEvictionCandidate>& eviction_candidates\)", "begin": r"return n\.m_conn_type != ConnectionType::INBOUND;", "end": r"return n\.m_conn_type != ConnectionType::INBOUND;", "include_end": True,
     "prologue": "bool ProtectOutbound_pred(const NodeEvictionCandidate* n_p)\n{", "epilogue": "}", "rules": [R("lambda parameter n", r"\bn\.", "n_p->", False), R("enum scope", r"ConnectionType::INBOUND", "CONN_INBOUND", False)]},
    kconst("K_NETGROUP", "CompareNetGroupKeyed"), kconst("K_PING", "ReverseCompareNodeMinPingTime"), kconst("K_TXTIME", "CompareNodeTXTime"), kconst("K_BLOCKRELAYONLY", "CompareNodeBlockRelayOnlyTime"), kconst("K_BLOCKTIME", "CompareNodeBlockTime"),
]
def H(name, fn, twins=(), **kw):
    d = {"name": name, "enforce": fn, "twins": [{"define": t, "expect": "postcondition"} for t in twins]}
    d.update(kw)
    return d
CMPS = ["ReverseCompareNodeMinPingTime", "ReverseCompareNodeTimeConnected", "CompareNetGroupKeyed", "CompareNodeBlockTime", "CompareNodeTXTime", "CompareNodeBlockRelayOnlyTime", "CompareNodeNetworkTime"]
PLAN = {
    "id": "C59", "level": "proof", "slices": SLICES, "spec": "spec.c", "default_solver": ["cadical", "z3"],
    "harnesses": [H("h_" + n, n, ["TWIN_" + n] if n in ("CompareNodeTXTime", "ReverseCompareNodeMinPingTime", "CompareNetGroupKeyed") else []) for n in CMPS] + [
        H("h_ProtectNoBan_pred", "ProtectNoBan_pred"), H("h_ProtectOutbound_pred", "ProtectOutbound_pred"),
        {"name": "h_lemma_strict_weak_orders", "replace": CMPS, "twins": [{"define": "TWIN_SWO", "expect": "assertion"}]},
        {"name": "h_lemma_protected_counts", "twins": [{"define": "TWIN_COUNTS", "expect": "assertion"}]},
    ],
    "native": {"src": "replay.cpp", "c_src": "native_slices.c", "diff_n_quick": 40000, "diff_n_thorough": 2000000, "libs": ["libbitcoin_common.a", "libbitcoin_util.a", "libbitcoin_clientversion.a", "libbitcoin_crypto.a"]},
    "not_covered": ["EraseLastKElements (std::sort + remove_if + lambda composition), ProtectEvictionCandidatesByRatio and the final selection loop: that 'the last K after sorting' are removed from the candidates, and robustness under every ordering of ties as a property of the whole selection",
                    "who builds the candidate list (CConnman::AttemptToEvictConnection)"],
    "assumptions": ["NodeEvictionCandidate's chrono fields are 64-bit integer counts (time_point / duration comparison = comparison of the counts)"],
    "manifest": {
        "category": "proof",
        "text": "partial (comparators, predicates, counts): each of the seven eviction comparators (extracted from eviction.cpp) equals its lexicographic definition -- ascending keyed netgroup; descending minimum ping (lowest ping last); ascending last-tx time then relay/bloom/uptime tie-breaks; ascending last-block time then services/uptime; "
                "block-relay-only first; network/localhost then uptime -- and is a strict weak order (irreflexive, asymmetric, transitive, transitive incomparability: three-element lemma), so 'the last K of the sorted vector' are K peers with the highest key; "
                "the noban predicate is exactly m_noban and the outbound predicate exactly 'not INBOUND'; the protected counts at the call sites are 4 (netgroup), 8 (ping), 4 (tx time), 8 (block-relay-only), 4 (block time).",
        "note": "Not covered: the sort/erase machinery and ratio protection, i.e. that those K peers are actually removed, and tie robustness of the whole selection. Trusted: extraction rules.",
        "technique": "CBMC function contracts on extracted eviction comparators and predicate bodies, contract-only strict-weak-order lemma, constants extracted from the call sites",
    },
    "trusted_base": ["specs/C59/spec.c"],
}
