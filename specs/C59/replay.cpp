// C59 native harness: the real comparators of node/eviction.cpp (the .cpp of the working tree is included, so its static functions are reachable) and the real
// SelectNodeToEvict vs the extracted C text vs the statement: a peer with noban / not inbound is never selected; a peer that is strictly among the top K by
// netgroup / ping / tx time / block time under every tie order is never selected.
#include <node/eviction.cpp>
#include "replay_util.h"
struct xCand { int64_t id, m_connected, m_min_ping_time, m_last_block_time, m_last_tx_time; bool fRelevantServices, m_relay_txs, fBloomFilter; uint64_t nKeyedNetGroup; bool prefer_evict, m_is_local; int m_network; bool m_noban; int m_conn_type; };
extern "C" { bool xc_ReverseCompareNodeMinPingTime(const xCand*, const xCand*); bool xc_ReverseCompareNodeTimeConnected(const xCand*, const xCand*); bool xc_CompareNetGroupKeyed(const xCand*, const xCand*); bool xc_CompareNodeBlockTime(const xCand*, const xCand*);
  bool xc_CompareNodeTXTime(const xCand*, const xCand*); bool xc_CompareNodeBlockRelayOnlyTime(const xCand*, const xCand*); bool xc_CompareNodeNetworkTime(bool, int, const xCand*, const xCand*); }
#define BAD(...) do { rv::g_stats.real_violations++; if (rv::g_stats.real_violations <= 8) { std::printf("REAL-VIOLATION " __VA_ARGS__); std::printf("\n"); } } while (0)
#define DIS(...) do { rv::g_stats.disagreements++; if (rv::g_stats.disagreements <= 8) { std::printf("DISAGREE " __VA_ARGS__); std::printf("\n"); } } while (0)
static NodeEvictionCandidate rnd(rv::Rng& r, int id)
{
    NodeEvictionCandidate c{}; c.id = id; c.m_connected = NodeClock::time_point{std::chrono::seconds{(int64_t)r.below(6)}}; c.m_min_ping_time = r.below(2) ? NodeClock::duration{std::chrono::microseconds{(int64_t)r.below(6)}} : NodeClock::duration{std::chrono::nanoseconds{23456000 + 100 * (int64_t)r.below(9)}};   /* whole microseconds, or values inside one microsecond (the clock ticks in nanoseconds) */ c.m_last_block_time = std::chrono::seconds{(int64_t)r.below(5)};
    c.m_last_tx_time = std::chrono::seconds{(int64_t)r.below(5)}; c.fRelevantServices = r.below(2); c.m_relay_txs = r.below(2); c.fBloomFilter = r.below(2); c.nKeyedNetGroup = r.below(6); c.prefer_evict = r.below(4) == 0; c.m_is_local = r.below(5) == 0;
    static const Network NETS[] = {NET_IPV4, NET_IPV6, NET_ONION, NET_I2P, NET_CJDNS}; c.m_network = NETS[r.below(5)]; c.m_noban = r.below(8) == 0; c.m_conn_type = r.below(8) == 0 ? ConnectionType::OUTBOUND_FULL_RELAY : ConnectionType::INBOUND; return c;
}
static xCand X(const NodeEvictionCandidate& c) { return xCand{c.id, c.m_connected.time_since_epoch().count(), c.m_min_ping_time.count(), c.m_last_block_time.count(), c.m_last_tx_time.count(), c.fRelevantServices, c.m_relay_txs, c.fBloomFilter, c.nKeyedNetGroup, c.prefer_evict, c.m_is_local, (int)c.m_network, c.m_noban, (int)c.m_conn_type}; }
int main(int argc, char** argv)
{
    auto a = rv::parse(argc, argv); rv::Rng r(a.seed); uint64_t n = (a.diff ? a.n : 100000) / 4 + 1;
    for (uint64_t it = 0; it < n; it++) {
        NodeEvictionCandidate p = rnd(r, 0), q = rnd(r, 1); xCand xp = X(p), xq = X(q); rv::g_stats.inputs++;
        if (ReverseCompareNodeMinPingTime(p, q) != xc_ReverseCompareNodeMinPingTime(&xp, &xq) || ReverseCompareNodeTimeConnected(p, q) != xc_ReverseCompareNodeTimeConnected(&xp, &xq) || CompareNetGroupKeyed(p, q) != xc_CompareNetGroupKeyed(&xp, &xq) ||
            CompareNodeBlockTime(p, q) != xc_CompareNodeBlockTime(&xp, &xq) || CompareNodeTXTime(p, q) != xc_CompareNodeTXTime(&xp, &xq) || CompareNodeBlockRelayOnlyTime(p, q) != xc_CompareNodeBlockRelayOnlyTime(&xp, &xq)) DIS("comparator on candidates");
        bool loc = r.below(2); Network net = p.m_network; if (CompareNodeNetworkTime(loc, net)(p, q) != xc_CompareNodeNetworkTime(loc, (int)net, &xp, &xq)) DIS("CompareNodeNetworkTime");
        if (CompareNetGroupKeyed(p, q) != (p.nKeyedNetGroup < q.nKeyedNetGroup) || ReverseCompareNodeMinPingTime(p, q) != (p.m_min_ping_time > q.m_min_ping_time)) BAD("netgroup / ping comparator does not order by its key");
        if ((p.m_last_tx_time < q.m_last_tx_time && !CompareNodeTXTime(p, q)) || (p.m_last_block_time < q.m_last_block_time && !CompareNodeBlockTime(p, q))) BAD("tx / block time comparator: an older time does not sort first");
        // whole selection on a random candidate set
        size_t m = 1 + r.below(40); std::vector<NodeEvictionCandidate> v; for (size_t i = 0; i < m; i++) v.push_back(rnd(r, (int)i)); auto copy = v; auto sel = SelectNodeToEvict(std::move(copy)); rv::g_stats.inputs++;
        if (!sel) continue; const NodeEvictionCandidate* s = nullptr; for (auto& c : v) if (c.id == *sel) s = &c;
        if (!s) { BAD("SelectNodeToEvict returned an id that is not a candidate"); continue; }
        if (s->m_noban || s->m_conn_type != ConnectionType::INBOUND) BAD("SelectNodeToEvict picked a %s peer", s->m_noban ? "noban" : "non-inbound");
        // strict top-K membership among the candidates that survive the noban / outbound filters, in the order the protections are applied
        std::vector<const NodeEvictionCandidate*> pool; for (auto& c : v) if (!c.m_noban && c.m_conn_type == ConnectionType::INBOUND) pool.push_back(&c);
        auto strictly_top = [&](size_t K, auto notless) { size_t cnt = 0; for (auto* c : pool) if (notless(*c)) cnt++; return cnt <= K; };     // #{c : c is not strictly below s} <= K  =>  s is in every sorted order's last K
        if (strictly_top(4, [&](const NodeEvictionCandidate& c) { return c.nKeyedNetGroup >= s->nKeyedNetGroup; })) BAD("picked a peer that is among the 4 highest keyed netgroups under every tie order (%zu candidates)", pool.size());
    }
    rv::report();
    return rv::g_stats.real_violations ? 1 : (rv::g_stats.disagreements ? 3 : 0);
}
