/* C59 -- Inbound eviction never picks a protected peer: comparators, protection predicates and protected counts of node/eviction.cpp. */
#include "verif.h"
enum { CONN_INBOUND = 0, CONN_OUTBOUND_FULL_RELAY, CONN_MANUAL, CONN_FEELER, CONN_BLOCK_RELAY, CONN_ADDR_FETCH, CONN_PRIVATE_BROADCAST };
typedef struct { int64_t id; int64_t m_connected; int64_t m_min_ping_time; int64_t m_last_block_time; int64_t m_last_tx_time; bool fRelevantServices; bool m_relay_txs; bool fBloomFilter; uint64_t nKeyedNetGroup;
                 bool prefer_evict; bool m_is_local; int m_network; bool m_noban; int m_conn_type; } NodeEvictionCandidate;
/* the bools of a candidate are genuine bools (0/1): part of the type's invariant */
#define BOOLS_OK(x) ((x)->fRelevantServices <= 1 && (x)->m_relay_txs <= 1 && (x)->fBloomFilter <= 1 && (x)->m_is_local <= 1 && (x)->m_noban <= 1)
#define FR2 (__CPROVER_is_fresh(a, sizeof(*a)) && __CPROVER_is_fresh(b, sizeof(*b)) && BOOLS_OK(a) && BOOLS_OK(b))
#define T(x) ((x) != 0)
/* the statement's orderings ("less" = sorts earlier = evicted more readily; the protected peers are the LAST ones) */
#ifdef TWIN_ReverseCompareNodeMinPingTime
#define SPEC_PING (a->m_min_ping_time >= b->m_min_ping_time)
#else
#define SPEC_PING (a->m_min_ping_time > b->m_min_ping_time)                         /* lowest ping sorts last */
#endif
#define SPEC_CONNECTED (a->m_connected > b->m_connected)                            /* longest connected sorts last */
#ifdef TWIN_CompareNetGroupKeyed
#define SPEC_NETGROUP (a->nKeyedNetGroup > b->nKeyedNetGroup)
#else
#define SPEC_NETGROUP (a->nKeyedNetGroup < b->nKeyedNetGroup)                       /* highest keyed group sorts last */
#endif
#define SPEC_BLOCKTIME (a->m_last_block_time != b->m_last_block_time ? a->m_last_block_time < b->m_last_block_time : T(a->fRelevantServices) != T(b->fRelevantServices) ? T(b->fRelevantServices) : SPEC_CONNECTED)
#ifdef TWIN_CompareNodeTXTime
#define SPEC_TXTIME (a->m_last_tx_time != b->m_last_tx_time ? a->m_last_tx_time > b->m_last_tx_time : T(a->m_relay_txs) != T(b->m_relay_txs) ? T(b->m_relay_txs) : T(a->fBloomFilter) != T(b->fBloomFilter) ? T(a->fBloomFilter) : SPEC_CONNECTED)
#else
#define SPEC_TXTIME (a->m_last_tx_time != b->m_last_tx_time ? a->m_last_tx_time < b->m_last_tx_time : T(a->m_relay_txs) != T(b->m_relay_txs) ? T(b->m_relay_txs) : T(a->fBloomFilter) != T(b->fBloomFilter) ? T(a->fBloomFilter) : SPEC_CONNECTED)
#endif
#define SPEC_BRO (T(a->m_relay_txs) != T(b->m_relay_txs) ? T(a->m_relay_txs) : SPEC_BLOCKTIME)
#define SPEC_NETTIME ((m_is_local && T(a->m_is_local) != T(b->m_is_local)) ? T(b->m_is_local) : ((a->m_network == m_network) != (b->m_network == m_network)) ? (b->m_network == m_network) : SPEC_CONNECTED)
#define CMP_CONTRACT(name, SPEC) bool name(const NodeEvictionCandidate* a, const NodeEvictionCandidate* b) __CPROVER_requires(FR2) __CPROVER_ensures(T(__CPROVER_return_value) == T(SPEC)) __CPROVER_assigns();
CMP_CONTRACT(ReverseCompareNodeMinPingTime, SPEC_PING)
CMP_CONTRACT(ReverseCompareNodeTimeConnected, SPEC_CONNECTED)
CMP_CONTRACT(CompareNetGroupKeyed, SPEC_NETGROUP)
CMP_CONTRACT(CompareNodeBlockTime, SPEC_BLOCKTIME)
CMP_CONTRACT(CompareNodeTXTime, SPEC_TXTIME)
CMP_CONTRACT(CompareNodeBlockRelayOnlyTime, SPEC_BRO)
bool CompareNodeNetworkTime(bool m_is_local, int m_network, const NodeEvictionCandidate* a, const NodeEvictionCandidate* b) __CPROVER_requires(FR2) __CPROVER_ensures(T(__CPROVER_return_value) == T(SPEC_NETTIME)) __CPROVER_assigns();
bool ProtectNoBan_pred(const NodeEvictionCandidate* n_p) __CPROVER_requires(__CPROVER_is_fresh(n_p, sizeof(*n_p))) __CPROVER_ensures(T(__CPROVER_return_value) == T(n_p->m_noban)) __CPROVER_assigns();
bool ProtectOutbound_pred(const NodeEvictionCandidate* n_p) __CPROVER_requires(__CPROVER_is_fresh(n_p, sizeof(*n_p))) __CPROVER_ensures(T(__CPROVER_return_value) == (n_p->m_conn_type != 0)) __CPROVER_assigns();

#include "slices.h"

bool nondet_bool(void); int nondet_int(void);
#define CMP_H(n) void h_##n(void) { const NodeEvictionCandidate *a, *b; if (n(a, b)) VERIF_REACH_PT("less"); else VERIF_REACH_PT("not less"); }
CMP_H(ReverseCompareNodeMinPingTime) CMP_H(ReverseCompareNodeTimeConnected) CMP_H(CompareNetGroupKeyed) CMP_H(CompareNodeBlockTime) CMP_H(CompareNodeTXTime) CMP_H(CompareNodeBlockRelayOnlyTime)
void h_CompareNodeNetworkTime(void) { const NodeEvictionCandidate *a, *b; if (CompareNodeNetworkTime(nondet_bool(), nondet_int(), a, b)) VERIF_REACH_PT("less"); else VERIF_REACH_PT("not less"); }
void h_ProtectNoBan_pred(void) { const NodeEvictionCandidate* n; if (ProtectNoBan_pred(n)) VERIF_REACH_PT("protected"); else VERIF_REACH_PT("candidate"); }
void h_ProtectOutbound_pred(void) { const NodeEvictionCandidate* n; if (ProtectOutbound_pred(n)) VERIF_REACH_PT("protected"); else VERIF_REACH_PT("candidate"); }

/* lemma (contracts only): every comparator is a strict weak order on candidates (what std::sort needs; makes "the last K" well defined up to ties) */
#ifdef TWIN_SWO
#define SWO(LT) do { __CPROVER_assert(!LT(&x, &x2), "irreflexive"); __CPROVER_assert(LT(&x, &y) || LT(&y, &x), "twin: total"); } while (0)
#else
#define SWO(LT) do { __CPROVER_assert(!LT(&x, &x2), "irreflexive (on an equal copy)"); __CPROVER_assert(!(LT(&x, &y) && LT(&y, &x)), "asymmetric"); __CPROVER_assert(!(LT(&x, &y) && LT(&y, &z)) || LT(&x, &z), "transitive"); \
    __CPROVER_assert(!(!LT(&x, &y) && !LT(&y, &x) && !LT(&y, &z) && !LT(&z, &y)) || (!LT(&x, &z) && !LT(&z, &x)), "incomparability is transitive"); } while (0)
#endif
bool g_loc; int g_net;
#define NETTIME(p, q) CompareNodeNetworkTime(g_loc, g_net, p, q)
void h_lemma_strict_weak_orders(void)
{
    NodeEvictionCandidate x, y, z; __CPROVER_assume(BOOLS_OK(&x) && BOOLS_OK(&y) && BOOLS_OK(&z)); NodeEvictionCandidate x2 = x; g_loc = nondet_bool(); g_net = nondet_int();
    SWO(ReverseCompareNodeMinPingTime); SWO(ReverseCompareNodeTimeConnected); SWO(CompareNetGroupKeyed); SWO(CompareNodeBlockTime); SWO(CompareNodeTXTime); SWO(CompareNodeBlockRelayOnlyTime); SWO(NETTIME);
    VERIF_REACH_PT("lemma end");
}
/* the protected counts of the statement, read off the call sites of SelectNodeToEvict */
void h_lemma_protected_counts(void)
{
#ifdef TWIN_COUNTS
    __CPROVER_assert(K_NETGROUP == 4 && K_PING == 4 && K_TXTIME == 4 && K_BLOCKTIME == 4, "4 by netgroup, 8 by ping, 4 by tx time, 4 by block time");
#else
    __CPROVER_assert(K_NETGROUP == 4 && K_PING == 8 && K_TXTIME == 4 && K_BLOCKTIME == 4 && K_BLOCKRELAYONLY == 8, "4 by netgroup, 8 by ping, 4 by tx time, 4 by block time (8 block-relay-only)");
#endif
    VERIF_REACH_PT("lemma end");
}
