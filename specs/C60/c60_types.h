/* C60 shims: CNetAddr = network id + address bytes (prevector<16,uint8_t> m_addr), CSubNet = network address, 16-byte netmask, valid flag */
#ifndef C60_TYPES_H
#define C60_TYPES_H
#include "verif.h"
#include <string.h>
typedef struct { int m_net; uint8_t m_addr[32]; size_t m_addr_size; } CNetAddr;
typedef struct { CNetAddr network; uint8_t netmask[16]; bool valid; } CSubNet;
extern bool g_addr_valid;      /* CNetAddr::IsValid() of the address given to Match: arbitrary */
#define NET_IPV4_ 1
#define NET_IPV6_ 2
static inline bool CNetAddr_IsIPv4(const CNetAddr* a) { return a->m_net == NET_IPV4_; }      /* VERIF_STUB netaddress.h: m_net == NET_IPV4 */
static inline bool CNetAddr_IsIPv6(const CNetAddr* a) { return a->m_net == NET_IPV6_; }
static inline bool CNetAddr_IsValid(const CNetAddr* a) { return g_addr_valid; }               /* VERIF_STUB: arbitrary */
extern size_t g_cur;
bool CNetAddr_eq(const CNetAddr* a, const CNetAddr* b);
#ifndef C60_NO_EQ_BODY
bool CNetAddr_eq(const CNetAddr* a, const CNetAddr* b)                           /* VERIF_STUB operator==: same network, same bytes */
{
    if (a->m_net != b->m_net || a->m_addr_size != b->m_addr_size) return 0;
    for (size_t i = 0; i < 32; i++) if (i < a->m_addr_size && a->m_addr[i] != b->m_addr[i]) { g_cur = i; return 0; }
    return 1;
}
#endif
#endif
