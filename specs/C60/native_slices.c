/* native build (clang, C) of the extracted CSubNet code */
#include "c60_types.h"
bool g_addr_valid; size_t g_i, g_a, g_b, g_cur, g_zw;
#define LOOP_PREFIX
#define LOOP_MASKSCAN
#define LOOP_NORMALIZE
#define LOOP_MATCH
#define GHOST_MASK_STEP(i) ((void)0)
#define GHOST_MATCH_STEP(x) ((void)0)
#include "slices.h"
