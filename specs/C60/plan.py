import os, sys
sys.path.insert(0, os.path.dirname(os.path.dirname(os.path.abspath(__file__))))
from engine.extract import R

NA = "src/netaddress.cpp"
MEMBERS = [R("member:valid", r"(?<![\w.>])valid\b", "self->valid", False), R("member:netmask", r"(?<![\w.>])netmask\b", "self->netmask", False),
           R("member:network.m_addr.size()", r"(?<![\w.>])network\.m_addr\.size\(\)", "self->network.m_addr_size", False),
           R("member:network", r"(?<![\w.>])network\b", "self->network", False)]
ADDR = [R("call:addr.IsIPv4()", r"\baddr\.IsIPv4\(\)", "CNetAddr_IsIPv4(addr)", False), R("call:addr.IsIPv6()", r"\baddr\.IsIPv6\(\)", "CNetAddr_IsIPv6(addr)", False),
        R("call:addr.IsValid()", r"\baddr\.IsValid\(\)", "CNetAddr_IsValid(addr)", False),
        R("member:addr.m_addr.size()", r"\baddr\.m_addr\.size\(\)", "addr->m_addr_size", False), R("member:addr.", r"\baddr\.(?=\w)", "addr->", False),
        R("assert", r"\bassert\(", "VERIF_ASSERT(", False), R("copy:network = addr", r"self->network = addr;", "self->network = *addr;", False)]
SLICES = [
    {"name": "Network", "kind": "const", "file": "src/netaddress.h", "pat": r"enum Network \{[^}]*\};", "emit": r"\g<0>"},
    {"name": "ADDR_IPV4_SIZE", "kind": "const", "file": "src/netaddress.h", "pat": r"inline constexpr size_t ADDR_IPV4_SIZE = (\d+);", "emit": r"#define ADDR_IPV4_SIZE ((size_t)\1)"},
    {"name": "ADDR_IPV6_SIZE", "kind": "const", "file": "src/netaddress.h", "pat": r"inline constexpr size_t ADDR_IPV6_SIZE = (\d+);", "emit": r"#define ADDR_IPV6_SIZE ((size_t)\1)"},
    {"name": "CSubNet_default", "kind": "func", "file": NA, "head": r"CSubNet::CSubNet\(\):\s*valid\(false\)",
     "rules": [R("ctor-head:CSubNet() with member initialiser valid(false)", r"CSubNet::CSubNet\(\):\s*valid\(false\)\s*\{", "void CSubNet_default(CSubNet* self)\n{\n    self->valid = 0;", True)] + MEMBERS[1:]},
    {"name": "NetmaskBits", "kind": "func", "file": NA, "head": r"static inline int NetmaskBits\(uint8_t x\)", "rules": []},
    {"name": "CSubNet_prefix", "kind": "func", "file": NA, "head": r"CSubNet::CSubNet\(const CNetAddr& addr, uint8_t mask\) : CSubNet\(\)",
     "rules": [R("ctor-head:CSubNet(addr, uint8_t mask) delegating to CSubNet()", r"CSubNet::CSubNet\(const CNetAddr& addr, uint8_t mask\) : CSubNet\(\)\s*\{", "void CSubNet_prefix(CSubNet* self, const CNetAddr* addr, uint8_t mask)\n{\n    CSubNet_default(self);", True)] + MEMBERS + ADDR,
     "loops": [{"match": r"for \(size_t i = 0; i < self->network\.m_addr_size", "contract": "LOOP_PREFIX", "required": False}]},
    {"name": "CSubNet_mask", "kind": "func", "file": NA, "head": r"CSubNet::CSubNet\(const CNetAddr& addr, const CNetAddr& mask\) : CSubNet\(\)",
     "rules": [R("ctor-head:CSubNet(addr, mask addr) delegating to CSubNet()", r"CSubNet::CSubNet\(const CNetAddr& addr, const CNetAddr& mask\) : CSubNet\(\)\s*\{", "void CSubNet_mask(CSubNet* self, const CNetAddr* addr, const CNetAddr* mask)\n{\n    CSubNet_default(self);", True),
               R("rangefor:b over mask.m_addr", r"for \(auto b : mask\.m_addr\) \{", "for (size_t i_m = 0; i_m < mask->m_addr_size; i_m++) { uint8_t b = mask->m_addr[i_m];", False),
               R("member:mask.m_addr.size()", r"\bmask\.m_addr\.size\(\)", "mask->m_addr_size", False), R("member:mask.m_addr.data()", r"\bmask\.m_addr\.data\(\)", "mask->m_addr", False),
               R("member:mask.", r"\bmask\.(?=\w)", "mask->", False)] + MEMBERS + ADDR,
     "loops": [{"match": r"\bi_m\b", "contract": "LOOP_MASKSCAN", "prologue": "GHOST_MASK_STEP(i_m)", "required": False},
               {"match": r"for \(size_t x = 0; x < self->network\.m_addr_size", "contract": "LOOP_NORMALIZE", "required": False}]},
    {"name": "CSubNet_single", "kind": "func", "file": NA, "head": r"CSubNet::CSubNet\(const CNetAddr& addr\) : CSubNet\(\)",
     "rules": [R("ctor-head:CSubNet(addr) delegating to CSubNet()", r"CSubNet::CSubNet\(const CNetAddr& addr\) : CSubNet\(\)\s*\{", "void CSubNet_single(CSubNet* self, const CNetAddr* addr)\n{\n    CSubNet_default(self);", True)] + MEMBERS + ADDR},
    {"name": "CSubNet_Match", "kind": "func", "file": NA, "head": r"bool CSubNet::Match\(const CNetAddr &addr\)",
     "rules": [R("method-head:CSubNet::Match", r"bool CSubNet::Match\(const CNetAddr &addr\) const", "bool CSubNet_Match(const CSubNet* self, const CNetAddr* addr)"),
               R("operator== on CNetAddr", r"addr == network", "CNetAddr_eq(addr, &self->network)", False)] + MEMBERS + ADDR,
     "loops": [{"match": r"for \(size_t x = 0; x < addr->m_addr_size", "contract": "LOOP_MATCH", "prologue": "GHOST_MATCH_STEP(x)", "required": False}]},
]

def H(name, fn, twins=(), **kw):
    d = {"name": name, "enforce": fn, "twins": [{"define": t, "expect": "postcondition|loop_invariant"} for t in twins]}
    d.update(kw)
    return d

PLAN = {
    "id": "C60", "level": "proof", "slices": SLICES, "spec": "spec.c", "default_solver": ["cadical", "z3"],
    "harnesses": [
        H("h_NetmaskBits", "NetmaskBits", ["TWIN_BITS"]),
        H("h_prefix", "CSubNet_prefix", ["TWIN_PREFIX"], loop_contracts=True),
        H("h_mask", "CSubNet_mask", ["TWIN_CONTIG"], replace=["NetmaskBits"], loop_contracts=True),
        H("h_single", "CSubNet_single", ["TWIN_SINGLE"]),
        H("h_CNetAddr_eq", "CNetAddr_eq", unwind=33),
        H("h_Match", "CSubNet_Match", ["TWIN_MATCH"], replace=["CNetAddr_eq"], loop_contracts=True),
        {"name": "h_lemma_prefix_match", "replace": ["CSubNet_prefix", "CSubNet_Match"], "twins": [{"define": "TWIN_LEMMA", "expect": "assertion"}]},
    ],
    "native": {"src": "replay.cpp", "c_src": "native_slices.c", "repo_sources": ["src/netaddress.cpp"], "diff_n_quick": 70000, "diff_n_thorough": 2000000,
               "libs": ["libbitcoin_common.a", "libbitcoin_util.a", "libbitcoin_clientversion.a", "libbitcoin_crypto.a"]},
    "not_covered": ["string parsing / printing round trips (LookupSubNet, ToString), ADDRv1 / ADDRv2 serialization, Tor / I2P / CJDNS text forms", "BanMan time logic (IsBanned / SweepBanned) and the rolling-bloom discouragement filter",
                    "CNetAddr::IsValid (an arbitrary predicate of the address here)"],
    "assumptions": ["CNetAddr class invariant as precondition: m_addr has 4 bytes for NET_IPV4 and 16 for NET_IPV6 (at most 32 otherwise)", "CNetAddr::IsIPv4/IsIPv6/operator== are 1-line stubs (include: c60_types.h) compared natively with the real ones on every run; IsValid is an arbitrary ghost predicate",
                    "universally quantified clauses are proved for arbitrary ghost byte indices fixed before the call"],
    "manifest": {
        "category": "proof",
        "text": "partial (subnet clause core): the three CSubNet constructors and CSubNet::Match (extracted from netaddress.cpp each run) are proved for all inputs: a /n subnet is valid iff the address is IPv4 with n <= 32 or IPv6 with n <= 128, its netmask has exactly the first n bits set and its network is the address AND the mask; "
                "a netmask-address subnet is valid iff both are IP addresses of the same family and every mask byte is one of the nine prefix bytes with nothing but zero bytes after the first byte that is not 0xff (contiguous ones); a single-address subnet has an all-ones mask (IP) or is the address itself (Tor/I2P/CJDNS); "
                "Match is true iff the subnet and the address are valid, of the same network, and (IP) every byte agrees under the mask or (non-IP) the addresses are equal. A contract-only lemma: a /n subnet built from A matches B iff A and B agree on their first n bits.",
        "note": "Not covered: parse/print round trips, address serialization formats, BanMan and discouragement. Trusted: CNetAddr stubs, extraction rules.",
        "technique": "CBMC function + loop contracts on extracted CSubNet constructors and Match, ghost-index quantification over address bytes, contract-only lemma",
    },
    "trusted_base": ["specs/C60/spec.c", "specs/C60/c60_types.h"],
}
