// C60 native harness: the real CSubNet / CNetAddr (netaddress.cpp compiled from the working tree) vs the extracted C text vs a bit-level reference:
// a subnet matches exactly the valid addresses of its family that agree with it on the masked bits.
#include <netaddress.h>
#include <arpa/inet.h>
#include "replay_util.h"
struct xAddr { int m_net; uint8_t m_addr[32]; size_t m_addr_size; };
struct xSub { xAddr network; uint8_t netmask[16]; bool valid; };
extern "C" { extern bool g_addr_valid; void xc_CSubNet_prefix(xSub*, const xAddr*, uint8_t); void xc_CSubNet_mask(xSub*, const xAddr*, const xAddr*); void xc_CSubNet_single(xSub*, const xAddr*); bool xc_CSubNet_Match(const xSub*, const xAddr*); }
#define BAD(...) do { rv::g_stats.real_violations++; if (rv::g_stats.real_violations <= 8) { std::printf("REAL-VIOLATION " __VA_ARGS__); std::printf("\n"); } } while (0)
#define DIS(...) do { rv::g_stats.disagreements++; if (rv::g_stats.disagreements <= 8) { std::printf("DISAGREE " __VA_ARGS__); std::printf("\n"); } } while (0)
struct A { bool v6; uint8_t b[16]; CNetAddr real; xAddr x; };
static A mk(bool v6, const uint8_t* bytes)
{
    A a; a.v6 = v6; memset(a.b, 0, 16); memcpy(a.b, bytes, v6 ? 16 : 4);
    if (v6) { in6_addr i6; memcpy(&i6, a.b, 16); a.real = CNetAddr(i6); } else { in_addr i4; memcpy(&i4, a.b, 4); a.real = CNetAddr(i4); }
    a.x.m_net = v6 ? 2 : 1; memset(a.x.m_addr, 0, 32); memcpy(a.x.m_addr, a.b, v6 ? 16 : 4); a.x.m_addr_size = v6 ? 16 : 4; return a;
}
static A rnd_addr(rv::Rng& r, bool v6, const A* near, int keepbits)
{
    uint8_t b[16]; for (auto& c : b) c = (uint8_t)r.next();
    if (near) { int n = v6 ? 16 : 4; for (int bit = 0; bit < n * 8; bit++) { bool keep = bit < keepbits; if (keep) { b[bit / 8] = (uint8_t)((b[bit / 8] & ~(0x80 >> (bit % 8))) | (near->b[bit / 8] & (0x80 >> (bit % 8)))); } }
        if (r.below(3) == 0 && keepbits > 0) { int fb = (int)r.below(keepbits); b[fb / 8] ^= (uint8_t)(0x80 >> (fb % 8)); } }     // sometimes flip one bit inside the prefix
    if (v6) b[0] = (uint8_t)(0x20 | (b[0] & 0x0f)); else if (b[0] == 0 || b[0] >= 224 || b[0] == 127) b[0] = 45;                 // a routable, valid address (no mapped/embedded forms)
    return mk(v6, b);
}
static const uint8_t LEG[] = {0x00, 0x80, 0xc0, 0xe0, 0xf0, 0xf8, 0xfc, 0xfe, 0xff};
static void one(rv::Rng& r)
{
    bool v6 = r.below(2); int nbytes = v6 ? 16 : 4; A base = rnd_addr(r, v6, nullptr, 0);
    int mode = (int)r.below(3); CSubNet real; xSub xs{}; uint8_t maskb[16] = {0}; bool want_valid = true; std::string desc;
    if (mode == 0) { uint8_t n = r.below(4) == 0 ? (uint8_t)r.next() : (uint8_t)r.below(nbytes * 8 + 2); real = CSubNet(base.real, n); xc_CSubNet_prefix(&xs, &base.x, n); want_valid = n <= nbytes * 8;
        for (int k = 0; k < nbytes; k++) { int bits = std::min(8, std::max(0, (int)n - 8 * k)); maskb[k] = (uint8_t)(0xff << (8 - bits)); } desc = "/" + std::to_string(n); }
    else if (mode == 1) { bool contig = r.below(2); int n = (int)r.below(nbytes * 8 + 1);
        for (int k = 0; k < nbytes; k++) { int bits = std::min(8, std::max(0, n - 8 * k)); maskb[k] = (uint8_t)(0xff << (8 - bits)); }
        if (!contig) { int k = (int)r.below(nbytes); maskb[k] = r.below(3) ? LEG[r.below(9)] : (uint8_t)r.next(); }
        bool fam = r.below(8) != 0; A m = mk(fam ? v6 : !v6, maskb); real = CSubNet(base.real, m.real); xc_CSubNet_mask(&xs, &base.x, &m.x);
        bool legal = true, zeros = false; for (int k = 0; k < nbytes && legal; k++) { bool l = false; for (auto c : LEG) l |= c == maskb[k]; if (!l || (zeros && maskb[k] != 0)) legal = false; if (maskb[k] != 0xff) zeros = true; }
        want_valid = fam && legal; char buf[64] = {0}; for (int k = 0; k < nbytes; k++) std::snprintf(buf + 2 * k, 3, "%02x", maskb[k]); desc = std::string("mask ") + buf + (fam ? "" : " (other family)"); }
    else { real = CSubNet(base.real); xc_CSubNet_single(&xs, &base.x); memset(maskb, 0xff, nbytes); desc = "single"; }
    rv::g_stats.inputs++;
    if (real.IsValid() != xs.valid) DIS("validity of %s subnet: real %d extracted %d", desc.c_str(), real.IsValid(), xs.valid);
    if (real.IsValid() != want_valid) BAD("CSubNet(%s, %s) valid=%d, expected %d", base.real.ToStringAddr().c_str(), desc.c_str(), real.IsValid(), want_valid);
    for (int q = 0; q < 6; q++) {
        int plen = 0; for (int k = 0; k < nbytes; k++) for (int bit = 0; bit < 8; bit++) if (maskb[k] & (0x80 >> bit)) plen = k * 8 + bit + 1;
        A b = rnd_addr(r, r.below(10) ? v6 : !v6, r.below(4) ? &base : nullptr, plen);
        bool m = real.Match(b.real); g_addr_valid = b.real.IsValid(); bool xm = xc_CSubNet_Match(&xs, &b.x);
        bool want = want_valid && b.real.IsValid() && b.v6 == v6; for (int k = 0; k < nbytes && want; k++) want = (b.b[k] & maskb[k]) == (base.b[k] & maskb[k]);
        rv::g_stats.inputs++;
        if (m != xm) DIS("Match(%s in %s %s): real %d extracted %d", b.real.ToStringAddr().c_str(), base.real.ToStringAddr().c_str(), desc.c_str(), m, xm);
        if (m != want) BAD("subnet %s %s (prints as %s) %s address %s, but they %s on the masked bits", base.real.ToStringAddr().c_str(), desc.c_str(), real.ToString().c_str(), m ? "matches" : "does not match", b.real.ToStringAddr().c_str(), want ? "agree" : "differ / are not comparable");
    }
}
int main(int argc, char** argv)
{
    auto a = rv::parse(argc, argv); rv::Rng rng(a.seed); uint64_t n = (a.diff ? a.n : 100000) / 7 + 1;
    for (uint64_t i = 0; i < n; i++) one(rng);
    rv::report();
    return rv::g_stats.real_violations ? 1 : (rv::g_stats.disagreements ? 3 : 0);
}
