/* C60 -- A subnet matches exactly the addresses of its network that share its prefix (CSubNet constructors and Match). */
#include "c60_types.h"
bool g_addr_valid;
size_t g_i;            /* arbitrary byte index (forall) */
size_t g_a, g_b;       /* arbitrary pair of byte indices, g_a < g_b */
size_t g_cur, g_zw;    /* loop position at exit; witness: a mask byte that is not 0xff */

#define IS_IP(a) ((a)->m_net == 1 || (a)->m_net == 2)                       /* NET_IPV4 = 1, NET_IPV6 = 2 (order of enum Network) */
#define SIZE_OK(a) ((a)->m_addr_size <= 32 && ((a)->m_net == 1 ==> (a)->m_addr_size == 4) && ((a)->m_net == 2 ==> (a)->m_addr_size == 16))
#define FRESH_ADDR(a) (__CPROVER_is_fresh(a, sizeof(CNetAddr)) && SIZE_OK(a) && (a)->m_net >= 0 && (a)->m_net <= 7)
/* byte k of the mask whose first n bits are set */
#define MASKBITS(n, k) ((int)(n) - 8 * (int)(k) >= 8 ? 8 : (int)(n) - 8 * (int)(k) <= 0 ? 0 : (int)(n) - 8 * (int)(k))
#define MASKBYTE(n, k) ((uint8_t)(0xFFu << (8 - MASKBITS(n, k))))
#define LEGAL(b) ((b) == 0x00 || (b) == 0x80 || (b) == 0xc0 || (b) == 0xe0 || (b) == 0xf0 || (b) == 0xf8 || (b) == 0xfc || (b) == 0xfe || (b) == 0xff)

void CSubNet_default(CSubNet* self)
__CPROVER_requires(__CPROVER_is_fresh(self, sizeof(CSubNet)))
__CPROVER_ensures(!self->valid && (g_i < 16 ==> self->netmask[g_i] == 0))
__CPROVER_assigns(self->valid, __CPROVER_object_from(self->netmask));

static inline int NetmaskBits(uint8_t x)
#ifdef TWIN_BITS
__CPROVER_ensures(LEGAL(x) ? (__CPROVER_return_value >= 0 && __CPROVER_return_value <= 8 && x == (uint8_t)(0xFFu << (7 - __CPROVER_return_value))) : __CPROVER_return_value == -1)
#else
__CPROVER_ensures(LEGAL(x) ? (__CPROVER_return_value >= 0 && __CPROVER_return_value <= 8 && x == (uint8_t)(0xFFu << (8 - __CPROVER_return_value))) : __CPROVER_return_value == -1)
#endif
__CPROVER_assigns();

/* ---- /n subnet ---- */
#define SZ (addr->m_addr_size)
#define PREFIX_DONE_AT(k) (self->netmask[k] == MASKBYTE(mask, k) && self->network.m_addr[k] == (addr->m_addr[k] & MASKBYTE(mask, k)))
#define LOOP_PREFIX \
    __CPROVER_assigns(i, n, __CPROVER_object_whole(self)) \
    __CPROVER_loop_invariant(i <= self->network.m_addr_size && self->network.m_addr_size == SZ && self->network.m_net == addr->m_net && self->valid) \
    __CPROVER_loop_invariant((int)n == ((int)mask - 8 * (int)i > 0 ? (int)mask - 8 * (int)i : 0)) \
    __CPROVER_loop_invariant(g_i < SZ ==> (g_i < i ? PREFIX_DONE_AT(g_i) : self->network.m_addr[g_i] == addr->m_addr[g_i])) \
    __CPROVER_decreases(self->network.m_addr_size - i)
#ifdef TWIN_PREFIX
#define PREFIX_VALID ((addr->m_net == 1 && mask <= 32) || (addr->m_net == 2 && mask < 128))
#else
#define PREFIX_VALID ((addr->m_net == 1 && mask <= 32) || (addr->m_net == 2 && mask <= 128))
#endif
void CSubNet_prefix(CSubNet* self, const CNetAddr* addr, uint8_t mask)
__CPROVER_requires(__CPROVER_is_fresh(self, sizeof(CSubNet)) && FRESH_ADDR(addr))
__CPROVER_ensures((self->valid != 0) == PREFIX_VALID)
__CPROVER_ensures(self->valid ==> (self->network.m_net == addr->m_net && self->network.m_addr_size == SZ && (g_i < SZ ==> PREFIX_DONE_AT(g_i))))
__CPROVER_ensures(!self->valid ==> (g_i < 16 ==> self->netmask[g_i] == 0))
__CPROVER_assigns(__CPROVER_object_whole(self));

/* ---- subnet from a netmask address ---- */
#define MB(k) (mask->m_addr[k])
#define GHOST_MASK_STEP(i) (g_cur = (i), g_zw = (zeros_found ? g_zw : (i)))
#define CONTIG_BEFORE(w) ((g_a < g_b && g_b < (w) && MB(g_a) != 0xff) ==> MB(g_b) == 0)
#define LOOP_MASKSCAN \
    __CPROVER_assigns(i_m, zeros_found, g_cur, g_zw, self->valid) \
    __CPROVER_loop_invariant(i_m <= mask->m_addr_size && self->valid) \
    __CPROVER_loop_invariant(g_i < i_m ==> LEGAL(MB(g_i))) \
    __CPROVER_loop_invariant(zeros_found ==> (g_zw < i_m && MB(g_zw) != 0xff)) \
    __CPROVER_loop_invariant((g_a < i_m && MB(g_a) != 0xff) ==> zeros_found) \
    __CPROVER_loop_invariant(CONTIG_BEFORE(i_m)) \
    __CPROVER_decreases(mask->m_addr_size - i_m)
#define LOOP_NORMALIZE \
    __CPROVER_assigns(x, __CPROVER_object_whole(self)) \
    __CPROVER_loop_invariant(x <= self->network.m_addr_size && self->network.m_addr_size == SZ && self->network.m_net == addr->m_net && self->valid) \
    __CPROVER_loop_invariant(g_i < SZ ==> (self->netmask[g_i] == MB(g_i) && (g_i < x ? self->network.m_addr[g_i] == (addr->m_addr[g_i] & MB(g_i)) : self->network.m_addr[g_i] == addr->m_addr[g_i]))) \
    __CPROVER_decreases(self->network.m_addr_size - x)
void CSubNet_mask(CSubNet* self, const CNetAddr* addr, const CNetAddr* mask)
__CPROVER_requires(__CPROVER_is_fresh(self, sizeof(CSubNet)) && FRESH_ADDR(addr) && FRESH_ADDR(mask))
/* valid => IP addresses of one family, every mask byte a prefix byte, and after a byte that is not all-ones only zero bytes follow (contiguous ones) */
__CPROVER_ensures(self->valid ==> (IS_IP(addr) && addr->m_net == mask->m_net && (g_i < SZ ==> LEGAL(MB(g_i)))))
#ifdef TWIN_CONTIG
__CPROVER_ensures(self->valid ==> ((g_a < g_b && g_b < SZ && MB(g_a) != 0xff) ==> MB(g_b) == 0xff))
#else
__CPROVER_ensures(self->valid ==> CONTIG_BEFORE(SZ))
#endif
__CPROVER_ensures(self->valid ==> (self->network.m_net == addr->m_net && self->network.m_addr_size == SZ && (g_i < SZ ==> (self->netmask[g_i] == MB(g_i) && self->network.m_addr[g_i] == (addr->m_addr[g_i] & MB(g_i))))))
/* invalid => for a reason: not IP, different families, an illegal byte, or a non-zero byte after a byte that is not 0xff (witnesses) */
__CPROVER_ensures(!self->valid ==> (!IS_IP(addr) || addr->m_net != mask->m_net || (g_cur < SZ && (!LEGAL(MB(g_cur)) || (MB(g_cur) != 0 && g_zw < g_cur && MB(g_zw) != 0xff)))))
__CPROVER_assigns(__CPROVER_object_whole(self), g_cur, g_zw);

/* ---- single address ---- */
#ifdef TWIN_SINGLE
#define SINGLE_VALID (addr->m_net >= 1 && addr->m_net <= 6)
#else
#define SINGLE_VALID (addr->m_net >= 1 && addr->m_net <= 5)      /* IPv4, IPv6, Tor, I2P, CJDNS; not internal / unroutable */
#endif
void CSubNet_single(CSubNet* self, const CNetAddr* addr)
__CPROVER_requires(__CPROVER_is_fresh(self, sizeof(CSubNet)) && FRESH_ADDR(addr))
__CPROVER_ensures((self->valid != 0) == SINGLE_VALID)
__CPROVER_ensures(self->valid ==> (self->network.m_net == addr->m_net && self->network.m_addr_size == SZ && (g_i < SZ ==> self->network.m_addr[g_i] == addr->m_addr[g_i])))
__CPROVER_ensures((self->valid && IS_IP(addr)) ==> (g_i < SZ ==> self->netmask[g_i] == 0xff))
__CPROVER_ensures(!(self->valid && IS_IP(addr)) ==> (g_i < 16 ==> self->netmask[g_i] == 0))
__CPROVER_assigns(__CPROVER_object_whole(self));

/* ---- CNetAddr::operator== (stub body in c60_types.h, proved against this contract with its loop unwound 32 times) ---- */
bool CNetAddr_eq(const CNetAddr* a, const CNetAddr* b)
__CPROVER_requires(__CPROVER_is_fresh(a, sizeof(CNetAddr)) && __CPROVER_is_fresh(b, sizeof(CNetAddr)) && a->m_addr_size <= 32 && b->m_addr_size <= 32)
__CPROVER_ensures(__CPROVER_return_value ==> (a->m_net == b->m_net && a->m_addr_size == b->m_addr_size && (g_i < a->m_addr_size ==> a->m_addr[g_i] == b->m_addr[g_i])))
__CPROVER_ensures(!__CPROVER_return_value ==> (a->m_net != b->m_net || a->m_addr_size != b->m_addr_size || (g_cur < a->m_addr_size && a->m_addr[g_cur] != b->m_addr[g_cur])))
__CPROVER_assigns(g_cur);

/* ---- Match ---- */
#define NW (self->network)
#define GHOST_MATCH_STEP(x) (g_cur = (x))
#define LOOP_MATCH \
    __CPROVER_assigns(x, g_cur) \
    __CPROVER_loop_invariant(x <= addr->m_addr_size) \
    __CPROVER_loop_invariant(g_i < x ==> (addr->m_addr[g_i] & self->netmask[g_i]) == NW.m_addr[g_i]) \
    __CPROVER_decreases(addr->m_addr_size - x)
#define MATCH_PRE (self->valid && g_addr_valid && NW.m_net == addr->m_net)
VERIF_REACH_DECL(CSubNet_Match)
bool CSubNet_Match(const CSubNet* self, const CNetAddr* addr)
__CPROVER_requires(__CPROVER_is_fresh(self, sizeof(CSubNet)) && FRESH_ADDR(addr) && SIZE_OK(&self->network) && NW.m_net >= 0 && NW.m_net <= 7)
__CPROVER_ensures(!MATCH_PRE ==> !__CPROVER_return_value)
#ifdef TWIN_MATCH
__CPROVER_ensures((MATCH_PRE && IS_IP(addr) && __CPROVER_return_value) ==> (g_i < SZ ==> (addr->m_addr[g_i] | self->netmask[g_i]) == NW.m_addr[g_i]))
#else
__CPROVER_ensures((MATCH_PRE && IS_IP(addr) && __CPROVER_return_value) ==> (g_i < SZ ==> (addr->m_addr[g_i] & self->netmask[g_i]) == NW.m_addr[g_i]))
#endif
__CPROVER_ensures((MATCH_PRE && IS_IP(addr) && !__CPROVER_return_value) ==> (g_cur < SZ && (addr->m_addr[g_cur] & self->netmask[g_cur]) != NW.m_addr[g_cur]))
/* Tor / I2P / CJDNS / internal: equality of the whole address (CNetAddr::operator==, contract above) */
__CPROVER_ensures((MATCH_PRE && addr->m_net >= 3 && addr->m_net <= 6 && __CPROVER_return_value) ==> (addr->m_addr_size == NW.m_addr_size && (g_i < SZ ==> addr->m_addr[g_i] == NW.m_addr[g_i])))
__CPROVER_ensures((MATCH_PRE && addr->m_net >= 3 && addr->m_net <= 6 && !__CPROVER_return_value) ==> (addr->m_addr_size != NW.m_addr_size || (g_cur < SZ && addr->m_addr[g_cur] != NW.m_addr[g_cur])))
__CPROVER_ensures((addr->m_net == 0 || addr->m_net == 7) ==> !__CPROVER_return_value)
VERIF_REACH_ENSURES(CSubNet_Match, __CPROVER_return_value && addr->m_net == 2)
VERIF_REACH_ENSURES(CSubNet_Match, __CPROVER_return_value && addr->m_net == 3)
VERIF_REACH_ENSURES(CSubNet_Match, !__CPROVER_return_value && MATCH_PRE && addr->m_net == 1 && g_cur == 3)
__CPROVER_assigns(g_cur);

#include "slices.h"

size_t nondet_size_t(void); unsigned char nondet_uchar(void); bool nondet_bool(void);
void h_NetmaskBits(void) { int r = NetmaskBits(nondet_uchar()); if (r == -1) VERIF_REACH_PT("illegal byte"); if (r == 8) VERIF_REACH_PT("0xff"); if (r == 3) VERIF_REACH_PT("0xe0"); }
void h_default(void) { CSubNet* s; g_i = nondet_size_t(); CSubNet_default(s); VERIF_REACH_PT("returns"); }
void h_prefix(void) { CSubNet* s; const CNetAddr* a; g_i = nondet_size_t(); uint8_t m = nondet_uchar(); CSubNet_prefix(s, a, m); if (m == 128) VERIF_REACH_PT("/128"); if (m == 33) VERIF_REACH_PT("/33"); if (m == 0) VERIF_REACH_PT("/0"); }
void h_mask(void) { CSubNet* s; const CNetAddr *a, *m; g_i = nondet_size_t(); g_a = nondet_size_t(); g_b = nondet_size_t(); CSubNet_mask(s, a, m); VERIF_REACH_PT("returns"); }
void h_single(void) { CSubNet* s; const CNetAddr* a; g_i = nondet_size_t(); CSubNet_single(s, a); VERIF_REACH_PT("returns"); }
void h_CNetAddr_eq(void) { const CNetAddr *a, *b; g_i = nondet_size_t(); bool r = CNetAddr_eq(a, b); if (r) VERIF_REACH_PT("equal"); else VERIF_REACH_PT("different"); }
void h_Match(void) { const CSubNet* s; const CNetAddr* a; g_i = nondet_size_t(); g_addr_valid = nondet_bool(); VERIF_REACH_ON(CSubNet_Match); CSubNet_Match(s, a); }

/* lemma (contracts only): an address B matched by the /n subnet built from A is of A's network and agrees with A on the first n bits (at the arbitrary byte g_i) */
void h_lemma_prefix_match(void)
{
    CNetAddr A, B; CSubNet s; uint8_t n = nondet_uchar(); g_i = nondet_size_t(); g_addr_valid = 1;
    __CPROVER_assume(SIZE_OK(&A) && SIZE_OK(&B) && A.m_net >= 0 && A.m_net <= 7 && B.m_net >= 0 && B.m_net <= 7);
    CSubNet_prefix(&s, &A, n);
    if (s.valid) {
        bool m = CSubNet_Match(&s, &B);
#ifdef TWIN_LEMMA
        if (m) __CPROVER_assert(B.m_net == A.m_net && (g_i < A.m_addr_size ==> B.m_addr[g_i] == A.m_addr[g_i]), "matched => same network and same first n bits");
#else
        if (m) __CPROVER_assert(B.m_net == A.m_net && (g_i < A.m_addr_size ==> (B.m_addr[g_i] & MASKBYTE(n, g_i)) == (A.m_addr[g_i] & MASKBYTE(n, g_i))), "matched => same network and same first n bits");
#endif
        if (m) VERIF_REACH_PT("matched"); else VERIF_REACH_PT("not matched");
    }
    VERIF_REACH_PT("lemma end");
}
