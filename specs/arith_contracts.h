/* Contracts of base_uint<256> / arith_uint256 (arith_uint256.{h,cpp}) over 256-bit spec integers -- shared by C07 and C54. */
#ifndef ARITH_CONTRACTS_H
#define ARITH_CONTRACTS_H
#include "verif_arith.h"
#define FRESH_BU(p) __CPROVER_is_fresh(p, sizeof(base_uint256))

/* ================= reference definitions (the spec side) ================= */
/* compact decoding: value = mantissa * 256^(size-3), mantissa = low 23 bits, sign = bit 23 */
#define C_SIZE(c) ((unsigned)((c) >> 24))
#define C_MANT(c) ((uint32_t)((c) & 0x007fffffu))
#define C_WORD(c) (C_SIZE(c) <= 3 ? (uint32_t)(C_MANT(c) >> (8 * (3 - C_SIZE(c)))) : C_MANT(c))          /* mantissa actually used */
#define C_NBYTES(w) ((w) > 0xffffu ? 3 : (w) > 0xffu ? 2 : 1)
#define SETC(c) (C_SIZE(c) <= 3 ? (u256)C_WORD(c) : (8 * (C_SIZE(c) - 3) >= 256 ? (u256)0 : (u256)(((u256)C_MANT(c)) << (8 * (C_SIZE(c) - 3)))))
#define SETC_NEG(c) (C_WORD(c) != 0 && ((c) & 0x00800000u) != 0)
#ifdef TWIN_SETC_OVERFLOW
#define SETC_OVF(c) (C_WORD(c) != 0 && (C_NBYTES(C_WORD(c)) + (int)C_SIZE(c) - 3 > 33))
#else
#define SETC_OVF(c) (C_WORD(c) != 0 && (C_NBYTES(C_WORD(c)) + (int)C_SIZE(c) - 3 > 32))      /* needs more than 32 bytes */
#endif
/* compact encoding: the canonical (normalised) pair: mantissa in [0x008000, 0x7fffff], value >> 8(size-3) == mantissa */
#define IS_COMPACT_OF(c, x) ((x) == 0 ? (c) == 0 : \
    (C_MANT(c) >= 0x8000u && C_SIZE(c) >= 1 && C_SIZE(c) <= 33 && ((c) & 0x00800000u) == 0 && \
     (C_SIZE(c) >= 3 ? ((x) >> (8 * (C_SIZE(c) - 3))) == (u256)C_MANT(c) : (((x) >> (8 * C_SIZE(c))) == 0 && (u256)C_MANT(c) == (u256)((x) << (8 * (3 - C_SIZE(c))))))))

/* ================= base_uint<256> ================= */
void base_uint_assign64(base_uint256* self, uint64_t b)
__CPROVER_requires(FRESH_BU(self))
__CPROVER_ensures(U256_OF(self) == (u256)b)
__CPROVER_assigns(ASSIGNS_PN(self));

uint64_t base_uint_GetLow64(const base_uint256* self)
__CPROVER_requires(FRESH_BU(self))
__CPROVER_ensures(__CPROVER_return_value == (uint64_t)U256_OF(self))
__CPROVER_assigns();

void base_uint_shl(base_uint256* self, unsigned int shift)
__CPROVER_requires(FRESH_BU(self))
#ifdef TWIN_SHL
__CPROVER_ensures(U256_OF(self) == (shift >= 255 ? (u256)0 : (u256)(U256_OLD(self) << shift)))
#else
__CPROVER_ensures(U256_OF(self) == (shift >= 256 ? (u256)0 : (u256)(U256_OLD(self) << shift)))
#endif
__CPROVER_assigns(ASSIGNS_PN(self));

void base_uint_shr(base_uint256* self, unsigned int shift)
__CPROVER_requires(FRESH_BU(self))
__CPROVER_ensures(U256_OF(self) == (shift >= 256 ? (u256)0 : (u256)(U256_OLD(self) >> shift)))
__CPROVER_assigns(ASSIGNS_PN(self));

/* Wide multiplication / division are kept OUT of the bit-level formulas of the callers: callers see the results of
 * operator*=(uint32_t) and operator/= as uninterpreted functions of their inputs (sound: both are deterministic
 * functions of exactly these inputs).  What the functions MEAN is a separate obligation:
 *   UF_MUL(x, b) = x * b mod 2^256   -- harness h_mul32_is_product (-DPROVE_MUL32) enforces it on the extracted operator*=
 *   UF_DIV(x, d) = floor(x / d)      -- VERIF_TRUSTED: operator/= (256-bit long division) is NOT verified */
u256 __CPROVER_uninterpreted_mul256x32(u256 x, uint32_t b);
u256 __CPROVER_uninterpreted_div256x64(u256 x, uint64_t d);
int64_t __CPROVER_uninterpreted_interval(int64_t timespan, int64_t spacing);
#define UF_MUL(x, b) __CPROVER_uninterpreted_mul256x32(x, b)
#define UF_DIV(x, d) __CPROVER_uninterpreted_div256x64(x, d)
#define UF_INTERVAL(t, sp) __CPROVER_uninterpreted_interval(t, sp)

void base_uint_mul32(base_uint256* self, uint32_t b32)
__CPROVER_requires(FRESH_BU(self))
#ifdef PROVE_MUL32
__CPROVER_ensures(U256_OF(self) == (u256)(U256_OLD(self) * (u256)b32))
#else
__CPROVER_ensures(U256_OF(self) == UF_MUL(U256_OLD(self), b32))
#endif
__CPROVER_assigns(ASSIGNS_PN(self));

void base_uint_div_u64(base_uint256* self, uint64_t d)
__CPROVER_requires(FRESH_BU(self) && d != 0)
__CPROVER_ensures(U256_OF(self) == UF_DIV(U256_OLD(self), d))
__CPROVER_assigns(ASSIGNS_PN(self));

int base_uint_CompareTo(const base_uint256* self, const base_uint256* b)
__CPROVER_requires(FRESH_BU(self) && FRESH_BU(b))
#ifdef TWIN_CMP
__CPROVER_ensures(__CPROVER_return_value == (U256_OF(self) <= U256_OF(b) ? -1 : 1))
#else
__CPROVER_ensures(__CPROVER_return_value == (U256_OF(self) < U256_OF(b) ? -1 : U256_OF(self) > U256_OF(b) ? 1 : 0))
#endif
__CPROVER_assigns();

bool base_uint_EqualTo(const base_uint256* self, uint64_t b)
__CPROVER_requires(FRESH_BU(self))
__CPROVER_ensures(__CPROVER_return_value == (U256_OF(self) == (u256)b))
__CPROVER_assigns();

/* number of significant bits */
unsigned int base_uint_bits(const base_uint256* self)
__CPROVER_requires(FRESH_BU(self))
__CPROVER_ensures(__CPROVER_return_value <= 256)
__CPROVER_ensures(__CPROVER_return_value == 0 ==> U256_OF(self) == 0)
#ifdef TWIN_BITS
__CPROVER_ensures(__CPROVER_return_value > 0 ==> (U256_OF(self) >> __CPROVER_return_value) == 1)
#else
__CPROVER_ensures(__CPROVER_return_value > 0 ==> (U256_OF(self) >> (__CPROVER_return_value - 1)) == 1)
#endif
__CPROVER_assigns();

unsigned int CeilDiv(const unsigned int dividend, const unsigned int divisor)
__CPROVER_requires(divisor == 8)      /* contracted for its only use inside the slices: CeilDiv(bits(), 8u) */
__CPROVER_ensures((uint64_t)__CPROVER_return_value * 8 >= dividend && (uint64_t)__CPROVER_return_value * 8 < (uint64_t)dividend + 8)
__CPROVER_assigns();

/* ================= compact encoding ================= */
void arith_SetCompact(base_uint256* self, uint32_t nCompact, bool* pfNegative, bool* pfOverflow)
__CPROVER_requires(FRESH_BU(self) && (pfNegative == NULL || __CPROVER_is_fresh(pfNegative, sizeof(bool))) && (pfOverflow == NULL || __CPROVER_is_fresh(pfOverflow, sizeof(bool))))
__CPROVER_ensures(U256_OF(self) == SETC(nCompact))
#ifdef TWIN_SETC_NEG
__CPROVER_ensures(pfNegative != NULL ==> *pfNegative == ((nCompact & 0x00800000u) != 0))
#else
__CPROVER_ensures(pfNegative != NULL ==> *pfNegative == SETC_NEG(nCompact))
#endif
__CPROVER_ensures(pfOverflow != NULL ==> *pfOverflow == SETC_OVF(nCompact))
/* overflow flag clear => the decoded value really is mantissa * 256^(size-3) (nothing was shifted out) */
__CPROVER_ensures((!SETC_OVF(nCompact) && C_SIZE(nCompact) > 3 && C_SIZE(nCompact) <= 34) ==> (U256_OF(self) >> (8 * (C_SIZE(nCompact) - 3))) == (u256)C_MANT(nCompact))
__CPROVER_assigns(ASSIGNS_PN(self); pfNegative != NULL: *pfNegative; pfOverflow != NULL: *pfOverflow);

uint32_t arith_GetCompact(const base_uint256* self, bool fNegative)
__CPROVER_requires(FRESH_BU(self))
#ifdef TWIN_GETC
__CPROVER_ensures(IS_COMPACT_OF(__CPROVER_return_value & ~0x00800000u, U256_OF(self) >> 1))
#else
__CPROVER_ensures(IS_COMPACT_OF(__CPROVER_return_value & ~0x00800000u, U256_OF(self)))
#endif
__CPROVER_ensures(((__CPROVER_return_value & 0x00800000u) != 0) == (fNegative && U256_OF(self) != 0))
__CPROVER_assigns();

#endif
