"""Slices of arith_uint256.{h,cpp}: base_uint<256> member functions rendered as C functions over
struct base_uint256 { uint32_t pn[8]; }.  Shared by C07 and C54."""
from engine.extract import R

A_CPP, A_H = "src/arith_uint256.cpp", "src/arith_uint256.h"
PN = R("member:pn[ -> self->pn[", r"(?<![\w.>])pn\[", "self->pn[", False)
RET_THIS = R("return *this -> return", r"return \*this;", "return;", False)
COPY_THIS = R("copy-ctor: base_uint<BITS> a(*this)", r"base_uint<BITS> a\(\*this\);", "base_uint256 a = *self;", False)


def member(name, cname, head_re, new_head, extra=(), file=A_CPP, **kw):
    d = {"name": cname, "kind": "func", "file": file, "head": head_re,
         "rules": [R("method-head:" + name, head_re + r"(\s*const)?", new_head, True)] + list(extra) + [COPY_THIS, PN, RET_THIS]}
    d.update(kw)
    return d


ARITH_SLICES = [
    {"name": "WIDTH", "kind": "const", "file": A_H, "pat": r"static constexpr int WIDTH = BITS / 32;", "emit": "#define WIDTH (256 / 32)   /* BITS = 256 */"},
    member("operator=(uint64_t)", "base_uint_assign64", r"base_uint& operator=\(uint64_t b\)", "void base_uint_assign64(base_uint256* self, uint64_t b)", file=A_H, within_class=r"class base_uint"),
    member("GetLow64", "base_uint_GetLow64", r"uint64_t GetLow64\(\)", "uint64_t base_uint_GetLow64(const base_uint256* self)", file=A_H, within_class=r"class base_uint",
           extra=[R("drop:static_assert", r"static_assert\([^;]*\);", "", False)]),
    member("operator<<=", "base_uint_shl", r"template <unsigned int BITS>\s*base_uint<BITS>& base_uint<BITS>::operator<<=\(unsigned int shift\)", "void base_uint_shl(base_uint256* self, unsigned int shift)"),
    member("operator>>=", "base_uint_shr", r"template <unsigned int BITS>\s*base_uint<BITS>& base_uint<BITS>::operator>>=\(unsigned int shift\)", "void base_uint_shr(base_uint256* self, unsigned int shift)"),
    member("operator*=(uint32_t)", "base_uint_mul32", r"template <unsigned int BITS>\s*base_uint<BITS>& base_uint<BITS>::operator\*=\(uint32_t b32\)", "void base_uint_mul32(base_uint256* self, uint32_t b32)"),
    member("CompareTo", "base_uint_CompareTo", r"template <unsigned int BITS>\s*int base_uint<BITS>::CompareTo\(const base_uint<BITS>& b\)", "int base_uint_CompareTo(const base_uint256* self, const base_uint256* b)",
           extra=[R("refparam:b.pn", r"(?<![\w.>])b\.pn\[", "b->pn[", False)]),
    member("bits", "base_uint_bits", r"template <unsigned int BITS>\s*unsigned int base_uint<BITS>::bits\(\)", "unsigned int base_uint_bits(const base_uint256* self)"),
    {"name": "CeilDiv", "kind": "func", "file": "src/util/overflow.h",
     "head": r"template <std::unsigned_integral Dividend, std::unsigned_integral Divisor>\s*\[\[nodiscard\]\] constexpr auto CeilDiv\(const Dividend dividend, const Divisor divisor\)",
     "rules": [R("template-head:CeilDiv<unsigned,unsigned>", r"template <std::unsigned_integral Dividend, std::unsigned_integral Divisor>\s*\[\[nodiscard\]\] constexpr auto CeilDiv\(const Dividend dividend, const Divisor divisor\)",
                 "unsigned int CeilDiv(const unsigned int dividend, const unsigned int divisor)"),
               R("assert", r"\bassert\(", "VERIF_ASSERT(", False)]},
    member("SetCompact", "arith_SetCompact", r"arith_uint256& arith_uint256::SetCompact\(uint32_t nCompact, bool\* pfNegative, bool\* pfOverflow\)",
           "void arith_SetCompact(base_uint256* self, uint32_t nCompact, bool* pfNegative, bool* pfOverflow)",
           extra=[R("call:*this = nWord", r"\*this = nWord;", "base_uint_assign64(self, nWord);", False),
                  R("call:*this <<= n", r"\*this <<= ([^;]+);", r"base_uint_shl(self, \1);", False)]),
    member("GetCompact", "arith_GetCompact", r"uint32_t arith_uint256::GetCompact\(bool fNegative\)", "uint32_t arith_GetCompact(const base_uint256* self, bool fNegative)",
           extra=[R("call:bits()", r"(?<![\w.>])bits\(\)", "base_uint_bits(self)", False),
                  R("call:GetLow64()", r"(?<![\w.>])GetLow64\(\)", "base_uint_GetLow64(self)", False),
                  R("friend operator>>: copy then >>=", r"arith_uint256 bn = \*this >> ([^;]+);", r"base_uint256 bn = *self; base_uint_shr(&bn, \1);", False),
                  R("call:bn.GetLow64()", r"bn\.GetLow64\(\)", "base_uint_GetLow64(&bn)", False),
                  R("assert", r"\bassert\(", "VERIF_ASSERT(", False)]),
]

ARITH_SLICES.append(member("EqualTo", "base_uint_EqualTo", r"template <unsigned int BITS>\s*bool base_uint<BITS>::EqualTo\(uint64_t b\)", "bool base_uint_EqualTo(const base_uint256* self, uint64_t b)"))

ARITH_HARNESS_FUNCS = ["base_uint_assign64", "base_uint_GetLow64", "base_uint_shl", "base_uint_shr", "base_uint_mul32", "base_uint_CompareTo", "base_uint_bits", "base_uint_EqualTo", "CeilDiv", "arith_SetCompact", "arith_GetCompact"]
