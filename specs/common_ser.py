"""Slices of serialize.h shared by C18 / C48."""
from engine.extract import R

SER = "src/serialize.h"
THROW = R("throw std::ios_base::failure -> ghost flag + return", r'throw std::ios_base::failure\("([^"]*)"\);', r'{ g_thrown = 1; return 0; /* raises: \1 */ }', False)


def varint_slices(suffix, ctype, maxmacro):
    common = [R("drop:CheckVarIntMode", r"CheckVarIntMode<Mode, I>\(\);", "", False),
              R("template-param I", r"\bI\b", ctype, False),
              R("numeric_limits<I>::max()", r"std::numeric_limits<" + ctype + r">::max\(\)", maxmacro, False), THROW]
    return [
        {"name": "WriteVarInt_" + suffix, "kind": "func", "file": SER,
         "head": r"template<typename Stream, VarIntMode Mode, typename I>\s*void WriteVarInt\(Stream& os, I n\)",
         "rules": [R("template-head:WriteVarInt<ByteStream,DEFAULT," + ctype + ">", r"template<typename Stream, VarIntMode Mode, typename I>\s*void WriteVarInt\(Stream& os, I n\)", f"void WriteVarInt_{suffix}(ByteStream* os, {ctype} n)"),
                   R("constexpr CeilDiv as array bound", r"CeilDiv\(sizeof\(n\) \* 8, 7u\)", "CEILDIV_CONST(sizeof(n) * 8, 7u)", False)] + common},
        {"name": "ReadVarInt_" + suffix, "kind": "func", "file": SER,
         "head": r"template<typename Stream, VarIntMode Mode, typename I>\s*I ReadVarInt\(Stream& is\)",
         "rules": [R("template-head:ReadVarInt<ByteStream,DEFAULT," + ctype + ">", r"template<typename Stream, VarIntMode Mode, typename I>\s*I ReadVarInt\(Stream& is\)", f"{ctype} ReadVarInt_{suffix}(ByteStream* is)")] + common},
        {"name": "GetSizeOfVarInt_" + suffix, "kind": "func", "file": SER,
         "head": r"template<VarIntMode Mode, typename I>\s*inline unsigned int GetSizeOfVarInt\(I n\)",
         "rules": [R("template-head:GetSizeOfVarInt", r"template<VarIntMode Mode, typename I>\s*inline unsigned int GetSizeOfVarInt\(I n\)", f"unsigned int GetSizeOfVarInt_{suffix}({ctype} n)")] + common},
    ]
