"""Slices of consensus/tx_verify.cpp, coins.cpp (HaveInputs), primitives/transaction.cpp (GetValueOut) and the ConnectBlock /
ContextualCheckBlock statement ranges that call them -- shared by C01, C02, C05."""
import os, sys
sys.path.insert(0, os.path.dirname(os.path.abspath(__file__)))
from engine.extract import R, refparam, rangefor, invalid_rule

TV = "src/consensus/tx_verify.cpp"
VAL = "src/validation.cpp"
TXH = "src/primitives/transaction.h"


def const(name, file, pat, emit):
    return {"name": name, "kind": "const", "file": file, "pat": pat, "emit": emit}


CONSTS = [
    const("LOCKTIME_THRESHOLD", "src/script/script.h", r"inline constexpr unsigned int LOCKTIME_THRESHOLD\{([\d']+)\};", r"static const unsigned int LOCKTIME_THRESHOLD = \1;"),
    const("COINBASE_MATURITY", "src/consensus/consensus.h", r"inline constexpr int COINBASE_MATURITY = (\d+);", r"static const int COINBASE_MATURITY = \1;"),
    const("LOCKTIME_VERIFY_SEQUENCE", "src/consensus/consensus.h", r"inline constexpr unsigned int LOCKTIME_VERIFY_SEQUENCE = \(1 << 0\);", r"static const unsigned int LOCKTIME_VERIFY_SEQUENCE = (1 << 0);"),
    const("SEQUENCE_FINAL", TXH, r"static constexpr uint32_t SEQUENCE_FINAL\{(0x[0-9a-fA-F]+)\};", r"static const uint32_t CTxIn_SEQUENCE_FINAL = \1;"),
    const("SEQUENCE_LOCKTIME_DISABLE_FLAG", TXH, r"static constexpr uint32_t SEQUENCE_LOCKTIME_DISABLE_FLAG\{(1U << 31)\};", r"static const uint32_t CTxIn_SEQUENCE_LOCKTIME_DISABLE_FLAG = (\1);"),
    const("SEQUENCE_LOCKTIME_TYPE_FLAG", TXH, r"static constexpr uint32_t SEQUENCE_LOCKTIME_TYPE_FLAG\{(1 << 22)\};", r"static const uint32_t CTxIn_SEQUENCE_LOCKTIME_TYPE_FLAG = (\1);"),
    const("SEQUENCE_LOCKTIME_MASK", TXH, r"static constexpr uint32_t SEQUENCE_LOCKTIME_MASK\{(0x[0-9a-fA-F]+)\};", r"static const uint32_t CTxIn_SEQUENCE_LOCKTIME_MASK = \1;"),
    const("SEQUENCE_LOCKTIME_GRANULARITY", TXH, r"static constexpr int SEQUENCE_LOCKTIME_GRANULARITY\{(\d+)\};", r"static const int CTxIn_SEQUENCE_LOCKTIME_GRANULARITY = \1;"),
]
SEQCONST = R("scope:CTxIn::SEQUENCE_*", r"CTxIn::(SEQUENCE_\w+)", r"CTxIn_\1", False)

ISFINAL = {
    "name": "IsFinalTx", "kind": "func", "file": TV, "head": r"bool IsFinalTx\(const CTransaction &tx, int nBlockHeight, int64_t nBlockTime\)",
    "rules": refparam("tx") + rangefor("txin", r"tx->vin", "tx->vin", "tx->vin_size", idx="i_in", required=False) + [SEQCONST],
    "loops": [{"match": r"\bi_in\b", "contract": "LOOP_ISFINAL", "prologue": "GHOST_ISFINAL_STEP(i_in)", "required": False}],
}

CALCSEQ = {
    "name": "CalculateSequenceLocks", "kind": "func", "file": TV,
    "head": r"std::pair<int, int64_t> CalculateSequenceLocks\(const CTransaction &tx, int flags, std::vector<int>& prevHeights, const CBlockIndex& block\)",
    "rules": [R("ret:std::pair<int,int64_t> -> LockPair", r"std::pair<int, int64_t> CalculateSequenceLocks", "LockPair CalculateSequenceLocks"),
              R("param:std::vector<int>& prevHeights -> int*", r"std::vector<int>& prevHeights", "int* prevHeights")] + refparam("tx") + refparam("block") + [
        R("ghost:prevHeights.size()", r"prevHeights\.size\(\)", "g_prevheights_size", False),
        R("assert", r"\bassert\(", "VERIF_ASSERT(", False),
        R("member:vin.size", r"tx->vin\.size\(\)", "tx->vin_size", False),
        R("ref-local:const CTxIn& txin", r"const CTxIn& txin = tx->vin\[txinIndex\];", "const CTxIn* txin = &tx->vin[txinIndex];", False),
        R("member:txin.", r"(?<![\w.>])txin\.(?=\w)", "txin->", False),
        R("domain:prevHeights[k] read (precondition applied at the point of use)", r"int nCoinHeight = prevHeights\[txinIndex\];", "int nCoinHeight = VERIF_READ_IN_DOMAIN(prevHeights[txinIndex], 0, PREVHEIGHT_MAX);", False),
        R("ghost:Assert(block.GetAncestor(h))->GetMedianTimePast()", r"Assert\(block->GetAncestor\(std::max\(nCoinHeight - 1, 0\)\)\)->GetMedianTimePast\(\)", "CBlockIndex_AncestorMTP(block, verif_max_int(nCoinHeight - 1, 0))", False),
        R("std::max<int64> (witness-recording)", r"nMinTime = std::max\(", "nMinTime = VERIF_MAX_T(", False),
        R("std::max<int> (witness-recording)", r"nMinHeight = std::max\(", "nMinHeight = VERIF_MAX_H(", False),
        R("std::make_pair -> compound literal", r"std::make_pair\(([^;]*)\);", r"(LockPair){\1};", False),
        SEQCONST],
    "loops": [{"match": r"\btxinIndex\b", "contract": "LOOP_CALCSEQ", "prologue": "GHOST_CALCSEQ_STEP(txinIndex)", "required": False}],
}

EVALSEQ = {
    "name": "EvaluateSequenceLocks", "kind": "func", "file": TV, "head": r"bool EvaluateSequenceLocks\(const CBlockIndex& block, std::pair<int, int64_t> lockPair\)",
    "rules": refparam("block") + [R("param:std::pair -> LockPair", r"std::pair<int, int64_t> lockPair", "LockPair lockPair"),
                                  R("assert", r"\bassert\(", "VERIF_ASSERT(", False),
                                  R("ghost:block.pprev->GetMedianTimePast()", r"block->pprev->GetMedianTimePast\(\)", "CBlockIndex_GetMedianTimePast(block->pprev)", False)],
}

SEQLOCKS = {
    "name": "SequenceLocks", "kind": "func", "file": TV, "head": r"bool SequenceLocks\(const CTransaction &tx, int flags, std::vector<int>& prevHeights, const CBlockIndex& block\)",
    "rules": [R("param:std::vector<int>& prevHeights -> int*", r"std::vector<int>& prevHeights", "int* prevHeights")] + refparam("tx") + refparam("block") + [
        R("deref-args", r"EvaluateSequenceLocks\(block, CalculateSequenceLocks\(tx, flags, prevHeights, block\)\)", "EvaluateSequenceLocks(block, CalculateSequenceLocks(tx, flags, prevHeights, block))", False)],
}

CHECKTXINPUTS = {
    "name": "CheckTxInputs", "kind": "func", "file": TV,
    "head": r"bool Consensus::CheckTxInputs\(const CTransaction& tx, TxValidationState& state, const CCoinsViewCache& inputs, int nSpendHeight, CAmount& txfee\)",
    "rules": [R("scope:Consensus::", r"bool Consensus::CheckTxInputs", "bool CheckTxInputs")] + refparam("tx") + refparam("state") + refparam("inputs") + [
        R("param:CAmount& txfee -> CAmount*", r"CAmount& txfee", "CAmount* txfee"),
        invalid_rule(r"state->", "TxValidationResult", "TxState_Invalid"),
        R("call:inputs.HaveInputs(tx)", r"inputs->HaveInputs\(\*?tx\)", "CCoinsViewCache_HaveInputs(inputs, tx)", False),
        R("member:vin.size", r"tx->vin\.size\(\)", "tx->vin_size", False),
        R("ref-local:const COutPoint &prevout", r"const COutPoint &prevout = tx->vin\[i\]\.prevout;", "const COutPoint* prevout = &tx->vin[i].prevout;", False),
        R("ref-local:const Coin& coin = AccessCoin", r"const Coin& coin = inputs->AccessCoin\(prevout\);", "const Coin* coin = CCoinsViewCache_AccessCoin(inputs, prevout);", False),
        R("assert-in-loop", r"assert\(!coin\.IsSpent\(\)\);", "VERIF_ASSERT_AT(i, !Coin_IsSpent(coin));", False),
        R("call:coin.IsCoinBase()", r"coin\.IsCoinBase\(\)", "coin->fCoinBase", False),
        R("member:coin.", r"(?<![\w.>])coin\.(?=\w)", "coin->", False),
        R("ghost:tx.GetValueOut() (own contract: sum of outputs)", r"tx->GetValueOut\(\)", "g_value_out", False),
        R("out-param:txfee =", r"(?<![\w.>*])txfee = ", "*txfee = ", False),
    ],
    "loops": [{"match": r"\bunsigned int i = 0; i < tx->vin_size", "contract": "LOOP_TXIN", "prologue": "GHOST_TXIN_STEP(i)", "required": False}],
}

HAVEINPUTS = {
    "name": "HaveInputs", "cname": "CCoinsViewCache_HaveInputs", "kind": "func", "file": "src/coins.cpp", "head": r"bool CCoinsViewCache::HaveInputs\(const CTransaction& tx\)",
    "rules": [R("method-head:CCoinsViewCache::HaveInputs", r"bool CCoinsViewCache::HaveInputs\(const CTransaction& tx\) const", "bool CCoinsViewCache_HaveInputs(const CCoinsViewCache* self, const CTransaction* tx)"),
              R("member:tx.", r"(?<![\w.>])tx\.(?=\w)", "tx->", False),
              R("call:tx.IsCoinBase", r"tx->IsCoinBase\(\)", "CTransaction_IsCoinBase(tx)", False),
              R("member:vin.size", r"tx->vin\.size\(\)", "tx->vin_size", False),
              R("call:HaveCoin", r"(?<![\w.>])HaveCoin\(tx->vin\[i\]\.prevout\)", "CCoinsViewCache_HaveCoin(self, &tx->vin[i].prevout)", False)],
    "loops": [{"match": r"\bunsigned int i = 0; i < tx->vin_size", "contract": "LOOP_HAVEINPUTS", "prologue": "GHOST_HAVE_STEP(i)", "required": False}],
}

THROWRT = R("throw std::runtime_error -> ghost flag + return", r'throw std::runtime_error\([^;]*\);', r'{ g_thrown = 1; return 0; }', False)
GETVALUEOUT = {
    "name": "GetValueOut", "cname": "CTransaction_GetValueOut", "kind": "func", "file": "src/primitives/transaction.cpp", "head": r"CAmount CTransaction::GetValueOut\(\)",
    "rules": [R("method-head:CTransaction::GetValueOut", r"CAmount CTransaction::GetValueOut\(\) const", "CAmount CTransaction_GetValueOut(const CTransaction* self)")] +
             rangefor("tx_out", r"vout", "self->vout", "self->vout_size", idx="i_out", required=False) + [THROWRT, R("assert", r"\bassert\(", "VERIF_ASSERT(", False)],
    "loops": [{"match": r"\bi_out\b", "contract": "LOOP_VALUEOUT", "prologue": "GHOST_VALUEOUT_STEP(i_out)", "required": False}],
}

CB = r"bool Chainstate::ConnectBlock\([^)]*\)"
# ConnectBlock: `nFees += txfee; if (!MoneyRange(nFees)) {...}` -- the per-transaction fee accumulation
FRAG_FEES = {
    "name": "fee_accumulation", "cname": "ConnectBlock_fee_accumulation", "kind": "frag", "file": VAL, "within": CB,
    "begin": r"nFees \+= txfee;", "end": r"prevheights\.resize\(tx\.vin\.size\(\)\);", "include_end": False,
    "prologue": "int ConnectBlock_fee_accumulation(CAmount* nFees_p, CAmount txfee, BlockValidationState* state_p)\n{\n    CAmount nFees = *nFees_p; int broke = 1;\n    do {",
    "epilogue": "    broke = 0;\n    } while (0);\n    *nFees_p = nFees;\n    return broke;\n}",
    "rules": [R("ref:state", r"(?<![\w.>])state\.", "state_p->", False), invalid_rule(r"state_p->", "BlockValidationResult", "BlockState_Invalid", state_arg="state_p")],
    "rules_post": [],
}
# ConnectBlock: the BIP68 gate of one transaction
FRAG_BIP68 = {
    "name": "bip68_gate", "cname": "ConnectBlock_bip68_gate", "kind": "frag", "file": VAL, "within": CB,
    "begin": r"prevheights\.resize\(tx\.vin\.size\(\)\);", "end": r"nSigOpsCost \+= GetTransactionSigOpCost\(", "include_end": False,
    # the fragment sits inside `if (!tx.IsCoinBase()) {` of the loop body: its closing brace is part of the cut text
    "prologue": "int ConnectBlock_bip68_gate(const CTransaction* tx_p, int nLockTimeFlags, int* prevheights, const CCoinsViewCache* view_p, const CBlockIndex* pindex, BlockValidationState* state_p)\n{\n    int broke = 1;\n    do { {",
    "epilogue": "    broke = 0;\n    } while (0);\n    return broke;\n}",
    "rules": [R("ghost:prevheights.resize(n)", r"prevheights\.resize\(tx\.vin\.size\(\)\);", "g_prevheights_size = tx_p->vin_size;", False),
              R("member:tx.vin.size()", r"tx\.vin\.size\(\)", "tx_p->vin_size", False),
              R("call:view.AccessCoin(tx.vin[j].prevout).nHeight", r"view\.AccessCoin\(tx\.vin\[j\]\.prevout\)\.nHeight", "CCoinsViewCache_AccessCoin(view_p, &tx_p->vin[j].prevout)->nHeight", False),
              R("call:SequenceLocks(tx, flags, prevheights, *pindex)", r"SequenceLocks\(tx, nLockTimeFlags, prevheights, \*pindex\)", "SequenceLocks(tx_p, nLockTimeFlags, prevheights, pindex)", False),
              R("state.Invalid(nonfinal)", r'state\.Invalid\(BlockValidationResult::BLOCK_CONSENSUS, "bad-txns-nonfinal",[^;]*\);', lambda m: 'BlockState_Invalid(state_p, BLOCK_CONSENSUS, SPEC_R_bad_txns_nonfinal /* "bad-txns-nonfinal" */);', False)],
    "loops": [{"match": r"\bsize_t j = 0\b", "contract": "LOOP_PREVHEIGHTS", "prologue": "GHOST_PREVH_STEP(j)", "required": False}],
}
# ConnectBlock: coinbase limit
FRAG_CBLIMIT = {
    "name": "coinbase_limit", "cname": "ConnectBlock_coinbase_limit", "kind": "frag", "file": VAL, "within": CB,
    "begin": r"CAmount blockReward = ", "end": r"if \(control\) \{\s*auto parallel_result", "include_end": False,
    "prologue": "void ConnectBlock_coinbase_limit(CAmount nFees, const CBlockIndex* pindex, const Consensus_Params* consensus_p, const CTransaction* coinbase_tx, BlockValidationState* state_p)\n{",
    "epilogue": "}",
    "rules": [R("ghost:params.GetConsensus()", r"params\.GetConsensus\(\)", "consensus_p", False),
              R("ghost:block.vtx[0]->GetValueOut() (own contract: sum of outputs)", r"block\.vtx\[0\]->GetValueOut\(\)", "g_cb_value_out", False),
              R("call:state.IsValid()", r"state\.IsValid\(\)", "BlockState_IsValid(state_p)", False),
              R("state.Invalid(bad-cb-amount)", r'state\.Invalid\(BlockValidationResult::BLOCK_CONSENSUS, "bad-cb-amount",\s*strprintf\([^;]*\)\);', lambda m: 'BlockState_Invalid(state_p, BLOCK_CONSENSUS, SPEC_R_bad_cb_amount /* "bad-cb-amount" */);', False)],
}
# ConnectBlock: the call `Consensus::CheckTxInputs(tx, tx_state, view, pindex->nHeight, txfee)` and what a failure does
FRAG_TXINPUTS_CALL = {
    "name": "txinputs_call", "cname": "ConnectBlock_txinputs_call", "kind": "frag", "file": VAL, "within": CB,
    "begin": r"CAmount txfee = 0;", "end": r"nFees \+= txfee;", "include_end": False,
    "prologue": "int ConnectBlock_txinputs_call(const CTransaction* tx_p, const CCoinsViewCache* view_p, const CBlockIndex* pindex, BlockValidationState* state_p, CAmount* txfee_out)\n{\n    int broke = 1;\n    do {",
    "epilogue": "    broke = 0;\n    *txfee_out = txfee;\n    } while (0);\n    return broke;\n}",
    "rules": [R("decl:TxValidationState tx_state", r"TxValidationState tx_state;", "TxValidationState tx_state = {0, 0, 0};", False),
              R("call:Consensus::CheckTxInputs(tx, tx_state, view, h, txfee)", r"Consensus::CheckTxInputs\(tx, tx_state, view, pindex->nHeight, txfee\)", "CheckTxInputs(tx_p, &tx_state, view_p, pindex->nHeight, &txfee)", False),
              R("state.Invalid(tx reason)", r"state\.Invalid\(BlockValidationResult::BLOCK_CONSENSUS,\s*tx_state\.GetRejectReason\(\),\s*tx_state\.GetDebugMessage\(\)[^;]*\);", "BlockState_Invalid_from_tx(state_p, BLOCK_CONSENSUS, &tx_state);", False)],
}
# ContextualCheckBlock: locktime cutoff selection + the IsFinalTx loop
FRAG_CUTOFF = {
    "name": "locktime_cutoff", "cname": "ContextualCheckBlock_locktime", "kind": "frag", "file": VAL,
    "within": r"static bool ContextualCheckBlock\([^)]*\)",
    "begin": r"const int nHeight = pindexPrev == nullptr \? 0 : pindexPrev->nHeight \+ 1;", "end": r"if \(DeploymentActiveAfter\(pindexPrev, chainman, Consensus::DEPLOYMENT_HEIGHTINCB\)\)", "include_end": False,
    "prologue": "bool ContextualCheckBlock_locktime(const CBlock* block_p, BlockValidationState* state_p, const CBlockIndex* pindexPrev, bool csv_active_after_prev)\n{",
    "epilogue": "    return 1;\n}",
    "rules": [R("ghost:DeploymentActiveAfter(pindexPrev, chainman, DEPLOYMENT_CSV)", r"DeploymentActiveAfter\(pindexPrev, chainman, Consensus::DEPLOYMENT_CSV\)", "csv_active_after_prev", False),
              R("assert", r"\bassert\(", "VERIF_ASSERT(", False),
              R("brace-init bool", r"bool enforce_locktime_median_time_past\{false\};", "bool enforce_locktime_median_time_past = 0;", False),
              R("brace-init int64 (ternary)", r"const int64_t nLockTimeCutoff\{([^;]*?)\};", r"const int64_t nLockTimeCutoff = (\1);", False, flags=16),
              R("ghost:pindexPrev->GetMedianTimePast()", r"pindexPrev->GetMedianTimePast\(\)", "CBlockIndex_GetMedianTimePast(pindexPrev)", False),
              R("member:block.GetBlockTime()", r"block\.GetBlockTime\(\)", "((int64_t)block_p->nTime)", False),
              R("rangefor:block.vtx", r"for \(const auto& tx : block\.vtx\)", "for (size_t i_tx = 0; i_tx < block_p->vtx_size; i_tx++)", False),
              R("uf:IsFinalTx(*tx, h, t)", r"IsFinalTx\(\*tx,", "IsFinalTx_call(block_p->vtx[i_tx],", False),
              R("state.Invalid(nonfinal)", r'state\.Invalid\(BlockValidationResult::BLOCK_CONSENSUS, "bad-txns-nonfinal", "non-final transaction"\)', 'BlockState_Invalid(state_p, BLOCK_CONSENSUS, SPEC_R_bad_txns_nonfinal /* "bad-txns-nonfinal" */)', False)],
    "loops": [{"match": r"\bi_tx\b", "contract": "LOOP_BLOCKTXS", "prologue": "GHOST_BLOCKTX_STEP(i_tx)", "required": False}],
}

# CCoinsViewCache::AddCoin: the head of the function up to the map access
FRAG_ADDCOIN = {
    "name": "AddCoin_head", "kind": "frag", "file": "src/coins.cpp", "within": r"void CCoinsViewCache::AddCoin\(const COutPoint &outpoint, Coin&& coin, bool possible_overwrite\)",
    "begin": r"assert\(!coin\.IsSpent\(\)\);", "end": r"CCoinsMap::iterator it;", "include_end": False,
    "prologue": "int AddCoin_head(bool coin_spent, bool script_unspendable)\n{", "epilogue": "    AddCoin_rest();\n    return 1;\n}",
    "rules": [R("assert", r"\bassert\(", "VERIF_ASSERT(", False), R("ghost:coin.IsSpent()", r"coin\.IsSpent\(\)", "coin_spent", False),
              R("ghost:coin.out.scriptPubKey.IsUnspendable()", r"coin\.out\.scriptPubKey\.IsUnspendable\(\)", "script_unspendable", False),
              R("void return -> 0", r"\breturn;", "return 0;", False)],
}
ISUNSPENDABLE = {
    "name": "IsUnspendable", "cname": "CScript_IsUnspendable", "kind": "func", "file": "src/script/script.h", "within_class": r"class CScript\b", "head": r"bool IsUnspendable\(\)",
    "rules": [R("method-head:CScript::IsUnspendable", r"bool IsUnspendable\(\) const", "bool CScript_IsUnspendable(const ByteVec* self)"),
              R("member:size()", r"(?<![\w.>])size\(\)", "self->size", False), R("member:*begin()", r"\*begin\(\)", "self->data[0]", False)],
}

FUNCS = [ISFINAL, CALCSEQ, EVALSEQ, SEQLOCKS, HAVEINPUTS, GETVALUEOUT, CHECKTXINPUTS]
NATIVE = {"src": "../txverify_replay.cpp", "c_src": "../txverify_native_slices.c", "c_lang": "c++",
          "repo_sources": ["src/consensus/tx_verify.cpp", "src/consensus/tx_check.cpp", "src/coins.cpp", "src/primitives/transaction.cpp"],
          "libs": ["libbitcoin_common.a", "libbitcoin_consensus.a", "libbitcoin_util.a", "libbitcoin_clientversion.a", "libbitcoin_crypto.a", "/repo/_build/src/secp256k1/lib/libsecp256k1.a"],
          "diff_n_quick": 20000, "diff_n_thorough": 400000}
