"""Slices for the witness-program dispatch (VerifyWitnessProgram, interpreter.cpp) rendered over views of the witness stack.
Shared by C12 (dispatch semantics) and C11 (the dispatch is monotone in its flags)."""
from engine.extract import R

IC, IH, SH, SC = "src/script/interpreter.cpp", "src/script/interpreter.h", "src/script/script.h", "src/script/script.cpp"
FLAG_ENUM = {"name": "script_verify_flag_name", "kind": "const", "file": IH, "pat": r"enum class script_verify_flag_name : uint8_t \{[^}]*\};", "emit": r"\g<0>",
             "rules": [R("enum class -> plain enum of bit positions", r"enum class script_verify_flag_name : uint8_t", "enum script_verify_flag_bits", True), R("enumerator names -> BIT_*", r"\bSCRIPT_VERIFY_(\w+)", r"BIT_SCRIPT_VERIFY_\1", True)]}
SCRIPT_ERROR = {"name": "ScriptError", "kind": "const", "file": "src/script/script_error.h", "pat": r"typedef enum ScriptError_t\s*\{[^}]*\} ScriptError;", "emit": r"\g<0>"}


def _c(name, file, ctype):
    return {"name": name, "kind": "const", "file": file, "pat": r"inline constexpr \w+(?: int)? " + name + r"(?: = |\{)([^;{}]+)\}?;", "emit": "#define " + name + r" ((" + ctype + r")(\1))"}


WITPROG_CONSTS = [_c("WITNESS_V0_SCRIPTHASH_SIZE", IH, "size_t"), _c("WITNESS_V0_KEYHASH_SIZE", IH, "size_t"), _c("WITNESS_V1_TAPROOT_SIZE", IH, "size_t"), _c("TAPROOT_LEAF_MASK", IH, "uint8_t"), _c("TAPROOT_LEAF_TAPSCRIPT", IH, "uint8_t"),
                  _c("TAPROOT_CONTROL_BASE_SIZE", IH, "size_t"), _c("TAPROOT_CONTROL_NODE_SIZE", IH, "size_t"), _c("TAPROOT_CONTROL_MAX_NODE_COUNT", IH, "size_t"), _c("TAPROOT_CONTROL_MAX_SIZE", IH, "size_t"),
                  _c("ANNEX_TAG", SH, "unsigned int"), _c("VALIDATION_WEIGHT_OFFSET", SH, "int64_t")]
_HEAD = r"static bool VerifyWitnessProgram\(const CScriptWitness& witness, int witversion, const std::vector<unsigned char>& program, script_verify_flags flags, const BaseSignatureChecker& checker, ScriptError\* serror, bool is_p2sh\)"
WITPROG_FUNCS = [
    {"name": "IsPayToAnchor", "kind": "func", "file": SC, "head": r"bool CScript::IsPayToAnchor\(int version, const std::vector<unsigned char>& program\)",
     "rules": [R("head", r"bool CScript::IsPayToAnchor\(int version, const std::vector<unsigned char>& program\)", "bool CScript_IsPayToAnchor(int version, const ByteVec* program)"),
               R("member:program.size()", r"program\.size\(\)", "program->size", True), R("index:program[i]", r"program\[", "program->data[", True)]},
    {"name": "VerifyWitnessProgram", "kind": "func", "file": IC, "head": _HEAD,
     "rules": [R("head: witness as a view of its size and last elements; the signature checker is a stub", _HEAD, "bool VerifyWitnessProgram(const WitView* witness, int witversion, const ByteVec* program, unsigned flags, ScriptError* serror, bool is_p2sh)"),
               R("ghost:exec_script is a tag naming where the executed script came from", r"CScript exec_script;", "long exec_script = EXEC_NONE;", True),
               R("view:span over witness.stack", r"std::span stack\{witness\.stack\};", "WitView stack = *witness;", True),
               R("decl:execdata", r"ScriptExecutionData execdata;", "ExecData execdata = {0};", True),
               R("view:SpanPopBack", r"const valtype& (\w+) = SpanPopBack\(stack\);", r"const ElemView \1 = WV_pop(&stack);", True),
               R("ghost:exec_script = element", r"exec_script = CScript\((\w+)\.begin\(\), \1\.end\(\)\);", r"exec_script = (long)\1.idx;", True),
               R("drop:hash_exec_script decl", r"uint256 hash_exec_script;", "", True),
               R("drop:SHA256 of the script (its comparison with the program is the stub below)", r"CSHA256\(\)\.Write\(exec_script\.data\(\), exec_script\.size\(\)\)\.Finalize\(hash_exec_script\.begin\(\)\);", "", True),
               R("stub:memcmp(SHA256(script), program)", r"memcmp\(hash_exec_script\.begin\(\), program\.data\(\), 32\)", "P2WSH_hash_mismatch(exec_script)", True),
               R("enum scope SigVersion::", r"SigVersion::(\w+)", r"SIGVERSION_\1", True),
               R("stub:ExecuteWitnessScript", r"ExecuteWitnessScript\(stack, exec_script, flags, (\w+), checker, execdata, serror\)", r"EWS_stub(&stack, exec_script, flags, \1, &execdata, serror)", True),
               R("ghost:implied P2PKH script", r"exec_script << OP_DUP << OP_HASH160 << program << OP_EQUALVERIFY << OP_CHECKSIG;", "exec_script = EXEC_P2PKH_OF_PROGRAM;", True),
               R("member:program.size()", r"program\.size\(\)", "program->size", True),
               R("view:stack.back().empty()", r"stack\.back\(\)\.empty\(\)", "(WV_back(&stack).size == 0)", True), R("view:stack.back()[0]", r"stack\.back\(\)\[0\]", "WV_back(&stack).byte0", True),
               R("member:stack.size()", r"stack\.size\(\)", "stack.n", True),
               R("ghost:annex hash", r"execdata\.m_annex_hash = \(HashWriter\{\} << annex\)\.GetSHA256\(\);", "execdata.m_annex_hash_of = annex.idx;", True),
               R("stub:checker.CheckSchnorrSignature", r"checker\.CheckSchnorrSignature\(stack\.front\(\), program, (\w+), execdata, serror\)", r"CheckSchnorr_stub(&stack, \1, &execdata, serror)", True),
               R("view:control.size()", r"control\.size\(\)", "control.size", True), R("view:control[0]", r"control\[0\]", "control.byte0", True),
               R("ghost:tapleaf hash (leaf version, script)", r"execdata\.m_tapleaf_hash = ComputeTapleafHash\(([^,]+), script\);", r"execdata.m_tapleaf_leaf_version = \1; execdata.m_tapleaf_script = script.idx;", True),
               R("stub:VerifyTaprootCommitment", r"VerifyTaprootCommitment\(control, program, execdata\.m_tapleaf_hash\)", "VerifyTaprootCommitment_stub(control.idx, &execdata)", True),
               R("ghost:serialized witness size", r"::GetSerializeSize\(witness\.stack\)", "(int64_t)witness->ser_size", True),
               R("static member call", r"CScript::IsPayToAnchor\(", "CScript_IsPayToAnchor(", True)]},
]
ASSUMPTIONS = ["VerifyWitnessProgram is proved over a view of the witness (its size, serialized size, and size / first byte of its last three elements -- no more than three are ever popped); SHA256(script) == program, VerifyTaprootCommitment, "
               "CheckSchnorrSignature and ExecuteWitnessScript are stubs with arbitrary verdicts that record what they were called with"]
