/* Contracts shared by C01 / C02 / C05: consensus/tx_verify.cpp, CCoinsViewCache::HaveInputs, CTransaction::GetValueOut and the
 * ConnectBlock / ContextualCheckBlock statement ranges around them.  Numbers are written out from the property statements
 * (21M BTC, 100 confirmations, 500,000,000, BIP68 bit layout), not taken from the code's constants. */
#include "verif_txverify.h"
#include "spec_reasons.h"

/* ---- ghost state ------------------------------------------------------------------------------ */
size_t g_n;                      /* arbitrary input index (forall n) */
size_t g_t;                      /* arbitrary transaction index in a block (forall t) */
size_t g_cur;                    /* loop position recorded at the head of the loop body of the function under proof */
size_t g_cnt;                    /* elements visited */
__int128 g_sum;                  /* mathematical sum of the values visited so far */
size_t g_hwit, g_twit;           /* witnesses: the input at which the height / time lock maximum is attained */
size_t g_prevheights_size;       /* prevHeights.size() */
int g_old_h;                     /* prevHeights[g_n] before the call */
size_t g_missing;                /* witness: an input without an unspent coin */
int g_thrown;                    /* GetValueOut threw */
const int64_t* g_anc_mtp;        /* g_anc_mtp[k]: MTP of the ancestor at height max(prevHeights[k]-1, 0), see include/verif_txverify.h */
const int* g_prevheights_ptr;    /* == prevHeights (for the stub) */

#define SPEC_MAX_MONEY ((int64_t)2100000000000000LL)
#define SPEC_MAXLEN ((size_t)0x02000000)
#define MR(v) ((v) >= 0 && (v) <= SPEC_MAX_MONEY)
#define NULLP(o) ((o).hash.w[0] == 0 && (o).hash.w[1] == 0 && (o).hash.w[2] == 0 && (o).hash.w[3] == 0 && (o).n == 0xffffffffu)
#define IS_CB(tx) ((tx)->vin_size == 1 && NULLP((tx)->vin[0].prevout))
#define FRESH_TX(tx) (__CPROVER_is_fresh(tx, sizeof(CTransaction)) && (tx)->vin_size <= SPEC_MAXLEN && (tx)->vout_size <= SPEC_MAXLEN && \
                      ((tx)->vin_size > 0 ==> __CPROVER_is_fresh((tx)->vin, sizeof(CTxIn) * (tx)->vin_size)))
#define STATE_FRESH(s) ((s)->mode_invalid == 0 && (s)->result == 0 && (s)->reason == 0)

/* ================= absolute lock time (IsFinalTx) ================= */
#ifdef TWIN_LOCK_LE
#define LOCK_SATISFIED(tx, h, t) ((tx)->nLockTime == 0 || (int64_t)(tx)->nLockTime <= ((int64_t)(tx)->nLockTime < 500000000 ? (int64_t)(h) : (int64_t)(t)))
#else
#define LOCK_SATISFIED(tx, h, t) ((tx)->nLockTime == 0 || (int64_t)(tx)->nLockTime < ((int64_t)(tx)->nLockTime < 500000000 ? (int64_t)(h) : (int64_t)(t)))
#endif
#define SEQ_FINAL_AT(tx, k) ((tx)->vin[k].nSequence == 0xffffffffu)
#define GHOST_ISFINAL_STEP(i) (g_cur = (i))
#define LOOP_ISFINAL \
    __CPROVER_assigns(i_in, g_cur) \
    __CPROVER_loop_invariant(i_in <= tx->vin_size) \
    __CPROVER_loop_invariant(g_n < i_in ==> SEQ_FINAL_AT(tx, g_n)) \
    __CPROVER_decreases(tx->vin_size - i_in)

VERIF_REACH_DECL(IsFinalTx)
bool IsFinalTx(const CTransaction* tx, int nBlockHeight, int64_t nBlockTime)
__CPROVER_requires(FRESH_TX(tx))
__CPROVER_ensures(LOCK_SATISFIED(tx, nBlockHeight, nBlockTime) ==> __CPROVER_return_value)
__CPROVER_ensures((__CPROVER_return_value && !LOCK_SATISFIED(tx, nBlockHeight, nBlockTime)) ==> (g_n < tx->vin_size ==> SEQ_FINAL_AT(tx, g_n)))
__CPROVER_ensures(!__CPROVER_return_value ==> (!LOCK_SATISFIED(tx, nBlockHeight, nBlockTime) && g_cur < tx->vin_size && !SEQ_FINAL_AT(tx, g_cur)))
VERIF_REACH_ENSURES(IsFinalTx, __CPROVER_return_value && tx->nLockTime != 0 && tx->nLockTime < 500000000)
VERIF_REACH_ENSURES(IsFinalTx, __CPROVER_return_value && tx->nLockTime >= 500000000 && LOCK_SATISFIED(tx, nBlockHeight, nBlockTime))
VERIF_REACH_ENSURES(IsFinalTx, __CPROVER_return_value && !LOCK_SATISFIED(tx, nBlockHeight, nBlockTime) && tx->vin_size > 1)
VERIF_REACH_ENSURES(IsFinalTx, !__CPROVER_return_value && g_cur > 0)
__CPROVER_assigns(g_cur);

/* ================= BIP68 relative lock time ================= */
#define SEQ(k) (tx->vin[k].nSequence)
#define ENFORCED (tx->version >= 2 && (flags & 1) != 0)
#define DISABLED(k) ((SEQ(k) & 0x80000000u) != 0)
#define TIMETYPE(k) ((SEQ(k) & 0x00400000u) != 0)
#define PREVHEIGHT_MAX ((int64_t)block->nHeight + 1)
/* last invalid height / time implied by input k whose coin was confirmed at height h (nLockTime semantics: "- 1") */
/* (spec arithmetic is done in 128 bits: the verifier also checks spec expressions for overflow) */
#define HLOCK(h, k) ((__int128)(h) + (__int128)(SEQ(k) & 0xffffu) - 1)
#ifdef TWIN_GRANULARITY
#define TLOCK(k) ((__int128)g_anc_mtp[k] + ((__int128)(SEQ(k) & 0xffffu) * 256) - 1)
#else
#define TLOCK(k) ((__int128)g_anc_mtp[k] + ((__int128)(SEQ(k) & 0xffffu) * 512) - 1)
#endif
#define GHOST_CALCSEQ_STEP(i) (g_cur = (i))
#define HMAX_INV(w) (nMinHeight >= -1 && (nMinHeight == -1 || (g_hwit < (w) && !DISABLED(g_hwit) && !TIMETYPE(g_hwit) && (__int128)nMinHeight == HLOCK(prevHeights[g_hwit], g_hwit))))
#define TMAX_INV(w) (nMinTime >= -1 && (nMinTime == -1 || (g_twit < (w) && !DISABLED(g_twit) && TIMETYPE(g_twit) && nMinTime == TLOCK(g_twit))))
#define DONE_AT_GN(first, second) (DISABLED(g_n) ? prevHeights[g_n] == 0 : (prevHeights[g_n] == g_old_h && (TIMETYPE(g_n) ? (second) >= TLOCK(g_n) : (__int128)(first) >= HLOCK(g_old_h, g_n))))
#define LOOP_CALCSEQ \
    __CPROVER_assigns(txinIndex, nMinHeight, nMinTime, g_cur, g_hwit, g_twit, __CPROVER_object_whole(prevHeights)) \
    __CPROVER_loop_invariant(txinIndex <= tx->vin_size) \
    __CPROVER_loop_invariant(HMAX_INV(txinIndex) && TMAX_INV(txinIndex)) \
    __CPROVER_loop_invariant(g_n < tx->vin_size ==> (g_n < txinIndex ? DONE_AT_GN(nMinHeight, nMinTime) : prevHeights[g_n] == g_old_h)) \
    __CPROVER_decreases(tx->vin_size - txinIndex)

#define FRESH_ANC(tx, ph) (__CPROVER_is_fresh(g_anc_mtp, sizeof(int64_t) * ((tx)->vin_size > 0 ? (tx)->vin_size : 1)))
#define FRESH_BLOCK(b) (__CPROVER_is_fresh(b, sizeof(CBlockIndex)) && (b)->nHeight >= 0 && (b)->nHeight <= INT_MAX - 65536 - 1)

VERIF_REACH_DECL(CalculateSequenceLocks)
LockPair CalculateSequenceLocks(const CTransaction* tx, int flags, int* prevHeights, const CBlockIndex* block)
__CPROVER_requires(FRESH_TX(tx) && FRESH_BLOCK(block) && g_prevheights_size == tx->vin_size && FRESH_ANC(tx, prevHeights))
/* (one int is allocated for the empty vector so that the pointer names an object; it is never accessed) */
__CPROVER_requires(__CPROVER_is_fresh(prevHeights, sizeof(int) * (tx->vin_size > 0 ? tx->vin_size : 1)) && g_prevheights_ptr == prevHeights)
__CPROVER_requires(g_n < tx->vin_size ==> (g_old_h == prevHeights[g_n] && g_old_h >= 0 && g_old_h <= PREVHEIGHT_MAX))
/* not enforced (version < 2 or flag off): no constraint, nothing touched */
__CPROVER_ensures(!ENFORCED ==> (__CPROVER_return_value.first == -1 && __CPROVER_return_value.second == -1 && (g_n < tx->vin_size ==> prevHeights[g_n] == g_old_h)))
/* enforced: every input with the disable bit clear is dominated by the result; disabled inputs are ignored and their height entry is zeroed */
__CPROVER_ensures((ENFORCED && g_n < tx->vin_size) ==> DONE_AT_GN(__CPROVER_return_value.first, __CPROVER_return_value.second))
/* and the result is not larger than needed: it is -1 or attained at an enabled input of the right type */
__CPROVER_ensures(__CPROVER_return_value.first >= -1 && (__CPROVER_return_value.first == -1 || (ENFORCED && g_hwit < tx->vin_size && !DISABLED(g_hwit) && !TIMETYPE(g_hwit) && (__int128)__CPROVER_return_value.first == HLOCK(prevHeights[g_hwit], g_hwit))))
__CPROVER_ensures(__CPROVER_return_value.second >= -1 && (__CPROVER_return_value.second == -1 || (ENFORCED && g_twit < tx->vin_size && !DISABLED(g_twit) && TIMETYPE(g_twit) && __CPROVER_return_value.second == TLOCK(g_twit))))
VERIF_REACH_ENSURES(CalculateSequenceLocks, !ENFORCED && tx->vin_size > 0)
VERIF_REACH_ENSURES(CalculateSequenceLocks, ENFORCED && __CPROVER_return_value.first > 0 && __CPROVER_return_value.second > 0 && tx->vin_size > 2)
VERIF_REACH_ENSURES(CalculateSequenceLocks, ENFORCED && g_n < tx->vin_size && DISABLED(g_n) && g_old_h > 0)
__CPROVER_assigns(g_cur, g_hwit, g_twit, __CPROVER_object_whole(prevHeights));

#ifdef VERIF_CBMC
int64_t __CPROVER_uninterpreted_mtp(const CBlockIndex* b);
static inline int64_t CBlockIndex_GetMedianTimePast(const CBlockIndex* b) { int64_t v = __CPROVER_uninterpreted_mtp(b); __CPROVER_assume(v >= 0 && v <= 0xffffffffLL); return v; }   /* VERIF_TRUSTED range of a median of uint32 */
#define MTP(b) __CPROVER_uninterpreted_mtp(b)
#endif

VERIF_REACH_DECL(EvaluateSequenceLocks)
bool EvaluateSequenceLocks(const CBlockIndex* block, LockPair lockPair)
__CPROVER_requires(__CPROVER_is_fresh(block, sizeof(CBlockIndex)) && __CPROVER_is_fresh(block->pprev, sizeof(CBlockIndex)))
#ifdef TWIN_EVAL_LE
__CPROVER_ensures(__CPROVER_return_value == (lockPair.first <= block->nHeight && lockPair.second < MTP(block->pprev)))
#else
__CPROVER_ensures(__CPROVER_return_value == (lockPair.first < block->nHeight && lockPair.second < MTP(block->pprev)))
#endif
__CPROVER_ensures(MTP(block->pprev) >= 0 && MTP(block->pprev) <= 0xffffffffLL)
VERIF_REACH_ENSURES(EvaluateSequenceLocks, __CPROVER_return_value)
VERIF_REACH_ENSURES(EvaluateSequenceLocks, !__CPROVER_return_value && lockPair.first < block->nHeight)
__CPROVER_assigns();

/* the statement for one transaction: every enabled relative lock is satisfied in `block` (whose predecessor's MTP is the clock) */
#define BIP68_OK_AT_GN (DISABLED(g_n) || (TIMETYPE(g_n) ? TLOCK(g_n) < MTP(block->pprev) : HLOCK(g_old_h, g_n) < (__int128)block->nHeight))
VERIF_REACH_DECL(SequenceLocks)
bool SequenceLocks(const CTransaction* tx, int flags, int* prevHeights, const CBlockIndex* block)
__CPROVER_requires(FRESH_TX(tx) && FRESH_BLOCK(block) && __CPROVER_is_fresh(block->pprev, sizeof(CBlockIndex)) && g_prevheights_size == tx->vin_size && FRESH_ANC(tx, prevHeights))
/* (one int is allocated for the empty vector so that the pointer names an object; it is never accessed) */
__CPROVER_requires(__CPROVER_is_fresh(prevHeights, sizeof(int) * (tx->vin_size > 0 ? tx->vin_size : 1)) && g_prevheights_ptr == prevHeights)
__CPROVER_requires(g_n < tx->vin_size ==> (g_old_h == prevHeights[g_n] && g_old_h >= 0 && g_old_h <= PREVHEIGHT_MAX))
__CPROVER_ensures(!ENFORCED ==> __CPROVER_return_value)
__CPROVER_ensures((__CPROVER_return_value && ENFORCED && g_n < tx->vin_size) ==> BIP68_OK_AT_GN)
/* a refusal is justified by a witness input whose lock is not yet satisfied */
__CPROVER_ensures(!__CPROVER_return_value ==> (ENFORCED && ((g_hwit < tx->vin_size && !DISABLED(g_hwit) && !TIMETYPE(g_hwit) && HLOCK(prevHeights[g_hwit], g_hwit) >= (__int128)block->nHeight) ||
                                                            (g_twit < tx->vin_size && !DISABLED(g_twit) && TIMETYPE(g_twit) && TLOCK(g_twit) >= MTP(block->pprev)))))
VERIF_REACH_ENSURES(SequenceLocks, __CPROVER_return_value && ENFORCED && tx->vin_size > 1)
VERIF_REACH_ENSURES(SequenceLocks, !__CPROVER_return_value)
__CPROVER_assigns(g_cur, g_hwit, g_twit, __CPROVER_object_whole(prevHeights));

/* ================= inputs exist (HaveInputs) ================= */
#define FRESH_VIEW(v, tx) (__CPROVER_is_fresh(v, sizeof(CCoinsViewCache)) && (v)->vin == (tx)->vin && (v)->n == (tx)->vin_size && ((tx)->vin_size > 0 ==> __CPROVER_is_fresh((v)->coins, sizeof(Coin) * (tx)->vin_size)))
#define UNSPENT_AT(v, k) ((v)->coins[k].out.nValue != -1)
#define GHOST_HAVE_STEP(i) (g_cur = (i))
#define LOOP_HAVEINPUTS \
    __CPROVER_assigns(i, g_cur) \
    __CPROVER_loop_invariant(i <= tx->vin_size) \
    __CPROVER_loop_invariant(g_n < i ==> UNSPENT_AT(self, g_n)) \
    __CPROVER_decreases(tx->vin_size - i)

bool CTransaction_IsCoinBase(const CTransaction* self)
__CPROVER_requires(__CPROVER_is_fresh(self, sizeof(*self)))
__CPROVER_requires(self->vin_size >= 1 && self->vin_size <= SPEC_MAXLEN && __CPROVER_is_fresh(self->vin, sizeof(CTxIn) * self->vin_size))
__CPROVER_ensures(__CPROVER_return_value == IS_CB(self))
__CPROVER_assigns();

VERIF_REACH_DECL(CCoinsViewCache_HaveInputs)
bool CCoinsViewCache_HaveInputs(const CCoinsViewCache* self, const CTransaction* tx)
__CPROVER_requires(FRESH_TX(tx) && tx->vin_size >= 1 && FRESH_VIEW(self, tx))
__CPROVER_ensures(IS_CB(tx) ==> __CPROVER_return_value)
__CPROVER_ensures((__CPROVER_return_value && !IS_CB(tx)) ==> (g_n < tx->vin_size ==> UNSPENT_AT(self, g_n)))
__CPROVER_ensures(!__CPROVER_return_value ==> (!IS_CB(tx) && g_cur < tx->vin_size && !UNSPENT_AT(self, g_cur) && (g_n < g_cur ==> UNSPENT_AT(self, g_n))))
VERIF_REACH_ENSURES(CCoinsViewCache_HaveInputs, __CPROVER_return_value && !IS_CB(tx) && tx->vin_size > 1)
VERIF_REACH_ENSURES(CCoinsViewCache_HaveInputs, !__CPROVER_return_value && g_cur > 0)
__CPROVER_assigns(g_cur);

/* ================= value conservation ================= */
/* CTransaction::GetValueOut(): the sum of the outputs, or an exception if any prefix leaves [0, 21M BTC] */
#define GHOST_VALUEOUT_STEP(i) (g_cur = (i), g_cnt = g_cnt + 1, g_sum = g_sum + (__int128)self->vout[i].nValue)
#define OUT_OK(tx, k) MR((tx)->vout[k].nValue)
#define LOOP_VALUEOUT \
    __CPROVER_assigns(i_out, nValueOut, g_cur, g_cnt, g_sum, g_thrown) \
    __CPROVER_loop_invariant(i_out <= self->vout_size && g_cnt == i_out && !g_thrown) \
    __CPROVER_loop_invariant(MR(nValueOut) && (__int128)nValueOut == g_sum) \
    __CPROVER_loop_invariant(g_n < i_out ==> OUT_OK(self, g_n)) \
    __CPROVER_decreases(self->vout_size - i_out)
bool MoneyRange(const CAmount nValue)
__CPROVER_ensures(__CPROVER_return_value == MR(nValue))
__CPROVER_assigns();

VERIF_REACH_DECL(CTransaction_GetValueOut)
CAmount CTransaction_GetValueOut(const CTransaction* self)
__CPROVER_requires(__CPROVER_is_fresh(self, sizeof(CTransaction)) && self->vout_size <= SPEC_MAXLEN && (self->vout_size > 0 ==> __CPROVER_is_fresh(self->vout, sizeof(CTxOut) * self->vout_size)))
__CPROVER_requires(g_sum == 0 && g_cnt == 0 && g_thrown == 0)
__CPROVER_ensures(!g_thrown ==> (g_cnt == self->vout_size && (__int128)__CPROVER_return_value == g_sum && MR(__CPROVER_return_value) && (g_n < self->vout_size ==> OUT_OK(self, g_n))))
__CPROVER_ensures(g_thrown ==> (g_cur < self->vout_size && (!OUT_OK(self, g_cur) || g_sum > SPEC_MAX_MONEY) && (g_n < g_cur ==> OUT_OK(self, g_n)) && g_sum - (__int128)self->vout[g_cur].nValue <= SPEC_MAX_MONEY))
VERIF_REACH_ENSURES(CTransaction_GetValueOut, !g_thrown && self->vout_size > 2)
VERIF_REACH_ENSURES(CTransaction_GetValueOut, g_thrown && g_cur > 1 && OUT_OK(self, g_cur))
__CPROVER_assigns(g_cur, g_cnt, g_sum, g_thrown);

/* Consensus::CheckTxInputs */
#define VCOIN(k) (inputs->coins[k])
#ifdef TWIN_MATURITY_99
#define MATURE_AT(k) (!VCOIN(k).fCoinBase || (int64_t)nSpendHeight - (int64_t)VCOIN(k).nHeight >= 99)
#else
#define MATURE_AT(k) (!VCOIN(k).fCoinBase || (int64_t)nSpendHeight - (int64_t)VCOIN(k).nHeight >= 100)
#endif
#define INPUT_OK_AT(k) (UNSPENT_AT(inputs, k) && MATURE_AT(k) && MR(VCOIN(k).out.nValue))
#define GHOST_TXIN_STEP(i) (g_cur = (i), g_cnt = g_cnt + 1, g_sum = g_sum + (__int128)VCOIN(i).out.nValue)
#define LOOP_TXIN \
    __CPROVER_assigns(i, nValueIn, g_cur, g_cnt, g_sum, state->mode_invalid, state->result, state->reason) \
    __CPROVER_loop_invariant(i <= tx->vin_size && g_cnt == i && STATE_FRESH(state)) \
    __CPROVER_loop_invariant(MR(nValueIn) && (__int128)nValueIn == g_sum) \
    __CPROVER_loop_invariant(g_n < i ==> INPUT_OK_AT(g_n)) \
    __CPROVER_decreases(tx->vin_size - i)
#define REASON(r) (!__CPROVER_return_value && state->reason == (r))
#define ALL_INPUTS_OK (g_cnt == tx->vin_size && (g_n < tx->vin_size ==> INPUT_OK_AT(g_n)) && g_sum >= 0 && g_sum <= SPEC_MAX_MONEY)
CAmount g_value_out;             /* what tx.GetValueOut() returns in CheckTxInputs (its own contract: the sum of the outputs) */

VERIF_REACH_DECL(CheckTxInputs)
bool CheckTxInputs(const CTransaction* tx, TxValidationState* state, const CCoinsViewCache* inputs, int nSpendHeight, CAmount* txfee)
__CPROVER_requires(FRESH_TX(tx) && tx->vin_size >= 1 && !IS_CB(tx) && FRESH_VIEW(inputs, tx) && __CPROVER_is_fresh(state, sizeof(*state)) && __CPROVER_is_fresh(txfee, sizeof(*txfee)))
__CPROVER_requires(STATE_FRESH(state) && nSpendHeight >= 0 && g_sum == 0 && g_cnt == 0)
/* CheckTransaction ran first (its contract, C03): the outputs and their sum are in range, so GetValueOut() returns that sum and does not throw */
__CPROVER_requires(MR(g_value_out))
#ifndef VERIF_SAFETY_ONLY
/* accept => every input exists unspent, is mature if coinbase, has a value in range; the inputs sum (no overflow) to at least the outputs; fee = in - out */
__CPROVER_ensures(__CPROVER_return_value ==> (ALL_INPUTS_OK && g_sum >= (__int128)g_value_out && (__int128)*txfee == g_sum - (__int128)g_value_out && MR(*txfee) && STATE_FRESH(state)))
/* reject => one of the five reasons with the matching result code, the named rule violated at a witness, every earlier rule satisfied, fee untouched */
__CPROVER_ensures(!__CPROVER_return_value ==> (state->mode_invalid == 1 && *txfee == __CPROVER_old(*txfee)))
__CPROVER_ensures(REASON(SPEC_R_bad_txns_inputs_missingorspent) ==> (state->result == TX_MISSING_INPUTS && g_cur < tx->vin_size && !UNSPENT_AT(inputs, g_cur)))
__CPROVER_ensures((!__CPROVER_return_value && state->reason != SPEC_R_bad_txns_inputs_missingorspent) ==> (g_n < tx->vin_size ==> UNSPENT_AT(inputs, g_n)))
__CPROVER_ensures(REASON(SPEC_R_bad_txns_premature_spend_of_coinbase) ==> (state->result == TX_PREMATURE_SPEND && g_cur < tx->vin_size && !MATURE_AT(g_cur) && (g_n < g_cur ==> INPUT_OK_AT(g_n))))
__CPROVER_ensures(REASON(SPEC_R_bad_txns_inputvalues_outofrange) ==> (state->result == TX_CONSENSUS && g_cur < tx->vin_size && MATURE_AT(g_cur) && (!MR(VCOIN(g_cur).out.nValue) || g_sum > SPEC_MAX_MONEY) && (g_n < g_cur ==> INPUT_OK_AT(g_n))))
__CPROVER_ensures(REASON(SPEC_R_bad_txns_in_belowout) ==> (state->result == TX_CONSENSUS && ALL_INPUTS_OK && g_sum < (__int128)g_value_out))
__CPROVER_ensures(!__CPROVER_return_value ==> (state->reason == SPEC_R_bad_txns_inputs_missingorspent || state->reason == SPEC_R_bad_txns_premature_spend_of_coinbase || state->reason == SPEC_R_bad_txns_inputvalues_outofrange || state->reason == SPEC_R_bad_txns_in_belowout))
#endif
VERIF_REACH_ENSURES(CheckTxInputs, __CPROVER_return_value && tx->vin_size > 2 && *txfee > 0)
VERIF_REACH_ENSURES(CheckTxInputs, REASON(SPEC_R_bad_txns_inputs_missingorspent))
VERIF_REACH_ENSURES(CheckTxInputs, REASON(SPEC_R_bad_txns_premature_spend_of_coinbase) && g_cur > 0)
VERIF_REACH_ENSURES(CheckTxInputs, REASON(SPEC_R_bad_txns_inputvalues_outofrange) && g_cur > 1 && MR(VCOIN(g_cur).out.nValue))
VERIF_REACH_ENSURES(CheckTxInputs, REASON(SPEC_R_bad_txns_in_belowout))
__CPROVER_assigns(state->mode_invalid, state->result, state->reason, *txfee, g_cur, g_cnt, g_sum, g_missing);
