/* Fragment contracts (ConnectBlock / ContextualCheckBlock statement ranges) and the harnesses of C01 / C02 / C05.
 * Included after txverify_contracts.h; `slices.h` is included in between (see the bottom of the contract part). */

/* ---- ConnectBlock: Consensus::CheckTxInputs(tx, tx_state, view, pindex->nHeight, txfee) and what its failure does ---- */
#define inputs view_p
#define tx tx_p
#define nSpendHeight (pindex->nHeight)
VERIF_REACH_DECL(ConnectBlock_txinputs_call)
int ConnectBlock_txinputs_call(const CTransaction* tx_p, const CCoinsViewCache* view_p, const CBlockIndex* pindex, BlockValidationState* state_p, CAmount* txfee_out)
__CPROVER_requires(FRESH_TX(tx_p) && tx_p->vin_size >= 1 && !IS_CB(tx_p) && FRESH_VIEW(view_p, tx_p) && __CPROVER_is_fresh(pindex, sizeof(*pindex)) && pindex->nHeight >= 0)
__CPROVER_requires(__CPROVER_is_fresh(state_p, sizeof(*state_p)) && STATE_FRESH(state_p) && __CPROVER_is_fresh(txfee_out, sizeof(CAmount)) && MR(g_value_out) && g_sum == 0 && g_cnt == 0)
/* the loop goes on only if the inputs exist, are mature AT THIS BLOCK'S HEIGHT and cover the outputs; the fee handed on is in - out */
__CPROVER_ensures(__CPROVER_return_value == 0 ==> (STATE_FRESH(state_p) && ALL_INPUTS_OK && g_sum >= (__int128)g_value_out && (__int128)*txfee_out == g_sum - (__int128)g_value_out && MR(*txfee_out)))
/* otherwise the block is invalid (consensus) with the transaction's reason and the loop is left */
__CPROVER_ensures(__CPROVER_return_value != 0 ==> (__CPROVER_return_value == 1 && state_p->mode_invalid == 1 && state_p->result == BLOCK_CONSENSUS &&
    (state_p->reason == SPEC_R_bad_txns_inputs_missingorspent || state_p->reason == SPEC_R_bad_txns_premature_spend_of_coinbase || state_p->reason == SPEC_R_bad_txns_inputvalues_outofrange || state_p->reason == SPEC_R_bad_txns_in_belowout)))
__CPROVER_ensures((__CPROVER_return_value != 0 && state_p->reason == SPEC_R_bad_txns_premature_spend_of_coinbase) ==> (g_cur < tx_p->vin_size && !MATURE_AT(g_cur)))
VERIF_REACH_ENSURES(ConnectBlock_txinputs_call, __CPROVER_return_value == 0 && *txfee_out > 0)
VERIF_REACH_ENSURES(ConnectBlock_txinputs_call, __CPROVER_return_value == 1 && state_p->reason == SPEC_R_bad_txns_premature_spend_of_coinbase)
__CPROVER_assigns(state_p->mode_invalid, state_p->result, state_p->reason, *txfee_out, g_cur, g_cnt, g_sum, g_missing);
#undef inputs
#undef tx
#undef nSpendHeight

/* ---- ConnectBlock: nFees += txfee; range check ---- */
VERIF_REACH_DECL(ConnectBlock_fee_accumulation)
int ConnectBlock_fee_accumulation(CAmount* nFees_p, CAmount txfee, BlockValidationState* state_p)
__CPROVER_requires(__CPROVER_is_fresh(nFees_p, sizeof(CAmount)) && __CPROVER_is_fresh(state_p, sizeof(*state_p)) && STATE_FRESH(state_p) && MR(*nFees_p) && MR(txfee))
#ifdef TWIN_FEES
__CPROVER_ensures(__CPROVER_return_value == 0 ==> (*nFees_p == __CPROVER_old(*nFees_p) + txfee && *nFees_p >= 0 && *nFees_p < SPEC_MAX_MONEY && STATE_FRESH(state_p)))
#else
__CPROVER_ensures(__CPROVER_return_value == 0 ==> (*nFees_p == __CPROVER_old(*nFees_p) + txfee && MR(*nFees_p) && STATE_FRESH(state_p)))
#endif
__CPROVER_ensures(__CPROVER_return_value != 0 ==> (__CPROVER_return_value == 1 && state_p->mode_invalid == 1 && state_p->result == BLOCK_CONSENSUS && state_p->reason == SPEC_R_bad_txns_accumulated_fee_outofrange && (__int128)__CPROVER_old(*nFees_p) + txfee > SPEC_MAX_MONEY))
VERIF_REACH_ENSURES(ConnectBlock_fee_accumulation, __CPROVER_return_value == 0 && *nFees_p == SPEC_MAX_MONEY)
VERIF_REACH_ENSURES(ConnectBlock_fee_accumulation, __CPROVER_return_value == 1)
__CPROVER_assigns(*nFees_p, state_p->mode_invalid, state_p->result, state_p->reason);

/* ---- ConnectBlock: coinbase limit ---- */
typedef struct { int nSubsidyHalvingInterval; } Consensus_Params;
#define SPEC_50BTC ((int64_t)5000000000LL)
#define SPEC_SUBSIDY(h, iv) (((h) / (iv)) >= 64 ? (int64_t)0 : (SPEC_50BTC >> ((h) / (iv))))
CAmount GetBlockSubsidy(int nHeight, const Consensus_Params* consensusParams)
__CPROVER_requires(__CPROVER_is_fresh(consensusParams, sizeof(*consensusParams)))
__CPROVER_requires(nHeight >= 0 && consensusParams->nSubsidyHalvingInterval > 0)
__CPROVER_ensures(__CPROVER_return_value == SPEC_SUBSIDY(nHeight, consensusParams->nSubsidyHalvingInterval))
__CPROVER_ensures(__CPROVER_return_value >= 0 && __CPROVER_return_value <= SPEC_50BTC)
__CPROVER_assigns();

CAmount g_cb_value_out;          /* what block.vtx[0]->GetValueOut() returns (its own contract: the sum of the coinbase outputs) */
#ifdef TWIN_CB_LIMIT
#define CB_WITHIN_LIMIT ((__int128)g_cb_value_out < (__int128)nFees + SPEC_SUBSIDY(pindex->nHeight, consensus_p->nSubsidyHalvingInterval))
#else
#define CB_WITHIN_LIMIT ((__int128)g_cb_value_out <= (__int128)nFees + SPEC_SUBSIDY(pindex->nHeight, consensus_p->nSubsidyHalvingInterval))
#endif
VERIF_REACH_DECL(ConnectBlock_coinbase_limit)
void ConnectBlock_coinbase_limit(CAmount nFees, const CBlockIndex* pindex, const Consensus_Params* consensus_p, const CTransaction* coinbase_tx, BlockValidationState* state_p)
__CPROVER_requires(__CPROVER_is_fresh(pindex, sizeof(*pindex)) && pindex->nHeight >= 0 && __CPROVER_is_fresh(pindex->pprev, sizeof(CBlockIndex)) && pindex->pprev->nHeight == pindex->nHeight - 1)
__CPROVER_requires(__CPROVER_is_fresh(consensus_p, sizeof(*consensus_p)) && consensus_p->nSubsidyHalvingInterval > 0 && __CPROVER_is_fresh(coinbase_tx, sizeof(CTransaction)))
__CPROVER_requires(__CPROVER_is_fresh(state_p, sizeof(*state_p)) && (STATE_FRESH(state_p) || state_p->mode_invalid == 1) && MR(nFees) && MR(g_cb_value_out))
/* a block that is still valid afterwards pays its coinbase at most fees + subsidy(height of THIS block) */
__CPROVER_ensures(state_p->mode_invalid == 0 ==> (__CPROVER_old(state_p->mode_invalid) == 0 && CB_WITHIN_LIMIT))
/* and the only way this range invalidates a valid block is an overpaying coinbase, reported as bad-cb-amount */
__CPROVER_ensures((state_p->mode_invalid == 1 && __CPROVER_old(state_p->mode_invalid) == 0) ==> (!CB_WITHIN_LIMIT && state_p->result == BLOCK_CONSENSUS && state_p->reason == SPEC_R_bad_cb_amount))
__CPROVER_ensures(__CPROVER_old(state_p->mode_invalid) == 1 ==> (state_p->mode_invalid == 1 && state_p->reason == __CPROVER_old(state_p->reason) && state_p->result == __CPROVER_old(state_p->result)))
VERIF_REACH_ENSURES(ConnectBlock_coinbase_limit, state_p->mode_invalid == 0 && g_cb_value_out > 0 && pindex->nHeight > 1000)
VERIF_REACH_ENSURES(ConnectBlock_coinbase_limit, state_p->mode_invalid == 1 && __CPROVER_old(state_p->mode_invalid) == 0)
__CPROVER_assigns(state_p->mode_invalid, state_p->result, state_p->reason);

/* ---- ConnectBlock: BIP68 gate of one transaction ---- */
#define tx tx_p
#define block pindex
#define LOOP_PREVHEIGHTS \
    __CPROVER_assigns(j, __CPROVER_object_whole(prevheights)) \
    __CPROVER_loop_invariant(j <= tx_p->vin_size) \
    __CPROVER_loop_invariant((g_n < j && g_n < tx_p->vin_size) ==> prevheights[g_n] == (int)view_p->coins[g_n].nHeight) \
    __CPROVER_decreases(tx_p->vin_size - j)
#define GHOST_PREVH_STEP(j) ((void)0)
#define flags nLockTimeFlags
VERIF_REACH_DECL(ConnectBlock_bip68_gate)
int ConnectBlock_bip68_gate(const CTransaction* tx_p, int nLockTimeFlags, int* prevheights, const CCoinsViewCache* view_p, const CBlockIndex* pindex, BlockValidationState* state_p)
__CPROVER_requires(FRESH_TX(tx_p) && tx_p->vin_size >= 1 && FRESH_VIEW(view_p, tx_p) && FRESH_BLOCK(pindex) && __CPROVER_is_fresh(pindex->pprev, sizeof(CBlockIndex)) && FRESH_ANC(tx_p, prevheights))
__CPROVER_requires(__CPROVER_is_fresh(prevheights, sizeof(int) * tx_p->vin_size) && g_prevheights_ptr == prevheights && __CPROVER_is_fresh(state_p, sizeof(*state_p)) && STATE_FRESH(state_p))
/* the heights handed to the lock computation are the confirmation heights of the coins being spent, which are not above this block */
__CPROVER_requires(g_n < tx_p->vin_size ==> (g_old_h == (int)view_p->coins[g_n].nHeight && g_old_h <= pindex->nHeight))
__CPROVER_ensures(__CPROVER_return_value == 0 ==> (STATE_FRESH(state_p) && ((ENFORCED && g_n < tx_p->vin_size) ==> BIP68_OK_AT_GN)))
__CPROVER_ensures(__CPROVER_return_value != 0 ==> (__CPROVER_return_value == 1 && ENFORCED && state_p->mode_invalid == 1 && state_p->result == BLOCK_CONSENSUS && state_p->reason == SPEC_R_bad_txns_nonfinal))
VERIF_REACH_ENSURES(ConnectBlock_bip68_gate, __CPROVER_return_value == 0 && ENFORCED)
VERIF_REACH_ENSURES(ConnectBlock_bip68_gate, __CPROVER_return_value == 1)
__CPROVER_assigns(state_p->mode_invalid, state_p->result, state_p->reason, g_cur, g_hwit, g_twit, g_prevheights_size, __CPROVER_object_whole(prevheights));
#undef tx
#undef block
#undef flags

/* ---- ContextualCheckBlock: lock-time cutoff and the finality loop ---- */
typedef struct { uint32_t nTime; const CTransaction* const* vtx; size_t vtx_size; } CBlock;
/* IsFinalTx(*tx, h, t) inside the loop: g_isfinal[k] IS, by definition, IsFinalTx(vtx[k], height of this block, cutoff of the statement) (IsFinalTx's own contract
 * says what that means); the stub asserts that the code asks exactly that question while working on transaction k (= g_cur). */
const bool* g_isfinal; int g_exp_height; int64_t g_exp_cutoff; const CBlock* g_block;
#ifdef VERIF_CBMC
static inline bool IsFinalTx_call(const CTransaction* tx, int h, int64_t t)
{
    __CPROVER_assert(tx == g_block->vtx[g_cur], "IsFinalTx is asked about the transaction of the current iteration");
    __CPROVER_assert(h == g_exp_height, "IsFinalTx is asked at the height of the block being checked (previous height + 1, genesis 0)");
    __CPROVER_assert(t == g_exp_cutoff, "IsFinalTx is asked at the statement's cutoff: previous block's median time past once BIP113 is active, else the block's own time");
    return g_isfinal[g_cur];
}
#endif
#define GHOST_BLOCKTX_STEP(i) (g_cur = (i))
#define SPEC_HEIGHT (pindexPrev == NULL ? 0 : pindexPrev->nHeight + 1)
#ifdef TWIN_CUTOFF
#define SPEC_CUTOFF ((int64_t)block_p->nTime)
#else
#define SPEC_CUTOFF (csv_active_after_prev ? MTP(pindexPrev) : (int64_t)block_p->nTime)
#endif
#define LOOP_BLOCKTXS \
    __CPROVER_assigns(i_tx, g_cur) \
    __CPROVER_loop_invariant(i_tx <= block_p->vtx_size) \
    __CPROVER_loop_invariant(g_t < i_tx ==> g_isfinal[g_t]) \
    __CPROVER_decreases(block_p->vtx_size - i_tx)
VERIF_REACH_DECL(ContextualCheckBlock_locktime)
bool ContextualCheckBlock_locktime(const CBlock* block_p, BlockValidationState* state_p, const CBlockIndex* pindexPrev, bool csv_active_after_prev)
__CPROVER_requires(__CPROVER_is_fresh(block_p, sizeof(*block_p)) && block_p->vtx_size <= SPEC_MAXLEN && __CPROVER_is_fresh(block_p->vtx, sizeof(CTransaction*) * (block_p->vtx_size > 0 ? block_p->vtx_size : 1)))
__CPROVER_requires(__CPROVER_is_fresh(g_isfinal, sizeof(bool) * (block_p->vtx_size > 0 ? block_p->vtx_size : 1)) && g_block == block_p)
__CPROVER_requires((pindexPrev == NULL || (__CPROVER_is_fresh(pindexPrev, sizeof(CBlockIndex)) && pindexPrev->nHeight >= 0 && pindexPrev->nHeight < INT_MAX)) && (csv_active_after_prev ==> pindexPrev != NULL))
__CPROVER_requires(__CPROVER_is_fresh(state_p, sizeof(*state_p)) && STATE_FRESH(state_p))
__CPROVER_requires(g_exp_height == SPEC_HEIGHT && g_exp_cutoff == SPEC_CUTOFF)
/* accepted => every transaction is final at (height of this block, MTP of the previous block once BIP113 is active, else the block's own time) */
__CPROVER_ensures(__CPROVER_return_value ==> (STATE_FRESH(state_p) && (g_t < block_p->vtx_size ==> g_isfinal[g_t])))
__CPROVER_ensures(!__CPROVER_return_value ==> (state_p->mode_invalid == 1 && state_p->result == BLOCK_CONSENSUS && state_p->reason == SPEC_R_bad_txns_nonfinal && g_cur < block_p->vtx_size && !g_isfinal[g_cur]))
VERIF_REACH_ENSURES(ContextualCheckBlock_locktime, __CPROVER_return_value && csv_active_after_prev && block_p->vtx_size > 1)
VERIF_REACH_ENSURES(ContextualCheckBlock_locktime, __CPROVER_return_value && !csv_active_after_prev && pindexPrev == NULL)
VERIF_REACH_ENSURES(ContextualCheckBlock_locktime, !__CPROVER_return_value && g_cur > 0)
__CPROVER_assigns(state_p->mode_invalid, state_p->result, state_p->reason, g_cur);

/* ---- CCoinsViewCache::AddCoin: unspendable outputs never enter the set ---- */
int g_map_touched;
static inline void AddCoin_rest(void) { g_map_touched = 1; }     /* everything after the early return (map emplace etc.): not modelled */
int AddCoin_head(bool coin_spent, bool script_unspendable)
__CPROVER_requires(!coin_spent && g_map_touched == 0)
__CPROVER_ensures(script_unspendable ==> (g_map_touched == 0 && __CPROVER_return_value == 0))
__CPROVER_ensures(!script_unspendable ==> (g_map_touched == 1 && __CPROVER_return_value == 1))
__CPROVER_assigns(g_map_touched);
/* CScript::IsUnspendable(): starts with OP_RETURN (0x6a) or longer than 10,000 bytes */
#include "verif_ser.h"
bool CScript_IsUnspendable(const ByteVec* self)
__CPROVER_requires(__CPROVER_is_fresh(self, sizeof(ByteVec)) && self->size <= 20000 && (self->size > 0 ==> __CPROVER_is_fresh(self->data, self->size)))
#ifdef TWIN_UNSPENDABLE
__CPROVER_ensures(__CPROVER_return_value == ((self->size > 0 && self->data[0] == 0x6a) || self->size >= 10000))
#else
__CPROVER_ensures(__CPROVER_return_value == ((self->size > 0 && self->data[0] == 0x6a) || self->size > 10000))
#endif
__CPROVER_assigns();
