/* harness functions (entry points) shared by C01 / C02 / C05; each plan lists the ones it runs */
size_t nondet_size_t(void); int nondet_int(void); int64_t nondet_i64(void); bool nondet_bool(void); CAmount nondet_amount(void);

void h_IsFinalTx(void) { const CTransaction* tx; g_n = nondet_size_t(); VERIF_REACH_ON(IsFinalTx); IsFinalTx(tx, nondet_int(), nondet_i64()); }
void h_CalculateSequenceLocks(void)
{
    const CTransaction* tx; int* ph; const CBlockIndex* b; g_n = nondet_size_t(); g_old_h = nondet_int(); g_prevheights_size = nondet_size_t();
    VERIF_REACH_ON(CalculateSequenceLocks); CalculateSequenceLocks(tx, nondet_int(), ph, b);
}
void h_EvaluateSequenceLocks(void) { const CBlockIndex* b; LockPair lp = {nondet_int(), nondet_i64()}; VERIF_REACH_ON(EvaluateSequenceLocks); EvaluateSequenceLocks(b, lp); }
void h_SequenceLocks(void)
{
    const CTransaction* tx; int* ph; const CBlockIndex* b; g_n = nondet_size_t(); g_old_h = nondet_int(); g_prevheights_size = nondet_size_t();
    VERIF_REACH_ON(SequenceLocks); SequenceLocks(tx, nondet_int(), ph, b);
}
void h_MoneyRange(void) { bool r = MoneyRange(nondet_amount()); VERIF_REACH_PT("MoneyRange returns"); if (r) VERIF_REACH_PT("in range"); }
void h_IsCoinBase(void) { CTransaction* t; bool r = CTransaction_IsCoinBase(t); if (r) VERIF_REACH_PT("coinbase"); else VERIF_REACH_PT("not coinbase"); }
void h_HaveInputs(void) { const CCoinsViewCache* v; const CTransaction* tx; g_n = nondet_size_t(); VERIF_REACH_ON(CCoinsViewCache_HaveInputs); CCoinsViewCache_HaveInputs(v, tx); }
void h_GetValueOut(void) { const CTransaction* tx; g_n = nondet_size_t(); VERIF_REACH_ON(CTransaction_GetValueOut); CTransaction_GetValueOut(tx); }
void h_CheckTxInputs(void)
{
    const CTransaction* tx; TxValidationState* st; const CCoinsViewCache* v; CAmount* fee; g_n = nondet_size_t(); g_value_out = nondet_amount();
    VERIF_REACH_ON(CheckTxInputs); CheckTxInputs(tx, st, v, nondet_int(), fee);
}
void h_txinputs_call(void)
{
    const CTransaction* tx; const CCoinsViewCache* v; const CBlockIndex* pi; BlockValidationState* st; CAmount* fee; g_n = nondet_size_t(); g_value_out = nondet_amount();
    VERIF_REACH_ON(ConnectBlock_txinputs_call); ConnectBlock_txinputs_call(tx, v, pi, st, fee);
}
void h_fee_accumulation(void) { CAmount* f; BlockValidationState* st; VERIF_REACH_ON(ConnectBlock_fee_accumulation); ConnectBlock_fee_accumulation(f, nondet_amount(), st); }
void h_GetBlockSubsidy(void) { const Consensus_Params* p; CAmount r = GetBlockSubsidy(nondet_int(), p); VERIF_REACH_PT("after GetBlockSubsidy"); if (r == 0) VERIF_REACH_PT("zero subsidy"); }
void h_coinbase_limit(void)
{
    const CBlockIndex* pi; const Consensus_Params* cp; const CTransaction* cb; BlockValidationState* st; g_cb_value_out = nondet_amount();
    VERIF_REACH_ON(ConnectBlock_coinbase_limit); ConnectBlock_coinbase_limit(nondet_amount(), pi, cp, cb, st);
}
void h_bip68_gate(void)
{
    const CTransaction* tx; int* ph; const CCoinsViewCache* v; const CBlockIndex* pi; BlockValidationState* st; g_n = nondet_size_t(); g_old_h = nondet_int();
    VERIF_REACH_ON(ConnectBlock_bip68_gate); ConnectBlock_bip68_gate(tx, nondet_int(), ph, v, pi, st);
}
void h_locktime_cutoff(void) { const CBlock* b; BlockValidationState* st; const CBlockIndex* prev; g_t = nondet_size_t(); g_exp_height = nondet_int(); g_exp_cutoff = nondet_i64(); VERIF_REACH_ON(ContextualCheckBlock_locktime); ContextualCheckBlock_locktime(b, st, prev, nondet_bool()); }
void h_AddCoin_head(void) { bool u = nondet_bool(); int r = AddCoin_head(0, u); if (r) VERIF_REACH_PT("coin added"); else VERIF_REACH_PT("unspendable output dropped"); }
void h_IsUnspendable(void) { const ByteVec* s; bool r = CScript_IsUnspendable(s); if (r) VERIF_REACH_PT("unspendable"); else VERIF_REACH_PT("spendable"); }
