/* native build (g++ -x c++) of the extracted tx_verify / coins / transaction slices: contracts and ghost steps vanish */
#define TU_TXV 1
#include <string.h>
#include <arith_uint256.h>
extern "C" {
#include "verif_txverify.h"
#include "verif_ser.h"
#include "spec_reasons.h"
size_t g_n, g_cur, g_hwit, g_twit, g_prevheights_size, g_t; CAmount g_value_out, g_cb_value_out; int g_thrown, g_map_touched;
int64_t CBlockIndex_GetMedianTimePast(const CBlockIndex* b);      /* provided by the harness from the real chain */
typedef struct { int nSubsidyHalvingInterval; } Consensus_Params;
typedef struct { uint32_t nTime; const CTransaction* const* vtx; size_t vtx_size; } CBlock;
static inline void AddCoin_rest(void) { g_map_touched = 1; }
#define IsFinalTx_call(tx, h, t) IsFinalTx(tx, h, t)
#define LOOP_ISFINAL
#define LOOP_CALCSEQ
#define LOOP_HAVEINPUTS
#define LOOP_VALUEOUT
#define LOOP_TXIN
#define LOOP_PREVHEIGHTS
#define LOOP_BLOCKTXS
#define GHOST_ISFINAL_STEP(i) ((void)0)
#define GHOST_CALCSEQ_STEP(i) (g_cur = (i))
#define GHOST_HAVE_STEP(i) ((void)0)
#define GHOST_VALUEOUT_STEP(i) ((void)0)
#define GHOST_TXIN_STEP(i) ((void)0)
#define GHOST_PREVH_STEP(i) ((void)0)
#define GHOST_BLOCKTX_STEP(i) ((void)0)
#include "slices.h"
}
