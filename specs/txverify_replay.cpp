// Native harness for C01 / C02 / C05: the real consensus/tx_verify.cpp, consensus/tx_check.cpp, coins.cpp, primitives/transaction.cpp
// (compiled from the working tree) vs the extracted C text (xc_*) vs property-level oracles written from the statements.
#include <chain.h>
#include <coins.h>
#include <consensus/amount.h>
#include <consensus/consensus.h>
#include <consensus/tx_check.h>
#include <consensus/tx_verify.h>
#include <consensus/validation.h>
#include <primitives/transaction.h>
#include <script/script.h>
#include <algorithm>
#include <memory>
#include "replay_util.h"
#include "verif_tx_native.h"

struct xCoin { xc_CTxOut out; unsigned int fCoinBase : 1; uint32_t nHeight : 31; };
struct xView { const xc_CTxIn* vin; size_t n; const xCoin* coins; };
struct xLockPair { int first; int64_t second; };
struct xBlockIndex { xBlockIndex* pprev; xBlockIndex* pskip; int nHeight; uint32_t nStatus; unsigned int nTx; uint32_t nTime; uint32_t nBits; int32_t nSequenceId; int32_t nVersion; arith_uint256 nChainWork; };
extern "C" {
extern size_t g_prevheights_size; extern CAmount g_value_out; extern int g_thrown;
bool xc_IsFinalTx(const xc_CTransaction*, int, int64_t);
xLockPair xc_CalculateSequenceLocks(const xc_CTransaction*, int, int*, const xBlockIndex*);
bool xc_EvaluateSequenceLocks(const xBlockIndex*, xLockPair);
bool xc_CCoinsViewCache_HaveInputs(const xView*, const xc_CTransaction*);
CAmount xc_CTransaction_GetValueOut(const xc_CTransaction*);
bool xc_CheckTxInputs(const xc_CTransaction*, xc_TxValidationState*, const xView*, int, CAmount*);
}
// the real chain the extracted code's MTP callbacks are answered from
static const CBlockIndex* g_real_block = nullptr;
extern "C" int64_t CBlockIndex_AncestorMTP(const xBlockIndex*, int h) { return g_real_block->GetAncestor(h)->GetMedianTimePast(); }
extern "C" int64_t CBlockIndex_GetMedianTimePast(const xBlockIndex*) { return g_real_block->pprev->GetMedianTimePast(); }

#define BAD(...) do { rv::g_stats.real_violations++; if (rv::g_stats.real_violations <= 8) { std::printf("REAL-VIOLATION " __VA_ARGS__); std::printf("\n"); } } while (0)
#define DIS(...) do { rv::g_stats.disagreements++; if (rv::g_stats.disagreements <= 8) { std::printf("DISAGREE " __VA_ARGS__); std::printf("\n"); } } while (0)
static const int64_t MAXM = 2100000000000000LL;

static COutPoint rnd_outpoint(rv::Rng& r) { unsigned char b[32]; for (auto& c : b) c = (unsigned char)r.next(); return COutPoint(Txid::FromUint256(uint256(std::span<const unsigned char>(b, 32))), (uint32_t)r.below(4)); }

// ---------------- IsFinalTx ----------------
static void check_isfinal(rv::Rng& r)
{
    CMutableTransaction m; size_t n = 1 + r.below(4);
    for (size_t i = 0; i < n; i++) { CTxIn in; in.prevout = rnd_outpoint(r); in.nSequence = r.below(3) ? 0xffffffffu : (r.below(2) ? 0xfffffffeu : (uint32_t)r.next()); m.vin.push_back(in); }
    m.vout.emplace_back(1, CScript());
    int h = (int)r.below(3) ? (int)r.below(1000000) : (int)(499999990 + r.below(20)); int64_t t = r.below(3) ? 500000000 + (int64_t)r.below(1500000000) : (int64_t)r.below(700000000);
    static const int D[] = {-2, -1, 0, 1, 2};
    switch (r.below(5)) { case 0: m.nLockTime = 0; break; case 1: m.nLockTime = (uint32_t)std::max<int64_t>(0, (int64_t)h + D[r.below(5)]); break; case 2: m.nLockTime = (uint32_t)std::max<int64_t>(0, t + D[r.below(5)]); break; case 3: m.nLockTime = 500000000u + D[r.below(5)]; break; default: m.nLockTime = (uint32_t)r.next(); }
    CTransaction tx(m); bool real = IsFinalTx(tx, h, t); rvtx::Shim sh(tx); bool xr = xc_IsFinalTx(&sh.tx, h, t);
    bool sat = tx.nLockTime == 0 || (int64_t)tx.nLockTime < ((int64_t)tx.nLockTime < 500000000 ? (int64_t)h : t);
    bool allfinal = std::all_of(tx.vin.begin(), tx.vin.end(), [](const CTxIn& i) { return i.nSequence == 0xffffffffu; });
    rv::g_stats.inputs++;
    if (real != xr) DIS("IsFinalTx locktime=%u h=%d t=%lld", tx.nLockTime, h, (long long)t);
    if (real != (sat || allfinal)) BAD("IsFinalTx(nLockTime=%u, height=%d, time=%lld, all inputs final=%d) = %d, statement says %d", tx.nLockTime, h, (long long)t, allfinal, real, sat || allfinal);
}

// ---------------- BIP68 ----------------
struct Chain { std::vector<std::unique_ptr<CBlockIndex>> v; CBlockIndex next;
    explicit Chain(rv::Rng& r, int len) { uint32_t t = 1500000000u + (uint32_t)r.below(1000); for (int i = 0; i < len; i++) { auto b = std::make_unique<CBlockIndex>(); b->nHeight = i; b->pprev = i ? v.back().get() : nullptr; t += (uint32_t)r.below(3) == 0 ? 0 : (uint32_t)r.below(1200); b->nTime = r.below(6) == 0 ? t - (uint32_t)r.below(600) : t; b->BuildSkip(); v.push_back(std::move(b)); }
        next.nHeight = len; next.pprev = v.back().get(); next.nTime = t + 600; next.BuildSkip(); }
    int64_t mtp_at(int h) const { std::vector<int64_t> ts; for (int i = h; i >= 0 && i > h - 11; i--) ts.push_back(v[i]->nTime); std::sort(ts.begin(), ts.end()); return ts[ts.size() / 2]; } };
static void check_bip68(rv::Rng& r)
{
    int len = 12 + (int)r.below(60); Chain ch(r, len); g_real_block = &ch.next;
    CMutableTransaction m; m.version = r.below(4) == 0 ? 1 : 2 + (uint32_t)r.below(2); size_t n = 1 + r.below(4); std::vector<int> ph(n);
    int64_t tipmtp = ch.mtp_at(len - 1);
    for (size_t i = 0; i < n; i++) {
        CTxIn in; in.prevout = rnd_outpoint(r); ph[i] = (int)r.below(len + 2 > 0 ? len + 2 : 1); if (ph[i] > len) ph[i] = len;
        uint32_t seq; int mode = (int)r.below(6);
        if (mode == 0) seq = 0x80000000u | (uint32_t)r.next();
        else if (mode <= 2) { int64_t want = (int64_t)len - ph[i] + 1 + ((int64_t)r.below(5) - 2); seq = (uint32_t)std::clamp<int64_t>(want, 0, 0xffff); }          // height lock around the boundary
        else if (mode <= 4) { int64_t base = ch.mtp_at(std::max(ph[i] - 1, 0)); int64_t need = (tipmtp - base + 1 + 511) / 512 + ((int64_t)r.below(5) - 2); seq = 0x00400000u | (uint32_t)std::clamp<int64_t>(need, 0, 0xffff); }
        else seq = (uint32_t)r.next() & 0x0040ffffu;
        if (r.below(8) == 0) seq |= (uint32_t)r.next() & 0x7fbf0000u;     // junk in the unused bits
        in.nSequence = seq; m.vin.push_back(in);
    }
    m.vout.emplace_back(1, CScript()); CTransaction tx(m); int flags = r.below(5) == 0 ? 0 : (int)(1 | (r.below(3) == 0 ? 2 : 0));
    std::vector<int> ph_real = ph, ph_xc = ph;
    auto lp = CalculateSequenceLocks(tx, flags, ph_real, ch.next);
    rvtx::Shim sh(tx); xBlockIndex xb{}; xBlockIndex xprev{}; xb.nHeight = ch.next.nHeight; xb.pprev = &xprev; g_prevheights_size = n;
    xLockPair xl = xc_CalculateSequenceLocks(&sh.tx, flags, ph_xc.data(), &xb);
    // oracle from BIP68
    int wf = -1; int64_t ws = -1; std::vector<int> ph_want = ph;
    if (tx.version >= 2 && (flags & 1)) for (size_t i = 0; i < n; i++) { uint32_t s = tx.vin[i].nSequence; if (s & 0x80000000u) { ph_want[i] = 0; continue; } if (s & 0x00400000u) ws = std::max(ws, ch.mtp_at(std::max(ph[i] - 1, 0)) + (int64_t)(s & 0xffff) * 512 - 1); else wf = std::max(wf, ph[i] + (int)(s & 0xffff) - 1); }
    rv::g_stats.inputs++;
    if (lp.first != xl.first || lp.second != xl.second || ph_real != ph_xc) DIS("CalculateSequenceLocks real=(%d,%lld) xc=(%d,%lld)", lp.first, (long long)lp.second, xl.first, (long long)xl.second);
    if (lp.first != wf || lp.second != ws || ph_real != ph_want) BAD("CalculateSequenceLocks(version=%u flags=%d, %zu inputs, seq0=0x%08x coinheight0=%d) = (%d,%lld), BIP68 says (%d,%lld)%s", tx.version, flags, n, tx.vin[0].nSequence, ph[0], lp.first, (long long)lp.second, wf, (long long)ws, ph_real != ph_want ? " [prevHeights differ]" : "");
    bool ev = EvaluateSequenceLocks(ch.next, lp); bool xev = xc_EvaluateSequenceLocks(&xb, xLockPair{lp.first, lp.second});
    bool wev = lp.first < ch.next.nHeight && lp.second < tipmtp;
    if (ev != xev) DIS("EvaluateSequenceLocks");
    if (ev != wev) BAD("EvaluateSequenceLocks(height=%d, prev MTP=%lld, lock=(%d,%lld)) = %d, statement says %d", ch.next.nHeight, (long long)tipmtp, lp.first, (long long)lp.second, ev, wev);
    std::vector<int> ph3 = ph; bool sl = SequenceLocks(tx, flags, ph3, ch.next); if (sl != (wf < ch.next.nHeight && ws < tipmtp)) BAD("SequenceLocks = %d, BIP68 says %d (lock (%d,%lld), height %d, prev MTP %lld)", sl, !sl, wf, (long long)ws, ch.next.nHeight, (long long)tipmtp);
}

// ---------------- CheckTxInputs / HaveInputs / GetValueOut ----------------
static CAmount rnd_amount(rv::Rng& r) { static const std::vector<int64_t> E = {0, 1, MAXM, MAXM / 2, MAXM / 3, MAXM - 1, 5000000000LL}; return std::max<int64_t>(0, std::min<int64_t>(r.pick(E), MAXM + 3)); }
static void check_inputs(rv::Rng& r)
{
    CCoinsViewCache view(&CoinsViewEmpty::Get()); CMutableTransaction m; size_t n = 1 + r.below(5); int spend_h = 100 + (int)r.below(1000000);
    std::vector<xCoin> xcoins(n); bool any_missing = false;
    for (size_t i = 0; i < n; i++) {
        CTxIn in; in.prevout = rnd_outpoint(r); m.vin.push_back(in);
        bool missing = r.below(12) == 0; bool cb = r.below(3) == 0; int h = cb && r.below(2) ? spend_h - 100 + ((int)r.below(5) - 2) : (int)r.below(spend_h + 1); if (h < 0) h = 0;
        CAmount v = r.below(4) == 0 ? rnd_amount(r) : (CAmount)r.below(MAXM / (n + 1)); if (v == -1) v = 0;
        if (missing) { any_missing = true; xcoins[i] = xCoin{{-1}, 0, 0}; }
        else { CScript spk; spk << OP_TRUE; view.AddCoin(in.prevout, Coin(CTxOut(v, spk), h, cb), false); xcoins[i] = xCoin{{v}, cb, (uint32_t)h}; }
    }
    // outputs: valid (CheckTransaction ran first), total around the input total
    __int128 in_total = 0; for (auto& c : xcoins) if (c.out.nValue > 0) in_total += c.out.nValue;
    CAmount out_total = (CAmount)std::min<__int128>(MAXM, std::max<__int128>(0, in_total + ((int64_t)r.below(5) - 2) * (r.below(2) ? 1 : (int64_t)r.below(1000000))));
    size_t no = 1 + r.below(3); CAmount left = out_total; for (size_t i = 0; i < no; i++) { CAmount v = i + 1 == no ? left : (CAmount)r.below((uint64_t)left + 1); left -= v; m.vout.emplace_back(v, CScript()); }
    CTransaction tx(m);
    // HaveInputs
    bool hv = view.HaveInputs(tx); rvtx::Shim sh(tx); xView xv{sh.tx.vin, n, xcoins.data()}; bool xhv = xc_CCoinsViewCache_HaveInputs(&xv, &sh.tx);
    rv::g_stats.inputs++;
    if (hv != xhv) DIS("HaveInputs real=%d xc=%d", hv, xhv);
    if (hv != !any_missing) BAD("HaveInputs = %d although %s input lacks an unspent coin", hv, any_missing ? "an" : "no");
    // CheckTxInputs
    TxValidationState st; CAmount fee = -7; bool real = Consensus::CheckTxInputs(tx, st, view, spend_h, fee);
    xc_TxValidationState xs{}; CAmount xfee = -7; g_value_out = tx.GetValueOut(); bool xr = xc_CheckTxInputs(&sh.tx, &xs, &xv, spend_h, &xfee);
    std::string want; __int128 sum = 0;
    if (any_missing) want = "bad-txns-inputs-missingorspent";
    else { for (size_t i = 0; i < n && want.empty(); i++) { if (xcoins[i].fCoinBase && spend_h - (int)xcoins[i].nHeight < 100) want = "bad-txns-premature-spend-of-coinbase"; else { sum += xcoins[i].out.nValue; if (xcoins[i].out.nValue < 0 || xcoins[i].out.nValue > MAXM || sum > MAXM) want = "bad-txns-inputvalues-outofrange"; } }
        if (want.empty() && sum < out_total) want = "bad-txns-in-belowout"; }
    std::string rr = real ? "" : st.GetRejectReason();
    rv::g_stats.inputs++;
    if (real != xr || fee != xfee || (!real && rvtx::fnv(rr) != xs.reason)) DIS("CheckTxInputs real=%d/%s/%lld xc=%d/%08x/%lld", real, rr.c_str(), (long long)fee, xr, xs.reason, (long long)xfee);
    if (rr != want || (real && (__int128)fee != sum - out_total) || (!real && fee != -7))
        BAD("CheckTxInputs(%zu inputs, in=%lld, out=%lld, spend height %d, coinbase depth0=%d) = %s fee=%lld, statement says %s fee=%lld", n, (long long)sum, (long long)out_total, spend_h, xcoins[0].fCoinBase ? spend_h - (int)xcoins[0].nHeight : -1, real ? "accept" : rr.c_str(), (long long)fee, want.empty() ? "accept" : want.c_str(), want.empty() ? (long long)(sum - out_total) : -7LL);
}
static void check_valueout(rv::Rng& r)
{
    CMutableTransaction m; size_t n = r.below(5); m.vin.emplace_back(); static const std::vector<int64_t> E = {0, 1, -1, MAXM, MAXM + 1, MAXM / 2, MAXM / 2 + 1, INT64_MAX, INT64_MIN};
    for (size_t i = 0; i < n; i++) m.vout.emplace_back(r.below(3) ? (CAmount)r.below(MAXM / 2 + 2) : (CAmount)r.pick(E), CScript());
    CTransaction tx(m); bool threw = false; CAmount v = 0; try { v = tx.GetValueOut(); } catch (const std::runtime_error&) { threw = true; }
    rvtx::Shim sh(tx); g_thrown = 0; CAmount xv = xc_CTransaction_GetValueOut(&sh.tx);
    __int128 s = 0; bool bad = false; for (auto& o : tx.vout) { if (o.nValue < 0 || o.nValue > MAXM) { bad = true; break; } s += o.nValue; if (s > MAXM) { bad = true; break; } }
    rv::g_stats.inputs++;
    if (threw != (g_thrown != 0) || (!threw && v != xv)) DIS("GetValueOut real=%d/%lld xc=%d/%lld", threw, (long long)v, g_thrown, (long long)xv);
    if (threw != bad || (!threw && (__int128)v != s)) BAD("GetValueOut of %zu outputs = %s%lld, the sum is %s", n, threw ? "exception " : "", (long long)v, bad ? "out of range" : std::to_string((long long)s).c_str());
}
// ---------------- duplicate inputs (C02; real CheckTransaction only, the extracted text is C03's) ----------------
static void check_dups(rv::Rng& r)
{
    CMutableTransaction m; size_t n = 2 + r.below(6); std::vector<COutPoint> pool; for (size_t i = 0; i < n; i++) pool.push_back(rnd_outpoint(r));
    bool dup = r.below(2); for (size_t i = 0; i < n; i++) m.vin.emplace_back(pool[i]);
    if (dup) { size_t a = r.below(n), b = r.below(n); if (a == b) b = (a + 1 + r.below(n - 1)) % n; m.vin[b].prevout = m.vin[a].prevout; }
    m.vout.emplace_back(1, CScript()); CTransaction tx(m); TxValidationState st; bool ok = CheckTransaction(tx, st);
    rv::g_stats.inputs++;
    if (ok == dup || (dup && st.GetRejectReason() != "bad-txns-inputs-duplicate")) { std::string pos; for (size_t i = 0; i < n; i++) for (size_t j = 0; j < i; j++) if (tx.vin[i].prevout == tx.vin[j].prevout) pos = "inputs " + std::to_string(j) + " and " + std::to_string(i) + " of " + std::to_string(n);
        BAD("CheckTransaction = %s for a transaction whose %s name the same outpoint", ok ? "accept" : st.GetRejectReason().c_str(), dup ? pos.c_str() : "inputs never"); }
}
int main(int argc, char** argv)
{
    auto a = rv::parse(argc, argv); rv::Rng rng(a.seed); uint64_t n = a.diff ? a.n : 100000;
    for (uint64_t i = 0; i < n; i++) { check_isfinal(rng); check_valueout(rng); if (i % 2 == 0) check_inputs(rng); if (i % 4 == 0) { check_bip68(rng); check_dups(rng); } }
    rv::report();
    return rv::g_stats.real_violations ? 1 : (rv::g_stats.disagreements ? 3 : 0);
}
