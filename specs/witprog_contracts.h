/* Contract of VerifyWitnessProgram (BIP141 / BIP341 dispatch) over views; included after the extracted constants, before the extracted function. */
#ifndef WITPROG_CONTRACTS_H
#define WITPROG_CONTRACTS_H
#define WP_F(name) (1u << BIT_SCRIPT_VERIFY_##name)
#ifndef SCRIPT_VERIFY_TAPROOT   /* script_verify_flags is a bitset over the extracted enum of bit positions */
#define SCRIPT_VERIFY_TAPROOT WP_F(TAPROOT)
#define SCRIPT_VERIFY_DISCOURAGE_UPGRADABLE_TAPROOT_VERSION WP_F(DISCOURAGE_UPGRADABLE_TAPROOT_VERSION)
#define SCRIPT_VERIFY_DISCOURAGE_UPGRADABLE_WITNESS_PROGRAM WP_F(DISCOURAGE_UPGRADABLE_WITNESS_PROGRAM)
#endif
#ifndef SIGVERSION_DEFINED
#define SIGVERSION_DEFINED
enum { SIGVERSION_BASE = 0, SIGVERSION_WITNESS_V0 = 1, SIGVERSION_TAPROOT = 2, SIGVERSION_TAPSCRIPT = 3 };
#endif
typedef struct { size_t idx; size_t size; unsigned char byte0; } ElemView;                           /* one stack element: its position, size and first byte */
typedef struct { size_t n, n0, ser_size; ElemView last[3]; } WitView;                                 /* n0: size at entry; last[k]: element n0-1-k */
typedef struct { bool m_annex_present, m_annex_init, m_tapleaf_hash_init, m_validation_weight_left_init; int64_t m_validation_weight_left; size_t m_annex_hash_of; unsigned char m_tapleaf_leaf_version; size_t m_tapleaf_script; } ExecData;
#define EXEC_NONE (-1L)
#define EXEC_P2PKH_OF_PROGRAM (-2L)
/* arbitrary verdicts of the stubs (inputs), and what they were called with (outputs) */
bool g_p2wsh_mismatch, g_commit_ok, g_schnorr_ok, g_ews_ok; ScriptError g_ews_err, g_schnorr_err;
bool g_hash_called; long g_hashed_script;
bool g_ews_called; size_t g_ews_stack_n; long g_ews_script; unsigned g_ews_flags; int g_ews_sigversion; ExecData g_ews_ed;
bool g_schnorr_called; size_t g_schnorr_stack_n; int g_schnorr_sigversion; ExecData g_schnorr_ed;
bool g_commit_called; size_t g_commit_control; ExecData g_commit_ed;
static inline ElemView WV_back(const WitView* st) { size_t k = st->n0 - st->n; __CPROVER_assert(st->n > 0 && st->n <= st->n0 && k < 3, "stack view: back() of a non-empty stack, at most three elements popped"); ElemView e = st->last[k]; e.idx = st->n - 1; return e; }
static inline ElemView WV_pop(WitView* st) { ElemView e = WV_back(st); st->n = st->n - 1; return e; }
static inline bool P2WSH_hash_mismatch(long script) { g_hash_called = 1; g_hashed_script = script; return g_p2wsh_mismatch; }
static inline bool EWS_stub(const WitView* st, long script, unsigned flags, int sigversion, const ExecData* ed, ScriptError* serror)
{ __CPROVER_assert(!g_ews_called, "ExecuteWitnessScript runs at most once"); g_ews_called = 1; g_ews_stack_n = st->n; g_ews_script = script; g_ews_flags = flags; g_ews_sigversion = sigversion; g_ews_ed = *ed; if (serror) *serror = g_ews_ok ? SCRIPT_ERR_OK : g_ews_err; return g_ews_ok; }
static inline bool CheckSchnorr_stub(const WitView* st, int sigversion, const ExecData* ed, ScriptError* serror)
{ __CPROVER_assert(st->n >= 1, "stack.front() exists"); g_schnorr_called = 1; g_schnorr_stack_n = st->n; g_schnorr_sigversion = sigversion; g_schnorr_ed = *ed; if (!g_schnorr_ok && serror) *serror = g_schnorr_err; return g_schnorr_ok; }
static inline bool VerifyTaprootCommitment_stub(size_t control_idx, const ExecData* ed) { g_commit_called = 1; g_commit_control = control_idx; g_commit_ed = *ed; return g_commit_ok; }
#ifndef WITPROG_NO_SERROR_HELPERS
static inline bool set_error(ScriptError* serror, ScriptError e) { if (serror) *serror = e; return 0; }
static inline bool set_success(ScriptError* serror) { if (serror) *serror = SCRIPT_ERR_OK; return 1; }
#endif

#define WP_N (witness->n)
#define WP_ANNEX (WP_N >= 2 && witness->last[0].size != 0 && witness->last[0].byte0 == 0x50)
#define WP_M (WP_N - (WP_ANNEX ? 1u : 0u))                               /* stack size after dropping the annex */
#define WP_CTRL (witness->last[WP_ANNEX ? 1 : 0])
#define WP_LEAFVER ((unsigned char)(WP_CTRL.byte0 & 0xfe))
#define WP_CTRL_BAD (WP_CTRL.size < 33 || WP_CTRL.size > 33 + 32 * 128 || (WP_CTRL.size - 33) % 32 != 0)
#define WP_V0 (witversion == 0)
#define WP_TAPROOT (witversion == 1 && program->size == 32 && !is_p2sh)
#define WP_ANCHOR (!is_p2sh && witversion == 1 && program->size == 2 && program->data[0] == 0x4e && program->data[1] == 0x73)
#define WP_ERR(e) (!__CPROVER_return_value && *serror == (e))
#define WP_OK (__CPROVER_return_value && *serror == SCRIPT_ERR_OK)
#define WP_NONE_CALLED (!g_hash_called && !g_ews_called && !g_schnorr_called && !g_commit_called)
#define WP_TR_ON (WP_TAPROOT && (flags & WP_F(TAPROOT)))
#define WP_EWS_RESULT (g_ews_called && g_ews_flags == flags && (__CPROVER_return_value != 0) == (g_ews_ok != 0) && *serror == (g_ews_ok ? SCRIPT_ERR_OK : g_ews_err))
#define WP_VERDICTS_CANON (g_p2wsh_mismatch <= 1 && g_commit_ok <= 1 && g_schnorr_ok <= 1 && g_ews_ok <= 1)
VERIF_REACH_DECL(VerifyWitnessProgram)
bool VerifyWitnessProgram(const WitView* witness, int witversion, const ByteVec* program, unsigned flags, ScriptError* serror, bool is_p2sh)
__CPROVER_requires(__CPROVER_is_fresh(witness, sizeof(WitView)) && witness->n == witness->n0 && witness->ser_size <= 0x100000000ull)
__CPROVER_requires(__CPROVER_is_fresh(program, sizeof(ByteVec)) && program->size >= 2 && program->size <= 40 && __CPROVER_is_fresh(program->data, 40))
__CPROVER_requires(__CPROVER_is_fresh(serror, sizeof(ScriptError)))
__CPROVER_requires(witversion >= 0 && witversion <= 16)
__CPROVER_requires(WP_NONE_CALLED)
__CPROVER_requires(g_ews_err != SCRIPT_ERR_OK && g_schnorr_err != SCRIPT_ERR_OK)
/* BIP141, version 0: P2WSH (32 bytes: the last element is the script, its SHA256 is the program), P2WPKH (20 bytes: exactly two elements), anything else fails */
__CPROVER_ensures((WP_V0 && program->size == 32 && WP_N == 0) ==> (WP_ERR(SCRIPT_ERR_WITNESS_PROGRAM_WITNESS_EMPTY) && WP_NONE_CALLED))
__CPROVER_ensures((WP_V0 && program->size == 32 && WP_N > 0) ==> (g_hash_called && g_hashed_script == (long)(WP_N - 1) && !g_schnorr_called && !g_commit_called))
__CPROVER_ensures((WP_V0 && program->size == 32 && WP_N > 0 && g_p2wsh_mismatch) ==> (WP_ERR(SCRIPT_ERR_WITNESS_PROGRAM_MISMATCH) && !g_ews_called))
__CPROVER_ensures((WP_V0 && program->size == 32 && WP_N > 0 && !g_p2wsh_mismatch) ==> (WP_EWS_RESULT && g_ews_sigversion == SIGVERSION_WITNESS_V0 && g_ews_script == (long)(WP_N - 1) && g_ews_stack_n == WP_N - 1))
__CPROVER_ensures((WP_V0 && program->size == 20 && WP_N != 2) ==> (WP_ERR(SCRIPT_ERR_WITNESS_PROGRAM_MISMATCH) && WP_NONE_CALLED))
__CPROVER_ensures((WP_V0 && program->size == 20 && WP_N == 2) ==> (WP_EWS_RESULT && g_ews_sigversion == SIGVERSION_WITNESS_V0 && g_ews_script == EXEC_P2PKH_OF_PROGRAM && g_ews_stack_n == 2 && !g_hash_called && !g_schnorr_called && !g_commit_called))
__CPROVER_ensures((WP_V0 && program->size != 32 && program->size != 20) ==> (WP_ERR(SCRIPT_ERR_WITNESS_PROGRAM_WRONG_LENGTH) && WP_NONE_CALLED))
/* BIP341, version 1 / 32 bytes / not wrapped in P2SH: without the TAPROOT flag anyone can spend; with it: key path (one element after the annex) or script path */
#ifndef TWIN_TAPROOT_OFF
__CPROVER_ensures((WP_TAPROOT && !(flags & WP_F(TAPROOT))) ==> (WP_OK && WP_NONE_CALLED))
#else
__CPROVER_ensures((WP_TAPROOT && !(flags & WP_F(TAPROOT))) ==> (WP_OK && WP_NONE_CALLED && !(flags & WP_F(DISCOURAGE_UPGRADABLE_WITNESS_PROGRAM))))
#endif
__CPROVER_ensures((WP_TR_ON && WP_N == 0) ==> (WP_ERR(SCRIPT_ERR_WITNESS_PROGRAM_WITNESS_EMPTY) && WP_NONE_CALLED))
__CPROVER_ensures((WP_TR_ON && WP_N > 0 && WP_M == 1) ==> (g_schnorr_called && g_schnorr_sigversion == SIGVERSION_TAPROOT && g_schnorr_stack_n == 1 && (g_schnorr_ed.m_annex_present != 0) == WP_ANNEX && g_schnorr_ed.m_annex_init
                   && (WP_ANNEX ==> g_schnorr_ed.m_annex_hash_of == WP_N - 1) && (__CPROVER_return_value != 0) == (g_schnorr_ok != 0) && (g_schnorr_ok ? *serror == SCRIPT_ERR_OK : *serror == g_schnorr_err) && !g_ews_called && !g_commit_called && !g_hash_called))
__CPROVER_ensures((WP_TR_ON && WP_M >= 2 && WP_CTRL_BAD) ==> (WP_ERR(SCRIPT_ERR_TAPROOT_WRONG_CONTROL_SIZE) && WP_NONE_CALLED))
__CPROVER_ensures((WP_TR_ON && WP_M >= 2 && !WP_CTRL_BAD) ==> (g_commit_called && g_commit_control == WP_M - 1 && g_commit_ed.m_tapleaf_script == WP_M - 2 && g_commit_ed.m_tapleaf_leaf_version == WP_LEAFVER && !g_schnorr_called && !g_hash_called))
__CPROVER_ensures((WP_TR_ON && WP_M >= 2 && !WP_CTRL_BAD && !g_commit_ok) ==> (WP_ERR(SCRIPT_ERR_WITNESS_PROGRAM_MISMATCH) && !g_ews_called))
/* tapscript (leaf version 0xc0): the script below the control block runs on the rest of the stack, with the validation weight budget = serialized witness size + 50 */
__CPROVER_ensures((WP_TR_ON && WP_M >= 2 && !WP_CTRL_BAD && g_commit_ok && WP_LEAFVER == 0xc0) ==> (WP_EWS_RESULT && g_ews_sigversion == SIGVERSION_TAPSCRIPT && g_ews_script == (long)(WP_M - 2) && g_ews_stack_n == WP_M - 2
                   && g_ews_ed.m_validation_weight_left_init && g_ews_ed.m_validation_weight_left == (int64_t)witness->ser_size + 50 && g_ews_ed.m_tapleaf_hash_init && g_ews_ed.m_annex_init && (g_ews_ed.m_annex_present != 0) == WP_ANNEX))
__CPROVER_ensures((WP_TR_ON && WP_M >= 2 && !WP_CTRL_BAD && g_commit_ok && WP_LEAFVER != 0xc0) ==> (!g_ews_called && ((flags & WP_F(DISCOURAGE_UPGRADABLE_TAPROOT_VERSION)) ? WP_ERR(SCRIPT_ERR_DISCOURAGE_UPGRADABLE_TAPROOT_VERSION) : WP_OK)))
/* pay-to-anchor and every other version / size / P2SH combination: spendable (upgradable), unless discouraged by policy */
__CPROVER_ensures((!WP_V0 && !WP_TAPROOT && WP_ANCHOR) ==> (__CPROVER_return_value && WP_NONE_CALLED))
__CPROVER_ensures((!WP_V0 && !WP_TAPROOT && !WP_ANCHOR) ==> (WP_NONE_CALLED && ((flags & WP_F(DISCOURAGE_UPGRADABLE_WITNESS_PROGRAM)) ? WP_ERR(SCRIPT_ERR_DISCOURAGE_UPGRADABLE_WITNESS_PROGRAM) : (__CPROVER_return_value != 0))))
VERIF_REACH_ENSURES(VerifyWitnessProgram, WP_TR_ON && WP_ANNEX && WP_M >= 2 && g_ews_called && __CPROVER_return_value)
VERIF_REACH_ENSURES(VerifyWitnessProgram, WP_TR_ON && WP_ANNEX && WP_M == 1 && __CPROVER_return_value)
VERIF_REACH_ENSURES(VerifyWitnessProgram, WP_V0 && g_ews_called && g_ews_script == EXEC_P2PKH_OF_PROGRAM)
VERIF_REACH_ENSURES(VerifyWitnessProgram, WP_ANCHOR && __CPROVER_return_value)
VERIF_REACH_ENSURES(VerifyWitnessProgram, WP_TAPROOT && !(flags & WP_F(TAPROOT)) && (flags & WP_F(DISCOURAGE_UPGRADABLE_WITNESS_PROGRAM)))
__CPROVER_assigns(*serror, g_hash_called, g_hashed_script, g_ews_called, g_ews_stack_n, g_ews_script, g_ews_flags, g_ews_sigversion, g_ews_ed, g_schnorr_called, g_schnorr_stack_n, g_schnorr_sigversion, g_schnorr_ed, g_commit_called, g_commit_control, g_commit_ed);

#define WITPROG_HARNESS_INPUTS() do { g_p2wsh_mismatch = nondet_bool(); g_commit_ok = nondet_bool(); g_schnorr_ok = nondet_bool(); g_ews_ok = nondet_bool(); } while (0)
#endif
