// Shared by the C11 and C12 native harnesses: spends that reach VerifyWitnessProgram / ExecuteWitnessScript (both static in interpreter.cpp) through the real VerifyScript.
#pragma once
#include <pubkey.h>
#include <crypto/sha256.h>
#include <primitives/transaction.h>
#include <script/interpreter.h>
#include <script/script.h>
#include <script/script_error.h>
namespace wpn {
static const unsigned char GX[32] = {0x79,0xBE,0x66,0x7E,0xF9,0xDC,0xBB,0xAC,0x55,0xA0,0x62,0x95,0xCE,0x87,0x0B,0x07,0x02,0x9B,0xFC,0xDB,0x2D,0xCE,0x28,0xD9,0x59,0xF2,0x81,0x5B,0x16,0xF8,0x17,0x98};
struct Spend { CScript spk; CScriptWitness wit; };
// P2TR output committing to a single leaf (leaf version lv) under the internal key G.x; witness = stack + script + control block
inline bool p2tr_script_path(const std::vector<unsigned char>& sc, const std::vector<std::vector<unsigned char>>& stack, Spend& out, unsigned char lv = 0xc0)
{
    uint256 lh = ComputeTapleafHash(lv, sc); XOnlyPubKey ik{std::span<const unsigned char>(GX, 32)}; auto tw = ik.CreateTapTweak(&lh); if (!tw) return false;
    out.spk = CScript() << OP_1 << std::vector<unsigned char>(tw->first.begin(), tw->first.end());
    out.wit.stack = stack; out.wit.stack.push_back(sc); std::vector<unsigned char> ctrl{(unsigned char)(lv | (tw->second ? 1 : 0))}; ctrl.insert(ctrl.end(), GX, GX + 32); out.wit.stack.push_back(ctrl); return true;
}
inline void p2wsh(const std::vector<unsigned char>& sc, const std::vector<std::vector<unsigned char>>& stack, Spend& out)
{
    unsigned char h[32]; CSHA256().Write(sc.data(), sc.size()).Finalize(h); out.spk = CScript() << OP_0 << std::vector<unsigned char>(h, h + 32); out.wit.stack = stack; out.wit.stack.push_back(sc);
}
inline bool ref_opsuccess(int so) { return so == 80 || so == 98 || (so >= 126 && so <= 129) || (so >= 131 && so <= 134) || (so >= 137 && so <= 138) || (so >= 141 && so <= 142) || (so >= 149 && so <= 153) || (so >= 187 && so <= 254); }
inline std::string hx(const std::vector<unsigned char>& v) { static const char* H = "0123456789abcdef"; std::string o; for (auto c : v) { o += H[c >> 4]; o += H[c & 15]; } return o.empty() ? "(empty)" : o; }
}
