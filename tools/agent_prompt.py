#!/usr/bin/env python3
import json, sys
pid = sys.argv[1]; wt = sys.argv[2] if len(sys.argv) > 2 else f"/tmp/wt/m_{pid}"
p = {json.loads(l)['id']: json.loads(l) for l in open('/verif/properties.jsonl')}[pid]
t = open('/verif/tools/agent_prompt.txt').read()
anch = "; ".join(f"{m.get('name')} ({m.get('where')})" for m in p['anchors'].get('mechanism', []))
print(t.replace('{WT}', wt).replace('{ID}', pid).replace('{TITLE}', p['title']).replace('{STATEMENT}', p['statement']).replace('{QUANT}', p['quantifier']['text']).replace('{ANCHORS}', anch))
