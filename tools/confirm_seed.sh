#!/bin/bash
# tools/confirm_seed.sh <ID> <agent-worktree> [seedname]
# Confirms a sub-agent's mutation independently in /tmp/wt/confirm: builds, full ctest, demo fails with / passes without.
# Then stores it under /verif/seeded/<name>/ and runs ./check <ID> against /repo with the patch applied (and reverts).
set -u
ID=$1; WT=$2; NAME=${3:-$ID}
C=/tmp/wt/confirm; OUT=/verif/seeded/$NAME; mkdir -p $OUT
cp $WT/MUTATION/* $OUT/ 2>/dev/null
git -C $C checkout -- . ; git -C $C clean -fdq -e _build
git -C $C apply $OUT/patch.diff || { echo "patch does not apply"; exit 1; }
( cd $C && cmake --build _build -j 12 > /tmp/wt/confirm_b.log 2>&1 ) || { echo "BUILD FAILED"; tail -5 /tmp/wt/confirm_b.log; git -C $C checkout -- .; exit 1; }
( cd $C && ctest --test-dir _build -j 12 --timeout 900 > /tmp/wt/confirm_t.log 2>&1 ); CT=$?
CTSUM=$(grep -E "tests passed|tests failed" /tmp/wt/confirm_t.log | tail -1)
echo "ctest with patch: rc=$CT $CTSUM"
rm -rf $C/MUTATION; mkdir -p $C/MUTATION; cp $OUT/* $C/MUTATION/; sed -i "s|$WT|$C|g" $C/MUTATION/*.sh $C/MUTATION/*.cpp $C/MUTATION/*.c 2>/dev/null
( cd $C && bash MUTATION/build_and_run.sh > /tmp/wt/confirm_d1.log 2>&1 ); D1=$?
echo "demo with patch: rc=$D1 (expect non-zero)"
git -C $C apply -R $OUT/patch.diff
( cd $C && cmake --build _build -j 12 > /tmp/wt/confirm_b2.log 2>&1 )
( cd $C && bash MUTATION/build_and_run.sh > /tmp/wt/confirm_d2.log 2>&1 ); D2=$?
echo "demo without patch: rc=$D2 (expect 0)"
rm -rf $C/MUTATION
# our check against /repo
exec 9>/tmp/verif_repo.lock; flock -x 9
KEEP=$(mktemp -d); cp /verif/evidence/$ID.* $KEEP/ 2>/dev/null   # committed evidence must come from the clean tree
git -C /repo apply $OUT/patch.diff && ( cd /verif && VERIF_LOCK_HELD=1 ./check $ID > /tmp/wt/confirm_chk.log 2>&1 ); CK=$?
git -C /repo checkout -- .
cp $KEEP/* /verif/evidence/ 2>/dev/null; rm -rf $KEEP
flock -u 9
echo "check $ID with patch on /repo: rc=$CK"; grep -E "^(VIOLATION|UNDECIDED|FAILED-OBLIGATION|PASS)" /tmp/wt/confirm_chk.log | cut -c1-220 | head -6
python3 - <<PY
import json
json.dump({"property": "$ID", "ctest_with_patch_rc": $CT, "ctest_summary": """$CTSUM""", "demo_with_patch_rc": $D1, "demo_without_patch_rc": $D2,
           "check_rc_with_patch": $CK, "check_output": open("/tmp/wt/confirm_chk.log").read()[-1500:],
           "confirmed": ($CT == 0 and $D1 != 0 and $D2 == 0), "detected": ($CK == 1),
           "ran": "tools/confirm_seed.sh $ID $WT $NAME  (scratch worktree /tmp/wt/confirm: apply patch, cmake --build, ctest -j12, MUTATION/build_and_run.sh; revert, rebuild, demo again; then git -C /repo apply, ./check $ID, git -C /repo checkout -- .)"},
          open("$OUT/meta.json", "w"), indent=1)
PY
git -C /repo status --short | head -3
