#!/usr/bin/env python3
"""Regenerate MANIFEST.json from specs/*/plan.py (claimed checks) and not_applicable.json (everything else)."""
import json, os, sys
ROOT = os.path.dirname(os.path.dirname(os.path.abspath(__file__)))
sys.path.insert(0, ROOT)
from engine import driver
props = [json.loads(l) for l in open(os.path.join(ROOT, "properties.jsonl"))]
na = json.load(open(os.path.join(ROOT, "not_applicable.json")))
checks, nas, served = [], [], []
for p in props:
    pid = p["id"]
    pp = os.path.join(ROOT, "specs", pid, "plan.py")
    plan = driver.load_plan(pid) if os.path.exists(pp) else None
    if plan and plan.get("manifest"):
        m = plan["manifest"]
        checks.append({"property_id": pid, "quick_cmd": f"./check {pid} --tier quick", "thorough_cmd": f"./check {pid} --tier thorough",
                       "evidence_file": f"/verif/evidence/{pid}.json", "replay_cmd_template": f"./check {pid} --replay {{path}}",
                       "engine": "cbmc-contracts",
                       "level_claimed": {"category": m.get("category", "proof"), "text": m["text"], "design_ref": m.get("design_ref", f"DESIGN.md section 5, {pid}")},
                       "level_note": m["note"], "technique": m.get("technique", "CBMC function contracts (goto-instrument --dfcc --enforce-contract) on mechanically extracted real code")})
        served.append(pid)
    else:
        if pid not in na:
            raise SystemExit(f"{pid}: neither claimed nor in not_applicable.json")
        nas.append({"property_id": pid, "reason": na[pid]})
man = {"version": 1, "setup_cmd": "./setup.sh",
       "hooks": {"guard": "BITCOIN_VERIF", "enable": "no hooks: contracts are woven into a per-run mechanically extracted copy of the functions; /repo is built unmodified (guard name reserved, unused)",
                 "baseline_off_cmd": "ctest --test-dir /repo/_build -j8 --timeout 900", "source_commits": [], "add_only": True},
       "engines": [{"name": "cbmc-contracts", "path": "/verif/engine", "serves_properties": served,
                    "kind_free_text": "contract-based deductive verification: per-run extraction of the real functions to C (named must-fire rules), CBMC 6.11 function/loop contracts enforced per function with callee contracts substituted, SMT Int lemmas, native differential translation validation + counterexample replay"}],
       "checks": checks,
       "notes": "exit 0 pass / 1 VIOLATION / 2 UNDECIDED (extraction break, tool error, timeout: never reported as a violation). See DESIGN.md.",
       "not_applicable": nas}
json.dump(man, open(os.path.join(ROOT, "MANIFEST.json"), "w"), indent=1)
print(f"MANIFEST: {len(checks)} checks, {len(nas)} not applicable")
