#!/usr/bin/env python3
"""tools/mut.py <ID> <file> <old> <new>  -- apply a textual mutation to /repo (must apply exactly once), run ./check <ID>,
always restore the file. Prints the check's verdict lines. For developing/validating checks only."""
import subprocess, sys, os
pid, rel, old, new = sys.argv[1:5]
p = os.path.join("/repo", rel)
import fcntl
_lk = open("/tmp/verif_repo.lock", "w"); fcntl.flock(_lk, fcntl.LOCK_EX)
src = open(p).read()
if src.count(old) != 1:
    sys.exit(f"pattern occurs {src.count(old)} times")
import glob, shutil, tempfile
_keep = tempfile.mkdtemp(prefix="verif_ev_"); _ev = glob.glob(f"/verif/evidence/{pid}.*")
for f in _ev:
    shutil.copy2(f, _keep)
open(p, "w").write(src.replace(old, new))
try:
    r = subprocess.run(["./check", pid], cwd="/verif", capture_output=True, text=True, env=dict(os.environ, VERIF_LOCK_HELD="1"))
    print("\n".join(l[:260] for l in r.stdout.splitlines()[:8]))
    print("rc =", r.returncode)
finally:
    open(p, "w").write(src)
    for f in _ev:
        shutil.copy2(os.path.join(_keep, os.path.basename(f)), f)
    shutil.rmtree(_keep, ignore_errors=True)
    subprocess.run(["git", "-C", "/repo", "status", "--short"])
