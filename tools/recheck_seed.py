#!/usr/bin/env python3
"""tools/recheck_seed.py <seedname> [note] -- apply seeded/<name>/patch.diff to /repo, run ./check <ID>, revert, update meta.json
(keeps the earlier verdict under 'history')."""
import json, subprocess, sys, os
name = sys.argv[1]; note = sys.argv[2] if len(sys.argv) > 2 else ""
d = f"/verif/seeded/{name}"; meta = json.load(open(f"{d}/meta.json")); pid = meta["property"]
import fcntl
_lk = open("/tmp/verif_repo.lock", "w"); fcntl.flock(_lk, fcntl.LOCK_EX)
assert not subprocess.run(["git", "-C", "/repo", "status", "--short"], capture_output=True, text=True).stdout.strip(), "/repo dirty"
import glob, shutil, tempfile
_keep = tempfile.mkdtemp(prefix="verif_ev_")   # evidence committed under /verif must come from the clean tree: put it back afterwards
_ev = glob.glob(f"/verif/evidence/{pid}.*")
for f in _ev:
    shutil.copy2(f, _keep)
subprocess.run(["git", "-C", "/repo", "apply", f"{d}/patch.diff"], check=True)
try:
    r = subprocess.run(["./check", pid], cwd="/verif", capture_output=True, text=True, env=dict(os.environ, VERIF_LOCK_HELD="1"))
finally:
    subprocess.run(["git", "-C", "/repo", "checkout", "--", "."], check=True)
    for f in _ev:
        shutil.copy2(os.path.join(_keep, os.path.basename(f)), f)
    shutil.rmtree(_keep, ignore_errors=True)
lines = [l[:300] for l in r.stdout.splitlines() if l.startswith(("VIOLATION", "UNDECIDED", "FAILED-OBLIGATION", "PASS", "KNOWN"))]
meta.setdefault("history", []).append({"check_rc_with_patch": meta.get("check_rc_with_patch"), "detected": meta.get("detected"), "check_output": meta.get("check_output", "")[-600:]})
meta.update(check_rc_with_patch=r.returncode, detected=(r.returncode == 1), check_output="\n".join(lines[:8]))
if note:
    meta["note"] = note
json.dump(meta, open(f"{d}/meta.json", "w"), indent=1)
print(name, "rc=", r.returncode, "detected=", r.returncode == 1); print("\n".join(lines[:4]))
