#!/usr/bin/env python3
"""Run every claimed check's quick command on the (clean) tree, validate evidence files against the schema. Use before committing evidence."""
import json, subprocess, sys, time, os
os.chdir("/verif")
st = subprocess.run(["git", "-C", "/repo", "status", "--short"], capture_output=True, text=True).stdout.strip()
if st:
    sys.exit("REFUSING: /repo working tree is not clean:\n" + st)
man = json.load(open("MANIFEST.json"))
only = sys.argv[1:]
bad = 0
for c in man["checks"]:
    if only and c["property_id"] not in only:
        continue
    t0 = time.time()
    r = subprocess.run(c["quick_cmd"], shell=True, capture_output=True, text=True)
    line = (r.stdout.strip().splitlines() or ["?"])[-1][:200]
    ok = r.returncode == 0
    v = subprocess.run(["python3-vt", "-c", f"import json,jsonschema; e=json.load(open('{c['evidence_file']}')); jsonschema.validate(e, json.load(open('/root/.vp/EVIDENCE.schema.json'))); assert e['coverage']['obligations']==e['coverage']['discharged'] and e['violations']==0"], capture_output=True, text=True)
    print(f"{c['property_id']}: rc={r.returncode} {time.time()-t0:.0f}s evidence={'ok' if v.returncode == 0 else 'INVALID'} | {line}")
    if not ok or v.returncode:
        bad += 1
sys.exit(1 if bad else 0)
